(** Extraction of the runnable C19 model (ExtrOcamlBasic only; nat and N stay
    extracted datatypes).  Run by make with the current directory coq/. *)
From Coq Require Import Extraction ExtrOcamlBasic.
Require Import Celma.Common.Res Celma.Buffers.RWModel Celma.Buffers.WFail.
Extraction Language OCaml.
Extraction "../ocaml/gen/c19_model.ml" rb_run rb_init wb_run wb_init wb_run_f.
