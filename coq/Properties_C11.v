(** C11  Fixed-capacity string equals std::string cut off at the capacity.
    Only statements; every proof is [exact <lemma of FixedStr/...>] or, for the
    witnesses of the defects of the pinned tree, [vm_compute]. *)
From Coq Require Import List NArith Bool.
Import ListNotations.
Require Import Celma.Common.Res Celma.FixedStr.FsBase Celma.FixedStr.FsModel
  Celma.FixedStr.FsSafe Celma.FixedStr.FsStd Celma.FixedStr.FsRefine Celma.FixedStr.FsPinned.
Local Open Scope N_scope.

(** operator== and operator!= are complementary for all operands *)
Theorem C11_eq_neq_complementary :
  forall s o, ne_op s o = (do b <- eq_op s o; Ok (negb b)).
Proof. exact eq_ne_complementary. Qed.
Print Assumptions C11_eq_neq_complementary.
