(** C11  Fixed-capacity string equals std::string cut off at the capacity.
    Only statements; every proof is [exact <lemma of FixedStr/...>] or, for the
    witnesses of the defects of the pinned tree, [vm_compute].

    [std_step (abs s) (abs o) x] (FsStd.v) is what operation [x] does on a
    std::string holding the text of the object (second operand: a std::string
    holding the text of the other object); it is [Some] exactly inside the
    documented domain.  [abs s] is the text the object shows through
    str()/c_str()/length(); [cut L] drops what does not fit. *)
From Coq Require Import List NArith Bool.
Import ListNotations.
Require Import Celma.Common.Res Celma.FixedStr.FsBase Celma.FixedStr.FsModel
  Celma.FixedStr.FsSafe Celma.FixedStr.FsSafeAll Celma.FixedStr.FsStd Celma.FixedStr.FsRefine
  Celma.FixedStr.FsRefine3 Celma.FixedStr.FsRefine4 Celma.FixedStr.FsRefine5 Celma.FixedStr.FsRefine6 Celma.FixedStr.FsRefine7
  Celma.FixedStr.FsPinned Celma.FixedStr.FsIter.
Local Open Scope N_scope.

(** The object is a FixedString<L>, the other object (argument of the two-object
    operations) a FixedString<Lo> of an independent capacity; [cap_ok] excludes
    the operations that do not exist for the two capacities (see C10).

    Every modifying operation (all 42 modelled entry points: constructors incl.
    the converting constructor from another capacity and assign, the insert / erase / push_back / pop_back / append / sprintf /
    replace families including the iterator overloads, swap, clear; std::string
    has no sprintf: formatting is specified as "assign the formatted text", a
    failing conversion as "assign the empty string"), for every
    capacity, every well-formed pair of objects and every argument inside the
    domain: the operation succeeds and leaves the text std::string has after the
    same operation, cut at the capacity (for swap: both objects). *)
Theorem C11_mutators_refine :
  forall L Lo s o x cs' cos' rs,
    CapOk L -> CapOk Lo -> Inv L s -> Inv Lo o -> Bounded x -> CstrsOk x -> cap_ok (Lo =? L) x = true ->
    is_mutator x = true ->
    std_step (abs s) (abs o) x = Some (cs', cos', rs) ->
    exists s' o' r, step L s o x = Ok (s', o', r) /\ abs s' = cut L cs' /\ abs o' = cut Lo cos'.
Proof.
  intros L Lo s o x cs' cos' rs H H' Hs Ho HB HC Hc Hm.
  exact (mut_refines L H Lo H' s o x Hs Ho HB HC Hc Hm cs' cos' rs).
Qed.
Print Assumptions C11_mutators_refine.

(** Every observing operation (all 49 modelled entry points: the 9 compare
    overloads, starts_with / ends_with / contains (4 overloads each), substr,
    copy, at / front / back / length / empty / str, operator== and operator!=,
    the traversals begin()..end() and rbegin()..rend(), single steps ++ / -- /
    += / -= of the iterator and reverse iterator classes followed by operator*,
    and the 30 overloads of find, rfind, find_first_of, find_first_not_of,
    find_last_of, find_last_not_of), for every capacity, every well-formed pair
    of objects and every argument inside the domain: the operation returns
    exactly what std::string returns on the same text, and changes nothing.
    [CstrsOk]: C string arguments end at their terminator.  [FindOk]: for the
    strchr() based overloads of the four character-class searches (FixedString /
    std::string / C string needle) the text and the character set hold no NUL
    character; find, rfind, the (pointer, count) and the single-character
    overloads need no such restriction. *)
Theorem C11_observers_refine :
  forall L Lo s o x cs' cos' rs,
    CapOk L -> CapOk Lo -> Inv L s -> Inv Lo o -> Bounded x -> CstrsOk x -> FindOk s o x ->
    cap_ok (Lo =? L) x = true -> is_mutator x = false ->
    std_step (abs s) (abs o) x = Some (cs', cos', rs) ->
    step L s o x = Ok (s, o, rs) /\ cs' = abs s /\ cos' = abs o.
Proof.
  intros L Lo s o x cs' cos' rs H H' Hs Ho HB HC HF Hc Hm.
  exact (obs_all_refines L H Lo H' s o x Hs Ho HB HC HF Hc Hm cs' cos' rs).
Qed.
Print Assumptions C11_observers_refine.

(** All 91 operations in one statement. *)
Theorem C11_step_refines :
  forall L Lo s o x cs' cos' rs,
    CapOk L -> CapOk Lo -> Inv L s -> Inv Lo o -> Bounded x -> CstrsOk x -> FindOk s o x ->
    cap_ok (Lo =? L) x = true ->
    std_step (abs s) (abs o) x = Some (cs', cos', rs) ->
    exists s' o' r, step L s o x = Ok (s', o', r) /\ abs s' = cut L cs' /\ abs o' = cut Lo cos' /\
                    (is_mutator x = false -> r = rs /\ s' = s /\ o' = o).
Proof.
  intros L Lo s o x cs' cos' rs H H' Hs Ho HB HC HF Hc.
  exact (step_refines L H Lo H' s o x Hs Ho HB HC HF Hc cs' cos' rs).
Qed.
Print Assumptions C11_step_refines.

(** Histories.  [run_D] applies a list of operations to a pair of objects,
    [std_run] applies it to a pair of std::string texts, cutting at L after every
    step; both skip the steps outside the domain ([in_dom]: the boolean form of
    "std_step is defined, the operation exists for the two capacities, C string
    arguments end at their terminator, no NUL in text / character set for the
    strchr() based searches").  From any well-formed
    pair of objects and for any list of operations with size_t arguments the two
    runs end with the same texts and report the same observed values; the run on
    the objects never faults and keeps them well-formed. *)
Theorem C11_history_refines :
  forall L Lo ops s o,
    CapOk L -> CapOk Lo -> Inv L s -> Inv Lo o -> Forall Bounded ops ->
    exists s' o' vs, run_D L Lo s o ops = Ok (s', o', vs) /\ Inv L s' /\ Inv Lo o' /\
                     std_run L Lo (abs s) (abs o) ops = (abs s', abs o', vs).
Proof. intros L Lo ops s o H H'. exact (history_refines L H Lo H' ops s o). Qed.
Print Assumptions C11_history_refines.

(** Iteration in both directions visits the text / the reversed text. *)
Theorem C11_iteration_forward :
  forall L s, CapOk L -> Inv L s -> walk (fuel L) s (it_inc s) (it_begin s) [] = Ok (abs s).
Proof. intros L s H. exact (iter_forward L H s). Qed.
Print Assumptions C11_iteration_forward.

Theorem C11_iteration_reverse :
  forall L s, CapOk L -> Inv L s -> walk (fuel L) s it_dec (rit_begin s) [] = Ok (rev (abs s)).
Proof. intros L s H. exact (iter_reverse L H s). Qed.
Print Assumptions C11_iteration_reverse.

(** operator== and operator!= are complementary for all operands *)
Theorem C11_eq_neq_complementary :
  forall s o, ne_op s o = (do b <- eq_op s o; Ok (negb b)).
Proof. exact eq_ne_complementary. Qed.
Print Assumptions C11_eq_neq_complementary.

(* ------------------------------------------------------------------ *)
(** Witnesses of the defects of the pinned tree (functions of FsPinned.v); each
    input also fails on the real pinned code (corpus of props/C10.py). *)

Definition fs10 (cs : list byte) : fs :=
  match fs_init 10 cs with Ok s => s | _ => zero_fs 10 end.

(** "ab" != "ac" and "ab" != "abc" are false although == is false too *)
Theorem C11_operator_ne_pinned_refuted :
  ne_op_pinned (fs10 [97;98]) (fs10 [97;99]) = Ok false /\ eq_op (fs10 [97;98]) (fs10 [97;99]) = Ok false /\
  ne_op_pinned (fs10 [97;98]) (fs10 [97;98;99]) = Ok false /\ eq_op (fs10 [97;98]) (fs10 [97;98;99]) = Ok false.
Proof. vm_compute. repeat split. Qed.
Print Assumptions C11_operator_ne_pinned_refuted.

(** sprintf of 260 characters into FixedString<255> gives 4 characters *)
Theorem C11_sprintf_pinned_refuted :
  exists s', sprintf_pinned 255 (zero_fs 255) (repeat 97 260) = Ok s' /\ len s' = 4 /\
             nlen (cut 255 (repeat 97 260)) = 255.
Proof. eexists. split; [vm_compute; reflexivity|]. split; vm_compute; reflexivity. Qed.
Print Assumptions C11_sprintf_pinned_refuted.

(** the example of the source comment with two replaced characters:
    FixedString<30>("goodbyexxfarewell").replace( 7, 2, " and ") gives the wrong text *)
Theorem C11_replace_pinned_refuted :
  let s := match fs_init 30 [103;111;111;100;98;121;101;120;120;102;97;114;101;119;101;108;108] with
           | Ok s => s | _ => zero_fs 30 end in
  exists s', replace_impl_pinned 30 s 7 2 (carr [32;97;110;100;32]) 0 5 = Ok s' /\
             abs s' <> cut 30 (std_replace (abs s) 7 2 [32;97;110;100;32]).
Proof. eexists. split; [vm_compute; reflexivity|]. vm_compute. discriminate. Qed.
Print Assumptions C11_replace_pinned_refuted.

(** compare( 1, npos, "bc") on "abc" returns 1; compare( 3, 0, "a") on "abc" returns 1 *)
Theorem C11_compare_pinned_refuted :
  part_compare_pinned (fs10 [97;98;99]) 1 NPOS (carr [98;99]) 2 = Ok Gt /\
  lex (std_substr [97;98;99] 1 NPOS) [98;99] = Eq /\
  part_compare_pinned (fs10 [97;98;99]) 3 0 (carr [97]) 1 = Ok Gt /\
  lex (std_substr [97;98;99] 3 0) [97] = Lt.
Proof. vm_compute. repeat split. Qed.
Print Assumptions C11_compare_pinned_refuted.

(** rfind( '\0') of the tree before fixes/C11-4 starts at the terminator and returns length() *)
Theorem C11_rfind_char_pinned_refuted :
  rfind_ch_pinned 10 (fs10 [97;98;99]) 0 NPOS = Ok 3 /\ std_rfind [97;98;99] [0] NPOS = NPOS.
Proof. vm_compute. split; reflexivity. Qed.
Print Assumptions C11_rfind_char_pinned_refuted.

(** Non-vacuity: an operation inside the domain on which the theorems apply. *)
Example C11_nonvacuous :
  CapOk 10 /\ Inv 10 (fs10 [97;98;99]) /\ Bounded (ORepC 1 1 [120;121;122]) /\ CstrsOk (ORepC 1 1 [120;121;122]) /\
  std_step (abs (fs10 [97;98;99])) (abs (fs10 [])) (ORepC 1 1 [120;121;122]) = Some ([97;120;121;122;99], [], RNone) /\
  std_step (abs (fs10 [97;98;99])) (abs (fs10 [])) (OCmppC 1 NPOS [98;99]) = Some ([97;98;99], [], RCmp Eq) /\
  FindOk (fs10 [97;98;99;98]) (fs10 []) (OFind FLNO (FS [98]) NPOS) /\
  std_step (abs (fs10 [97;98;99;98])) (abs (fs10 [])) (OFind FLNO (FS [98]) NPOS) = Some ([97;98;99;98], [], RSize 2).
Proof.
  split; [split; [vm_compute; discriminate|vm_compute; reflexivity]|].
  split; [repeat split; vm_compute; try reflexivity; discriminate|].
  split; [repeat constructor; vm_compute; reflexivity|].
  split; [repeat constructor; vm_compute; reflexivity|].
  split; [vm_compute; reflexivity|]. split; [vm_compute; reflexivity|].
  split; [split; vm_compute; reflexivity|]. vm_compute. reflexivity.
Qed.
