(** C11  Fixed-capacity string equals std::string cut off at the capacity.
    Only statements; every proof is [exact <lemma of FixedStr/...>] or, for the
    witnesses of the defects of the pinned tree, [vm_compute].

    [std_step (abs s) (abs o) x] (FsStd.v) is what operation [x] does on a
    std::string holding the text of the object (second operand: a std::string
    holding the text of the other object); it is [Some] exactly inside the
    documented domain.  [abs s] is the text the object shows through
    str()/c_str()/length(); [cut L] drops what does not fit. *)
From Coq Require Import List NArith Bool.
Import ListNotations.
Require Import Celma.Common.Res Celma.FixedStr.FsBase Celma.FixedStr.FsModel
  Celma.FixedStr.FsSafe Celma.FixedStr.FsSafeAll Celma.FixedStr.FsStd Celma.FixedStr.FsRefine
  Celma.FixedStr.FsRefine3 Celma.FixedStr.FsRefine4 Celma.FixedStr.FsPinned Celma.FixedStr.FsIter.
Local Open Scope N_scope.

(** Every modifying operation (all 40 modelled entry points: constructors and
    assign, the insert / erase / push_back / pop_back / append / sprintf /
    replace families including the iterator overloads, swap, clear), for every
    capacity, every well-formed pair of objects and every argument inside the
    domain: the operation succeeds and leaves the text std::string has after the
    same operation, cut at the capacity (for swap: both objects). *)
Theorem C11_mutators_refine :
  forall L s o x cs' cos' rs,
    CapOk L -> Inv L s -> Inv L o -> Bounded x -> CstrsOk x -> is_mutator x = true ->
    std_step (abs s) (abs o) x = Some (cs', cos', rs) ->
    exists s' o' r, step L s o x = Ok (s', o', r) /\ abs s' = cut L cs' /\ abs o' = cut L cos'.
Proof. intros L s o x cs' cos' rs H Hs Ho HB HC Hm. exact (mut_refines L H s o x Hs Ho HB HC Hm cs' cos' rs). Qed.
Print Assumptions C11_mutators_refine.

(** Observers with a proof: the three compare implementations (9 overloads),
    starts_with (4 overloads), substr, copy, at / front / back / length / empty /
    str, operator== and operator!=, and the traversal begin()..end() /
    rbegin()..rend() return exactly what std::string returns on the same
    text, and change nothing.
    Full statement (property C11) also covers ends_with, contains, the 30
    overloads of the find family and single iterator steps (--, +=, -=): for
    those the model is tied to std::string by the correspondence check only
    (exhaustive small scopes), hence the name. *)
Theorem C11_observers_refine_partial :
  forall L s o x cs' cos' rs,
    CapOk L -> Inv L s -> Inv L o -> Bounded x -> CstrsOk x -> is_proved_obs x = true ->
    std_step (abs s) (abs o) x = Some (cs', cos', rs) ->
    step L s o x = Ok (s, o, rs) /\ cs' = abs s /\ cos' = abs o.
Proof. intros L s o x cs' cos' rs H Hs Ho HB HC Hm. exact (obs_refines L H s o x Hs Ho HB HC Hm cs' cos' rs). Qed.
Print Assumptions C11_observers_refine_partial.

(** Iteration in both directions visits the text / the reversed text. *)
Theorem C11_iteration_forward :
  forall L s, CapOk L -> Inv L s -> walk (fuel L) s (it_inc s) (it_begin s) [] = Ok (abs s).
Proof. intros L s H. exact (iter_forward L H s). Qed.
Print Assumptions C11_iteration_forward.

Theorem C11_iteration_reverse :
  forall L s, CapOk L -> Inv L s -> walk (fuel L) s it_dec (rit_begin s) [] = Ok (rev (abs s)).
Proof. intros L s H. exact (iter_reverse L H s). Qed.
Print Assumptions C11_iteration_reverse.

(** operator== and operator!= are complementary for all operands *)
Theorem C11_eq_neq_complementary :
  forall s o, ne_op s o = (do b <- eq_op s o; Ok (negb b)).
Proof. exact eq_ne_complementary. Qed.
Print Assumptions C11_eq_neq_complementary.

(* ------------------------------------------------------------------ *)
(** Witnesses of the defects of the pinned tree (functions of FsPinned.v); each
    input also fails on the real pinned code (corpus of props/C10.py). *)

Definition fs10 (cs : list byte) : fs :=
  match fs_init 10 cs with Ok s => s | _ => zero_fs 10 end.

(** "ab" != "ac" and "ab" != "abc" are false although == is false too *)
Theorem C11_operator_ne_pinned_refuted :
  ne_op_pinned (fs10 [97;98]) (fs10 [97;99]) = Ok false /\ eq_op (fs10 [97;98]) (fs10 [97;99]) = Ok false /\
  ne_op_pinned (fs10 [97;98]) (fs10 [97;98;99]) = Ok false /\ eq_op (fs10 [97;98]) (fs10 [97;98;99]) = Ok false.
Proof. vm_compute. repeat split. Qed.
Print Assumptions C11_operator_ne_pinned_refuted.

(** sprintf of 260 characters into FixedString<255> gives 4 characters *)
Theorem C11_sprintf_pinned_refuted :
  exists s', sprintf_pinned 255 (zero_fs 255) (repeat 97 260) = Ok s' /\ len s' = 4 /\
             nlen (cut 255 (repeat 97 260)) = 255.
Proof. eexists. split; [vm_compute; reflexivity|]. split; vm_compute; reflexivity. Qed.
Print Assumptions C11_sprintf_pinned_refuted.

(** the example of the source comment with two replaced characters:
    FixedString<30>("goodbyexxfarewell").replace( 7, 2, " and ") gives the wrong text *)
Theorem C11_replace_pinned_refuted :
  let s := match fs_init 30 [103;111;111;100;98;121;101;120;120;102;97;114;101;119;101;108;108] with
           | Ok s => s | _ => zero_fs 30 end in
  exists s', replace_impl_pinned 30 s 7 2 (carr [32;97;110;100;32]) 0 5 = Ok s' /\
             abs s' <> cut 30 (std_replace (abs s) 7 2 [32;97;110;100;32]).
Proof. eexists. split; [vm_compute; reflexivity|]. vm_compute. discriminate. Qed.
Print Assumptions C11_replace_pinned_refuted.

(** compare( 1, npos, "bc") on "abc" returns 1; compare( 3, 0, "a") on "abc" returns 1 *)
Theorem C11_compare_pinned_refuted :
  part_compare_pinned (fs10 [97;98;99]) 1 NPOS (carr [98;99]) 2 = Ok Gt /\
  lex (std_substr [97;98;99] 1 NPOS) [98;99] = Eq /\
  part_compare_pinned (fs10 [97;98;99]) 3 0 (carr [97]) 1 = Ok Gt /\
  lex (std_substr [97;98;99] 3 0) [97] = Lt.
Proof. vm_compute. repeat split. Qed.
Print Assumptions C11_compare_pinned_refuted.

(** Non-vacuity: an operation inside the domain on which the theorems apply. *)
Example C11_nonvacuous :
  CapOk 10 /\ Inv 10 (fs10 [97;98;99]) /\ Bounded (ORepC 1 1 [120;121;122]) /\ CstrsOk (ORepC 1 1 [120;121;122]) /\
  std_step (abs (fs10 [97;98;99])) (abs (fs10 [])) (ORepC 1 1 [120;121;122]) = Some ([97;120;121;122;99], [], RNone) /\
  std_step (abs (fs10 [97;98;99])) (abs (fs10 [])) (OCmppC 1 NPOS [98;99]) = Some ([97;98;99], [], RCmp Eq).
Proof.
  split; [split; [vm_compute; discriminate|vm_compute; reflexivity]|].
  split; [repeat split; vm_compute; try reflexivity; discriminate|].
  split; [repeat constructor; vm_compute; reflexivity|].
  split; [repeat constructor; vm_compute; reflexivity|].
  split; vm_compute; reflexivity.
Qed.
