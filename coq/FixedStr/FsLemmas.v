(** Lemmas about the vocabulary of FsBase.v: lists with binary counters, 64-bit
    arithmetic, the checked primitives. *)
From Coq Require Import List NArith Bool Lia ZifyNat ZifyN ZifyBool.
Import ListNotations.
Require Import Celma.Common.Res Celma.Common.ListX Celma.FixedStr.FsBase.
Local Open Scope N_scope.

(* ------------------------------------------------------------------ *)
(** * take / drop / nthN / nlen *)

Lemma take_firstn {A} : forall (l : list A) n, take n l = firstn (N.to_nat n) l.
Proof.
  induction l as [|x r IH]; intros n; cbn [take].
  - now rewrite firstn_nil.
  - destruct (n =? 0) eqn:E.
    + apply N.eqb_eq in E. subst. reflexivity.
    + apply N.eqb_neq in E. rewrite IH.
      replace (N.to_nat n) with (S (N.to_nat (N.pred n))) by lia. reflexivity.
Qed.

Lemma drop_skipn {A} : forall (l : list A) n, drop n l = skipn (N.to_nat n) l.
Proof.
  induction l as [|x r IH]; intros n; cbn [drop].
  - now rewrite skipn_nil.
  - destruct (n =? 0) eqn:E.
    + apply N.eqb_eq in E. subst. reflexivity.
    + apply N.eqb_neq in E. rewrite IH.
      replace (N.to_nat n) with (S (N.to_nat (N.pred n))) by lia. reflexivity.
Qed.

Lemma nthN_nth : forall (l : list byte) n, nthN n l = nth (N.to_nat n) l 0.
Proof.
  induction l as [|x r IH]; intros n; cbn [nthN].
  - destruct (N.to_nat n); reflexivity.
  - destruct (n =? 0) eqn:E.
    + apply N.eqb_eq in E. subst. reflexivity.
    + apply N.eqb_neq in E. rewrite IH.
      replace (N.to_nat n) with (S (N.to_nat (N.pred n))) by lia. reflexivity.
Qed.

Lemma nlen_nil {A} : nlen (@nil A) = 0. Proof. reflexivity. Qed.
Lemma nlen_cons {A} (x : A) l : nlen (x :: l) = 1 + nlen l.
Proof. unfold nlen. cbn [length]. lia. Qed.
Lemma nlen_app {A} (a b : list A) : nlen (a ++ b) = nlen a + nlen b.
Proof. unfold nlen. rewrite app_length. lia. Qed.
Lemma nlen_take {A} n (l : list A) : nlen (take n l) = N.min n (nlen l).
Proof. unfold nlen. rewrite take_firstn, firstn_length. lia. Qed.
Lemma nlen_drop {A} n (l : list A) : nlen (drop n l) = nlen l - n.
Proof. unfold nlen. rewrite drop_skipn, skipn_length. lia. Qed.
Lemma nlen_rep v n : nlen (rep v n) = n.
Proof. unfold nlen, rep. rewrite repeat_length. lia. Qed.
Lemma nlen_rev {A} (l : list A) : nlen (rev l) = nlen l.
Proof. unfold nlen. now rewrite rev_length. Qed.

Lemma take_all {A} n (l : list A) : nlen l <= n -> take n l = l.
Proof. unfold nlen. intros. rewrite take_firstn. apply firstn_all2. lia. Qed.
Lemma take_0 {A} (l : list A) : take 0 l = [].
Proof. destruct l; reflexivity. Qed.
Lemma drop_0 {A} (l : list A) : drop 0 l = l.
Proof. destruct l; reflexivity. Qed.
Lemma drop_all {A} n (l : list A) : nlen l <= n -> drop n l = [].
Proof. unfold nlen. intros. rewrite drop_skipn. apply skipn_all2. lia. Qed.
Lemma take_drop {A} n (l : list A) : take n l ++ drop n l = l.
Proof. rewrite take_firstn, drop_skipn. apply firstn_skipn. Qed.

Lemma take_app {A} n (a b : list A) : take n (a ++ b) = take n a ++ take (n - nlen a) b.
Proof.
  rewrite !take_firstn, firstn_app. unfold nlen. f_equal. f_equal. lia.
Qed.
Lemma drop_app {A} n (a b : list A) : drop n (a ++ b) = drop n a ++ drop (n - nlen a) b.
Proof.
  rewrite !drop_skipn, skipn_app. unfold nlen. f_equal. f_equal. lia.
Qed.
Lemma take_take {A} n m (l : list A) : take n (take m l) = take (N.min n m) l.
Proof.
  rewrite !take_firstn, firstn_firstn. f_equal. lia.
Qed.
Lemma drop_drop {A} n m (l : list A) : drop n (drop m l) = drop (m + n) l.
Proof.
  rewrite !drop_skipn, skipn_skipn'. f_equal. lia.
Qed.
Lemma take_app_l {A} n (a b : list A) : n <= nlen a -> take n (a ++ b) = take n a.
Proof.
  intros. rewrite take_app. replace (n - nlen a) with 0 by lia. now rewrite take_0, app_nil_r.
Qed.
Lemma drop_app_r {A} n (a b : list A) : nlen a <= n -> drop n (a ++ b) = drop (n - nlen a) b.
Proof. intros. rewrite drop_app, (drop_all n a) by assumption. reflexivity. Qed.

(** pointwise reasoning *)
Lemma nthN_app n (a b : list byte) :
  nthN n (a ++ b) = if n <? nlen a then nthN n a else nthN (n - nlen a) b.
Proof.
  rewrite !nthN_nth. unfold nlen. destruct (N.ltb_spec n (N.of_nat (length a))) as [E|E].
  - apply app_nth1. lia.
  - rewrite app_nth2 by lia. f_equal. lia.
Qed.
Lemma nthN_take n m (l : list byte) : nthN n (take m l) = if n <? m then nthN n l else 0.
Proof.
  rewrite !nthN_nth, take_firstn. destruct (N.ltb_spec n m) as [E|E].
  - assert (H : (N.to_nat n < N.to_nat m)%nat) by lia. revert l H.
    generalize (N.to_nat m) (N.to_nat n). clear. intros a b l H. revert b l H.
    induction a; intros b l H; [lia|]. destruct l; cbn; [destruct b; reflexivity|].
    destruct b; [reflexivity|]. apply IHa. lia.
  - apply nth_overflow. rewrite firstn_length. lia.
Qed.
Lemma nthN_drop n m (l : list byte) : nthN n (drop m l) = nthN (m + n) l.
Proof.
  rewrite !nthN_nth, drop_skipn.
  replace (N.to_nat (m + n)) with (N.to_nat m + N.to_nat n)%nat by lia.
  generalize (N.to_nat m) (N.to_nat n). clear. intros a b. revert l.
  induction a; intros l; [reflexivity|]. destruct l; cbn; [destruct b; reflexivity|]. apply IHa.
Qed.
Lemma nthN_rep n v m : nthN n (rep v m) = if n <? m then v else 0.
Proof.
  rewrite nthN_nth. unfold rep. destruct (N.ltb_spec n m) as [E|E].
  - assert (H : (N.to_nat n < N.to_nat m)%nat) by lia. revert H.
    generalize (N.to_nat m) (N.to_nat n). clear. intros a. induction a; intros b H; [lia|].
    destruct b; cbn; [reflexivity|]. apply IHa. lia.
  - apply nth_overflow. rewrite repeat_length. lia.
Qed.
Lemma nthN_cons n x (l : list byte) : nthN n (x :: l) = if n =? 0 then x else nthN (n - 1) l.
Proof. cbn [nthN]. now rewrite N.sub_1_r. Qed.
Lemma nthN_overflow n (l : list byte) : nlen l <= n -> nthN n l = 0.
Proof. unfold nlen. intros. rewrite nthN_nth. apply nth_overflow. lia. Qed.

Lemma list_ext (a b : list byte) :
  nlen a = nlen b -> (forall i, i < nlen a -> nthN i a = nthN i b) -> a = b.
Proof.
  unfold nlen. intros Hl H. apply nth_ext with (d := 0) (d' := 0); [lia|].
  intros n Hn. specialize (H (N.of_nat n)). rewrite !nthN_nth in H.
  rewrite Nat2N.id in H. apply H. lia.
Qed.

(* ------------------------------------------------------------------ *)
(** * 64-bit arithmetic *)

Lemma M64_val : M64 = 18446744073709551616. Proof. reflexivity. Qed.
Lemma NPOS_val : NPOS = 18446744073709551615. Proof. reflexivity. Qed.

Lemma add64_small a b : a + b < M64 -> a +! b = a + b.
Proof. intros. unfold add64. apply N.mod_small. assumption. Qed.
Lemma sub64_small a b : b <= a -> a < M64 -> a -! b = a - b.
Proof.
  intros. unfold sub64. replace (a + M64 - b) with ((a - b) + 1 * M64) by lia.
  rewrite N.mod_add by (rewrite M64_val; lia). apply N.mod_small. lia.
Qed.
Lemma add64_lt a b : a +! b < M64.
Proof. unfold add64. apply N.mod_lt. rewrite M64_val. lia. Qed.
Lemma sub64_lt a b : a -! b < M64.
Proof. unfold sub64. apply N.mod_lt. rewrite M64_val. lia. Qed.
Lemma add64_wrap a b : a < M64 -> b < M64 -> M64 <= a + b -> a +! b = a + b - M64.
Proof.
  intros. unfold add64. assert (E : a + b = (a + b - M64) + 1 * M64) by lia.
  rewrite E at 1. rewrite N.mod_add by (rewrite M64_val; lia). apply N.mod_small. lia.
Qed.
Lemma sub64_wrap a b : a < b -> b <= M64 -> a -! b = a + M64 - b.
Proof. intros. unfold sub64. apply N.mod_small. lia. Qed.

(* ------------------------------------------------------------------ *)
(** * primitives *)

Lemma wr_ok b i v : i < nlen b -> wr b i v = Ok (take i b ++ v :: drop (i + 1) b).
Proof. intros. unfold wr. destruct (i <? nlen b) eqn:E; [reflexivity|lia]. Qed.
Lemma rd_ok b i : i < nlen b -> rd b i = Ok (nthN i b).
Proof. intros. unfold rd. destruct (i <? nlen b) eqn:E; [reflexivity|lia]. Qed.
Lemma rdn_ok arr off n : (n = 0 \/ off + n <= nlen arr) -> rdn arr off n = Ok (take n (drop off arr)).
Proof.
  intros H. unfold rdn. destruct (n =? 0) eqn:E0.
  - apply N.eqb_eq in E0. subst. now rewrite take_0.
  - apply N.eqb_neq in E0. destruct (off + n <=? nlen arr) eqn:E; [reflexivity|lia].
Qed.

Definition blit (b : list byte) (dst : N) (src : list byte) : list byte :=
  take dst b ++ src ++ drop (dst + nlen src) b.

Lemma nlen_blit b dst src : dst + nlen src <= nlen b -> nlen (blit b dst src) = nlen b.
Proof. intros. unfold blit. rewrite !nlen_app, nlen_take, nlen_drop. lia. Qed.

Lemma blit_nil b dst : dst <= nlen b -> blit b dst [] = b.
Proof.
  intros. unfold blit. cbn [app]. rewrite nlen_nil, N.add_0_r. apply take_drop.
Qed.

Lemma nthN_blit i b dst src :
  dst + nlen src <= nlen b ->
  nthN i (blit b dst src) =
    if i <? dst then nthN i b else if i <? dst + nlen src then nthN (i - dst) src else nthN i b.
Proof.
  intros H. unfold blit. rewrite nthN_app, nlen_take.
  replace (N.min dst (nlen b)) with dst by lia.
  destruct (i <? dst) eqn:E1.
  - rewrite nthN_take, E1. reflexivity.
  - rewrite nthN_app. destruct (i - dst <? nlen src) eqn:E2.
    + destruct (i <? dst + nlen src) eqn:E3; [reflexivity|lia].
    + destruct (i <? dst + nlen src) eqn:E3; [lia|].
      rewrite nthN_drop. f_equal. lia.
Qed.

Lemma wr_blit b i v : i < nlen b -> wr b i v = Ok (blit b i [v]).
Proof. intros. rewrite wr_ok by assumption. unfold blit. cbn [app nlen length]. reflexivity. Qed.

Lemma mmove_ok b dst src n :
  (n = 0 \/ (src + n <= nlen b /\ dst + n <= nlen b)) ->
  mmove b dst src n = Ok (if n =? 0 then b else blit b dst (take n (drop src b))).
Proof.
  intros H. unfold mmove. destruct (n =? 0) eqn:E0; [reflexivity|].
  apply N.eqb_neq in E0. destruct H as [H|[H1 H2]]; [lia|].
  destruct (src + n <=? nlen b) eqn:E1; [|lia].
  destruct (dst + n <=? nlen b) eqn:E2; [|lia].
  unfold blit. rewrite nlen_take, nlen_drop. replace (N.min n (nlen b - src)) with n by lia.
  reflexivity.
Qed.

Lemma mset_ok b dst n v :
  (n = 0 \/ dst + n <= nlen b) ->
  mset b dst n v = Ok (if n =? 0 then b else blit b dst (rep v n)).
Proof.
  intros H. unfold mset. destruct (n =? 0) eqn:E0; [reflexivity|].
  apply N.eqb_neq in E0. destruct H as [H|H]; [lia|].
  destruct (dst + n <=? nlen b) eqn:E2; [|lia].
  unfold blit. rewrite nlen_rep. reflexivity.
Qed.

Lemma mcpy_ok b dst src off n :
  (n = 0 \/ (off + n <= nlen src /\ dst + n <= nlen b)) ->
  mcpy b dst src off n = Ok (if n =? 0 then b else blit b dst (take n (drop off src))).
Proof.
  intros H. unfold mcpy. destruct (n =? 0) eqn:E0; [reflexivity|].
  apply N.eqb_neq in E0. destruct H as [H|[H1 H2]]; [lia|].
  destruct (off + n <=? nlen src) eqn:E1; [|lia].
  destruct (dst + n <=? nlen b) eqn:E2; [|lia].
  unfold blit. rewrite nlen_take, nlen_drop. replace (N.min n (nlen src - off)) with n by lia.
  reflexivity.
Qed.

Lemma mcmp_ok a aoff b boff n :
  (n = 0 \/ (aoff + n <= nlen a /\ boff + n <= nlen b)) ->
  mcmp a aoff b boff n = Ok (bcmp (take n (drop aoff a)) (take n (drop boff b))).
Proof.
  intros H. unfold mcmp. rewrite !rdn_ok by lia. reflexivity.
Qed.

(** cstrlen *)
Lemma cstrlen_le l : cstrlen l <= nlen l.
Proof.
  induction l as [|x r IH]; cbn [cstrlen]; [unfold nlen; cbn; lia|].
  rewrite nlen_cons. destruct (x =? 0); lia.
Qed.

Lemma nlen_carr cs : nlen (carr cs) = nlen cs + 1.
Proof. unfold carr. rewrite nlen_app. reflexivity. Qed.
