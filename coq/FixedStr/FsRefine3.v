(** C11, third part: every modifying operation of [step] refines [std_step]
    (content after the step = content std::string has, cut at L). *)
From Coq Require Import List NArith Bool Lia ZifyNat ZifyN ZifyBool.
Import ListNotations.
Require Import Celma.Common.Res Celma.FixedStr.FsBase Celma.FixedStr.FsModel
  Celma.FixedStr.FsLemmas Celma.FixedStr.FsSafe Celma.FixedStr.FsSafeObs Celma.FixedStr.FsSafeAll
  Celma.FixedStr.FsStd Celma.FixedStr.FsRefine Celma.FixedStr.FsRefine2.
Local Open Scope N_scope.

(** a C string argument holds no NUL character (it ends at its terminator) *)
Definition cstr_ok (cs : list byte) : Prop := cstrlen cs = nlen cs.

Definition op_cstrs (x : op) : list (list byte) :=
  match x with
  | OAsgC cs | OCtorC cs | OInsPC _ cs _ | OInsC _ cs | OAppPC cs _ | OAppC cs
  | ORepC _ _ cs | ORepPC _ _ cs _ | OCmpC cs | OCmppC _ _ cs | OCmpppC _ _ cs _ => [cs]
  | OSw (NC cs) | OEw (NC cs) | OCt (NC cs) => [cs]
  | OFind _ (FPC cs _) _ | OFind _ (FC cs) _ => [cs]
  | _ => []
  end.

Definition CstrsOk (x : op) : Prop := Forall cstr_ok (op_cstrs x).

Definition is_mutator (x : op) : bool :=
  match x with
  | OAsgC _ | OAsgS _ | OAsgFs | OCtorC _ | OCtorS _ | OCtorMv | OCtorCp | OCtorFs
  | OInsNC _ _ _ | OInsPC _ _ _ | OInsC _ _ | OInsS _ _ | OInsSS _ _ _ _ | OInsFs _ | OInsFss _ _ _
  | OInsIt _ _ | OInsItN _ _ _ | OErase _ _ | OEraseIt _ | OEraseItr _ _ | OPush _ | OPop
  | OAppNC _ _ | OPeCh _ | OAppS _ | OAppFs | OAppSS _ _ _ | OAppFss _ _ | OAppPC _ _ | OAppC _
  | OAppIt _ _ | OSprintf _ | OSprintfFail _ _ | ORepFs _ _ | ORepS _ _ _ | ORepFss _ _ _ _ | ORepSS _ _ _ _ _
  | ORepC _ _ _ | ORepPC _ _ _ _ | ORepNC _ _ _ _ | OSwap | OClear => true
  | _ => false
  end.

Lemma take_carr x : take (nlen x) (carr x) = x.
Proof. unfold carr. rewrite take_app_l by lia. apply take_all. lia. Qed.

Lemma take_carr_le x k : k <= nlen x -> take k (carr x) = take k x.
Proof. intros. unfold carr. apply take_app_l. assumption. Qed.

Lemma take_carr_c cs : cstr_ok cs -> take (cstrlen cs) (carr cs) = cs.
Proof. intros H. rewrite H. apply take_carr. Qed.

Lemma drop_carr_le x p k : p + k <= nlen x -> take k (drop p (carr x)) = take k (drop p x).
Proof. intros H. unfold carr. pw. Qed.

Section Cut.
Variable L : N.

Lemma cut_abs s : Inv L s -> cut L (abs s) = abs s.
Proof. intros Hs. unfold cut. apply take_all. rewrite (abs_len L s Hs). destruct Hs as (_ & H & _). assumption. Qed.

Lemma cut_short x : nlen x <= L -> cut L x = x.
Proof. intros. unfold cut. apply take_all. assumption. Qed.

(** the other FixedString as a source: the first [len o] bytes of its buffer are its content *)
Lemma take_buf_abs o k : k <= len o -> take k (buf o) = take k (abs o).
Proof. intros. unfold abs. rewrite take_take. f_equal. lia. Qed.

Lemma sub_buf_abs o p k : Inv L o -> p + k <= len o -> take k (drop p (buf o)) = take k (drop p (abs o)).
Proof. intros (Hb & Hl & Hz) H. unfold abs. pw. Qed.

End Cut.

Section Refine3.
(** capacity of the object and of the other object *)
Variable L : N.
Hypothesis HL : CapOk L.
Variable Lo : N.
Hypothesis HLo : CapOk Lo.

Definition mut_ok (s o : fs) (x : op) : Prop :=
  forall cs' cos' rs, std_step (abs s) (abs o) x = Some (cs', cos', rs) ->
  exists s' o' r, step L s o x = Ok (s', o', r) /\ abs s' = cut L cs' /\ abs o' = cut Lo cos'.

Ltac dom H :=
  cbn [std_step] in H; cbv zeta in H; unfold guard in H;
  lazymatch type of H with
  | (if ?c then _ else _) = _ => let D := fresh "D" in destruct c eqn:D; [|discriminate]
  | _ => idtac
  end;
  injection H as <- <- <-.

(** finish a case: the step is [upd o r] and [r] is known *)
Ltac fin_upd E Ho :=
  cbn [step]; unfold upd; rewrite E; cbn [bind];
  eexists _, _, _; split; [reflexivity|]; split; [|symmetry; apply (cut_abs _ _ Ho)].

Theorem mut_refines s o x :
  Inv L s -> Inv Lo o -> Bounded x -> CstrsOk x -> cap_ok (Lo =? L) x = true -> is_mutator x = true ->
  mut_ok s o x.
Proof.
  intros Hs Ho HB HC Hcap Hm cs' cos' rs Hstd.
  pose proof Hs as (Hb & Hl & Hz). pose proof Ho as (Hbo & Hlo & Hzo). pose proof HL as [HL1 HL2].
  pose proof HLo as [HLo1 HLo2].
  pose proof (abs_len L s Hs) as Las. pose proof (abs_len Lo o Ho) as Lao.
  assert (Hsame : mixed_ok x = false -> Lo = L).
  { unfold cap_ok in Hcap. destruct (N.eqb_spec Lo L); [auto|]. intros H. congruence. }
  destruct x; try discriminate Hm; clear Hm; unb HB;
    unfold CstrsOk in HC; cbn [op_cstrs] in HC;
    try (apply Forall_cons_iff in HC; destruct HC as [HC _]);
    dom Hstd; rewrite ?Las, ?Lao in *.
  - (* asg_c *)
    destruct (assign_arr_refines L HL s (carr cs) (cstrlen cs)) as (s' & E & A);
      [assumption|rewrite nlen_carr, HC; lia|].
    fin_upd E Ho. rewrite A, take_carr_c by assumption. reflexivity.
  - (* asg_s *)
    destruct (assign_arr_refines L HL s (carr x) (nlen x)) as (s' & E & A);
      [assumption|rewrite nlen_carr; lia|].
    fin_upd E Ho. rewrite A, take_carr. reflexivity.
  - (* asg_fs *)
    destruct (assign_arr_refines L HL s (buf o) (len o)) as (s' & E & A); [assumption|lia|].
    fin_upd E Ho. rewrite A. reflexivity.
  - (* ctor_c *)
    destruct (assign_arr_refines L HL (zero_fs L) (carr cs) (cstrlen cs)) as (s' & E & A);
      [apply zero_fs_len|rewrite nlen_carr, HC; lia|].
    fin_upd E Ho. rewrite A, take_carr_c by assumption. reflexivity.
  - (* ctor_s *)
    destruct (assign_arr_refines L HL (zero_fs L) (carr x) (nlen x)) as (s' & E & A);
      [apply zero_fs_len|rewrite nlen_carr; lia|].
    fin_upd E Ho. rewrite A, take_carr. reflexivity.
  - (* ctor_mv *)
    rewrite (Hsame eq_refl) in *. cbn [step]. unfold upd, ctor_mv. rewrite trunc_id by assumption.
    destruct (N.ltb_spec 0 (len o)).
    + destruct (assign_arr_refines L HL (zero_fs L) (buf o) (len o)) as (s' & E & A);
        [apply zero_fs_len|lia|].
      unfold assign_arr in E. replace (N.min L (len o)) with (len o) in E by lia.
      rewrite E. cbn [bind]. eexists _, _, _; split; [reflexivity|].
      split; [|symmetry; apply (cut_abs _ _ Ho)]. rewrite A. reflexivity.
    + cbn [bind]. eexists _, _, _; split; [reflexivity|].
      split; [|symmetry; apply (cut_abs _ _ Ho)].
      unfold abs at 1 2. cbn [buf len]. replace (len o) with 0 by lia. rewrite !take_0. reflexivity.
  - (* ctor_cp *)
    rewrite (Hsame eq_refl) in *.
    cbn [step]. unfold upd. cbn [bind]. eexists _, _, _; split; [reflexivity|].
    split; symmetry; apply (cut_abs _ _ Ho).
  - (* ctor_fs: converting constructor from another capacity *)
    destruct (assign_arr_refines L HL (zero_fs L) (buf o) (len o)) as (s' & E & A);
      [apply zero_fs_len|lia|].
    fin_upd E Ho. rewrite A. reflexivity.
  - (* ins_nc *)
    destruct (insert_nc_refines L HL s i c ch) as (s' & E & A); [assumption|lia|assumption|].
    fin_upd E Ho. rewrite A. unfold repc. destruct (c <=? BIG); [reflexivity|lia].
  - (* ins_pc *)
    destruct (insert_pc_refines L HL s i (carr cs) k) as (s' & E & A);
      [assumption|lia|assumption|rewrite nlen_carr; lia|].
    fin_upd E Ho. rewrite A, take_carr_le by lia. reflexivity.
  - (* ins_c *)
    destruct (insert_pc_refines L HL s i (carr cs) (cstrlen cs)) as (s' & E & A);
      [assumption|lia|rewrite HC; unfold M64 in *; lia|rewrite nlen_carr, HC; lia|].
    fin_upd E Ho. rewrite A, take_carr_c by assumption. reflexivity.
  - (* ins_s *)
    destruct (insert_pc_refines L HL s i (carr x) (nlen x)) as (s' & E & A);
      [assumption|lia|unfold M64 in *; lia|rewrite nlen_carr; lia|].
    fin_upd E Ho. rewrite A, take_carr. reflexivity.
  - (* ins_ss *)
    cbn [step]. unfold upd, insert_ss. destruct (N.ltb_spec (nlen x) is); [lia|]. cbv zeta.
    change (substr_of x is k) with (std_substr x is k).
    assert (Ht : nlen (std_substr x is k) <= nlen x) by (unfold std_substr; nl; lia).
    destruct (insert_pc_refines L HL s i (carr (std_substr x is k)) (nlen (std_substr x is k)))
      as (s' & E & A); [assumption|lia|unfold M64 in *; lia|rewrite nlen_carr; lia|].
    rewrite E. cbn [bind]. eexists _, _, _; split; [reflexivity|].
    split; [|symmetry; apply (cut_abs _ _ Ho)]. rewrite A, take_carr. reflexivity.
  - (* ins_fs *)
    destruct (insert_pc_refines L HL s i (buf o) (len o)) as (s' & E & A);
      [assumption|lia|unfold M64 in *; lia|lia|].
    fin_upd E Ho. rewrite A. reflexivity.
  - (* ins_fss *)
    cbn [step]. unfold upd, insert_fss. destruct (N.ltb_spec (len o) is); [lia|].
    rewrite sub64_small by (unfold M64 in *; lia).
    destruct (insert_pc_refines L HL s i (drop is (buf o)) (N.min (len o - is) k))
      as (s' & E & A); [assumption|lia|unfold M64 in *; lia|nl; lia|].
    rewrite E. cbn [bind]. eexists _, _, _; split; [reflexivity|].
    split; [|symmetry; apply (cut_abs _ _ Ho)]. rewrite A. f_equal. f_equal.
    unfold std_substr. rewrite Lao, (N.min_comm k). apply (sub_buf_abs _ o is _ Ho). lia.
  - (* ins_it *)
    cbn [step]. unfold insert_it, it_at. destruct (N.ltb_spec p (len s)); [|lia].
    destruct (N.eqb_spec p NPOS); [unfold NPOS, M64 in *; lia|].
    destruct (insert_nc_refines L HL s p 1 ch) as (s' & E & A); [assumption|lia|unfold M64; lia|].
    rewrite E. cbn [bind fst snd]. eexists _, _, _; split; [reflexivity|].
    split; [|symmetry; apply (cut_abs _ _ Ho)]. rewrite A. reflexivity.
  - (* ins_itn *)
    cbn [step]. unfold insert_it, it_at. destruct (N.ltb_spec p (len s)); [|lia].
    destruct (N.eqb_spec p NPOS); [unfold NPOS, M64 in *; lia|].
    destruct (insert_nc_refines L HL s p c ch) as (s' & E & A); [assumption|lia|assumption|].
    rewrite E. cbn [bind fst snd]. eexists _, _, _; split; [reflexivity|].
    split; [|symmetry; apply (cut_abs _ _ Ho)]. rewrite A. unfold repc. destruct (c <=? BIG); [reflexivity|lia].
  - (* erase *)
    destruct (erase_refines L HL s i c) as (s' & E & A); [assumption|assumption|assumption|lia|].
    fin_upd E Ho. assumption.
  - (* erase_it *)
    cbn [step]. unfold erase_it, it_at. destruct (N.ltb_spec p (len s)); [|lia].
    destruct (N.eqb_spec p NPOS); [unfold NPOS, M64 in *; lia|].
    destruct (erase_refines L HL s p 1) as (s' & E & A); [assumption|assumption|unfold M64; lia|lia|].
    rewrite E. cbn [bind fst snd]. eexists _, _, _; split; [reflexivity|].
    split; [|symmetry; apply (cut_abs _ _ Ho)]. assumption.
  - (* erase_itr *)
    cbn [step]. unfold erase_itr, it_at. cbv zeta. destruct (N.ltb_spec p (len s)); [|lia].
    destruct (N.eqb_spec p NPOS); [unfold NPOS, M64 in *; lia|]. cbn [orb].
    destruct (N.ltb_spec q (len s)).
    + destruct (N.eqb_spec p q).
      * subst q. eexists _, _, _; split; [reflexivity|].
        split; [|symmetry; apply (cut_abs _ _ Ho)]. rewrite N.sub_diag. unfold std_erase.
        rewrite N.min_0_l, N.add_0_r, take_drop. symmetry. apply (cut_abs L _ Hs).
      * destruct (N.eqb_spec q NPOS); [unfold NPOS, M64 in *; lia|].
        rewrite sub64_small by (unfold M64 in *; lia).
        destruct (erase_refines L HL s p (q - p)) as (s' & E & A); [assumption|assumption|unfold M64 in *; lia|lia|].
        rewrite E. cbn [bind fst snd]. eexists _, _, _; split; [reflexivity|].
        split; [|symmetry; apply (cut_abs _ _ Ho)]. assumption.
    + destruct (N.eqb_spec p NPOS); [contradiction|]. rewrite N.eqb_refl.
      destruct (erase_refines L HL s p NPOS) as (s' & E & A); [assumption|assumption|unfold NPOS, M64; lia|lia|].
      rewrite E. cbn [bind fst snd]. eexists _, _, _; split; [reflexivity|].
      split; [|symmetry; apply (cut_abs _ _ Ho)]. rewrite A. unfold std_erase. rewrite Las.
      f_equal. f_equal. f_equal. unfold NPOS, M64 in *. lia.
  - (* push *)
    destruct (push_back_refines L HL s ch Hs) as (s' & E & A). fin_upd E Ho. assumption.
  - (* pop *)
    destruct (pop_back_refines L HL s Hs) as (s' & E & A); [lia|].
    fin_upd E Ho. rewrite A. symmetry. apply (cut_short L). nl. lia.
  - (* app_nc *)
    cbn [step]. unfold upd, append_nc. destruct (N.eqb_spec (len s) L).
    + cbn [bind]. eexists _, _, _; split; [reflexivity|].
      split; [|symmetry; apply (cut_abs _ _ Ho)]. unfold cut. rewrite take_app_l by lia.
      symmetry. apply take_all. lia.
    + cbv zeta. rewrite sub64_small by (unfold M64 in *; lia).
      destruct (append_impl_refines L HL s (carr (rep ch (N.min c (L - len s)))) 0
                  (nlen (rep ch (N.min c (L - len s))))) as (s' & E & A);
        [assumption|unfold M64; lia|nl; unfold M64 in *; lia|nl; lia|].
      rewrite E. cbn [bind]. eexists _, _, _; split; [reflexivity|].
      split; [|symmetry; apply (cut_abs _ _ Ho)]. rewrite A, drop_0, take_carr.
      unfold repc. destruct (c <=? BIG); [|lia]. unfold cut, abs. pw.
  - (* pe_ch *)
    cbn [step]. unfold upd, append_nc. destruct (N.eqb_spec (len s) L).
    + cbn [bind]. eexists _, _, _; split; [reflexivity|].
      split; [|symmetry; apply (cut_abs _ _ Ho)]. unfold cut. rewrite take_app_l by lia.
      symmetry. apply take_all. lia.
    + cbv zeta. rewrite sub64_small by (unfold M64 in *; lia).
      destruct (append_impl_refines L HL s (carr (rep ch (N.min 1 (L - len s)))) 0
                  (nlen (rep ch (N.min 1 (L - len s))))) as (s' & E & A);
        [assumption|unfold M64; lia|nl; unfold M64 in *; lia|nl; lia|].
      rewrite E. cbn [bind]. eexists _, _, _; split; [reflexivity|].
      split; [|symmetry; apply (cut_abs _ _ Ho)]. rewrite A, drop_0, take_carr.
      replace (N.min 1 (L - len s)) with 1 by lia. reflexivity.
  - (* app_s *)
    destruct (append_impl_refines L HL s (carr x) 0 (nlen x)) as (s' & E & A);
      [assumption|unfold M64; lia|unfold M64 in *; lia|rewrite nlen_carr; lia|].
    fin_upd E Ho. rewrite A, drop_0, take_carr. reflexivity.
  - (* app_fs *)
    destruct (append_impl_refines L HL s (buf o) 0 (len o)) as (s' & E & A);
      [assumption|unfold M64; lia|unfold M64 in *; lia|lia|].
    fin_upd E Ho. rewrite A, drop_0. reflexivity.
  - (* app_ss *)
    cbn [step]. unfold upd, append_ss. destruct (N.ltb_spec (nlen x) p); [lia|].
    rewrite sub64_small by (unfold M64 in *; lia).
    destruct (append_impl_refines L HL s (carr x) p (N.min c (nlen x - p))) as (s' & E & A);
      [assumption|assumption|unfold M64 in *; lia|rewrite nlen_carr; lia|].
    rewrite E. cbn [bind]. eexists _, _, _; split; [reflexivity|].
    split; [|symmetry; apply (cut_abs _ _ Ho)]. rewrite A. unfold std_substr.
    rewrite drop_carr_le by lia. reflexivity.
  - (* app_fss *)
    cbn [step]. unfold upd, append_fss. destruct (N.ltb_spec (len o) p); [lia|].
    rewrite sub64_small by (unfold M64 in *; lia).
    destruct (append_impl_refines L HL s (buf o) p (N.min c (len o - p))) as (s' & E & A);
      [assumption|assumption|unfold M64 in *; lia|lia|].
    rewrite E. cbn [bind]. eexists _, _, _; split; [reflexivity|].
    split; [|symmetry; apply (cut_abs _ _ Ho)]. rewrite A. unfold std_substr. rewrite Lao.
    rewrite (sub_buf_abs _ o p _ Ho) by lia. reflexivity.
  - (* app_pc *)
    destruct (append_impl_refines L HL s (carr cs) 0 (N.min k (cstrlen cs))) as (s' & E & A);
      [assumption|unfold M64; lia|unfold M64 in *; lia|rewrite nlen_carr, HC; lia|].
    fin_upd E Ho. rewrite A, drop_0, HC, take_carr_le by lia.
    replace (N.min k (nlen cs)) with k by lia. reflexivity.
  - (* app_c *)
    destruct (append_impl_refines L HL s (carr cs) 0 (cstrlen cs)) as (s' & E & A);
      [assumption|unfold M64; lia|rewrite HC; unfold M64 in *; lia|rewrite nlen_carr, HC; lia|].
    fin_upd E Ho. rewrite A, drop_0, take_carr_c by assumption. reflexivity.
  - (* app_it *)
    rewrite (Hsame eq_refl) in *. cbn [step]. unfold upd, append_it, it_at. cbv zeta.
    assert (Hq : q <= len o) by lia. assert (Hpq : p <= q) by lia.
    destruct (N.ltb_spec p (len o)) as [Hp|Hp]; destruct (N.ltb_spec q (len o)) as [Hq'|Hq'].
    + destruct (N.eqb_spec p q); cbn [orb].
      * subst q. cbn [bind]. eexists _, _, _; split; [reflexivity|].
        split; [|symmetry; apply (cut_abs _ _ Ho)]. rewrite N.sub_diag, take_0, app_nil_r.
        symmetry. apply (cut_abs L _ Hs).
      * destruct (N.eqb_spec (len s) L).
        -- cbn [bind]. eexists _, _, _; split; [reflexivity|].
           split; [|symmetry; apply (cut_abs _ _ Ho)]. unfold cut. rewrite take_app_l by lia.
           symmetry. apply take_all. lia.
        -- destruct (N.eqb_spec p NPOS); [unfold NPOS, M64 in *; lia|].
           destruct (N.eqb_spec q NPOS); [unfold NPOS, M64 in *; lia|].
           rewrite sub64_small by (unfold M64 in *; lia).
           destruct (append_impl_refines L HL s (drop p (buf o)) 0 (q - p)) as (s' & E & A);
             [assumption|unfold M64; lia|unfold M64 in *; lia|nl; lia|].
           rewrite E. cbn [bind]. eexists _, _, _; split; [reflexivity|].
           split; [|symmetry; apply (cut_abs _ _ Ho)]. rewrite A, drop_0.
           rewrite (sub_buf_abs _ o p _ Ho) by lia. reflexivity.
    + assert (q = len o) by lia. subst q.
      destruct (N.eqb_spec p NPOS); cbn [orb]; [unfold NPOS, M64 in *; lia|].
      destruct (N.eqb_spec (len s) L).
      * cbn [bind]. eexists _, _, _; split; [reflexivity|].
        split; [|symmetry; apply (cut_abs _ _ Ho)]. unfold cut. rewrite take_app_l by lia.
        symmetry. apply take_all. lia.
      * rewrite N.eqb_refl. rewrite sub64_small by (unfold M64 in *; lia).
        destruct (append_impl_refines L HL s (drop p (buf o)) 0 (len o - p)) as (s' & E & A);
          [assumption|unfold M64; lia|unfold M64 in *; lia|nl; lia|].
        rewrite E. cbn [bind]. eexists _, _, _; split; [reflexivity|].
        split; [|symmetry; apply (cut_abs _ _ Ho)]. rewrite A, drop_0.
        rewrite (sub_buf_abs _ o p _ Ho) by lia. reflexivity.
    + lia.
    + rewrite N.eqb_refl. cbn [orb bind]. eexists _, _, _; split; [reflexivity|].
      split; [|symmetry; apply (cut_abs _ _ Ho)].
      assert (p = q) by lia. subst q. rewrite N.sub_diag, take_0, app_nil_r.
      symmetry. apply (cut_abs L _ Hs).
  - (* sprintf *)
    destruct (sprintf_refines L HL s x Hs) as (s' & E & A). fin_upd E Ho. assumption.
  - (* sprintf with a failing conversion *)
    cbn [step]. unfold upd, sprintf_fail.
    pose proof (glibc_partial_len L wide x) as Hw.
    rewrite mcpy_blit by len_side. cbn [bind]. rewrite (fin_blit L HL) by len_side. cbn [bind].
    eexists _, _, _; split; [reflexivity|]. split; [|symmetry; apply (cut_abs _ _ Ho)].
    unfold abs, cut. cbn [buf len]. rewrite !take_0. reflexivity.
  - (* rep_fs *)
    destruct (replace_impl_refines L HL s p c (buf o) 0 (len o)) as (s' & E & A);
      [assumption|lia|assumption|unfold M64; lia|unfold M64 in *; lia|lia|].
    fin_upd E Ho. rewrite A, drop_0. reflexivity.
  - (* rep_s *)
    destruct (replace_impl_refines L HL s p c (carr x) 0 (nlen x)) as (s' & E & A);
      [assumption|lia|assumption|unfold M64; lia|unfold M64 in *; lia|rewrite nlen_carr; lia|].
    fin_upd E Ho. rewrite A, drop_0, take_carr. reflexivity.
  - (* rep_fss *)
    cbn [step]. unfold upd, replace_sub. destruct (N.ltb_spec (len o) p2); [lia|].
    rewrite sub64_small by (unfold M64 in *; lia).
    destruct (replace_impl_refines L HL s p c (buf o) p2 (N.min c2 (len o - p2))) as (s' & E & A);
      [assumption|lia|assumption|assumption|unfold M64 in *; lia|lia|].
    rewrite E. cbn [bind]. eexists _, _, _; split; [reflexivity|].
    split; [|symmetry; apply (cut_abs _ _ Ho)]. rewrite A. unfold std_substr. rewrite Lao.
    rewrite (sub_buf_abs _ o p2 _ Ho) by lia. reflexivity.
  - (* rep_ss *)
    cbn [step]. unfold upd, replace_sub. destruct (N.ltb_spec (nlen x) p2); [lia|].
    rewrite sub64_small by (unfold M64 in *; lia).
    destruct (replace_impl_refines L HL s p c (carr x) p2 (N.min c2 (nlen x - p2))) as (s' & E & A);
      [assumption|lia|assumption|assumption|unfold M64 in *; lia|rewrite nlen_carr; lia|].
    rewrite E. cbn [bind]. eexists _, _, _; split; [reflexivity|].
    split; [|symmetry; apply (cut_abs _ _ Ho)]. rewrite A. unfold std_substr.
    rewrite drop_carr_le by lia. reflexivity.
  - (* rep_c *)
    destruct (replace_impl_refines L HL s p c (carr cs) 0 (cstrlen cs)) as (s' & E & A);
      [assumption|lia|assumption|unfold M64; lia|rewrite HC; unfold M64 in *; lia|rewrite nlen_carr, HC; lia|].
    fin_upd E Ho. rewrite A, drop_0, take_carr_c by assumption. reflexivity.
  - (* rep_pc *)
    destruct (replace_impl_refines L HL s p c (carr cs) 0 (N.min c2 (cstrlen cs))) as (s' & E & A);
      [assumption|lia|assumption|unfold M64; lia|unfold M64 in *; lia|rewrite nlen_carr, HC; lia|].
    fin_upd E Ho. rewrite A, drop_0, HC, take_carr_le by lia.
    replace (N.min c2 (nlen cs)) with c2 by lia. reflexivity.
  - (* rep_nc *)
    cbn [step]. unfold upd, replace_nc. cbv zeta.
    destruct (replace_impl_refines L HL s p c (carr (rep ch (N.min c2 L))) 0 (nlen (rep ch (N.min c2 L))))
      as (s' & E & A);
      [assumption|lia|assumption|unfold M64; lia|nl; unfold M64 in *; lia|nl; lia|].
    rewrite E. cbn [bind]. eexists _, _, _; split; [reflexivity|].
    split; [|symmetry; apply (cut_abs _ _ Ho)]. rewrite A, drop_0, take_carr.
    unfold repc. destruct (c2 <=? BIG); [|lia]. unfold cut, std_replace, abs. pw.
  - (* swap *)
    rewrite (Hsame eq_refl) in *.
    destruct (swap_refines L HL s o Hs Ho) as (s' & o' & E & A1 & A2).
    cbn [step]. rewrite E. cbn [bind fst snd]. eexists _, _, _; split; [reflexivity|].
    rewrite A1, A2. split; symmetry; [apply (cut_abs _ _ Ho)|apply (cut_abs L _ Hs)].
  - (* clear *)
    destruct (clear_refines L HL s Hs) as (s' & E & A). fin_upd E Ho. rewrite A. reflexivity.
Qed.

End Refine3.
