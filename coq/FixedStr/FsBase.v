(** Basic vocabulary of the FixedString model (C10/C11): 64-bit size_t arithmetic
    with explicit wrap, N-indexed list functions, checked buffer primitives.
    No proofs in this file. *)
From Coq Require Import List NArith Bool.
Import ListNotations.
Require Import Celma.Common.Res.
Local Open Scope N_scope.

Notation byte := N (only parsing).

(** size_t arithmetic: 2^64 and std::string::npos *)
Definition M64 : N := 18446744073709551616.
Definition NPOS : N := 18446744073709551615.
Definition add64 (a b : N) : N := (a + b) mod M64.
Definition sub64 (a b : N) : N := (a + M64 - b) mod M64.
Infix "+!" := add64 (at level 50, left associativity).
Infix "-!" := sub64 (at level 50, left associativity).

(** list functions with binary counters (positions and counts go up to 2^64-1,
    nothing here ever converts such a number to [nat]) *)
Definition nlen {A} (l : list A) : N := N.of_nat (length l).

Fixpoint take {A} (n : N) (l : list A) : list A :=
  match l with
  | [] => []
  | x :: r => if n =? 0 then [] else x :: take (N.pred n) r
  end.

Fixpoint drop {A} (n : N) (l : list A) : list A :=
  match l with
  | [] => []
  | x :: r => if n =? 0 then l else drop (N.pred n) r
  end.

Fixpoint nthN (n : N) (l : list byte) : byte :=
  match l with
  | [] => 0
  | x :: r => if n =? 0 then x else nthN (N.pred n) r
  end.

(** only applied to counts that were checked against a buffer size before *)
Definition rep (v : byte) (n : N) : list byte := repeat v (N.to_nat n).

Fixpoint memb (c : byte) (l : list byte) : bool :=
  match l with [] => false | x :: r => (x =? c) || memb c r end.

(** strlen of an array (number of bytes before the first NUL; the whole array
    when there is none) *)
Fixpoint cstrlen (l : list byte) : N :=
  match l with
  | [] => 0
  | x :: r => if x =? 0 then 0 else 1 + cstrlen r
  end.

(** what a [const char*] / [c_str()] argument lets the callee read: the
    characters and the terminator *)
Definition carr (cs : list byte) : list byte := cs ++ [0].

(** memcmp on two blocks of the same length (unsigned bytes) *)
Fixpoint bcmp (a b : list byte) : comparison :=
  match a, b with
  | x :: a', y :: b' => match x ?= y with Eq => bcmp a' b' | c => c end
  | _, _ => Eq
  end.

Definition is_eq (c : comparison) : bool := match c with Eq => true | _ => false end.

(* ------------------------------------------------------------------ *)
(** * Checked primitives.  A length of 0 never touches memory. *)

(** b[i] = v *)
Definition wr (b : list byte) (i v : N) : res (list byte) :=
  if i <? nlen b then Ok (take i b ++ v :: drop (i + 1) b) else Fault OOBWrite.

(** b[i] *)
Definition rd (b : list byte) (i : N) : res byte :=
  if i <? nlen b then Ok (nthN i b) else Fault OOBRead.

(** n bytes of [arr] starting at [off] *)
Definition rdn (arr : list byte) (off n : N) : res (list byte) :=
  if n =? 0 then Ok []
  else if off + n <=? nlen arr then Ok (take n (drop off arr)) else Fault OOBRead.

(** memmove( &b[dst], &b[src], n) *)
Definition mmove (b : list byte) (dst src n : N) : res (list byte) :=
  if n =? 0 then Ok b
  else if src + n <=? nlen b then
    if dst + n <=? nlen b
    then Ok (take dst b ++ take n (drop src b) ++ drop (dst + n) b)
    else Fault OOBWrite
  else Fault OOBRead.

(** memset( &b[dst], v, n) *)
Definition mset (b : list byte) (dst n v : N) : res (list byte) :=
  if n =? 0 then Ok b
  else if dst + n <=? nlen b
  then Ok (take dst b ++ rep v n ++ drop (dst + n) b)
  else Fault OOBWrite.

(** memcpy( &b[dst], &src[off], n), [src] = the readable extent of the source *)
Definition mcpy (b : list byte) (dst : N) (src : list byte) (off n : N) : res (list byte) :=
  if n =? 0 then Ok b
  else if off + n <=? nlen src then
    if dst + n <=? nlen b
    then Ok (take dst b ++ take n (drop off src) ++ drop (dst + n) b)
    else Fault OOBWrite
  else Fault OOBRead.

(** memcmp( &a[aoff], &b[boff], n) *)
Definition mcmp (a : list byte) (aoff : N) (b : list byte) (boff n : N) : res comparison :=
  do x <- rdn a aoff n;
  do y <- rdn b boff n;
  Ok (bcmp x y).

(** strchr( str, c) != nullptr : scans up to and including the terminator *)
Definition strchr_found (arr : list byte) (c : byte) : res bool :=
  if cstrlen arr <? nlen arr
  then Ok ((c =? 0) || memb c (take (cstrlen arr) arr))
  else Fault OOBRead.

(* ------------------------------------------------------------------ *)
(** * Loops of the find family (fuel = more than the buffer has bytes) *)

(** for (idx = i; cont(idx); ++idx) if (test(idx)) return idx; return npos; *)
Fixpoint scan_up (fuel : nat) (cont : N -> bool) (test : N -> res bool) (idx : N) : res N :=
  match fuel with
  | O => Fault Fuel
  | S f =>
      if cont idx then
        do t <- test idx;
        if t then Ok idx else scan_up f cont test (idx +! 1)
      else Ok NPOS
  end.

(** for (idx = i; idx-- > 0; ) if (test(idx)) return idx; return npos; *)
Fixpoint scan_down (fuel : nat) (test : N -> res bool) (i : N) : res N :=
  match fuel with
  | O => Fault Fuel
  | S f =>
      if 0 <? i then
        let i' := i -! 1 in
        do t <- test i';
        if t then Ok i' else scan_down f test i'
      else Ok NPOS
  end.
