(** C11: list lemmas behind the refinement proof of replaceImpl. *)
From Coq Require Import List NArith Bool Lia ZifyNat ZifyN ZifyBool.
Import ListNotations.
Require Import Celma.Common.Res Celma.FixedStr.FsBase Celma.FixedStr.FsModel
  Celma.FixedStr.FsLemmas Celma.FixedStr.FsSafe Celma.FixedStr.FsSafeObs Celma.FixedStr.FsStd
  Celma.FixedStr.FsRefine.
Local Open Scope N_scope.

(** the buffer after the writes of replaceImpl, described segment by segment *)
Lemma replace_buffer (b : list byte) arr L ln pos1 c1 cl rest pos2 :
  nlen b = L + 1 -> ln <= L -> pos1 <= ln -> c1 <= ln - pos1 -> cl <= L - pos1 ->
  rest <= ln - pos1 - c1 -> rest <= L - pos1 - cl -> pos2 + cl <= nlen arr ->
  take (pos1 + cl + rest)
    (blit (blit (blit b (pos1 + cl) (take rest (drop (pos1 + c1) b))) (pos1 + cl + rest) [0])
       pos1 (take cl (drop pos2 arr)))
  = take pos1 (take ln b) ++ take cl (drop pos2 arr) ++ take rest (drop (pos1 + c1) (take ln b)).
Proof.
  intros Hb Hl H1 H2 H3 H4 H5 H6.
  apply list_ext.
  - nl. rewrite Hb. lia.
  - intros i Hi. revert Hi. nl. rewrite Hb. intros Hi.
    destruct (N.ltb_spec i pos1); [|destruct (N.ltb_spec i (pos1 + cl))];
      nn; repeat match goal with H : nlen _ = _ |- _ => rewrite H in * end; cases; leaf.
Qed.

Lemma replace_same_buffer (b : list byte) arr L ln pos1 c1 pos2 :
  nlen b = L + 1 -> ln <= L -> pos1 <= ln -> c1 <= ln - pos1 -> pos2 + c1 <= nlen arr ->
  take ln (blit b pos1 (take c1 (drop pos2 arr)))
  = take pos1 (take ln b) ++ take c1 (drop pos2 arr) ++ take (ln - pos1 - c1) (drop (pos1 + c1) (take ln b)).
Proof.
  intros Hb Hl H1 H2 H3.
  apply list_ext.
  - nl. rewrite Hb. lia.
  - intros i Hi. revert Hi. nl. rewrite Hb. intros Hi.
    destruct (N.ltb_spec i pos1); [|destruct (N.ltb_spec i (pos1 + c1))];
      nn; repeat match goal with H : nlen _ = _ |- _ => rewrite H in * end; cases; leaf.
Qed.

(** std::string::replace cut at L, segment by segment *)
Lemma cut_replace (A INS : list byte) L pos1 count1 :
  nlen A <= L -> pos1 <= nlen A ->
  cut L (std_replace A pos1 count1 INS) =
    take pos1 A ++ take (N.min (nlen INS) (L - pos1)) INS
      ++ take (N.min (nlen A - pos1 - N.min count1 (nlen A - pos1))
                     (L - pos1 - N.min (nlen INS) (L - pos1)))
              (drop (pos1 + N.min count1 (nlen A - pos1)) A).
Proof.
  intros HA Hp. unfold cut, std_replace.
  set (c1 := N.min count1 (nlen A - pos1)).
  assert (Hc1 : c1 <= nlen A - pos1) by (unfold c1; lia). clearbody c1.
  rewrite !take_app. nl. replace (N.min pos1 (nlen A)) with pos1 by lia.
  rewrite take_take. replace (N.min L pos1) with pos1 by lia.
  f_equal. f_equal.
  - destruct (N.le_gt_cases (nlen INS) (L - pos1)).
    + rewrite !take_all by lia. reflexivity.
    + f_equal. lia.
  - destruct (N.le_gt_cases (nlen INS) (L - pos1)).
    + replace (N.min (nlen INS) (L - pos1)) with (nlen INS) by lia.
      destruct (N.le_gt_cases (nlen A - pos1 - c1) (L - pos1 - nlen INS)).
      * rewrite !take_all by (nl; lia). reflexivity.
      * f_equal. lia.
    + replace (L - pos1 - nlen INS) with 0 by lia.
      replace (N.min (nlen A - pos1 - c1) (L - pos1 - N.min (nlen INS) (L - pos1))) with 0 by lia.
      reflexivity.
Qed.

