(** Executable model of celma::common::FixedString<L>
    (src/celma/common/fixed_string.hpp with the repairs fixes/C10-*.patch and
    fixes/C11-*.patch applied; the functions of the pinned tree that had to be
    repaired are kept in FsPinned.v), mirrored function by function.
    No proofs in this file.

    - the object is [buf] (the L+1 bytes of mString) and [len] (mLength, stored
      in the unsigned type LengthType<L>::type: every assignment truncates)
    - all position / count arithmetic is size_t arithmetic ([+!], [-!]: wrap at 2^64)
    - every memcpy/memmove/memset/memcmp/strchr/index access goes through the
      checked primitives of FsBase.v: touching a byte outside the object or
      outside the readable extent of an argument is [Fault]
    - a [const char*] argument [cs] is readable up to and including its
      terminator ([carr cs]); a std::string argument [x] likewise
      ([carr x], length [nlen x]); another FixedString is readable as its
      whole buffer
    - a C++ exception is [Err]; in a noexcept function that means std::terminate *)
From Coq Require Import List NArith Bool.
Import ListNotations.
Require Import Celma.Common.Res Celma.FixedStr.FsBase.
Local Open Scope N_scope.

Record fs := { buf : list byte; len : N }.

(** number of values of LengthType<L>::type (length_type.hpp: bytesNeeded) *)
Definition lenmod (L : N) : N :=
  if L <? 256 then 256
  else if L <? 65536 then 65536
  else if L <? 4294967296 then 4294967296
  else M64.

Inductive needle :=
| NFs                         (* the other FixedString *)
| NS (x : list byte)          (* std::string *)
| NC (cs : list byte)         (* const char* *)
| NCh (ch : byte).

Inductive fneedle :=
| FFs | FS (x : list byte) | FPC (cs : list byte) (k : N) | FC (cs : list byte) | FCh (ch : byte).

Inductive family := Find | RFind | FFO | FFNO | FLO | FLNO.

Inductive itk := KInc | KDec | KAdd | KSub.

Inductive op :=
| OAsgC (cs : list byte) | OAsgS (x : list byte) | OAsgFs
| OCtorC (cs : list byte) | OCtorS (x : list byte) | OCtorMv | OCtorCp | OCtorFs
| OInsNC (i c ch : N) | OInsPC (i : N) (cs : list byte) (k : N) | OInsC (i : N) (cs : list byte)
| OInsS (i : N) (x : list byte) | OInsSS (i : N) (x : list byte) (is k : N)
| OInsFs (i : N) | OInsFss (i is k : N) | OInsIt (p ch : N) | OInsItN (p c ch : N)
| OErase (i c : N) | OEraseIt (p : N) | OEraseItr (p q : N) | OPush (ch : N) | OPop
| OAppNC (c ch : N) | OPeCh (ch : N) | OAppS (x : list byte) | OAppFs
| OAppSS (x : list byte) (p c : N) | OAppFss (p c : N) | OAppPC (cs : list byte) (k : N)
| OAppC (cs : list byte) | OAppIt (p q : N)
| OSprintf (x : list byte)
| OSprintfFail (wide : bool) (x : list byte)
| ORepFs (p c : N) | ORepS (p c : N) (x : list byte) | ORepFss (p c p2 c2 : N)
| ORepSS (p c : N) (x : list byte) (p2 c2 : N) | ORepC (p c : N) (cs : list byte)
| ORepPC (p c : N) (cs : list byte) (c2 : N) | ORepNC (p c c2 ch : N)
| OSwap | OClear
| OCmpFs | OCmpS (x : list byte) | OCmpC (cs : list byte)
| OCmppFs (p c : N) | OCmppS (p c : N) (x : list byte) | OCmppC (p c : N) (cs : list byte)
| OCmpppFs (p c p2 c2 : N) | OCmpppS (p c : N) (x : list byte) (p2 c2 : N)
| OCmpppC (p c : N) (cs : list byte) (c2 : N)
| OSw (k : needle) | OEw (k : needle) | OCt (k : needle)
| OSubstr (p c : N) | OCopy (c p : N) | OAt (i : N) | OFront | OBack | OLen | OEmpty | OStr
| OEq | ONe | OItF | OItR
| OFind (fam : family) (k : fneedle) (pos : N)
| OIt (rev : bool) (pos : N) (k : itk) (v : N).

Inductive ret :=
| RNone | RCmp (c : comparison) | RBool (b : bool) | RSize (n : N) | RChar (c : byte)
| RStr (l : list byte) | RIter (n : N) | RCopy (n : N) (l : list byte) | RExc (e : err)
| RItD (n : N) (c : option byte).

Section FS.
Variable L : N.

Definition trunc (v : N) : N := v mod lenmod L.

Definition zero_fs : fs := {| buf := rep 0 (L + 1); len := 0 |}.

(** mLength = l; mString[ mLength] = '\0'; *)
Definition fin (b : list byte) (l : N) : res fs :=
  let l' := trunc l in
  do b' <- wr b l' 0;
  Ok {| buf := b'; len := l' |}.

(* ------------------------------------------------------------------ *)
(** * construction, assignment *)

(** mLength = n; internalCopy( src) *)
Definition internal_copy (s : fs) (src : list byte) (n : N) : res fs :=
  let n' := trunc n in
  do b <- (if 0 <? n' then mcpy (buf s) 0 src 0 n' else Ok (buf s));
  do b' <- wr b n' 0;
  Ok {| buf := b'; len := n' |}.

Definition assign_arr (s : fs) (arr : list byte) (n : N) : res fs :=
  internal_copy s arr (N.min L n).

Definition ctor_mv (o : fs) : res fs :=
  let n := trunc (len o) in
  if 0 <? n then internal_copy zero_fs (buf o) n
  else Ok {| buf := buf zero_fs; len := n |}.

Definition clear (s : fs) : res fs :=
  do b <- wr (buf s) 0 0;
  Ok {| buf := b; len := trunc 0 |}.

(* ------------------------------------------------------------------ *)
(** * insert *)

(** insert( index, count, ch) *)
Definition insert_nc (s : fs) (index count ch : N) : res fs :=
  let ln := len s in
  if index <? ln then
    if count <=? L -! ln then
      do b1 <- mmove (buf s) (index +! count) index (ln -! index +! 1);
      do b2 <- mset b1 index count ch;
      fin b2 (ln +! count)
    else if count <=? L -! index then
      do b1 <- mmove (buf s) (index +! count) index (L -! index -! count);
      do b2 <- mset b1 index count ch;
      fin b2 L
    else
      do b2 <- mset (buf s) index (L -! index) ch;
      fin b2 L
  else
    let count' := if L -! ln <? count then L -! ln else count in
    do b2 <- mset (buf s) ln count' ch;
    fin b2 (ln +! count').

(** insert( index, str, count) : [arr] = what may be read through [str] *)
Definition insert_pc (s : fs) (index : N) (arr : list byte) (count : N) : res fs :=
  let ln := len s in
  if index <? ln then
    if count <=? L -! ln then
      do b1 <- mmove (buf s) (index +! count) index (ln -! index +! 1);
      do b2 <- mcpy b1 index arr 0 count;
      fin b2 (ln +! count)
    else if count <=? L -! index then
      do b1 <- mmove (buf s) (index +! count) index (L -! index -! count);
      do b2 <- mcpy b1 index arr 0 count;
      fin b2 L
    else
      do b2 <- mcpy (buf s) index arr 0 (L -! index);
      fin b2 L
  else
    let count' := if L -! ln <? count then L -! ln else count in
    do b2 <- mcpy (buf s) ln arr 0 count';
    fin b2 (ln +! count').

(** str.substr( pos, count) for pos <= size *)
Definition substr_of (x : list byte) (pos count : N) : list byte :=
  take (N.min count (nlen x - pos)) (drop pos x).

Definition insert_ss (s : fs) (index : N) (x : list byte) (is count : N) : res fs :=
  if nlen x <? is then Ok s
  else let t := substr_of x is count in insert_pc s index (carr t) (nlen t).

Definition insert_fss (s o : fs) (index is count : N) : res fs :=
  if len o <? is then Ok s
  else insert_pc s index (drop is (buf o)) (N.min (len o -! is) count).

(** position of const_iterator( this, p) / iterator( this, p) *)
Definition it_at (s : fs) (p : N) : N := if p <? len s then p else NPOS.

Definition insert_it (s : fs) (p count ch : N) : res (fs * N) :=
  if it_at s p =? NPOS then Ok (s, NPOS)
  else do s' <- insert_nc s p count ch; Ok (s', it_at s' p).

(* ------------------------------------------------------------------ *)
(** * erase, push_back, pop_back *)

Definition erase (s : fs) (index count : N) : res fs :=
  let ln := len s in
  if ln <? index then Ok s
  else if ln -! index <=? count then
    do b <- wr (buf s) index 0;
    Ok {| buf := b; len := trunc index |}
  else
    do b <- mmove (buf s) index (index +! count) (ln -! index -! count);
    fin b (ln -! count).

Definition erase_it (s : fs) (p : N) : res (fs * N) :=
  if it_at s p =? NPOS then Ok (s, NPOS)
  else do s' <- erase s p 1; Ok (s', it_at s' p).

Definition erase_itr (s : fs) (p q : N) : res (fs * N) :=
  let ip := it_at s p in
  let iq := it_at s q in
  if (ip =? NPOS) || (ip =? iq) then Ok (s, NPOS)
  else
    let count := if iq =? NPOS then NPOS else iq -! ip in
    do s' <- erase s ip count; Ok (s', it_at s' ip).

Definition push_back (s : fs) (ch : N) : res fs :=
  let ln := len s in
  if ln <? L then
    do b1 <- wr (buf s) ln ch;
    fin b1 (ln +! 1)
  else Ok s.

Definition pop_back (s : fs) : res fs :=
  let ln := len s in
  if 0 <? ln then fin (buf s) (ln -! 1) else Ok s.

(* ------------------------------------------------------------------ *)
(** * append *)

Definition append_impl (s : fs) (arr : list byte) (pos count : N) : res fs :=
  if 0 <? count then
    let ln := len s in
    let al := N.min (L -! ln) count in
    do b <- mcpy (buf s) ln arr pos al;
    fin b (ln +! al)
  else Ok s.

Definition append_nc (s : fs) (count ch : N) : res fs :=
  if len s =? L then Ok s
  else let t := rep ch (N.min count (L -! len s)) in append_impl s (carr t) 0 (nlen t).

Definition append_ss (s : fs) (x : list byte) (pos count : N) : res fs :=
  if nlen x <? pos then Ok s
  else append_impl s (carr x) pos (N.min count (nlen x -! pos)).

Definition append_fss (s o : fs) (pos count : N) : res fs :=
  if len o <? pos then Ok s
  else append_impl s (buf o) pos (N.min count (len o -! pos)).

(** append( first, last) with const_iterators at [p], [q] of the other object *)
Definition append_it (s o : fs) (p q : N) : res fs :=
  let ip := it_at o p in
  let iq := it_at o q in
  if (ip =? iq) || (len s =? L) then Ok s
  else if ip =? NPOS then Err ERange
  else
    let count := if iq =? NPOS then len o -! ip else iq -! ip in
    append_impl s (drop ip (buf o)) 0 count.

(** sprintf( "%s", text): vsnprintf writes at most L characters and a
    terminator into the L+1 bytes it is given and returns strlen( text) *)
Definition sprintf_ (s : fs) (text : list byte) : res fs :=
  let n := cstrlen text in
  let k := N.min n L in
  do b <- mcpy (buf s) 0 (take k text ++ [0]) 0 (k + 1);
  fin b (N.min L n).

(** sprintf whose vsnprintf call fails (returns a negative value: a wide
    character that cannot be converted, or more than INT_MAX characters of
    output).  vsnprintf has then already stored partial output [w] in the L+1
    bytes it was given; the length becomes 0 and the terminator is written at 0. *)
Definition sprintf_fail (s : fs) (w : list byte) : res fs :=
  do b <- mcpy (buf s) 0 w 0 (nlen w);
  fin b 0.

(** what glibc 2.36 was observed to leave in the buffer in the two cases (only the
    bytes behind the terminator depend on it; they are internal observables):
    for sprintf( "<text>%lc", unconvertible) the text cut at L and a terminator,
    for sprintf( "<text>%*d%*d", INT_MAX, ., INT_MAX, .) the text padded with
    blanks to L characters and a terminator *)
Definition glibc_partial (wide : bool) (text : list byte) : list byte :=
  let t := take (cstrlen text) text in
  if wide then take L (t ++ rep 32 L) ++ [0] else take L t ++ [0].

(* ------------------------------------------------------------------ *)
(** * compare *)

Definition cmp3 (c : comparison) (l1 l2 : N) : comparison :=
  match c with
  | Eq => if l2 <? l1 then Gt else if l1 <? l2 then Lt else Eq
  | c => c
  end.

Definition full_compare (s : fs) (arr : list byte) (alen : N) : res comparison :=
  let m := N.min (len s) alen in
  do c <- mcmp (buf s) 0 arr 0 m;
  Ok (cmp3 c (len s) alen).

Definition part_compare (s : fs) (pos1 count1 : N) (arr : list byte) (len2 : N) : res comparison :=
  let ln := len s in
  if ln <? pos1 then Ok (if len2 =? 0 then Eq else Gt)
  else
    let use_len := if ln -! pos1 <? count1 then ln -! pos1 else count1 in
    let m := N.min use_len len2 in
    do c <- mcmp (buf s) pos1 arr 0 m;
    Ok (cmp3 c use_len len2).

Definition part_part_compare (s : fs) (pos1 count1 : N) (arr : list byte) (len2 pos2 count2 : N)
  : res comparison :=
  let ln := len s in
  if ln <? pos1 then Ok (if len2 <=? pos2 then Eq else Gt)
  else if len2 <? pos2 then Ok (if pos1 =? ln then Eq else Lt)
  else
    let l1 := if ln -! pos1 <? count1 then ln -! pos1 else count1 in
    let l2 := if len2 -! pos2 <? count2 then len2 -! pos2 else count2 in
    let m := N.min l1 l2 in
    do c <- mcmp (buf s) pos1 arr pos2 m;
    Ok (cmp3 c l1 l2).

(* ------------------------------------------------------------------ *)
(** * starts_with, ends_with, contains *)

Definition starts_with_impl (s : fs) (arr : list byte) (n : N) : res bool :=
  if (n =? 0) && (len s =? 0) then Ok true
  else if len s <? n then Ok false
  else do c <- mcmp (buf s) 0 arr 0 n; Ok (is_eq c).

Definition starts_with_ch (s : fs) (ch : N) : res bool :=
  if 0 <? len s then do c <- rd (buf s) 0; Ok (c =? ch) else Ok false.

Definition ends_with_impl (s : fs) (arr : list byte) (n : N) : res bool :=
  if (n =? 0) && (len s =? 0) then Ok true
  else if len s <? n then Ok false
  else do c <- mcmp (buf s) (len s -! n) arr 0 n; Ok (is_eq c).

Definition ends_with_ch (s : fs) (ch : N) : res bool :=
  if 0 <? len s then do c <- rd (buf s) (len s -! 1); Ok (c =? ch) else Ok false.

Definition fuel : nat := N.to_nat (L + 2).

(** the loop counter of containsImpl / contains( char) has the length type *)
Definition contains_impl (s : fs) (arr : list byte) (n : N) : res bool :=
  let ln := len s in
  if (n =? 0) || (ln =? 0) || (ln <? n) then Ok false
  else
    do r <- scan_up fuel (fun idx => idx +! n <=? ln)
              (fun idx =>
                 do a <- rd (buf s) idx;
                 do b <- rd arr 0;
                 if a =? b then do c <- mcmp (buf s) idx arr 0 n; Ok (is_eq c) else Ok false)
              0;
    Ok (negb (r =? NPOS)).

Definition contains_ch (s : fs) (ch : N) : res bool :=
  do r <- scan_up fuel (fun idx => idx <? len s)
            (fun idx => do a <- rd (buf s) idx; Ok (a =? ch)) 0;
  Ok (negb (r =? NPOS)).

(* ------------------------------------------------------------------ *)
(** * replace *)

Definition replace_impl (s : fs) (pos1 count1 : N) (arr : list byte) (pos2 count2 : N) : res fs :=
  let ln := len s in
  if ln <? pos1 then Ok s
  else
    let count1' := if ln -! pos1 <? count1 then ln -! pos1 else count1 in
    let copy_len := if L -! pos1 <? count2 then L -! pos1 else count2 in
    do s1 <-
      (if count1' =? copy_len then Ok s
       else
         let rest0 := ln -! pos1 -! count1' in
         let rest := if L -! pos1 -! copy_len <? rest0 then L -! pos1 -! copy_len else rest0 in
         do b <- mmove (buf s) (pos1 +! copy_len) (pos1 +! count1') rest;
         fin b (pos1 +! copy_len +! rest));
    do b2 <- mcpy (buf s1) pos1 arr pos2 copy_len;
    Ok {| buf := b2; len := len s1 |}.

Definition replace_sub (s : fs) (pos1 count1 : N) (arr : list byte) (alen pos2 count2 : N) : res fs :=
  if alen <? pos2 then Ok s
  else replace_impl s pos1 count1 arr pos2 (N.min count2 (alen -! pos2)).

Definition replace_nc (s : fs) (pos count count2 ch : N) : res fs :=
  let t := rep ch (N.min count2 L) in
  replace_impl s pos count (carr t) 0 (nlen t).

(* ------------------------------------------------------------------ *)
(** * substr, copy, swap *)

Definition substr (s : fs) (pos count : N) : res (list byte) :=
  let ln := len s in
  if (ln <=? pos) || (count =? 0) then Ok []
  else
    let c := if ln -! pos <=? count then ln -! pos else count in
    rdn (buf s) pos c.

(** copy( dest, count, pos): [room] = number of bytes the destination has *)
Definition copy (s : fs) (room count pos : N) : res (N * list byte) :=
  let ln := len s in
  if ln <=? pos then Ok (0, [])
  else
    let c := if ln -! pos <=? count then ln -! pos else count in
    do x <- rdn (buf s) pos c;
    if c <=? room then Ok (c, x) else Fault OOBWrite.

Definition swap (s o : fs) : res (fs * fs) :=
  let ln := len s in
  let lo := len o in
  if ln =? 0 then
    if 0 <? lo then
      do b <- mcpy (buf s) 0 (buf o) 0 (lo +! 1);
      do bo <- wr (buf o) 0 0;
      Ok ({| buf := b; len := trunc lo |}, {| buf := bo; len := trunc 0 |})
    else Ok (s, o)
  else if lo =? 0 then
    do bo <- mcpy (buf o) 0 (buf s) 0 (ln +! 1);
    do b <- wr (buf s) 0 0;
    Ok ({| buf := b; len := trunc 0 |}, {| buf := bo; len := trunc ln |})
  else
    do t <- mcpy (rep 0 (L + 1)) 0 (buf s) 0 (ln +! 1);      (* char buffer[ L + 1] *)
    do b <- mcpy (buf s) 0 (buf o) 0 (lo +! 1);
    do bo <- mcpy (buf o) 0 t 0 (ln +! 1);
    Ok ({| buf := b; len := trunc lo |}, {| buf := bo; len := trunc ln |}).

(* ------------------------------------------------------------------ *)
(** * find family *)

Definition eq_at (s : fs) (arr : list byte) (n idx : N) : res bool :=
  do c <- mcmp (buf s) idx arr 0 n; Ok (is_eq c).

(** find( str, pos) for FixedString / std::string / (const char*, pos, count) *)
Definition find_arr (s : fs) (arr : list byte) (n pos : N) : res N :=
  let ln := len s in
  if (ln <? n) || (ln -! n <? pos) || (ln =? 0) || (n =? 0) then Ok NPOS
  else scan_up fuel (fun idx => idx <=? ln -! n) (eq_at s arr n) pos.

Definition find_ch (s : fs) (ch pos : N) : res N :=
  let ln := len s in
  if (ln <? pos +! 1) || (ln =? 0) then Ok NPOS
  else scan_up fuel (fun idx => idx <? ln) (fun idx => do a <- rd (buf s) idx; Ok (a =? ch)) pos.

(** rfind( str, pos) for FixedString / std::string (needle length n > 0 tested by the caller) *)
Definition rfind_loop (s : fs) (arr : list byte) (n pos : N) : res N :=
  let ln := len s in
  let pos' := if ln -! n <? pos then ln -! n else pos in
  scan_down fuel (eq_at s arr n) (pos' +! 1).

Definition rfind_arr (s : fs) (arr : list byte) (n pos : N) : res N :=
  let ln := len s in
  if (ln =? 0) || (n =? 0) || (ln <? n) then Ok NPOS
  else rfind_loop s arr n pos.

(** rfind( const char* str, pos, count) *)
Definition rfind_pc (s : fs) (cs : list byte) (pos count : N) : res N :=
  let ln := len s in
  if ln =? 0 then Ok NPOS
  else
    let sl := cstrlen cs in
    if sl =? 0 then Ok NPOS
    else
      let count' := if sl <? count then sl else count in
      if ln <? count' then Ok NPOS
      else rfind_loop s (carr cs) count' pos.

Definition rfind_ch (s : fs) (ch pos : N) : res N :=
  let ln := len s in
  if (ln <? pos +! 1) || (ln =? 0) then Ok NPOS
  else
    let pos' := if pos =? NPOS then ln -! 1 else pos in
    scan_down fuel (fun idx => do a <- rd (buf s) idx; Ok (a =? ch)) (pos' +! 1).

(** test used by the strchr based implementations / by the explicit loops *)
Definition in_cstr (s : fs) (arr : list byte) (neg : bool) (idx : N) : res bool :=
  do a <- rd (buf s) idx;
  do f <- strchr_found arr a;
  Ok (xorb neg f).

Definition in_chars (s : fs) (arr : list byte) (count : N) (neg : bool) (idx : N) : res bool :=
  do a <- rd (buf s) idx;
  do cs <- rdn arr 0 count;
  Ok (xorb neg (memb a cs)).

Definition is_ch (s : fs) (ch : N) (neg : bool) (idx : N) : res bool :=
  do a <- rd (buf s) idx; Ok (xorb neg (a =? ch)).

(** findFirstOfImpl / findFirstNotOfImpl and the (str, pos, count) overloads *)
Definition first_of (s : fs) (test : N -> res bool) (pos count : N) : res N :=
  if (len s <? pos) || (count =? 0) then Ok NPOS
  else scan_up fuel (fun idx => idx <? len s) test pos.

Definition first_of_ch (s : fs) (test : N -> res bool) (pos : N) : res N :=
  if len s <=? pos then Ok NPOS
  else scan_up fuel (fun idx => idx <? len s) test pos.

(** findLastOfImpl / findLastNotOfImpl *)
Definition last_of_impl (s : fs) (test : N -> res bool) (pos count : N) : res N :=
  let pos' := if pos =? NPOS then len s else pos +! 1 in
  if (len s <=? pos' -! 1) || (count =? 0) then Ok NPOS
  else scan_down fuel test pos'.

(** find_last_of( str, pos, count) / find_last_not_of( str, pos, count) *)
Definition last_of_pc (s : fs) (test : N -> res bool) (pos count : N) : res N :=
  if (len s <? pos) || (count =? 0) then Ok NPOS
  else scan_down fuel test (pos +! 1).

(** find_last_of( ch, pos) / find_last_not_of( ch, pos) *)
Definition last_of_ch (s : fs) (test : N -> res bool) (pos : N) : res N :=
  if pos =? NPOS then scan_down fuel test (len s)
  else if len s <=? pos then Ok NPOS
  else scan_down fuel test (pos +! 1).

Definition find_op (s o : fs) (fam : family) (k : fneedle) (pos : N) : res N :=
  match fam, k with
  | Find, FFs => find_arr s (buf o) (len o) pos
  | Find, FS x => find_arr s (carr x) (nlen x) pos
  | Find, FPC cs n => find_arr s (carr cs) n pos
  | Find, FC cs => find_arr s (carr cs) (cstrlen cs) pos
  | Find, FCh ch => find_ch s ch pos
  | RFind, FFs => rfind_arr s (buf o) (len o) pos
  | RFind, FS x => rfind_arr s (carr x) (nlen x) pos
  | RFind, FPC cs n => rfind_pc s cs pos n
  | RFind, FC cs => rfind_pc s cs pos (cstrlen cs)
  | RFind, FCh ch => rfind_ch s ch pos
  | FFO, FFs => first_of s (in_cstr s (buf o) false) pos (len o)
  | FFO, FS x => first_of s (in_cstr s (carr x) false) pos (nlen x)
  | FFO, FPC cs n => first_of s (in_chars s (carr cs) n false) pos n
  | FFO, FC cs => first_of s (in_cstr s (carr cs) false) pos (cstrlen cs)
  | FFO, FCh ch => first_of_ch s (is_ch s ch false) pos
  | FFNO, FFs => first_of s (in_cstr s (buf o) true) pos (len o)
  | FFNO, FS x => first_of s (in_cstr s (carr x) true) pos (nlen x)
  | FFNO, FPC cs n => first_of s (in_chars s (carr cs) n true) pos n
  | FFNO, FC cs => first_of s (in_cstr s (carr cs) true) pos (cstrlen cs)
  | FFNO, FCh ch => first_of_ch s (is_ch s ch true) pos
  | FLO, FFs => last_of_impl s (in_cstr s (buf o) false) pos (len o)
  | FLO, FS x => last_of_impl s (in_cstr s (carr x) false) pos (nlen x)
  | FLO, FPC cs n => last_of_pc s (in_chars s (carr cs) n false) pos n
  | FLO, FC cs => last_of_impl s (in_cstr s (carr cs) false) pos (cstrlen cs)
  | FLO, FCh ch => last_of_ch s (is_ch s ch false) pos
  | FLNO, FFs => last_of_impl s (in_cstr s (buf o) true) pos (len o)
  | FLNO, FS x => last_of_impl s (in_cstr s (carr x) true) pos (nlen x)
  | FLNO, FPC cs n => last_of_pc s (in_chars s (carr cs) n true) pos n
  | FLNO, FC cs => last_of_impl s (in_cstr s (carr cs) true) pos (cstrlen cs)
  | FLNO, FCh ch => last_of_ch s (is_ch s ch true) pos
  end.

(* ------------------------------------------------------------------ *)
(** * element access, relational operators, iteration *)

Definition at_ (s : fs) (idx : N) : res byte :=
  if len s <? idx then Err EOutOfRange else rd (buf s) idx.

Definition back (s : fs) : res byte :=
  rd (buf s) (if len s =? 0 then 0 else len s -! 1).

Definition str (s : fs) : res (list byte) :=
  if 0 <? len s then rdn (buf s) 0 (len s) else Ok [].

Definition eq_op (s o : fs) : res bool :=
  if len s =? len o then do c <- mcmp (buf s) 0 (buf o) 0 (len s); Ok (is_eq c) else Ok false.

Definition ne_op (s o : fs) : res bool :=
  if negb (len s =? len o) then Ok true
  else do c <- mcmp (buf s) 0 (buf o) 0 (len s); Ok (negb (is_eq c)).

(** iterator stepping (fixed_string_iterator.hpp / fixed_string_reverse_iterator.hpp):
    mIndex, with EndValue = 2^64-1 *)
Definition it_begin (s : fs) : N := if len s =? 0 then NPOS else 0.
Definition it_inc (s : fs) (i : N) : N := if i <? len s -! 1 then i +! 1 else NPOS.
Definition it_dec (i : N) : N := if 0 <? i then i -! 1 else NPOS.
(** FixedStringIterator::operator--: end() steps to the last character *)
Definition it_prev (s : fs) (i : N) : N :=
  if i =? NPOS then (if len s =? 0 then i else len s -! 1) else it_dec i.
(** FixedStringReverseIterator::operator++ (rend() stays) and operator-- (rend() steps to the first character) *)
Definition rit_inc (i : N) : N := if i =? NPOS then i else it_dec i.
Definition rit_dec (s : fs) (i : N) : N :=
  if i =? NPOS then (if len s =? 0 then i else 0) else it_inc s i.
Definition it_add (s : fs) (i v : N) : N :=
  if i =? NPOS then i else if i +! v <? len s then i +! v else NPOS.
Definition it_sub (i v : N) : N := if i =? NPOS then i else if v <=? i then i -! v else NPOS.
(** FixedStringIterator::operator-= : from end() it steps back into the string *)
Definition it_back (s : fs) (i v : N) : N :=
  if i =? NPOS then (if (0 <? v) && (v <=? len s) then len s -! v else i)
  else if v <=? i then i -! v else NPOS.
(** FixedStringReverseIterator::operator-= : from rend() it steps back into the string *)
Definition rit_back (s : fs) (i v : N) : N :=
  if i =? NPOS then (if (0 <? v) && (v <=? len s) then v -! 1 else i)
  else if i +! v <? len s then i +! v else NPOS.
Definition it_deref (s : fs) (i : N) : res byte := if i =? NPOS then Err ERange else rd (buf s) i.
Definition rit_begin (s : fs) : N := if len s =? 0 then NPOS else len s -! 1.

(** one step of an iterator created at [pos], then operator* (range_error at the end position) *)
Definition it_step (s : fs) (rev : bool) (pos : N) (k : itk) (v : N) : res (N * option byte) :=
  let i0 := it_at s pos in
  let i := match rev, k with
           | false, KInc => it_inc s i0
           | false, KDec => it_prev s i0
           | false, KAdd => it_add s i0 v
           | false, KSub => it_back s i0 v
           | true, KInc => rit_inc i0
           | true, KDec => rit_dec s i0
           | true, KAdd => it_sub i0 v
           | true, KSub => rit_back s i0 v
           end in
  if i =? NPOS then Ok (i, None) else do c <- rd (buf s) i; Ok (i, Some c).

(** for (it = begin(); it != end(); ++it) out += *it; *)
Fixpoint walk (fu : nat) (s : fs) (next : N -> N) (i : N) (acc : list byte) : res (list byte) :=
  match fu with
  | O => Fault Fuel
  | S f =>
      if i =? NPOS then Ok (rev acc)
      else do c <- it_deref s i; walk f s next (next i) (c :: acc)
  end.

(* ------------------------------------------------------------------ *)
(** * one scripted step on the pair (object, other object) *)

Definition needle_arr (o : fs) (k : needle) : list byte * N :=
  match k with
  | NFs => (buf o, len o)
  | NS x => (carr x, nlen x)
  | NC cs => (carr cs, cstrlen cs)
  | NCh ch => ([ch; 0], 1)
  end.

Definition upd (o : fs) (r : res fs) : res (fs * fs * ret) :=
  do s' <- r; Ok (s', o, RNone).

Definition obs {A} (s o : fs) (mk : A -> ret) (r : res A) : res (fs * fs * ret) :=
  match r with
  | Ok a => Ok (s, o, mk a)
  | Err e => Ok (s, o, RExc e)
  | Fault f => Fault f
  end.

Definition step (s o : fs) (x : op) : res (fs * fs * ret) :=
  match x with
  | OAsgC cs => upd o (assign_arr s (carr cs) (cstrlen cs))
  | OAsgS x => upd o (assign_arr s (carr x) (nlen x))
  | OAsgFs => upd o (assign_arr s (buf o) (len o))
  | OCtorC cs => upd o (assign_arr zero_fs (carr cs) (cstrlen cs))
  | OCtorS x => upd o (assign_arr zero_fs (carr x) (nlen x))
  | OCtorMv => upd o (ctor_mv o)
  | OCtorCp => upd o (Ok o)
  | OCtorFs => upd o (assign_arr zero_fs (buf o) (len o))
  | OInsNC i c ch => upd o (insert_nc s i c ch)
  | OInsPC i cs k => upd o (insert_pc s i (carr cs) k)
  | OInsC i cs => upd o (insert_pc s i (carr cs) (cstrlen cs))
  | OInsS i x => upd o (insert_pc s i (carr x) (nlen x))
  | OInsSS i x is k => upd o (insert_ss s i x is k)
  | OInsFs i => upd o (insert_pc s i (buf o) (len o))
  | OInsFss i is k => upd o (insert_fss s o i is k)
  | OInsIt p ch => do r <- insert_it s p 1 ch; Ok (fst r, o, RIter (snd r))
  | OInsItN p c ch => do r <- insert_it s p c ch; Ok (fst r, o, RIter (snd r))
  | OErase i c => upd o (erase s i c)
  | OEraseIt p => do r <- erase_it s p; Ok (fst r, o, RIter (snd r))
  | OEraseItr p q => do r <- erase_itr s p q; Ok (fst r, o, RIter (snd r))
  | OPush ch => upd o (push_back s ch)
  | OPop => upd o (pop_back s)
  | OAppNC c ch => upd o (append_nc s c ch)
  | OPeCh ch => upd o (append_nc s 1 ch)
  | OAppS x => upd o (append_impl s (carr x) 0 (nlen x))
  | OAppFs => upd o (append_impl s (buf o) 0 (len o))
  | OAppSS x p c => upd o (append_ss s x p c)
  | OAppFss p c => upd o (append_fss s o p c)
  | OAppPC cs k => upd o (append_impl s (carr cs) 0 (N.min k (cstrlen cs)))
  | OAppC cs => upd o (append_impl s (carr cs) 0 (cstrlen cs))
  | OAppIt p q => upd o (append_it s o p q)
  | OSprintf x => upd o (sprintf_ s x)
  | OSprintfFail wide x => upd o (sprintf_fail s (glibc_partial wide x))
  | ORepFs p c => upd o (replace_impl s p c (buf o) 0 (len o))
  | ORepS p c x => upd o (replace_impl s p c (carr x) 0 (nlen x))
  | ORepFss p c p2 c2 => upd o (replace_sub s p c (buf o) (len o) p2 c2)
  | ORepSS p c x p2 c2 => upd o (replace_sub s p c (carr x) (nlen x) p2 c2)
  | ORepC p c cs => upd o (replace_impl s p c (carr cs) 0 (cstrlen cs))
  | ORepPC p c cs c2 => upd o (replace_impl s p c (carr cs) 0 (N.min c2 (cstrlen cs)))
  | ORepNC p c c2 ch => upd o (replace_nc s p c c2 ch)
  | OSwap => do r <- swap s o; Ok (fst r, snd r, RNone)
  | OClear => upd o (clear s)
  | OCmpFs => obs s o RCmp (full_compare s (buf o) (len o))
  | OCmpS x => obs s o RCmp (full_compare s (carr x) (nlen x))
  | OCmpC cs => obs s o RCmp (full_compare s (carr cs) (cstrlen cs))
  | OCmppFs p c => obs s o RCmp (part_compare s p c (buf o) (len o))
  | OCmppS p c x => obs s o RCmp (part_compare s p c (carr x) (nlen x))
  | OCmppC p c cs => obs s o RCmp (part_compare s p c (carr cs) (cstrlen cs))
  | OCmpppFs p c p2 c2 => obs s o RCmp (part_part_compare s p c (buf o) (len o) p2 c2)
  | OCmpppS p c x p2 c2 => obs s o RCmp (part_part_compare s p c (carr x) (nlen x) p2 c2)
  | OCmpppC p c cs c2 => obs s o RCmp (part_part_compare s p c (carr cs) (cstrlen cs) 0 c2)
  | OSw (NCh ch) => obs s o RBool (starts_with_ch s ch)
  | OSw k => let '(a, n) := needle_arr o k in obs s o RBool (starts_with_impl s a n)
  | OEw (NCh ch) => obs s o RBool (ends_with_ch s ch)
  | OEw k => let '(a, n) := needle_arr o k in obs s o RBool (ends_with_impl s a n)
  | OCt (NCh ch) => obs s o RBool (contains_ch s ch)
  | OCt k => let '(a, n) := needle_arr o k in obs s o RBool (contains_impl s a n)
  | OSubstr p c => obs s o RStr (substr s p c)
  | OCopy c p =>
      let room := if p <? len s then N.min c (len s - p) else 0 in
      obs s o (fun r => RCopy (fst r) (snd r)) (copy s room c p)
  | OAt i => obs s o RChar (at_ s i)
  | OFront => obs s o RChar (rd (buf s) 0)
  | OBack => obs s o RChar (back s)
  | OLen => Ok (s, o, RSize (len s))
  | OEmpty => Ok (s, o, RBool (len s =? 0))
  | OStr => obs s o RStr (str s)
  | OEq => obs s o RBool (eq_op s o)
  | ONe => obs s o RBool (ne_op s o)
  | OItF => obs s o RStr (walk fuel s (it_inc s) (it_begin s) [])
  | OItR => obs s o RStr (walk fuel s it_dec (rit_begin s) [])
  | OFind fam k pos => obs s o RSize (find_op s o fam k pos)
  | OIt rev pos k v => obs s o (fun r => RItD (fst r) (snd r)) (it_step s rev pos k v)
  end.

(** what the caller owes (C10): a (pointer, count) argument is readable for
    count characters (the terminator may be one of them); iterator pairs are
    valid ranges of the other object *)
Definition pre_A (s o : fs) (x : op) : bool :=
  match x with
  | OInsPC _ cs k => k <=? nlen cs + 1
  | OFind _ (FPC cs k) _ => k <=? nlen cs + 1
  | OAppIt p q => (p <=? q) && (q <=? len o)
  | _ => true
  end.

End FS.

(** The other object may be a FixedString of a different capacity S.  The
    operations that exist only between objects of the same type (move / copy
    constructor, swap, append( first, last) with const_iterators, the find family
    with a FixedString needle) are then not available; the converting constructor
    FixedString( const FixedString< S>&) is chosen only when S differs. *)
Definition mixed_ok (x : op) : bool :=
  match x with
  | OCtorMv | OCtorCp | OSwap | OAppIt _ _ | OFind _ FFs _ => false
  | _ => true
  end.

Definition cap_ok (same : bool) (x : op) : bool :=
  if same then (match x with OCtorFs => false | _ => true end) else mixed_ok x.

(** constructor from a C string on a fresh object (used for the initial states) *)
Definition fs_init (L : N) (cs : list byte) : res fs :=
  assign_arr L (zero_fs L) (carr cs) (cstrlen cs).
