(** C11 over histories: running any list of operations on the objects and on
    std::string texts (cut at L after every step) side by side, skipping the
    steps outside the domain on both sides, gives the same texts and the same
    observed values. *)
From Coq Require Import List NArith Bool Lia ZifyNat ZifyN ZifyBool.
Import ListNotations.
Require Import Celma.Common.Res Celma.FixedStr.FsBase Celma.FixedStr.FsModel
  Celma.FixedStr.FsLemmas Celma.FixedStr.FsSafe Celma.FixedStr.FsSafeObs Celma.FixedStr.FsSafeAll
  Celma.FixedStr.FsStd Celma.FixedStr.FsRefine Celma.FixedStr.FsRefine3 Celma.FixedStr.FsRefine4
  Celma.FixedStr.FsRefine5 Celma.FixedStr.FsRefine6.
Local Open Scope N_scope.

(** the domain as a boolean function of the two texts and the operation *)
Definition cstr_okb (l : list byte) : bool := cstrlen l =? nlen l.

Definition cstrs_okb (x : op) : bool := forallb cstr_okb (op_cstrs x).

Definition find_okb (s os : list byte) (x : op) : bool :=
  match x with
  | OFind Find _ _ | OFind RFind _ _ => true
  | OFind _ FFs _ => cstr_okb s && cstr_okb os
  | OFind _ (FS y) _ => cstr_okb s && cstr_okb y
  | OFind _ (FC _) _ => cstr_okb s
  | _ => true
  end.

Definition in_dom (same : bool) (s os : list byte) (x : op) : bool :=
  cap_ok same x && cstrs_okb x && find_okb s os x &&
  match std_step s os x with Some _ => true | None => false end.

(** what a caller observes of a step: the value of an observer *)
Definition observed (x : op) (r : ret) : ret := if is_mutator x then RNone else r.

Lemma cstr_okb_ok l : cstr_okb l = true -> cstr_ok l.
Proof. unfold cstr_okb, cstr_ok. intros H. apply N.eqb_eq. assumption. Qed.

Lemma cstrs_okb_ok x : cstrs_okb x = true -> CstrsOk x.
Proof.
  unfold cstrs_okb, CstrsOk. intros H. apply Forall_forall. intros l Hl.
  apply cstr_okb_ok. rewrite forallb_forall in H. apply H. assumption.
Qed.

Lemma find_okb_ok s o x : find_okb (abs s) (abs o) x = true -> FindOk s o x.
Proof.
  destruct x; cbn; try (intros; exact I).
  destruct fam, k; cbn; intros H; try exact I;
    try (apply andb_true_iff in H; destruct H as [H1 H2]; split);
    apply cstr_okb_ok; assumption.
Qed.

Section Refine7.
(** capacity of the object and of the other object *)
Variable L : N.
Hypothesis HL : CapOk L.
Variable Lo : N.
Hypothesis HLo : CapOk Lo.

(** the arguments of an operation inside the domain satisfy the caller contract of C10 *)
Lemma dom_pre_A s o x r : Inv Lo o -> std_step (abs s) (abs o) x = Some r -> pre_A s o x = true.
Proof.
  intros Ho H. pose proof (abs_len Lo o Ho) as Lao.
  destruct x; cbn [pre_A]; try reflexivity;
    cbn [std_step] in H; cbv zeta in H; unfold guard in H;
    match type of H with (if ?c then _ else _) = _ => destruct c eqn:D; [|discriminate] end;
    try (destruct k; try reflexivity); rewrite ?Lao in *; lia.
Qed.

Fixpoint run_D (s o : fs) (ops : list op) : res (fs * fs * list ret) :=
  match ops with
  | [] => Ok (s, o, [])
  | x :: rest =>
      if in_dom (Lo =? L) (abs s) (abs o) x then
        do r <- step L s o x;
        let '(s', o', v) := r in
        do q <- run_D s' o' rest;
        let '(s'', o'', vs) := q in
        Ok (s'', o'', observed x v :: vs)
      else run_D s o rest
  end.

Fixpoint std_run (s os : list byte) (ops : list op) : list byte * list byte * list ret :=
  match ops with
  | [] => (s, os, [])
  | x :: rest =>
      if in_dom (Lo =? L) s os x then
        match std_step s os x with
        | Some (s', os', r) =>
            let '(a, b, vs) := std_run (cut L s') (cut Lo os') rest in (a, b, observed x r :: vs)
        | None => std_run s os rest
        end
      else std_run s os rest
  end.

Theorem history_refines ops : forall s o,
  Inv L s -> Inv Lo o -> Forall Bounded ops ->
  exists s' o' vs, run_D s o ops = Ok (s', o', vs) /\ Inv L s' /\ Inv Lo o' /\
                   std_run (abs s) (abs o) ops = (abs s', abs o', vs).
Proof.
  induction ops as [|x rest IH]; intros s o Hs Ho HB; cbn [run_D std_run].
  - eexists _, _, _. split; [reflexivity|]. split; [assumption|]. split; [assumption|reflexivity].
  - apply Forall_cons_iff in HB. destruct HB as [Hx Hrest].
    destruct (in_dom (Lo =? L) (abs s) (abs o) x) eqn:D; [|apply IH; assumption].
    unfold in_dom in D. apply andb_true_iff in D. destruct D as [D Dstd].
    apply andb_true_iff in D. destruct D as [D Df]. apply andb_true_iff in D. destruct D as [Dcap Dc].
    destruct (std_step (abs s) (abs o) x) as [[[cs' cos'] rs]|] eqn:Hstd; [|discriminate].
    destruct (step_refines L HL Lo HLo s o x Hs Ho Hx (cstrs_okb_ok x Dc) (find_okb_ok s o x Df) Dcap cs' cos' rs Hstd)
      as (s1 & o1 & r & E & A1 & A2 & Hobs).
    destruct (step_safe L HL Lo HLo s o x Hs Ho Hx (dom_pre_A s o x _ Ho Hstd) Dcap) as (s2 & o2 & v2 & E2 & Hs1 & Ho1).
    rewrite E in E2. injection E2 as <- <- <-.
    rewrite E. cbn [bind].
    destruct (IH s1 o1 Hs1 Ho1 Hrest) as (s' & o' & vs & Er & Hs' & Ho' & Hr).
    rewrite Er. cbn [bind]. eexists _, _, _. split; [reflexivity|]. split; [assumption|]. split; [assumption|].
    rewrite <- A1, <- A2, Hr. f_equal. f_equal.
    unfold observed. destruct (is_mutator x) eqn:Hm; [reflexivity|].
    destruct (Hobs eq_refl) as (-> & _). reflexivity.
Qed.

End Refine7.
