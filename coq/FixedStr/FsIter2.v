(** C11: a single step (++, --, += v, -= v) of a FixedString iterator or reverse
    iterator, followed by operator*, agrees with the same step of a std::string
    iterator wherever that step is defined. *)
From Coq Require Import List NArith Bool Lia ZifyNat ZifyN ZifyBool.
Import ListNotations.
Require Import Celma.Common.Res Celma.FixedStr.FsBase Celma.FixedStr.FsModel
  Celma.FixedStr.FsLemmas Celma.FixedStr.FsSafe Celma.FixedStr.FsSafeObs Celma.FixedStr.FsStd
  Celma.FixedStr.FsRefine Celma.FixedStr.FsIter Celma.FixedStr.FsFind2.
Local Open Scope N_scope.

Section Iter2.
Variable L : N.
Hypothesis HL : CapOk L.

Ltac arith := unfold NPOS, M64 in *; lia.

(** result of the specification for the new offset [noff] (from begin() / rbegin()) *)
Definition it_expected (s : list byte) (rv : bool) (noff : N) : N * option byte :=
  if noff =? nlen s then (NPOS, None)
  else let i := if rv then nlen s - 1 - noff else noff in (i, Some (nthN i s)).

Ltac crunch :=
  repeat first
    [ match goal with
      | |- context [?a -! ?b] => rewrite (sub64_small a b) by arith
      | |- context [?a +! ?b] => rewrite (add64_small a b) by arith
      | |- context [(?a <? ?b) && _] => destruct (N.ltb_spec a b); cbn [andb]; try arith
      | |- context [if ?a <? ?b then _ else _] => destruct (N.ltb_spec a b); try arith
      | |- context [if ?a <=? ?b then _ else _] => destruct (N.leb_spec a b); try arith
      end
    | match goal with
      | |- context [if ?a =? ?b then _ else _] => destruct (N.eqb_spec a b); try arith
      end ].

Lemma it_step_refines (s : fs) (rv : bool) (pos : N) (k : itk) (v : N) :
  Inv L s -> v < M64 -> pos < M64 ->
  let ln := len s in
  let off := if ln <=? pos then ln else if rv then ln - 1 - pos else pos in
  (match k with KInc => off <? ln | KDec => 0 <? off | KAdd => v <=? ln - off | KSub => v <=? off end) = true ->
  it_step s rv pos k v =
    Ok (it_expected (abs s) rv
          (match k with KInc => off + 1 | KDec => off - 1 | KAdd => off + v | KSub => off - v end)).
Proof.
  intros Hs Hv Hp ln off Hd. pose proof Hs as (Hb & Hl & Hz). pose proof HL as [HL1 HL2].
  pose proof (abs_len L s Hs) as Las.
  unfold it_step, it_expected, it_at. cbv zeta. rewrite Las. subst ln off.
  destruct (N.leb_spec (len s) pos) as [Hge|Hlt]; destruct rv, k;
    (apply N.ltb_lt in Hd || apply N.leb_le in Hd);
    unfold rit_dec, rit_inc, it_prev, rit_back, it_back;
    unfold it_inc, it_add, it_sub, it_dec;
    crunch; try arith; try reflexivity;
    try (rewrite rd_ok by arith; cbn [bind]; rewrite (abs_nth L s) by (assumption || arith);
         match goal with |- Ok (?a, Some (nthN ?a ?X)) = Ok (?b, Some (nthN ?b ?X)) =>
           replace b with a by arith; reflexivity end);
    try (exfalso;
         repeat match goal with H : context [if ?a <? ?b then _ else _] |- _ => destruct (N.ltb_spec a b) end;
         arith).
Qed.

End Iter2.
