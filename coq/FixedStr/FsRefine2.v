(** C11, second part: sprintf, replace, swap. *)
From Coq Require Import List NArith Bool Lia ZifyNat ZifyN ZifyBool.
Import ListNotations.
Require Import Celma.Common.Res Celma.FixedStr.FsBase Celma.FixedStr.FsModel
  Celma.FixedStr.FsLemmas Celma.FixedStr.FsSafe Celma.FixedStr.FsSafeObs Celma.FixedStr.FsStd
  Celma.FixedStr.FsRefine Celma.FixedStr.FsRefine2a.
Local Open Scope N_scope.

Lemma take_blit_prefix (b : list byte) d src : d + nlen src <= nlen b -> take d (blit b d src) = take d b.
Proof. intros H. pw. Qed.

Lemma take_blit_0 (b : list byte) src rest :
  nlen src + nlen rest <= nlen b -> take (nlen src) (blit b 0 (src ++ rest)) = src.
Proof.
  intros H. unfold blit. rewrite take_0. cbn [app]. rewrite <- app_assoc.
  rewrite take_app_l by lia. apply take_all. lia.
Qed.

Section Refine2.
Variable L : N.
Hypothesis HL : CapOk L.

Lemma sprintf_refines s text :
  Inv L s -> exists s', sprintf_ L s text = Ok s' /\ abs s' = cut L (take (cstrlen text) text).
Proof.
  intros (Hb & Hl & Hz). pose proof HL as [HL1 HL2]. unfold sprintf_. cbv zeta.
  pose proof (cstrlen_le text) as Hc.
  set (k := N.min (cstrlen text) L).
  assert (Hk : nlen (take k text) = k) by (rewrite nlen_take; unfold k; lia).
  assert (H1 : nlen (take k text ++ [0]) = k + 1) by (rewrite nlen_app, Hk; reflexivity).
  rewrite mcpy_blit by (rewrite ?H1; unfold k; lia). cbn [bind].
  rewrite drop_0, (take_all (k + 1)) by lia.
  assert (Hb1 : nlen (blit (buf s) 0 (take k text ++ [0])) = L + 1)
    by (rewrite nlen_blit; rewrite ?H1; unfold k; lia).
  rewrite (fin_blit L HL) by (assumption || lia).
  eexists; split; [reflexivity|]. unfold abs, cut. cbn [buf len].
  replace (N.min L (cstrlen text)) with k by (unfold k; lia).
  rewrite take_blit_prefix by (rewrite Hb1; change (nlen [0]) with 1; unfold k; lia).
  rewrite <- Hk at 1. rewrite take_blit_0 by (rewrite Hk, Hb; change (nlen [0]) with 1; unfold k; lia).
  rewrite take_take. f_equal. unfold k. lia.
Qed.

Lemma replace_impl_refines s pos1 count1 arr pos2 count2 :
  Inv L s -> pos1 <= len s -> count1 < M64 -> pos2 < M64 -> count2 < M64 ->
  pos2 + count2 <= nlen arr ->
  exists s', replace_impl L s pos1 count1 arr pos2 count2 = Ok s' /\
             abs s' = cut L (std_replace (abs s) pos1 count1 (take count2 (drop pos2 arr))).
Proof.
  intros (Hb & Hl & Hz) H1 H2 H3 H4 Ha. pose proof HL as [HL1 HL2]. unfold replace_impl. cbv zeta.
  destruct (N.ltb_spec (len s) pos1); [lia|]. s64.
  assert (LA : nlen (abs s) = len s) by (unfold abs; nl; lia).
  assert (LI : nlen (take count2 (drop pos2 arr)) = count2) by (nl; lia).
  rewrite (cut_replace (abs s) (take count2 (drop pos2 arr)) L pos1 count1) by lia.
  rewrite LA, LI.
  set (c1 := if len s - pos1 <? count1 then len s - pos1 else count1).
  assert (Hc1 : c1 = N.min count1 (len s - pos1))
    by (unfold c1; destruct (N.ltb_spec (len s - pos1) count1); lia).
  rewrite <- Hc1. clearbody c1.
  set (cl := if L - pos1 <? count2 then L - pos1 else count2).
  assert (Hcl : cl = N.min count2 (L - pos1))
    by (unfold cl; destruct (N.ltb_spec (L - pos1) count2); lia).
  rewrite <- Hcl. clearbody cl.
  rewrite take_take. replace (N.min cl count2) with cl by lia.
  destruct (N.eqb_spec c1 cl) as [E|E]; cbn [bind].
  - rewrite mcpy_blit by len_side. cbn [bind buf len].
    eexists; split; [reflexivity|]. rewrite <- E in *. clear E.
    replace (N.min (len s - pos1 - c1) (L - pos1 - c1)) with (len s - pos1 - c1) by lia.
    unfold abs. cbn [buf len]. apply (replace_same_buffer (buf s) arr L (len s)); lia.
  - s64.
    set (rest := if L - pos1 - cl <? len s - pos1 - c1 then L - pos1 - cl else len s - pos1 - c1).
    assert (Hrest : rest = N.min (len s - pos1 - c1) (L - pos1 - cl))
      by (unfold rest; destruct (N.ltb_spec (L - pos1 - cl) (len s - pos1 - c1)); lia).
    rewrite <- Hrest. clearbody rest.
    rewrite mmove_blit by len_side. cbn [bind]. s64. rewrite (fin_blit L HL) by len_side.
    cbn [bind buf len].
    rewrite mcpy_blit by len_side. cbn [bind].
    eexists; split; [reflexivity|]. unfold abs. cbn [buf len].
    apply (replace_buffer (buf s) arr L (len s)); lia.
Qed.

Lemma swap_refines s o :
  Inv L s -> Inv L o ->
  exists s' o', swap L s o = Ok (s', o') /\ abs s' = abs o /\ abs o' = abs s.
Proof.
  intros (Hb & Hl & Hz) (Hbo & Hlo & Hzo). pose proof HL as [HL1 HL2]. unfold swap. cbv zeta.
  destruct (N.eqb_spec (len s) 0) as [E0|E0].
  - destruct (N.ltb_spec 0 (len o)).
    + s64. rewrite mcpy_blit by len_side. cbn [bind]. rewrite wr_blit by len_side. cbn [bind].
      rewrite !trunc_id by (assumption || lia).
      eexists _, _; split; [reflexivity|]. unfold abs. cbn [buf len]. rewrite E0. split; [abstract pw|].
      rewrite !take_0. reflexivity.
    + eexists _, _; split; [reflexivity|]. unfold abs. rewrite E0. replace (len o) with 0 by lia.
      rewrite !take_0. split; reflexivity.
  - destruct (N.eqb_spec (len o) 0) as [Eo|Eo].
    + s64. rewrite mcpy_blit by len_side. cbn [bind]. rewrite wr_blit by len_side. cbn [bind].
      rewrite !trunc_id by (assumption || lia).
      eexists _, _; split; [reflexivity|]. unfold abs. cbn [buf len]. rewrite Eo. split; [|abstract pw].
      rewrite !take_0. reflexivity.
    + s64. assert (Hr : nlen (rep 0 (L + 1)) = L + 1) by apply nlen_rep.
      rewrite (mcpy_blit (rep 0 (L + 1))) by len_side. cbn [bind].
      rewrite (mcpy_blit (buf s)) by len_side. cbn [bind].
      rewrite (mcpy_blit (buf o)) by len_side. cbn [bind].
      rewrite !trunc_id by (assumption || lia).
      eexists _, _; split; [reflexivity|]. unfold abs. cbn [buf len]. split; abstract pw.
Qed.

End Refine2.
