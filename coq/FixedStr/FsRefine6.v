(** C11: one statement for every operation of [step], and for histories. *)
From Coq Require Import List NArith Bool Lia ZifyNat ZifyN ZifyBool.
Import ListNotations.
Require Import Celma.Common.Res Celma.FixedStr.FsBase Celma.FixedStr.FsModel
  Celma.FixedStr.FsLemmas Celma.FixedStr.FsSafe Celma.FixedStr.FsSafeObs Celma.FixedStr.FsSafeAll
  Celma.FixedStr.FsStd Celma.FixedStr.FsRefine Celma.FixedStr.FsRefine3 Celma.FixedStr.FsRefine4
  Celma.FixedStr.FsRefine5.
Local Open Scope N_scope.

Lemma observer_kinds x : is_mutator x = false -> is_proved_obs x = true \/ is_search x = true.
Proof. destruct x; cbn; intros H; try discriminate; auto. Qed.

Section Refine6.
(** capacity of the object and of the other object *)
Variable L : N.
Hypothesis HL : CapOk L.
Variable Lo : N.
Hypothesis HLo : CapOk Lo.

(** every observing operation *)
Theorem obs_all_refines s o x :
  Inv L s -> Inv Lo o -> Bounded x -> CstrsOk x -> FindOk s o x -> cap_ok (Lo =? L) x = true ->
  is_mutator x = false ->
  forall cs' cos' rs, std_step (abs s) (abs o) x = Some (cs', cos', rs) ->
  step L s o x = Ok (s, o, rs) /\ cs' = abs s /\ cos' = abs o.
Proof.
  intros Hs Ho HB HC HF Hcap Hm cs' cos' rs Hstd.
  destruct (observer_kinds x Hm) as [H|H].
  - apply (obs_refines L HL Lo HLo s o x Hs Ho HB HC H cs' cos' rs Hstd).
  - apply (search_refines L HL Lo HLo s o x Hs Ho HB HC HF Hcap H cs' cos' rs Hstd).
Qed.

(** every operation: the texts after the step are the texts of the specification
    cut at L; an observing operation returns the value of the specification and
    changes nothing *)
Theorem step_refines s o x :
  Inv L s -> Inv Lo o -> Bounded x -> CstrsOk x -> FindOk s o x -> cap_ok (Lo =? L) x = true ->
  forall cs' cos' rs, std_step (abs s) (abs o) x = Some (cs', cos', rs) ->
  exists s' o' r, step L s o x = Ok (s', o', r) /\ abs s' = cut L cs' /\ abs o' = cut Lo cos' /\
                  (is_mutator x = false -> r = rs /\ s' = s /\ o' = o).
Proof.
  intros Hs Ho HB HC HF Hcap cs' cos' rs Hstd. destruct (is_mutator x) eqn:Hm.
  - destruct (mut_refines L HL Lo HLo s o x Hs Ho HB HC Hcap Hm cs' cos' rs Hstd) as (s' & o' & r & E & A1 & A2).
    exists s', o', r. repeat split; try assumption; discriminate.
  - destruct (obs_all_refines s o x Hs Ho HB HC HF Hcap Hm cs' cos' rs Hstd) as (E & -> & ->).
    exists s, o, rs. split; [assumption|]. split; [symmetry; apply (cut_abs L s Hs)|].
    split; [symmetry; apply (cut_abs Lo o Ho)|]. intros _. repeat split.
Qed.

End Refine6.
