(** Specification side of C11: the std::string operations, written from the
    C++ standard ([string.modifiers], [string.ops]) on [list byte], and the
    documented domain.  [std_step s os x] is what the operation [x] does on a
    std::string holding [s] (other operand: a std::string holding [os]);
    [None] = outside the domain (the std::string counterpart throws, or one of
    the restrictions listed below applies).  These functions are validated
    against the real std::string by the correspondence check.  No proofs here.

    Domain restrictions beyond "std::string does not throw":
    - (pointer, count) arguments: count <= strlen of the C string
    - find family: non-empty needle; start position inside the string, or the
      default of the overload (0 for the forward, npos for the backward searches)
    - contains: non-empty needle
    - iterator arguments: obtained from the object, valid ranges, insert/erase
      position not end() (documented as invalid by the class)
    - pop_back/front/back: non-empty string; at(i): i < length *)
From Coq Require Import List NArith Bool.
Import ListNotations.
Require Import Celma.Common.Res Celma.FixedStr.FsBase Celma.FixedStr.FsModel.
Local Open Scope N_scope.

Definition cut (L : N) (x : list byte) : list byte := take L x.

Definition std_insert (s : list byte) (idx : N) (ins : list byte) : list byte :=
  take idx s ++ ins ++ drop idx s.

Definition std_erase (s : list byte) (idx cnt : N) : list byte :=
  take idx s ++ drop (idx + N.min cnt (nlen s - idx)) s.

Definition std_substr (x : list byte) (pos cnt : N) : list byte :=
  take (N.min cnt (nlen x - pos)) (drop pos x).

Definition std_replace (s : list byte) (pos cnt : N) (ins : list byte) : list byte :=
  take pos s ++ ins ++ drop (pos + N.min cnt (nlen s - pos)) s.

(** traits::compare on the common prefix, then the lengths *)
Fixpoint lex (a b : list byte) : comparison :=
  match a, b with
  | [], [] => Eq
  | [], _ => Lt
  | _, [] => Gt
  | x :: a', y :: b' => match x ?= y with Eq => lex a' b' | c => c end
  end.

Fixpoint prefixb (p l : list byte) : bool :=
  match p, l with
  | [], _ => true
  | x :: p', y :: l' => (x =? y) && prefixb p' l'
  | _, [] => false
  end.

Definition suffixb (p l : list byte) : bool := prefixb (rev p) (rev l).

Fixpoint seqN (start : N) (n : nat) : list N :=
  match n with O => [] | S k => start :: seqN (start + 1) k end.

Definition positions (s : list byte) : list N := seqN 0 (length s).

Definition first_where (P : N -> bool) (cands : list N) : N :=
  match find P cands with Some i => i | None => NPOS end.

Definition std_find (s nd : list byte) (pos : N) : N :=
  first_where (fun i => (pos <=? i) && prefixb nd (drop i s)) (positions s).
Definition std_rfind (s nd : list byte) (pos : N) : N :=
  first_where (fun i => (i <=? pos) && prefixb nd (drop i s)) (rev (positions s)).
Definition std_first_of (s chars : list byte) (neg : bool) (pos : N) : N :=
  first_where (fun i => (pos <=? i) && xorb neg (memb (nthN i s) chars)) (positions s).
Definition std_last_of (s chars : list byte) (neg : bool) (pos : N) : N :=
  first_where (fun i => (i <=? pos) && xorb neg (memb (nthN i s) chars)) (rev (positions s)).

Fixpoint list_eqb (a b : list byte) : bool :=
  match a, b with
  | [], [] => true
  | x :: a', y :: b' => (x =? y) && list_eqb a' b'
  | _, _ => false
  end.

Definition needle_str (os : list byte) (k : needle) : list byte :=
  match k with NFs => os | NS x => x | NC cs => cs | NCh ch => [ch] end.

Definition fneedle_str (os : list byte) (k : fneedle) : list byte :=
  match k with FFs => os | FS x => x | FPC cs n => take n cs | FC cs => cs | FCh ch => [ch] end.

(** [rep] for a count that is known to be moderate (larger counts are outside
    the domain: std::string would need that much memory) *)
Definition BIG : N := 1048576.
Definition repc (ch c : N) : list byte := if c <=? BIG then rep ch c else [].

Definition guard {A} (c : bool) (a : A) : option A := if c then Some a else None.

Definition std_step (s os : list byte) (x : op) : option (list byte * list byte * ret) :=
  let ln := nlen s in
  let lo := nlen os in
  let mut c s' := guard c (s', os, RNone) in
  let obs c r := guard c (s, os, r) in
  match x with
  | OAsgC cs | OCtorC cs => mut true cs
  | OAsgS x | OCtorS x => mut true x
  | OAsgFs | OCtorMv | OCtorCp | OCtorFs => mut true os
  | OInsNC i c ch => mut ((i <=? ln) && (c <=? BIG)) (std_insert s i (repc ch c))
  | OInsPC i cs k => mut ((i <=? ln) && (k <=? nlen cs)) (std_insert s i (take k cs))
  | OInsC i cs => mut (i <=? ln) (std_insert s i cs)
  | OInsS i x => mut (i <=? ln) (std_insert s i x)
  | OInsSS i x is k => mut ((i <=? ln) && (is <=? nlen x)) (std_insert s i (std_substr x is k))
  | OInsFs i => mut (i <=? ln) (std_insert s i os)
  | OInsFss i is k => mut ((i <=? ln) && (is <=? lo)) (std_insert s i (std_substr os is k))
  | OInsIt p ch => mut (p <? ln) (std_insert s p [ch])
  | OInsItN p c ch => mut ((p <? ln) && (c <=? BIG)) (std_insert s p (repc ch c))
  | OErase i c => mut (i <=? ln) (std_erase s i c)
  | OEraseIt p => mut (p <? ln) (std_erase s p 1)
  | OEraseItr p q => mut ((p <=? q) && (q <=? ln) && (p <? ln)) (std_erase s p (q - p))
  | OPush ch | OPeCh ch => mut true (s ++ [ch])
  | OPop => mut (0 <? ln) (take (ln - 1) s)
  | OAppNC c ch => mut (c <=? BIG) (s ++ repc ch c)
  | OAppS x => mut true (s ++ x)
  | OAppFs => mut true (s ++ os)
  | OAppSS x p c => mut (p <=? nlen x) (s ++ std_substr x p c)
  | OAppFss p c => mut (p <=? lo) (s ++ std_substr os p c)
  | OAppPC cs k => mut (k <=? nlen cs) (s ++ take k cs)
  | OAppC cs => mut true (s ++ cs)
  | OAppIt p q => mut ((p <=? q) && (q <=? lo)) (s ++ take (q - p) (drop p os))
  | OSprintf x => mut true (take (cstrlen x) x)
  (* std::string has no sprintf; a failing conversion is specified as "assign the empty string" *)
  | OSprintfFail _ _ => mut true []
  | ORepFs p c => mut (p <=? ln) (std_replace s p c os)
  | ORepS p c x => mut (p <=? ln) (std_replace s p c x)
  | ORepFss p c p2 c2 => mut ((p <=? ln) && (p2 <=? lo)) (std_replace s p c (std_substr os p2 c2))
  | ORepSS p c x p2 c2 => mut ((p <=? ln) && (p2 <=? nlen x)) (std_replace s p c (std_substr x p2 c2))
  | ORepC p c cs => mut (p <=? ln) (std_replace s p c cs)
  | ORepPC p c cs c2 => mut ((p <=? ln) && (c2 <=? nlen cs)) (std_replace s p c (take c2 cs))
  | ORepNC p c c2 ch => mut ((p <=? ln) && (c2 <=? BIG)) (std_replace s p c (repc ch c2))
  | OSwap => Some (os, s, RNone)
  | OClear => mut true []
  | OCmpFs => obs true (RCmp (lex s os))
  | OCmpS x => obs true (RCmp (lex s x))
  | OCmpC cs => obs true (RCmp (lex s cs))
  | OCmppFs p c => obs (p <=? ln) (RCmp (lex (std_substr s p c) os))
  | OCmppS p c x => obs (p <=? ln) (RCmp (lex (std_substr s p c) x))
  | OCmppC p c cs => obs (p <=? ln) (RCmp (lex (std_substr s p c) cs))
  | OCmpppFs p c p2 c2 => obs ((p <=? ln) && (p2 <=? lo)) (RCmp (lex (std_substr s p c) (std_substr os p2 c2)))
  | OCmpppS p c x p2 c2 => obs ((p <=? ln) && (p2 <=? nlen x)) (RCmp (lex (std_substr s p c) (std_substr x p2 c2)))
  | OCmpppC p c cs c2 => obs ((p <=? ln) && (c2 <=? nlen cs)) (RCmp (lex (std_substr s p c) (take c2 cs)))
  | OSw k => obs true (RBool (prefixb (needle_str os k) s))
  | OEw k => obs true (RBool (suffixb (needle_str os k) s))
  | OCt k => let nd := needle_str os k in
             obs (0 <? nlen nd) (RBool (negb (std_find s nd 0 =? NPOS)))
  | OSubstr p c => obs (p <=? ln) (RStr (std_substr s p c))
  | OCopy c p => let r := std_substr s p c in obs (p <=? ln) (RCopy (nlen r) r)
  | OAt i => obs (i <? ln) (RChar (nthN i s))
  | OFront => obs (0 <? ln) (RChar (nthN 0 s))
  | OBack => obs (0 <? ln) (RChar (nthN (ln - 1) s))
  | OLen => obs true (RSize ln)
  | OEmpty => obs true (RBool (ln =? 0))
  | OStr => obs true (RStr s)
  | OEq => obs true (RBool (list_eqb s os))
  | ONe => obs true (RBool (negb (list_eqb s os)))
  | OItF => obs true (RStr s)
  | OItR => obs true (RStr (rev s))
  | OFind fam k pos =>
      let nd := fneedle_str os k in
      let rv := match fam with RFind | FLO | FLNO => true | _ => false end in
      let kd := match k with FPC cs n => (n <=? nlen cs) && (pos <? ln) | _ => true end in
      let dom := (0 <? nlen nd) && kd && ((pos <? ln) || (if rv then pos =? NPOS else pos =? 0)) in
      obs dom (RSize (match fam with
                      | Find => std_find s nd pos
                      | RFind => std_rfind s nd pos
                      | FFO => std_first_of s nd false pos
                      | FFNO => std_first_of s nd true pos
                      | FLO => std_last_of s nd false pos
                      | FLNO => std_last_of s nd true pos
                      end))
  | OIt rev pos k v =>
      (* offset of the iterator from begin() / rbegin(); the end position is the length *)
      let off := if ln <=? pos then ln else if rev then ln - 1 - pos else pos in
      let dom := match k with
                 | KInc => off <? ln | KDec => 0 <? off | KAdd => v <=? ln - off | KSub => v <=? off
                 end in
      let noff := match k with KInc => off + 1 | KDec => off - 1 | KAdd => off + v | KSub => off - v end in
      obs dom (if noff =? ln then RItD NPOS None
               else let i := if rev then ln - 1 - noff else noff in RItD i (Some (nthN i s)))
  end.

(** the content the object shows through str() / c_str() / length() *)
Definition abs (s : fs) : list byte := take (len s) (buf s).
