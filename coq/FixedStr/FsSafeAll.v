(** C10: one scripted step, and any history of steps, keeps both objects
    well-formed and never faults - for all capacities, all states satisfying the
    invariant and all argument values that fit into size_t. *)
From Coq Require Import List NArith Bool Lia ZifyNat ZifyN ZifyBool.
Import ListNotations.
Require Import Celma.Common.Res Celma.FixedStr.FsBase Celma.FixedStr.FsModel
  Celma.FixedStr.FsLemmas Celma.FixedStr.FsSafe Celma.FixedStr.FsSafeObs Celma.FixedStr.FsIter.
Local Open Scope N_scope.

(** size of a string argument in memory (characters and terminator) *)
Definition sz (x : list byte) : N := nlen x + 1.

Definition needle_nums (k : needle) : list N :=
  match k with NFs => [] | NS x => [sz x] | NC cs => [sz cs] | NCh ch => [ch] end.

Definition fneedle_nums (k : fneedle) : list N :=
  match k with
  | FFs => [] | FS x => [sz x] | FPC cs n => [sz cs; n] | FC cs => [sz cs] | FCh ch => [ch]
  end.

(** every number an operation receives: positions, counts, characters, and the
    memory size of every string argument *)
Definition op_nums (x : op) : list N :=
  match x with
  | OAsgC cs | OCtorC cs | OAppC cs | OCmpC cs => [sz cs]
  | OAsgS x | OCtorS x | OAppS x | OSprintf x | OSprintfFail _ x | OCmpS x => [sz x]
  | OAsgFs | OCtorMv | OCtorCp | OCtorFs | OPop | OAppFs | OSwap | OClear | OCmpFs
  | OFront | OBack | OLen | OEmpty | OStr | OEq | ONe | OItF | OItR => []
  | OInsNC i c ch => [i; c; ch]
  | OInsPC i cs k => [i; sz cs; k]
  | OInsC i cs => [i; sz cs]
  | OInsS i x => [i; sz x]
  | OInsSS i x is k => [i; sz x; is; k]
  | OInsFs i => [i]
  | OInsFss i is k => [i; is; k]
  | OInsIt p ch => [p; ch]
  | OInsItN p c ch => [p; c; ch]
  | OErase i c => [i; c]
  | OEraseIt p => [p]
  | OEraseItr p q => [p; q]
  | OPush ch | OPeCh ch => [ch]
  | OAppNC c ch => [c; ch]
  | OAppSS x p c => [sz x; p; c]
  | OAppFss p c => [p; c]
  | OAppPC cs k => [sz cs; k]
  | OAppIt p q => [p; q]
  | ORepFs p c => [p; c]
  | ORepS p c x => [p; c; sz x]
  | ORepFss p c p2 c2 => [p; c; p2; c2]
  | ORepSS p c x p2 c2 => [p; c; sz x; p2; c2]
  | ORepC p c cs => [p; c; sz cs]
  | ORepPC p c cs c2 => [p; c; sz cs; c2]
  | ORepNC p c c2 ch => [p; c; c2; ch]
  | OCmppFs p c => [p; c]
  | OCmppS p c x => [p; c; sz x]
  | OCmppC p c cs => [p; c; sz cs]
  | OCmpppFs p c p2 c2 => [p; c; p2; c2]
  | OCmpppS p c x p2 c2 => [p; c; sz x; p2; c2]
  | OCmpppC p c cs c2 => [p; c; sz cs; c2]
  | OSw k | OEw k | OCt k => needle_nums k
  | OSubstr p c => [p; c]
  | OCopy c p => [c; p]
  | OAt i => [i]
  | OFind _ k pos => pos :: fneedle_nums k
  | OIt _ pos _ v => [pos; v]
  end.

(** all of them are values of size_t *)
Definition Bounded (x : op) : Prop := Forall (fun v => v < M64) (op_nums x).

Ltac unb H :=
  unfold Bounded in H; cbn [op_nums needle_nums fneedle_nums] in H;
  repeat match type of H with
         | Forall _ (_ :: _) => let A := fresh "B" in
             apply Forall_cons_iff in H; destruct H as [A H]
         end; try (match type of H with Forall _ [] => clear H end); unfold sz in *.

Section All.
(** capacity of the object and of the other object *)
Variable L : N.
Hypothesis HL : CapOk L.
Variable Lo : N.
Hypothesis HLo : CapOk Lo.

Definition good (r : res (fs * fs * ret)) : Prop :=
  exists s' o' v, r = Ok (s', o', v) /\ Inv L s' /\ Inv Lo o'.

(** an operation that exists only between objects of the same type *)
Lemma same_cap x : cap_ok (Lo =? L) x = true -> mixed_ok x = false -> Lo = L.
Proof.
  unfold cap_ok. destruct (N.eqb_spec Lo L); [auto|]. intros H1 H2. congruence.
Qed.

Lemma good_upd (o : fs) r : Inv Lo o -> safe L r -> good (upd o r).
Proof. intros Ho (s' & -> & Hs'). unfold upd. cbn. exists s', o, RNone. auto. Qed.

Lemma good_obs {A} s o (mk : A -> ret) r :
  Inv L s -> Inv Lo o -> (okr r \/ exists e, r = Err e) -> good (obs s o mk r).
Proof.
  intros Hs Ho [[a ->]|[e ->]]; cbn; eexists _, _, _; (split; [reflexivity|split; assumption]).
Qed.

Lemma good_obs_ok {A} s o (mk : A -> ret) r : Inv L s -> Inv Lo o -> okr r -> good (obs s o mk r).
Proof. intros. apply good_obs; auto. Qed.

Lemma good_pair (o : fs) (r : res (fs * N)) :
  Inv Lo o -> safe2 L r -> good (do q <- r; Ok (fst q, o, RIter (snd q))).
Proof.
  intros Ho (s' & a & -> & Hs'). cbn. eexists _, _, _. split; [reflexivity|split; assumption].
Qed.

Theorem step_safe s o x :
  Inv L s -> Inv Lo o -> Bounded x -> pre_A s o x = true -> cap_ok (Lo =? L) x = true ->
  good (step L s o x).
Proof.
  intros Hs Ho HB Hpre Hcap. pose proof Hs as (Hb & Hl & Hz). pose proof Ho as (Hbo & Hlo & Hzo).
  pose proof HL as [HL1 HL2]. pose proof HLo as [HLo1 HLo2].
  pose proof (same_cap x Hcap) as Hsame.
  assert (Hcs : forall cs, cstrlen cs <= nlen cs) by apply cstrlen_le.
  destruct x; cbn [step]; unb HB; try (specialize (Hcs cs));
    try (apply good_upd; [assumption|]).
  (* assign / construct *)
  1-5: apply assign_arr_safe; rewrite ?nlen_carr, ?zero_fs_len; try assumption; lia.
  - rewrite (Hsame eq_refl) in *. apply ctor_mv_safe; assumption.
  - rewrite (Hsame eq_refl) in *. apply safe_ok; assumption.
  - apply assign_arr_safe; rewrite ?zero_fs_len; try assumption; lia.
  (* insert *)
  - apply insert_nc_safe; assumption.
  - cbn [pre_A] in Hpre. apply insert_pc_safe; rewrite ?nlen_carr; try assumption; lia.
  - apply insert_pc_safe; rewrite ?nlen_carr; try assumption; unfold M64 in *; lia.
  - apply insert_pc_safe; rewrite ?nlen_carr; try assumption; unfold M64 in *; lia.
  - apply insert_ss_safe; assumption.
  - apply insert_pc_safe; try assumption; unfold M64 in *; lia.
  - apply (insert_fss_safe L HL Lo); assumption.
  - apply good_pair; [assumption|]. apply insert_it_safe; [assumption|assumption|unfold M64; lia].
  - apply good_pair; [assumption|]. apply insert_it_safe; assumption.
  (* erase, push, pop *)
  - apply erase_safe; assumption.
  - apply good_pair; [assumption|]. apply erase_it_safe; assumption.
  - apply good_pair; [assumption|]. apply erase_itr_safe; assumption.
  - apply push_back_safe; assumption.
  - apply pop_back_safe; assumption.
  (* append *)
  - apply append_nc_safe; assumption.
  - apply append_nc_safe; [assumption|assumption|unfold M64; lia].
  - apply append_impl_safe; rewrite ?nlen_carr; try assumption; unfold M64 in *; lia.
  - apply append_impl_safe; try assumption; unfold M64 in *; lia.
  - apply append_ss_safe; assumption.
  - apply (append_fss_safe L HL Lo); assumption.
  - apply append_impl_safe; rewrite ?nlen_carr; try assumption; unfold M64 in *; lia.
  - apply append_impl_safe; rewrite ?nlen_carr; try assumption; unfold M64 in *; lia.
  - rewrite (Hsame eq_refl) in *. cbn [pre_A] in Hpre. apply append_it_safe; try assumption; lia.
  - apply sprintf_safe; assumption.
  - apply sprintf_fail_safe; [assumption|assumption|apply glibc_partial_len; assumption].
  (* replace *)
  - apply replace_impl_safe; try assumption; unfold M64 in *; lia.
  - apply replace_impl_safe; rewrite ?nlen_carr; try assumption; unfold M64 in *; lia.
  - apply replace_sub_safe; try assumption; unfold M64 in *; lia.
  - apply replace_sub_safe; rewrite ?nlen_carr; try assumption; unfold M64 in *; lia.
  - apply replace_impl_safe; rewrite ?nlen_carr; try assumption; unfold M64 in *; lia.
  - apply replace_impl_safe; rewrite ?nlen_carr; try assumption; unfold M64 in *; lia.
  - apply replace_nc_safe; assumption.
  (* swap, clear *)
  - unfold good. rewrite (Hsame eq_refl) in *.
    destruct (swap_safe L HL s o Hs Ho) as (s' & o' & E & Hs' & Ho'). rewrite E. cbn.
    eexists _, _, _. split; [reflexivity|split; assumption].
  - apply clear_safe; assumption.
  (* compare *)
  - apply good_obs_ok; try assumption. apply (full_compare_okr L); [assumption|lia].
  - apply good_obs_ok; try assumption. apply (full_compare_okr L); [assumption|rewrite nlen_carr; lia].
  - apply good_obs_ok; try assumption. apply (full_compare_okr L); [assumption|rewrite nlen_carr; lia].
  - apply good_obs_ok; try assumption. apply (part_compare_okr L); try assumption; lia.
  - apply good_obs_ok; try assumption. apply (part_compare_okr L); rewrite ?nlen_carr; try assumption; lia.
  - apply good_obs_ok; try assumption. apply (part_compare_okr L); rewrite ?nlen_carr; try assumption; lia.
  - apply good_obs_ok; try assumption. apply (part_part_compare_okr L); try assumption; unfold M64 in *; lia.
  - apply good_obs_ok; try assumption. apply (part_part_compare_okr L); rewrite ?nlen_carr; try assumption; unfold M64 in *; lia.
  - apply good_obs_ok; try assumption. apply (part_part_compare_okr L); rewrite ?nlen_carr; try assumption; unfold M64 in *; lia.
  (* starts_with / ends_with / contains *)
  - destruct k; cbn [needle_arr]; unb HB; apply good_obs_ok; try assumption;
      first [ apply (starts_with_ch_okr L); assumption
            | apply (starts_with_impl_okr L); rewrite ?nlen_carr; try assumption; try (specialize (Hcs cs)); lia ].
  - destruct k; cbn [needle_arr]; unb HB; apply good_obs_ok; try assumption;
      first [ apply (ends_with_ch_okr L); assumption
            | apply (ends_with_impl_okr L); rewrite ?nlen_carr; try assumption; try (specialize (Hcs cs)); lia ].
  - destruct k; cbn [needle_arr]; unb HB; apply good_obs_ok; try assumption;
      first [ apply (contains_ch_okr L); assumption
            | apply (contains_impl_okr L); rewrite ?nlen_carr; try assumption;
              try (specialize (Hcs cs)); unfold M64 in *; lia ].
  (* substr, copy, element access *)
  - apply good_obs_ok; try assumption. apply (substr_okr L); assumption.
  - apply good_obs_ok; try assumption.
    replace (len s - p) with (len s - p) by reflexivity.
    pose proof (copy_okr L HL s c p Hs) as Hc.
    destruct (N.ltb_spec p (len s)); apply Hc; assumption.
  - apply good_obs; try assumption. destruct (at_nofault L s i Hs) as [H|H]; [left; assumption|right; eauto].
  - apply good_obs_ok; try assumption. apply (front_okr L); assumption.
  - apply good_obs_ok; try assumption. apply (back_okr L); assumption.
  - eexists _, _, _. split; [reflexivity|split; assumption].
  - eexists _, _, _. split; [reflexivity|split; assumption].
  - apply good_obs_ok; try assumption. apply (str_okr L); assumption.
  - apply good_obs_ok; try assumption. apply (eq_op_okr L Lo); assumption.
  - apply good_obs_ok; try assumption. apply (ne_op_okr L Lo); assumption.
  - apply good_obs_ok; try assumption. apply iter_fwd_okr; assumption.
  - apply good_obs_ok; try assumption. apply iter_rev_okr; assumption.
  (* find family *)
  - apply good_obs_ok; try assumption. apply find_op_okr; try assumption.
    { intros ->. rewrite (Hsame eq_refl) in *. assumption. }
    destruct k; cbn [fneedle_ok]; unb HB; cbn [pre_A] in Hpre; auto; try lia.
  (* iterator stepping *)
  - apply good_obs_ok; try assumption.
    destruct (it_step_index_valid L HL s rev pos k v Hs) as (i & c & E & _); [assumption|].
    rewrite E. apply okr_ok.
Qed.

(** a scripted history: steps outside the caller contract, and operations that
    do not exist for the two capacities, are skipped (the harness and the driver
    print "ood" for them) *)
Fixpoint run (s o : fs) (ops : list op) : res (fs * fs * list ret) :=
  match ops with
  | [] => Ok (s, o, [])
  | x :: rest =>
      if pre_A s o x && cap_ok (Lo =? L) x then
        do r <- step L s o x;
        let '(s', o', v) := r in
        do q <- run s' o' rest;
        let '(s'', o'', vs) := q in
        Ok (s'', o'', v :: vs)
      else run s o rest
  end.

Theorem run_safe ops : forall s o,
  Inv L s -> Inv Lo o -> Forall Bounded ops ->
  exists s' o' vs, run s o ops = Ok (s', o', vs) /\ Inv L s' /\ Inv Lo o'.
Proof.
  induction ops as [|x rest IH]; intros s o Hs Ho HB; cbn [run].
  - eexists _, _, _. split; [reflexivity|split; assumption].
  - apply Forall_cons_iff in HB. destruct HB as [Hx Hrest].
    destruct (pre_A s o x && cap_ok (Lo =? L) x) eqn:Hpre; [|apply IH; assumption].
    apply andb_true_iff in Hpre. destruct Hpre as [Hpre Hcap].
    destruct (step_safe s o x Hs Ho Hx Hpre Hcap) as (s1 & o1 & v & E & Hs1 & Ho1).
    rewrite E. cbn [bind].
    destruct (IH s1 o1 Hs1 Ho1 Hrest) as (s2 & o2 & vs & E2 & Hs2 & Ho2).
    rewrite E2. cbn [bind]. eexists _, _, _. split; [reflexivity|split; assumption].
Qed.

(** the states the harness starts from: constructed from a C string *)
Lemma fs_init_safe cs : exists s, fs_init L cs = Ok s /\ Inv L s.
Proof.
  unfold fs_init. apply assign_arr_safe; [assumption|apply zero_fs_len|].
  rewrite nlen_carr. pose proof (cstrlen_le cs). lia.
Qed.

End All.

(** when no NUL character is stored in the content, the C string length of the
    buffer is the length *)
Lemma cstrlen_ge l : forall k, k <= nlen l -> (forall i, i < k -> nthN i l <> 0) -> k <= cstrlen l.
Proof.
  induction l as [|x r IH]; intros k Hk Hnz; cbn [cstrlen].
  - unfold nlen in Hk. cbn in Hk. lia.
  - destruct (N.eqb_spec k 0); [lia|].
    destruct (N.eqb_spec x 0) as [E|E].
    + exfalso. apply (Hnz 0); [lia|]. rewrite nthN_cons. cbn. assumption.
    + rewrite nlen_cons in Hk. assert (k - 1 <= cstrlen r).
      { apply IH; [lia|]. intros i Hi. specialize (Hnz (i + 1)).
        rewrite nthN_cons in Hnz. destruct (N.eqb_spec (i + 1) 0); [lia|].
        replace (i + 1 - 1) with i in Hnz by lia. apply Hnz. lia. }
      lia.
Qed.

Lemma inv_strlen L s :
  Inv L s -> (forall i, i < len s -> nthN i (buf s) <> 0) -> cstrlen (buf s) = len s.
Proof.
  intros (Hb & Hl & Hz) Hnz.
  assert (cstrlen (buf s) <= len s) by (apply cstrlen_zero_at; [lia|assumption]).
  assert (len s <= cstrlen (buf s)) by (apply cstrlen_ge; [lia|assumption]).
  lia.
Qed.
