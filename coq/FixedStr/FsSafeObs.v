(** C10, observers: under the invariant no observing operation faults (for all
    argument values), and the loops of the find family terminate within their fuel. *)
From Coq Require Import List NArith Bool Lia ZifyNat ZifyN ZifyBool.
Import ListNotations.
Require Import Celma.Common.Res Celma.FixedStr.FsBase Celma.FixedStr.FsModel
  Celma.FixedStr.FsLemmas Celma.FixedStr.FsSafe.
Local Open Scope N_scope.

Definition okr {A} (r : res A) : Prop := exists a, r = Ok a.

Lemma okr_ok {A} (a : A) : okr (Ok a). Proof. now exists a. Qed.

Lemma okr_bind {A B} (r : res A) (k : A -> res B) :
  okr r -> (forall a, okr (k a)) -> okr (bind r k).
Proof. intros [a ->] H. cbn. apply H. Qed.

Lemma rd_okr b i : i < nlen b -> okr (rd b i).
Proof. intros. rewrite rd_ok by assumption. apply okr_ok. Qed.
Lemma rdn_okr arr off n : (n = 0 \/ off + n <= nlen arr) -> okr (rdn arr off n).
Proof. intros. rewrite rdn_ok by assumption. apply okr_ok. Qed.
Lemma mcmp_okr a aoff b boff n :
  (n = 0 \/ (aoff + n <= nlen a /\ boff + n <= nlen b)) -> okr (mcmp a aoff b boff n).
Proof. intros. rewrite mcmp_ok by assumption. apply okr_ok. Qed.

Lemma cstrlen_zero_at l k : k < nlen l -> nthN k l = 0 -> cstrlen l <= k.
Proof.
  revert k. induction l as [|x r IH]; intros k Hk Hz; cbn [cstrlen].
  - unfold nlen in Hk. cbn in Hk. lia.
  - destruct (N.eqb_spec x 0); [lia|].
    rewrite nthN_cons in Hz. destruct (N.eqb_spec k 0); [congruence|].
    rewrite nlen_cons in Hk. assert (cstrlen r <= k - 1) by (apply IH; [lia|assumption]). lia.
Qed.

Lemma cstrlen_carr_lt x : cstrlen (carr x) < nlen (carr x).
Proof.
  unfold carr. assert (H : cstrlen (x ++ [0]) <= nlen x).
  { apply cstrlen_zero_at.
    - rewrite nlen_app. change (nlen [0]) with 1. lia.
    - rewrite nthN_app. destruct (N.ltb_spec (nlen x) (nlen x)); [lia|].
      rewrite N.sub_diag. reflexivity. }
  rewrite nlen_app. change (nlen [0]) with 1. lia.
Qed.

Lemma strchr_okr arr c : cstrlen arr < nlen arr -> okr (strchr_found arr c).
Proof.
  intros. unfold strchr_found. destruct (N.ltb_spec (cstrlen arr) (nlen arr)); [apply okr_ok|lia].
Qed.

(* ------------------------------------------------------------------ *)
(** * loops *)

Lemma scan_up_okr fu cont test bound : bound < M64 ->
  forall idx,
    (forall i, idx <= i -> i <= bound -> cont i = true -> i < bound) ->
    (forall i, idx <= i -> i < bound -> okr (test i)) ->
    idx <= bound -> bound - idx < N.of_nat fu ->
    okr (scan_up fu cont test idx).
Proof.
  intros Hb. induction fu as [|f IH]; intros idx Hc Ht Hi Hf; [lia|].
  cbn [scan_up]. destruct (cont idx) eqn:E; [|apply okr_ok].
  assert (idx < bound) by (apply Hc; [lia|assumption|assumption]).
  apply okr_bind; [apply Ht; lia|]. intros [|]; [apply okr_ok|].
  rewrite add64_small by lia. apply IH; try lia.
  - intros i H1 H2 H3. apply Hc; [lia|assumption|assumption].
  - intros i H1 H2. apply Ht; lia.
Qed.

Lemma scan_down_okr fu test : forall i,
    i < M64 -> (forall j, j < i -> okr (test j)) -> i < N.of_nat fu ->
    okr (scan_down fu test i).
Proof.
  induction fu as [|f IH]; intros i Hi Ht Hf; [lia|].
  cbn [scan_down]. destruct (N.ltb_spec 0 i); [|apply okr_ok]. cbv zeta.
  rewrite sub64_small by lia.
  apply okr_bind; [apply Ht; lia|]. intros [|]; [apply okr_ok|].
  apply IH; [lia| |lia]. intros j Hj. apply Ht. lia.
Qed.

Section Obs.
Variable L : N.
Hypothesis HL : CapOk L.

Lemma fuel_val : N.of_nat (fuel L) = L + 2.
Proof. unfold fuel. lia. Qed.

Lemma full_compare_okr s arr alen :
  Inv L s -> alen <= nlen arr -> okr (full_compare s arr alen).
Proof.
  intros (Hb & Hl & Hz) Ha. unfold full_compare. cbv zeta.
  apply okr_bind; [apply mcmp_okr; lia|]. intros; apply okr_ok.
Qed.

Lemma part_compare_okr s pos1 count1 arr len2 :
  Inv L s -> pos1 < M64 -> len2 <= nlen arr -> okr (part_compare s pos1 count1 arr len2).
Proof.
  intros (Hb & Hl & Hz) Hp Ha. unfold part_compare. cbv zeta. destruct HL as [HL1 HL2].
  destruct (N.ltb_spec (len s) pos1); [apply okr_ok|].
  rewrite !sub64_small by (unfold M64 in *; lia).
  apply okr_bind; [|intros; apply okr_ok]. apply mcmp_okr.
  destruct (N.ltb_spec (len s - pos1) count1); lia.
Qed.

Lemma part_part_compare_okr s pos1 count1 arr len2 pos2 count2 :
  Inv L s -> pos1 < M64 -> pos2 < M64 -> len2 <= nlen arr -> len2 < M64 ->
  okr (part_part_compare s pos1 count1 arr len2 pos2 count2).
Proof.
  intros (Hb & Hl & Hz) Hp Hp2 Ha Hm. unfold part_part_compare. cbv zeta. destruct HL as [HL1 HL2].
  destruct (N.ltb_spec (len s) pos1); [apply okr_ok|].
  destruct (N.ltb_spec len2 pos2); [apply okr_ok|].
  rewrite !sub64_small by (unfold M64 in *; lia).
  apply okr_bind; [|intros; apply okr_ok]. apply mcmp_okr.
  destruct (N.ltb_spec (len s - pos1) count1); destruct (N.ltb_spec (len2 - pos2) count2); lia.
Qed.

Lemma starts_with_impl_okr s arr n : Inv L s -> n <= nlen arr -> okr (starts_with_impl s arr n).
Proof.
  intros (Hb & Hl & Hz) Ha. unfold starts_with_impl.
  destruct ((n =? 0) && (len s =? 0)); [apply okr_ok|].
  destruct (N.ltb_spec (len s) n); [apply okr_ok|].
  apply okr_bind; [apply mcmp_okr; lia|intros; apply okr_ok].
Qed.

Lemma ends_with_impl_okr s arr n : Inv L s -> n <= nlen arr -> okr (ends_with_impl s arr n).
Proof.
  intros (Hb & Hl & Hz) Ha. unfold ends_with_impl. destruct HL as [HL1 HL2].
  destruct ((n =? 0) && (len s =? 0)); [apply okr_ok|].
  destruct (N.ltb_spec (len s) n); [apply okr_ok|].
  rewrite sub64_small by (unfold M64 in *; lia).
  apply okr_bind; [apply mcmp_okr; lia|intros; apply okr_ok].
Qed.

Lemma starts_with_ch_okr s ch : Inv L s -> okr (starts_with_ch s ch).
Proof.
  intros (Hb & Hl & Hz). unfold starts_with_ch. destruct (0 <? len s); [|apply okr_ok].
  apply okr_bind; [apply rd_okr; lia|intros; apply okr_ok].
Qed.

Lemma ends_with_ch_okr s ch : Inv L s -> okr (ends_with_ch s ch).
Proof.
  intros (Hb & Hl & Hz). unfold ends_with_ch. destruct HL as [HL1 HL2].
  destruct (N.ltb_spec 0 (len s)); [|apply okr_ok].
  rewrite sub64_small by (unfold M64 in *; lia).
  apply okr_bind; [apply rd_okr; lia|intros; apply okr_ok].
Qed.

Lemma contains_impl_okr s arr n :
  Inv L s -> 1 <= nlen arr -> n <= nlen arr -> n < M64 -> okr (contains_impl L s arr n).
Proof.
  intros (Hb & Hl & Hz) Ha1 Ha Hn. unfold contains_impl. cbv zeta. destruct HL as [HL1 HL2].
  destruct (N.eqb_spec n 0); cbn [orb]; [apply okr_ok|].
  destruct (N.eqb_spec (len s) 0); cbn [orb]; [apply okr_ok|].
  destruct (N.ltb_spec (len s) n); cbn [orb]; [apply okr_ok|].
  apply okr_bind; [|intros; apply okr_ok].
  apply scan_up_okr with (bound := len s - n + 1); rewrite ?fuel_val; try (unfold M64 in *; lia).
  - intros i _ Hi Hc. rewrite add64_small in Hc by (unfold M64 in *; lia). lia.
  - intros i _ Hi. apply okr_bind; [apply rd_okr; lia|]. intros a.
    apply okr_bind; [apply rd_okr; lia|]. intros b. destruct (a =? b); [|apply okr_ok].
    apply okr_bind; [apply mcmp_okr; lia|intros; apply okr_ok].
Qed.

Lemma contains_ch_okr s ch : Inv L s -> okr (contains_ch L s ch).
Proof.
  intros (Hb & Hl & Hz). unfold contains_ch. destruct HL as [HL1 HL2].
  apply okr_bind; [|intros; apply okr_ok].
  apply scan_up_okr with (bound := len s); rewrite ?fuel_val; try (unfold M64 in *; lia).
  intros i _ Hi. apply okr_bind; [apply rd_okr; lia|intros; apply okr_ok].
Qed.

Lemma substr_okr s pos count : Inv L s -> pos < M64 -> okr (substr s pos count).
Proof.
  intros (Hb & Hl & Hz) Hp. unfold substr. cbv zeta. destruct HL as [HL1 HL2].
  destruct (N.leb_spec (len s) pos); cbn [orb]; [apply okr_ok|].
  destruct (count =? 0); [apply okr_ok|].
  rewrite !sub64_small by (unfold M64 in *; lia). apply rdn_okr.
  destruct (N.leb_spec (len s - pos) count); lia.
Qed.

(** copy never writes more than min( count, length - pos) bytes *)
Lemma copy_okr s count pos :
  Inv L s -> pos < M64 ->
  okr (copy s (if pos <? len s then N.min count (len s - pos) else 0) count pos).
Proof.
  intros (Hb & Hl & Hz) Hp. unfold copy. cbv zeta. destruct HL as [HL1 HL2].
  destruct (N.leb_spec (len s) pos); [apply okr_ok|].
  rewrite !sub64_small by (unfold M64 in *; lia).
  destruct (N.ltb_spec pos (len s)); [|lia].
  apply okr_bind; [apply rdn_okr; destruct (N.leb_spec (len s - pos) count); lia|].
  intros x. destruct (N.leb_spec (len s - pos) count);
    match goal with |- context [?a <=? ?b] => destruct (N.leb_spec a b) end; try apply okr_ok; lia.
Qed.

Lemma eq_at_okr s arr n idx :
  nlen (buf s) = L + 1 -> idx + n <= L + 1 -> n <= nlen arr -> okr (eq_at s arr n idx).
Proof.
  intros Hb Hi Ha. unfold eq_at. apply okr_bind; [apply mcmp_okr; lia|intros; apply okr_ok].
Qed.

Lemma find_arr_okr s arr n pos :
  Inv L s -> n <= nlen arr -> n < M64 -> pos < M64 -> okr (find_arr L s arr n pos).
Proof.
  intros (Hb & Hl & Hz) Ha Hn Hp. unfold find_arr. cbv zeta. destruct HL as [HL1 HL2].
  destruct (N.ltb_spec (len s) n); cbn [orb]; [apply okr_ok|].
  rewrite !sub64_small by (unfold M64 in *; lia).
  destruct (N.ltb_spec (len s - n) pos); cbn [orb]; [apply okr_ok|].
  destruct (len s =? 0); cbn [orb]; [apply okr_ok|].
  destruct (n =? 0); cbn [orb]; [apply okr_ok|].
  apply scan_up_okr with (bound := len s - n + 1); rewrite ?fuel_val; try (unfold M64 in *; lia).
  intros i _ Hi. apply eq_at_okr; [assumption|lia|assumption].
Qed.

Lemma find_ch_okr s ch pos : Inv L s -> pos < M64 -> okr (find_ch L s ch pos).
Proof.
  intros (Hb & Hl & Hz) Hp. unfold find_ch. cbv zeta. destruct HL as [HL1 HL2].
  destruct (N.ltb_spec (len s) (pos +! 1)); cbn [orb]; [apply okr_ok|].
  destruct (len s =? 0); cbn [orb]; [apply okr_ok|].
  destruct (N.le_gt_cases pos (len s)) as [Hle|Hgt].
  - apply scan_up_okr with (bound := len s); rewrite ?fuel_val; try (unfold M64 in *; lia).
    intros i _ Hi. apply okr_bind; [apply rd_okr; lia|intros; apply okr_ok].
  - (* pos + 1 wrapped: the loop condition fails at once *)
    unfold fuel. replace (N.to_nat (L + 2)) with (S (N.to_nat (L + 1))) by lia.
    cbn [scan_up]. destruct (N.ltb_spec pos (len s)); [lia|apply okr_ok].
Qed.

Lemma rfind_loop_okr s arr n pos :
  Inv L s -> n <= nlen arr -> n <= len s -> okr (rfind_loop L s arr n pos).
Proof.
  intros (Hb & Hl & Hz) Ha Hn. unfold rfind_loop. cbv zeta. destruct HL as [HL1 HL2].
  rewrite !sub64_small by (unfold M64 in *; lia).
  set (pos' := if len s - n <? pos then len s - n else pos).
  assert (Hp : pos' <= len s - n) by (unfold pos'; destruct (N.ltb_spec (len s - n) pos); lia).
  rewrite add64_small by (unfold M64 in *; lia).
  apply scan_down_okr; rewrite ?fuel_val; try (unfold M64 in *; lia).
  intros j Hj. apply eq_at_okr; [assumption|lia|assumption].
Qed.

Lemma rfind_arr_okr s arr n pos : Inv L s -> n <= nlen arr -> okr (rfind_arr L s arr n pos).
Proof.
  intros Hs Ha. unfold rfind_arr. cbv zeta.
  destruct (len s =? 0); cbn [orb]; [apply okr_ok|].
  destruct (n =? 0); cbn [orb]; [apply okr_ok|].
  destruct (N.ltb_spec (len s) n); cbn [orb]; [apply okr_ok|].
  apply rfind_loop_okr; assumption.
Qed.

Lemma rfind_pc_okr s cs pos count : Inv L s -> okr (rfind_pc L s cs pos count).
Proof.
  intros Hs. unfold rfind_pc. cbv zeta.
  destruct (len s =? 0); [apply okr_ok|].
  destruct (cstrlen cs =? 0); [apply okr_ok|].
  pose proof (cstrlen_le cs).
  match goal with |- context [len s <? ?c] => destruct (N.ltb_spec (len s) c) end; [apply okr_ok|].
  apply rfind_loop_okr; [assumption| |assumption].
  rewrite nlen_carr. destruct (N.ltb_spec (cstrlen cs) count); lia.
Qed.

Lemma rfind_ch_okr s ch pos : Inv L s -> pos < M64 -> okr (rfind_ch L s ch pos).
Proof.
  intros (Hb & Hl & Hz) Hp. unfold rfind_ch. cbv zeta. destruct HL as [HL1 HL2].
  destruct (N.ltb_spec (len s) (pos +! 1)); cbn [orb]; [apply okr_ok|].
  destruct (N.eqb_spec (len s) 0); cbn [orb]; [apply okr_ok|].
  destruct (N.eqb_spec pos NPOS).
  - rewrite sub64_small by (unfold M64 in *; lia).
    rewrite add64_small by (unfold M64 in *; lia).
    apply scan_down_okr; rewrite ?fuel_val; try (unfold M64 in *; lia).
    intros j Hj. apply okr_bind; [apply rd_okr; lia|intros; apply okr_ok].
  - assert (pos + 1 < M64) by (unfold NPOS, M64 in *; lia).
    rewrite add64_small in * by assumption.
    apply scan_down_okr; rewrite ?fuel_val; try (unfold M64 in *; lia).
    intros j Hj. apply okr_bind; [apply rd_okr; lia|intros; apply okr_ok].
Qed.

(** the three kinds of character tests *)
Definition test_ok (s : fs) (test : N -> res bool) : Prop := forall j, j <= len s -> okr (test j).

Lemma in_cstr_ok s arr neg : Inv L s -> cstrlen arr < nlen arr -> test_ok s (in_cstr s arr neg).
Proof.
  intros (Hb & Hl & Hz) Ha j Hj. unfold in_cstr.
  apply okr_bind; [apply rd_okr; lia|]. intros a.
  apply okr_bind; [apply strchr_okr; assumption|intros; apply okr_ok].
Qed.

Lemma in_chars_ok s arr count neg : Inv L s -> count <= nlen arr -> test_ok s (in_chars s arr count neg).
Proof.
  intros (Hb & Hl & Hz) Ha j Hj. unfold in_chars.
  apply okr_bind; [apply rd_okr; lia|]. intros a.
  apply okr_bind; [apply rdn_okr; lia|intros; apply okr_ok].
Qed.

Lemma is_ch_ok s ch neg : Inv L s -> test_ok s (is_ch s ch neg).
Proof.
  intros (Hb & Hl & Hz) j Hj. unfold is_ch.
  apply okr_bind; [apply rd_okr; lia|intros; apply okr_ok].
Qed.

Lemma first_of_okr s test pos count : Inv L s -> test_ok s test -> okr (first_of L s test pos count).
Proof.
  intros (Hb & Hl & Hz) Ht. unfold first_of. destruct HL as [HL1 HL2].
  destruct (N.ltb_spec (len s) pos); cbn [orb]; [apply okr_ok|].
  destruct (count =? 0); [apply okr_ok|].
  apply scan_up_okr with (bound := len s); rewrite ?fuel_val; try (unfold M64 in *; lia).
  intros i _ Hi. apply Ht. lia.
Qed.

Lemma first_of_ch_okr s test pos : Inv L s -> test_ok s test -> okr (first_of_ch L s test pos).
Proof.
  intros (Hb & Hl & Hz) Ht. unfold first_of_ch. destruct HL as [HL1 HL2].
  destruct (N.leb_spec (len s) pos); [apply okr_ok|].
  apply scan_up_okr with (bound := len s); rewrite ?fuel_val; try (unfold M64 in *; lia).
  intros i _ Hi. apply Ht. lia.
Qed.

Lemma last_of_impl_okr s test pos count :
  Inv L s -> pos < M64 -> test_ok s test -> okr (last_of_impl L s test pos count).
Proof.
  intros (Hb & Hl & Hz) Hp Ht. unfold last_of_impl. cbv zeta. destruct HL as [HL1 HL2].
  destruct (N.eqb_spec pos NPOS).
  - destruct (N.eqb_spec (len s) 0) as [E|E].
    + rewrite E. rewrite sub64_wrap by (unfold M64; lia).
      destruct (N.leb_spec 0 (0 + M64 - 1)); [apply okr_ok|unfold M64 in *; lia].
    + rewrite sub64_small by (unfold M64 in *; lia).
      destruct (N.leb_spec (len s) (len s - 1)); cbn [orb]; [lia|].
      destruct (count =? 0); [apply okr_ok|].
      apply scan_down_okr; rewrite ?fuel_val; try (unfold M64 in *; lia).
      intros j Hj. apply Ht. lia.
  - assert (pos + 1 < M64) by (unfold NPOS, M64 in *; lia).
    rewrite add64_small by assumption. rewrite sub64_small by (unfold M64 in *; lia).
    destruct (N.leb_spec (len s) (pos + 1 - 1)); cbn [orb]; [apply okr_ok|].
    destruct (count =? 0); [apply okr_ok|].
    apply scan_down_okr; rewrite ?fuel_val; try (unfold M64 in *; lia).
    intros j Hj. apply Ht. lia.
Qed.

Lemma last_of_pc_okr s test pos count :
  Inv L s -> test_ok s test -> okr (last_of_pc L s test pos count).
Proof.
  intros (Hb & Hl & Hz) Ht. unfold last_of_pc. destruct HL as [HL1 HL2].
  destruct (N.ltb_spec (len s) pos); cbn [orb]; [apply okr_ok|].
  destruct (count =? 0); [apply okr_ok|].
  rewrite add64_small by (unfold M64 in *; lia).
  apply scan_down_okr; rewrite ?fuel_val; try (unfold M64 in *; lia).
  intros j Hj. apply Ht. lia.
Qed.

Lemma last_of_ch_okr s test pos : Inv L s -> test_ok s test -> okr (last_of_ch L s test pos).
Proof.
  intros (Hb & Hl & Hz) Ht. unfold last_of_ch. destruct HL as [HL1 HL2].
  destruct (pos =? NPOS).
  - apply scan_down_okr; rewrite ?fuel_val; try (unfold M64 in *; lia).
    intros j Hj. apply Ht. lia.
  - destruct (N.leb_spec (len s) pos); [apply okr_ok|].
    rewrite add64_small by (unfold M64 in *; lia).
    apply scan_down_okr; rewrite ?fuel_val; try (unfold M64 in *; lia).
    intros j Hj. apply Ht. lia.
Qed.

Lemma inv_cstrlen o : Inv L o -> cstrlen (buf o) < nlen (buf o).
Proof.
  intros (Hb & Hl & Hz). assert (cstrlen (buf o) <= len o) by (apply cstrlen_zero_at; [lia|assumption]). lia.
Qed.

(** the caller contract for the (pointer, count) needles *)
Definition fneedle_ok (k : fneedle) : Prop :=
  match k with
  | FPC cs n => n <= nlen cs + 1 /\ nlen cs + 1 < M64
  | FS x => nlen x + 1 < M64
  | FC cs => nlen cs + 1 < M64
  | _ => True
  end.

(** the other object is read only by the overloads with a FixedString needle *)
Lemma find_op_okr s o fam k pos :
  Inv L s -> (k = FFs -> Inv L o) -> pos < M64 -> fneedle_ok k -> okr (find_op L s o fam k pos).
Proof.
  intros Hs Ho Hp Hk. destruct HL as [HL1 HL2].
  assert (Hcs : forall cs, cstrlen cs <= nlen cs) by apply cstrlen_le.
  assert (Hfs : k = FFs -> nlen (buf o) = L + 1 /\ len o <= L /\ cstrlen (buf o) < nlen (buf o)).
  { intros E. specialize (Ho E). pose proof (inv_cstrlen o Ho). destruct Ho as (H1 & H2 & H3). auto. }
  destruct fam, k; cbn [find_op fneedle_ok] in *;
    try (destruct (Hfs eq_refl) as (Hbo & Hlo & Hco)); clear Hfs;
    try (specialize (Hcs cs));
    try (apply find_arr_okr; rewrite ?nlen_carr; try assumption; unfold M64 in *; lia);
    try (apply find_ch_okr; assumption);
    try (apply rfind_arr_okr; rewrite ?nlen_carr; try assumption; lia);
    try (apply rfind_pc_okr; assumption);
    try (apply rfind_ch_okr; assumption);
    try (apply first_of_okr; [assumption|]);
    try (apply first_of_ch_okr; [assumption|]);
    try (apply last_of_impl_okr; [assumption|assumption|]);
    try (apply last_of_pc_okr; [assumption|]);
    try (apply last_of_ch_okr; [assumption|]);
    try (apply in_cstr_ok; [assumption|first [assumption | apply cstrlen_carr_lt]]);
    try (apply in_chars_ok; [assumption|rewrite nlen_carr; lia]);
    try (apply is_ch_ok; assumption).
Qed.

(** element access, relational operators *)
Lemma at_nofault s idx : Inv L s -> okr (at_ s idx) \/ at_ s idx = Err EOutOfRange.
Proof.
  intros (Hb & Hl & Hz). unfold at_. destruct (N.ltb_spec (len s) idx); [right; reflexivity|].
  left. apply rd_okr. lia.
Qed.

Lemma front_okr s : Inv L s -> okr (rd (buf s) 0).
Proof. intros (Hb & Hl & Hz). apply rd_okr. lia. Qed.

Lemma back_okr s : Inv L s -> okr (back s).
Proof.
  intros (Hb & Hl & Hz). unfold back. destruct HL as [HL1 HL2]. apply rd_okr.
  destruct (N.eqb_spec (len s) 0); [lia|]. rewrite sub64_small by (unfold M64 in *; lia). lia.
Qed.

Lemma str_okr s : Inv L s -> okr (str s).
Proof.
  intros (Hb & Hl & Hz). unfold str. destruct (0 <? len s); [|apply okr_ok]. apply rdn_okr. lia.
Qed.

Lemma eq_op_okr Lo s o : Inv L s -> Inv Lo o -> okr (eq_op s o).
Proof.
  intros (Hb & Hl & Hz) (Hbo & Hlo & Hzo). unfold eq_op.
  destruct (N.eqb_spec (len s) (len o)); [|apply okr_ok].
  apply okr_bind; [apply mcmp_okr; lia|intros; apply okr_ok].
Qed.

Lemma ne_op_okr Lo s o : Inv L s -> Inv Lo o -> okr (ne_op s o).
Proof.
  intros (Hb & Hl & Hz) (Hbo & Hlo & Hzo). unfold ne_op.
  destruct (N.eqb_spec (len s) (len o)); cbn [negb]; [|apply okr_ok].
  apply okr_bind; [apply mcmp_okr; lia|intros; apply okr_ok].
Qed.

(** iteration in both directions *)
Lemma walk_fwd_okr s : Inv L s ->
  forall fu i acc, (i = NPOS \/ i < len s) -> (if i =? NPOS then 0 else len s - i) < N.of_nat fu ->
  okr (walk fu s (it_inc s) i acc).
Proof.
  intros (Hb & Hl & Hz). destruct HL as [HL1 HL2].
  induction fu as [|f IH]; intros i acc Hi Hf; [lia|].
  cbn [walk]. destruct (N.eqb_spec i NPOS); [apply okr_ok|].
  destruct Hi as [Hi|Hi]; [contradiction|].
  unfold it_deref. destruct (N.eqb_spec i NPOS); [contradiction|].
  apply okr_bind; [apply rd_okr; lia|]. intros c.
  apply IH.
  - unfold it_inc. rewrite sub64_small by (unfold M64 in *; lia).
    destruct (N.ltb_spec i (len s - 1)); [|left; reflexivity].
    right. rewrite add64_small by (unfold M64 in *; lia). lia.
  - unfold it_inc. rewrite sub64_small by (unfold M64 in *; lia).
    destruct (N.ltb_spec i (len s - 1)); [|rewrite N.eqb_refl; lia].
    rewrite add64_small by (unfold M64 in *; lia).
    destruct (N.eqb_spec (i + 1) NPOS); lia.
Qed.

Lemma walk_rev_okr s : Inv L s ->
  forall fu i acc, (i = NPOS \/ i < len s) -> (if i =? NPOS then 0 else i + 1) < N.of_nat fu ->
  okr (walk fu s it_dec i acc).
Proof.
  intros (Hb & Hl & Hz). destruct HL as [HL1 HL2].
  induction fu as [|f IH]; intros i acc Hi Hf; [lia|].
  cbn [walk]. destruct (N.eqb_spec i NPOS); [apply okr_ok|].
  destruct Hi as [Hi|Hi]; [contradiction|].
  unfold it_deref. destruct (N.eqb_spec i NPOS); [contradiction|].
  apply okr_bind; [apply rd_okr; lia|]. intros c.
  apply IH.
  - unfold it_dec. destruct (N.ltb_spec 0 i); [|left; reflexivity].
    right. rewrite sub64_small by (unfold M64 in *; lia). lia.
  - unfold it_dec. destruct (N.ltb_spec 0 i); [|rewrite N.eqb_refl; lia].
    rewrite sub64_small by (unfold M64 in *; lia).
    destruct (N.eqb_spec (i - 1) NPOS); lia.
Qed.

Lemma iter_fwd_okr s : Inv L s -> okr (walk (fuel L) s (it_inc s) (it_begin s) []).
Proof.
  intros Hs. pose proof Hs as (Hb & Hl & Hz). apply walk_fwd_okr; [assumption| |]; unfold it_begin.
  - destruct (N.eqb_spec (len s) 0); [left; reflexivity|right; lia].
  - rewrite fuel_val. destruct (N.eqb_spec (len s) 0); [rewrite N.eqb_refl; lia|].
    destruct (N.eqb_spec 0 NPOS); lia.
Qed.

Lemma iter_rev_okr s : Inv L s -> okr (walk (fuel L) s it_dec (rit_begin s) []).
Proof.
  intros Hs. pose proof Hs as (Hb & Hl & Hz). destruct HL as [HL1 HL2].
  apply walk_rev_okr; [assumption| |]; unfold rit_begin.
  - destruct (N.eqb_spec (len s) 0); [left; reflexivity|right].
    rewrite sub64_small by (unfold M64 in *; lia). lia.
  - rewrite fuel_val. destruct (N.eqb_spec (len s) 0); [rewrite N.eqb_refl; lia|].
    rewrite sub64_small by (unfold M64 in *; lia).
    destruct (N.eqb_spec (len s - 1) NPOS); lia.
Qed.

End Obs.
