(** C11, observers: compare (three implementations), == / !=, starts_with,
    substr, copy, element access return what the std::string specification
    returns on the content. *)
From Coq Require Import List NArith Bool Lia ZifyNat ZifyN ZifyBool.
Import ListNotations.
Require Import Celma.Common.Res Celma.FixedStr.FsBase Celma.FixedStr.FsModel
  Celma.FixedStr.FsLemmas Celma.FixedStr.FsSafe Celma.FixedStr.FsSafeObs Celma.FixedStr.FsStd
  Celma.FixedStr.FsRefine.
Local Open Scope N_scope.

Lemma take_succ_cons {A} k (x : A) l : take (1 + k) (x :: l) = x :: take k l.
Proof.
  cbn [take]. destruct (N.eqb_spec (1 + k) 0); [lia|]. f_equal. f_equal. lia.
Qed.

Lemma cmp3_succ c a b : cmp3 c (1 + a) (1 + b) = cmp3 c a b.
Proof.
  unfold cmp3. destruct c; try reflexivity.
  destruct (N.ltb_spec (1 + b) (1 + a)); destruct (N.ltb_spec b a); try lia; try reflexivity.
  destruct (N.ltb_spec (1 + a) (1 + b)); destruct (N.ltb_spec a b); try lia; reflexivity.
Qed.

(** memcmp on the common prefix, then the lengths = lexicographic comparison *)
Lemma lex_bcmp : forall a b,
  lex a b = cmp3 (bcmp (take (N.min (nlen a) (nlen b)) a) (take (N.min (nlen a) (nlen b)) b))
                 (nlen a) (nlen b).
Proof.
  induction a as [|x a IH]; intros [|y b].
  - reflexivity.
  - cbn [lex]. rewrite (@nlen_nil N), nlen_cons. replace (N.min 0 (1 + nlen b)) with 0 by lia.
    rewrite !take_0. cbn [bcmp cmp3].
    destruct (N.ltb_spec (1 + nlen b) 0); [lia|]. destruct (N.ltb_spec 0 (1 + nlen b)); [reflexivity|lia].
  - cbn [lex]. rewrite (@nlen_nil N), nlen_cons. replace (N.min (1 + nlen a) 0) with 0 by lia.
    rewrite !take_0. cbn [bcmp cmp3].
    destruct (N.ltb_spec 0 (1 + nlen a)); [reflexivity|lia].
  - cbn [lex]. rewrite !nlen_cons.
    replace (N.min (1 + nlen a) (1 + nlen b)) with (1 + N.min (nlen a) (nlen b)) by lia.
    rewrite !take_succ_cons. cbn [bcmp]. destruct (x ?= y) eqn:E.
    + rewrite cmp3_succ. apply IH.
    + reflexivity.
    + reflexivity.
Qed.

Lemma list_eqb_eq a b : list_eqb a b = true <-> a = b.
Proof.
  revert b. induction a as [|x a IH]; intros [|y b]; cbn [list_eqb]; split; intros H;
    try reflexivity; try discriminate.
  - apply andb_true_iff in H. destruct H as [H1 H2]. apply N.eqb_eq in H1. apply IH in H2. congruence.
  - inversion H; subst. rewrite N.eqb_refl. cbn. apply IH. reflexivity.
Qed.

Lemma bcmp_eq a b : nlen a = nlen b -> (bcmp a b = Eq <-> a = b).
Proof.
  revert b. induction a as [|x a IH]; intros [|y b] Hl; cbn [bcmp].
  - split; reflexivity.
  - rewrite (@nlen_nil N), nlen_cons in Hl. lia.
  - rewrite (@nlen_nil N), nlen_cons in Hl. lia.
  - rewrite !nlen_cons in Hl. destruct (x ?= y) eqn:E.
    + apply N.compare_eq in E. subst y. rewrite IH by lia. split; intros H; [congruence|inversion H; reflexivity].
    + split; [discriminate|]. intros H. inversion H; subst. rewrite N.compare_refl in E. discriminate.
    + split; [discriminate|]. intros H. inversion H; subst. rewrite N.compare_refl in E. discriminate.
Qed.

Section RObs.
Variable L : N.
Hypothesis HL : CapOk L.

(** compare( str) : the whole content against [take alen arr] *)
Lemma full_compare_refines s arr alen :
  Inv L s -> alen <= nlen arr -> full_compare s arr alen = Ok (lex (abs s) (take alen arr)).
Proof.
  intros (Hb & Hl & Hz) Ha. unfold full_compare. cbv zeta.
  rewrite mcmp_ok by lia. cbn [bind]. f_equal. rewrite lex_bcmp.
  unfold abs. nl. replace (N.min (len s) (nlen (buf s))) with (len s) by lia.
  replace (N.min alen (nlen arr)) with alen by lia.
  rewrite !drop_0, !take_take.
  replace (N.min (N.min (len s) alen) (len s)) with (N.min (len s) alen) by lia.
  replace (N.min (N.min (len s) alen) alen) with (N.min (len s) alen) by lia.
  reflexivity.
Qed.

(** compare( pos1, count1, str) *)
Lemma part_compare_refines s pos1 count1 arr len2 :
  Inv L s -> pos1 <= len s -> len2 <= nlen arr ->
  part_compare s pos1 count1 arr len2 = Ok (lex (std_substr (abs s) pos1 count1) (take len2 arr)).
Proof.
  intros (Hb & Hl & Hz) Hp Ha. pose proof HL as [HL1 HL2]. unfold part_compare. cbv zeta.
  destruct (N.ltb_spec (len s) pos1); [lia|].
  rewrite !sub64_small by (unfold M64 in *; lia).
  set (ul := if len s - pos1 <? count1 then len s - pos1 else count1).
  assert (Hul : ul = N.min count1 (len s - pos1))
    by (unfold ul; destruct (N.ltb_spec (len s - pos1) count1); lia).
  clearbody ul.
  rewrite mcmp_ok by lia. cbn [bind]. f_equal. rewrite lex_bcmp.
  unfold std_substr, abs. nl.
  replace (N.min count1 (N.min (len s) (nlen (buf s)) - pos1)) with ul by lia.
  replace (N.min ul (N.min (len s) (nlen (buf s)) - pos1)) with ul by lia.
  replace (N.min len2 (nlen arr)) with len2 by lia.
  rewrite !drop_0, !take_take.
  replace (N.min (N.min ul len2) ul) with (N.min ul len2) by lia.
  replace (N.min (N.min ul len2) len2) with (N.min ul len2) by lia.
  f_equal. f_equal. pw.
Qed.

(** compare( pos1, count1, str, pos2, count2) *)
Lemma part_part_compare_refines s pos1 count1 arr len2 pos2 count2 :
  Inv L s -> pos1 <= len s -> pos2 <= len2 -> len2 <= nlen arr -> len2 < M64 ->
  part_part_compare s pos1 count1 arr len2 pos2 count2 =
    Ok (lex (std_substr (abs s) pos1 count1) (std_substr (take len2 arr) pos2 count2)).
Proof.
  intros (Hb & Hl & Hz) Hp Hp2 Ha Hm. pose proof HL as [HL1 HL2]. unfold part_part_compare. cbv zeta.
  destruct (N.ltb_spec (len s) pos1); [lia|].
  destruct (N.ltb_spec len2 pos2); [lia|].
  rewrite !sub64_small by (unfold M64 in *; lia).
  set (l1 := if len s - pos1 <? count1 then len s - pos1 else count1).
  assert (Hl1 : l1 = N.min count1 (len s - pos1))
    by (unfold l1; destruct (N.ltb_spec (len s - pos1) count1); lia).
  clearbody l1.
  set (l2 := if len2 - pos2 <? count2 then len2 - pos2 else count2).
  assert (Hl2 : l2 = N.min count2 (len2 - pos2))
    by (unfold l2; destruct (N.ltb_spec (len2 - pos2) count2); lia).
  clearbody l2.
  rewrite mcmp_ok by lia. cbn [bind]. f_equal. rewrite lex_bcmp.
  unfold std_substr, abs. nl.
  replace (N.min count1 (N.min (len s) (nlen (buf s)) - pos1)) with l1 by lia.
  replace (N.min l1 (N.min (len s) (nlen (buf s)) - pos1)) with l1 by lia.
  replace (N.min count2 (N.min len2 (nlen arr) - pos2)) with l2 by lia.
  replace (N.min l2 (N.min len2 (nlen arr) - pos2)) with l2 by lia.
  rewrite !take_take.
  replace (N.min (N.min l1 l2) l1) with (N.min l1 l2) by lia.
  replace (N.min (N.min l1 l2) l2) with (N.min l1 l2) by lia.
  f_equal. f_equal; pw.
Qed.

(** operator == / != *)
Lemma eq_op_refines Lo s o : Inv L s -> Inv Lo o -> eq_op s o = Ok (list_eqb (abs s) (abs o)).
Proof.
  intros (Hb & Hl & Hz) (Hbo & Hlo & Hzo). unfold eq_op.
  destruct (N.eqb_spec (len s) (len o)) as [E|E].
  - rewrite mcmp_ok by lia. cbn [bind]. f_equal. rewrite !drop_0. unfold abs. rewrite <- E.
    destruct (bcmp (take (len s) (buf s)) (take (len s) (buf o))) eqn:C.
    + apply bcmp_eq in C; [|nl; lia]. rewrite C. symmetry. apply list_eqb_eq. reflexivity.
    + cbn. symmetry. apply not_true_is_false. intros H. apply list_eqb_eq in H.
      rewrite H in C. assert (X : bcmp (take (len s) (buf o)) (take (len s) (buf o)) = Eq)
        by (apply bcmp_eq; reflexivity). congruence.
    + cbn. symmetry. apply not_true_is_false. intros H. apply list_eqb_eq in H.
      rewrite H in C. assert (X : bcmp (take (len s) (buf o)) (take (len s) (buf o)) = Eq)
        by (apply bcmp_eq; reflexivity). congruence.
  - f_equal. symmetry. apply not_true_is_false. intros H. apply list_eqb_eq in H.
    apply (f_equal nlen) in H. unfold abs in H. revert H. nl. lia.
Qed.

Lemma ne_op_refines Lo s o : Inv L s -> Inv Lo o -> ne_op s o = Ok (negb (list_eqb (abs s) (abs o))).
Proof.
  intros Hs Ho. rewrite eq_ne_complementary, (eq_op_refines Lo s o Hs Ho). reflexivity.
Qed.

(** substr, copy *)
Lemma substr_refines s pos count :
  Inv L s -> pos <= len s -> substr s pos count = Ok (std_substr (abs s) pos count).
Proof.
  intros (Hb & Hl & Hz) Hp. pose proof HL as [HL1 HL2]. unfold substr. cbv zeta.
  unfold std_substr, abs. nl. replace (N.min (len s) (nlen (buf s))) with (len s) by lia.
  destruct (N.leb_spec (len s) pos); cbn [orb].
  - f_equal. replace (len s - pos) with 0 by lia. rewrite N.min_0_r, take_0. reflexivity.
  - destruct (N.eqb_spec count 0).
    + subst. rewrite N.min_0_l, take_0. reflexivity.
    + rewrite !sub64_small by (unfold M64 in *; lia).
      destruct (N.leb_spec (len s - pos) count); rewrite rdn_ok by lia; f_equal; pw.
Qed.

Lemma copy_refines s count pos :
  Inv L s -> pos <= len s ->
  copy s (if pos <? len s then N.min count (len s - pos) else 0) count pos =
    Ok (nlen (std_substr (abs s) pos count), std_substr (abs s) pos count).
Proof.
  intros (Hb & Hl & Hz) Hp. pose proof HL as [HL1 HL2]. unfold copy. cbv zeta.
  unfold std_substr, abs. nl. replace (N.min (len s) (nlen (buf s))) with (len s) by lia.
  destruct (N.leb_spec (len s) pos).
  - replace (len s - pos) with 0 by lia. rewrite !N.min_0_r, take_0. reflexivity.
  - rewrite !sub64_small by (unfold M64 in *; lia).
    destruct (N.ltb_spec pos (len s)); [|lia].
    destruct (N.leb_spec (len s - pos) count); rewrite rdn_ok by lia; cbn [bind].
    + destruct (N.leb_spec (len s - pos) (N.min count (len s - pos))); [|lia].
      f_equal. f_equal; [lia|pw].
    + destruct (N.leb_spec count (N.min count (len s - pos))); [|lia].
      f_equal. f_equal; [lia|pw].
Qed.

(** element access *)
Lemma at_refines s i : Inv L s -> i < len s -> at_ s i = Ok (nthN i (abs s)).
Proof.
  intros (Hb & Hl & Hz) Hi. unfold at_. destruct (N.ltb_spec (len s) i); [lia|].
  rewrite rd_ok by lia. f_equal. unfold abs. rewrite nthN_take.
  destruct (N.ltb_spec i (len s)); [reflexivity|lia].
Qed.

Lemma front_refines s : Inv L s -> 0 < len s -> rd (buf s) 0 = Ok (nthN 0 (abs s)).
Proof.
  intros (Hb & Hl & Hz) Hi. rewrite rd_ok by lia. f_equal. unfold abs. rewrite nthN_take.
  destruct (N.ltb_spec 0 (len s)); [reflexivity|lia].
Qed.

Lemma back_refines s : Inv L s -> 0 < len s -> back s = Ok (nthN (len s - 1) (abs s)).
Proof.
  intros (Hb & Hl & Hz) Hi. pose proof HL as [HL1 HL2]. unfold back.
  destruct (N.eqb_spec (len s) 0); [lia|]. rewrite sub64_small by (unfold M64 in *; lia).
  rewrite rd_ok by lia. f_equal. unfold abs. rewrite nthN_take.
  destruct (N.ltb_spec (len s - 1) (len s)); [reflexivity|lia].
Qed.

Lemma str_refines s : Inv L s -> str s = Ok (abs s).
Proof.
  intros (Hb & Hl & Hz). unfold str, abs. destruct (N.ltb_spec 0 (len s)).
  - rewrite rdn_ok by lia. rewrite drop_0. reflexivity.
  - replace (len s) with 0 by lia. rewrite take_0. reflexivity.
Qed.

(** starts_with *)
Lemma prefixb_take : forall (p l : list byte),
  prefixb p l = (nlen p <=? nlen l) && is_eq (bcmp (take (nlen p) l) p).
Proof.
  induction p as [|x p IH]; intros [|y l].
  - reflexivity.
  - cbn [prefixb]. rewrite (@nlen_nil N), take_0. reflexivity.
  - cbn [prefixb]. rewrite (@nlen_nil N), nlen_cons. destruct (N.leb_spec (1 + nlen p) 0); [lia|reflexivity].
  - cbn [prefixb]. rewrite !nlen_cons, take_succ_cons. cbn [bcmp]. rewrite IH.
    destruct (N.eqb_spec x y) as [E|E].
    + subst. rewrite N.compare_refl.
      destruct (N.leb_spec (nlen p) (nlen l)); destruct (N.leb_spec (1 + nlen p) (1 + nlen l)); try lia; reflexivity.
    + cbn [andb]. destruct (y ?= x) eqn:C.
      * apply N.compare_eq in C. congruence.
      * cbn. now rewrite andb_false_r.
      * cbn. now rewrite andb_false_r.
Qed.

Lemma bcmp_sym_eq a b : is_eq (bcmp a b) = is_eq (bcmp b a).
Proof.
  revert b. induction a as [|x a IH]; intros [|y b]; cbn [bcmp]; try reflexivity.
  rewrite (N.compare_antisym x y). destruct (x ?= y); cbn; auto.
Qed.

Lemma starts_with_impl_refines s arr n :
  Inv L s -> n <= nlen arr ->
  starts_with_impl s arr n = Ok (prefixb (take n arr) (abs s)).
Proof.
  intros (Hb & Hl & Hz) Ha. unfold starts_with_impl.
  rewrite prefixb_take. unfold abs. nl.
  replace (N.min n (nlen arr)) with n by lia. replace (N.min (len s) (nlen (buf s))) with (len s) by lia.
  destruct (N.eqb_spec n 0) as [E0|E0]; cbn [andb].
  - subst n. destruct (N.eqb_spec (len s) 0) as [E1|E1].
    + rewrite E1. rewrite !take_0. reflexivity.
    + destruct (N.ltb_spec (len s) 0); [lia|]. rewrite mcmp_ok by lia. cbn [bind].
      rewrite !take_0. destruct (N.leb_spec 0 (len s)); [reflexivity|lia].
  - destruct (N.ltb_spec (len s) n).
    + destruct (N.leb_spec n (len s)); [lia|reflexivity].
    + destruct (N.leb_spec n (len s)); [|lia]. rewrite mcmp_ok by lia. cbn [bind andb].
      rewrite !drop_0, take_take. replace (N.min n (len s)) with n by lia. reflexivity.
Qed.

End RObs.
