(** C11, find family: each implementation function of the model returns what
    the std::string specification (FsStd.v) returns on the text of the object. *)
From Coq Require Import List NArith Bool Lia ZifyNat ZifyN ZifyBool.
Import ListNotations.
Require Import Celma.Common.Res Celma.FixedStr.FsBase Celma.FixedStr.FsModel
  Celma.FixedStr.FsLemmas Celma.FixedStr.FsSafe Celma.FixedStr.FsSafeObs Celma.FixedStr.FsSafeAll
  Celma.FixedStr.FsStd Celma.FixedStr.FsRefine Celma.FixedStr.FsRefineObs Celma.FixedStr.FsRefine3
  Celma.FixedStr.FsIter Celma.FixedStr.FsFind.
Local Open Scope N_scope.

(* ------------------------------------------------------------------ *)
(** * list facts *)

Lemma prefixb_short (p l : list byte) : nlen l < nlen p -> prefixb p l = false.
Proof. intros H. rewrite prefixb_take. destruct (N.leb_spec (nlen p) (nlen l)); [lia|reflexivity]. Qed.

Lemma prefixb_single (c : byte) (l : list byte) i :
  i < nlen l -> prefixb [c] (drop i l) = (c =? nthN i l).
Proof.
  intros H. rewrite (drop_nth l i H). cbn [prefixb]. apply andb_true_r.
Qed.

Lemma memb_single (a c : byte) : memb a [c] = (c =? a).
Proof. cbn [memb]. apply orb_false_r. Qed.

Lemma is_eq_bcmp_iff (a b : list byte) : nlen a = nlen b -> (is_eq (bcmp a b) = true <-> a = b).
Proof.
  intros H. rewrite <- (bcmp_eq a b H). destruct (bcmp a b); cbn; split; intros; try reflexivity; discriminate.
Qed.

Lemma is_eq_bcmp_rev (a b : list byte) :
  nlen a = nlen b -> is_eq (bcmp (rev a) (rev b)) = is_eq (bcmp a b).
Proof.
  intros H. apply eq_true_iff_eq.
  rewrite is_eq_bcmp_iff by (rewrite !nlen_rev; assumption). rewrite is_eq_bcmp_iff by assumption.
  split; intros E; [|congruence]. rewrite <- (rev_involutive a), <- (rev_involutive b). congruence.
Qed.

Lemma take_rev (l : list byte) k : k <= nlen l -> take k (rev l) = rev (drop (nlen l - k) l).
Proof.
  intros H. rewrite take_firstn, drop_skipn, firstn_rev. unfold nlen in *. f_equal. f_equal. lia.
Qed.

(** ends_with: memcmp of the last [nlen p] characters *)
Lemma suffixb_take (p l : list byte) :
  suffixb p l = (nlen p <=? nlen l) && is_eq (bcmp (drop (nlen l - nlen p) l) p).
Proof.
  unfold suffixb. rewrite prefixb_take, !nlen_rev.
  destruct (N.leb_spec (nlen p) (nlen l)); cbn [andb]; [|reflexivity].
  rewrite take_rev by assumption. apply is_eq_bcmp_rev. rewrite nlen_drop. lia.
Qed.

(** a NUL-free text *)
Lemma cstr_ok_nth (l : list byte) i : cstr_ok l -> i < nlen l -> nthN i l <> 0.
Proof.
  unfold cstr_ok. revert i. induction l as [|x r IH]; intros i H Hi.
  - unfold nlen in Hi. cbn in Hi. lia.
  - cbn [cstrlen] in H. rewrite nlen_cons in *. pose proof (cstrlen_le r).
    destruct (N.eqb_spec x 0); [lia|]. rewrite nthN_cons.
    destruct (N.eqb_spec i 0); [assumption|]. apply IH; lia.
Qed.

Lemma cstrlen_carr (x : list byte) : cstr_ok x -> cstrlen (carr x) = nlen x.
Proof.
  unfold cstr_ok, carr. induction x as [|y r IH]; intros H.
  - reflexivity.
  - cbn [cstrlen app] in *. rewrite nlen_cons in *. pose proof (cstrlen_le r).
    destruct (N.eqb_spec y 0); [lia|]. rewrite IH; lia.
Qed.

Lemma take_drop_cons (l : list byte) i n :
  1 <= n -> i < nlen l -> take n (drop i l) = nthN i l :: take (n - 1) (drop (i + 1) l).
Proof.
  intros Hn Hi. rewrite (drop_nth l i Hi). replace n with (1 + (n - 1)) at 1 by lia.
  apply take_succ_cons.
Qed.

Section Find.
Variable L : N.
Hypothesis HL : CapOk L.

Ltac arith := unfold NPOS, M64 in *; lia.

Lemma abs_nth s i : Inv L s -> i < len s -> nthN i (buf s) = nthN i (abs s).
Proof.
  intros (Hb & Hl & Hz) Hi. unfold abs. rewrite nthN_take. destruct (N.ltb_spec i (len s)); [reflexivity|lia].
Qed.

Lemma buf_cstrlen o : Inv L o -> cstr_ok (abs o) -> cstrlen (buf o) = len o.
Proof.
  intros Ho Hc. apply (inv_strlen L o Ho). intros i Hi.
  rewrite (abs_nth o i Ho Hi). apply cstr_ok_nth; [assumption|]. rewrite (abs_len L o Ho). assumption.
Qed.

(** memcmp of the needle at position idx = "the needle is a prefix of the text from idx on" *)
Lemma eq_at_match s arr n idx :
  Inv L s -> n <= nlen arr -> idx + n <= len s ->
  eq_at s arr n idx = Ok (prefixb (take n arr) (drop idx (abs s))).
Proof.
  intros Hs Ha Hi. pose proof Hs as (Hb & Hl & Hz). unfold eq_at.
  rewrite mcmp_ok by lia. cbn [bind]. f_equal. rewrite prefixb_take.
  rewrite nlen_take, nlen_drop, (abs_len L s Hs).
  replace (N.min n (nlen arr)) with n by lia.
  destruct (N.leb_spec n (len s - idx)); [|lia]. cbn [andb].
  rewrite drop_0. f_equal. f_equal. unfold abs. pw.
Qed.

Lemma no_match_late s nd i : Inv L s -> 1 <= nlen nd -> len s < i + nlen nd -> prefixb nd (drop i (abs s)) = false.
Proof.
  intros Hs H1 H. apply prefixb_short. rewrite nlen_drop, (abs_len L s Hs). lia.
Qed.

(** find( str, pos) *)
Lemma find_arr_refines s arr n pos :
  Inv L s -> 1 <= n -> n <= nlen arr -> n < M64 -> pos < M64 ->
  find_arr L s arr n pos = Ok (std_find (abs s) (take n arr) pos).
Proof.
  intros Hs Hn Ha Hm Hp. pose proof Hs as (Hb & Hl & Hz). pose proof HL as [HL1 HL2].
  assert (Ln : nlen (take n arr) = n) by (rewrite nlen_take; lia).
  set (Q := fun i => (pos <=? i) && prefixb (take n arr) (drop i (abs s))).
  assert (HQ : least Q 0 (len s) (std_find (abs s) (take n arr) pos)).
  { unfold std_find. rewrite <- (abs_len L s Hs). apply positions_least. rewrite (abs_len L s Hs). arith. }
  assert (Hnone : (forall i, i < len s -> Q i = false) -> std_find (abs s) (take n arr) pos = NPOS).
  { intros H. apply (least_unique Q 0 (len s)); [arith|assumption|]. apply least_none. intros; apply H; assumption. }
  unfold find_arr. cbv zeta.
  destruct (N.ltb_spec (len s) n); cbn [orb].
  { f_equal. symmetry. apply Hnone. intros i Hi. unfold Q. rewrite no_match_late by (assumption || lia). apply andb_false_r. }
  rewrite !sub64_small by arith.
  destruct (N.ltb_spec (len s - n) pos); cbn [orb].
  { f_equal. symmetry. apply Hnone. intros i Hi. unfold Q.
    destruct (N.leb_spec pos i); [|reflexivity]. rewrite no_match_late by (assumption || lia). reflexivity. }
  destruct (N.eqb_spec (len s) 0); cbn [orb]; [lia|].
  destruct (N.eqb_spec n 0); cbn [orb]; [lia|].
  assert (Hc : forall i, pos <= i -> i <= len s - n + 1 -> (i <=? len s - n) = (i <? len s - n + 1))
    by (intros; lia).
  assert (Ht : forall i, pos <= i -> i < len s - n + 1 ->
               eq_at s arr n i = Ok (prefixb (take n arr) (drop i (abs s))))
    by (intros; apply eq_at_match; [assumption|assumption|lia]).
  destruct (scan_up_least (fuel L) (fun idx => idx <=? len s - n) (eq_at s arr n)
              (fun i => prefixb (take n arr) (drop i (abs s))) (len s - n + 1) ltac:(arith)
              pos Hc Ht ltac:(lia) ltac:(rewrite fuel_val; lia)) as (r & E & Hr).
  rewrite E. f_equal. apply (least_unique Q 0 (len s)); [arith| |assumption].
  apply (least_transfer _ Q pos (len s - n + 1) 0 (len s) r Hr); try lia.
    + intros i H1 H2. unfold Q. destruct (N.leb_spec pos i); [reflexivity|lia].
    + intros i H1 H2. unfold Q. destruct (N.leb_spec pos i); [lia|reflexivity].
    + intros i H1 H2. unfold Q. rewrite no_match_late by (assumption || lia). apply andb_false_r.
Qed.

(** find( ch, pos) *)
Lemma find_ch_refines s ch pos :
  Inv L s -> pos <= len s ->
  find_ch L s ch pos = Ok (std_find (abs s) [ch] pos).
Proof.
  intros Hs Hp. pose proof Hs as (Hb & Hl & Hz). pose proof HL as [HL1 HL2].
  set (Q := fun i => (pos <=? i) && prefixb [ch] (drop i (abs s))).
  assert (HQ : least Q 0 (len s) (std_find (abs s) [ch] pos)).
  { unfold std_find. rewrite <- (abs_len L s Hs). apply positions_least. rewrite (abs_len L s Hs). arith. }
  unfold find_ch. cbv zeta. rewrite add64_small by arith.
  destruct (N.ltb_spec (len s) (pos + 1)); cbn [orb].
  { f_equal. apply (least_unique Q 0 (len s)); [arith| |assumption]. apply least_none.
    intros i H1 H2. unfold Q. destruct (N.leb_spec pos i); [lia|reflexivity]. }
  destruct (N.eqb_spec (len s) 0); cbn [orb]; [lia|].
  assert (Ht : forall i, pos <= i -> i < len s ->
               (do a <- rd (buf s) i; Ok (a =? ch)) = Ok (prefixb [ch] (drop i (abs s)))).
  { intros i H1 H2. rewrite rd_ok by lia. cbn [bind]. f_equal.
    rewrite prefixb_single by (rewrite (abs_len L s Hs); assumption).
    rewrite (abs_nth s i Hs H2). apply N.eqb_sym. }
  destruct (scan_up_least (fuel L) (fun idx => idx <? len s)
              (fun idx => do a <- rd (buf s) idx; Ok (a =? ch))
              (fun i => prefixb [ch] (drop i (abs s))) (len s) ltac:(arith)
              pos ltac:(intros; reflexivity) Ht ltac:(lia) ltac:(rewrite fuel_val; lia)) as (r & E & Hr).
  rewrite E. f_equal. apply (least_unique Q 0 (len s)); [arith| |assumption].
    apply (least_transfer _ Q pos (len s) 0 (len s) r Hr); try lia.
    + intros i H1 H2. unfold Q. destruct (N.leb_spec pos i); [reflexivity|lia].
    + intros i H1 H2. unfold Q. destruct (N.leb_spec pos i); [lia|reflexivity].
Qed.

(** rfind( str, pos) *)
Lemma rfind_loop_refines s arr n pos :
  Inv L s -> 1 <= n -> n <= nlen arr -> n <= len s ->
  rfind_loop L s arr n pos = Ok (std_rfind (abs s) (take n arr) pos).
Proof.
  intros Hs Hn Ha Hle. pose proof Hs as (Hb & Hl & Hz). pose proof HL as [HL1 HL2].
  set (Q := fun i => (i <=? pos) && prefixb (take n arr) (drop i (abs s))).
  assert (Ln : nlen (take n arr) = n) by (rewrite nlen_take; lia).
  assert (HQ : greatest Q (len s) (std_rfind (abs s) (take n arr) pos)).
  { unfold std_rfind. rewrite <- (abs_len L s Hs). apply positions_greatest. rewrite (abs_len L s Hs). arith. }
  unfold rfind_loop. cbv zeta. rewrite !sub64_small by arith.
  set (pos' := if len s - n <? pos then len s - n else pos).
  assert (Hp : pos' <= len s - n /\ pos' <= pos /\ (pos' = pos \/ pos' = len s - n))
    by (unfold pos'; destruct (N.ltb_spec (len s - n) pos); lia).
  clearbody pos'. rewrite add64_small by arith.
  assert (Ht : forall j, j < pos' + 1 -> eq_at s arr n j = Ok (prefixb (take n arr) (drop j (abs s))))
    by (intros; apply eq_at_match; [assumption|assumption|lia]).
  destruct (scan_down_greatest (fuel L) (eq_at s arr n)
              (fun i => prefixb (take n arr) (drop i (abs s))) (pos' + 1) ltac:(arith) Ht
              ltac:(rewrite fuel_val; lia)) as (r & E & Hr).
  rewrite E. f_equal. apply (greatest_unique Q (len s)); [arith| |assumption].
    apply (greatest_transfer _ Q (pos' + 1) (len s) r Hr); try lia.
    + intros i H1. unfold Q. destruct (N.leb_spec i pos); [reflexivity|lia].
    + intros i H1 H2. unfold Q. destruct (N.leb_spec i pos); [|reflexivity].
      rewrite no_match_late by (assumption || lia). reflexivity.
Qed.

Lemma rfind_none s nd pos : Inv L s -> len s < nlen nd -> std_rfind (abs s) nd pos = NPOS.
Proof.
  intros Hs H. pose proof Hs as (Hb & Hl & Hz). pose proof HL as [HL1 HL2].
  set (Q := fun i => (i <=? pos) && prefixb nd (drop i (abs s))).
  apply (greatest_unique Q (len s)); [arith| |].
  - unfold std_rfind. rewrite <- (abs_len L s Hs). apply positions_greatest. rewrite (abs_len L s Hs). arith.
  - apply greatest_none. intros i Hi. unfold Q. rewrite no_match_late by (assumption || lia). apply andb_false_r.
Qed.

Lemma rfind_arr_refines s arr n pos :
  Inv L s -> 1 <= n -> n <= nlen arr ->
  rfind_arr L s arr n pos = Ok (std_rfind (abs s) (take n arr) pos).
Proof.
  intros Hs Hn Ha. unfold rfind_arr. cbv zeta.
  assert (Ln : nlen (take n arr) = n) by (rewrite nlen_take; lia).
  destruct (N.eqb_spec (len s) 0); cbn [orb].
  { f_equal. symmetry. apply rfind_none; [assumption|lia]. }
  destruct (N.eqb_spec n 0); cbn [orb]; [lia|].
  destruct (N.ltb_spec (len s) n); cbn [orb].
  { f_equal. symmetry. apply rfind_none; [assumption|lia]. }
  apply rfind_loop_refines; assumption.
Qed.

(** rfind( const char* str, pos, count) with 0 < count <= strlen( str) *)
Lemma rfind_pc_refines s cs pos count :
  Inv L s -> cstr_ok cs -> 1 <= count -> count <= nlen cs ->
  rfind_pc L s cs pos count = Ok (std_rfind (abs s) (take count cs) pos).
Proof.
  intros Hs Hc H1 H2. unfold rfind_pc. cbv zeta. rewrite Hc.
  assert (Ln : nlen (take count cs) = count) by (rewrite nlen_take; lia).
  destruct (N.eqb_spec (len s) 0).
  { f_equal. symmetry. apply rfind_none; [assumption|lia]. }
  destruct (N.eqb_spec (nlen cs) 0); [lia|].
  destruct (N.ltb_spec (nlen cs) count); [lia|].
  destruct (N.ltb_spec (len s) count).
  { f_equal. symmetry. apply rfind_none; [assumption|lia]. }
  rewrite rfind_loop_refines by (rewrite ?nlen_carr; assumption || lia).
  rewrite take_carr_le by assumption. reflexivity.
Qed.

(** rfind( ch, pos) with pos inside the string or npos *)
Lemma rfind_ch_refines s ch pos :
  Inv L s -> (pos < len s \/ pos = NPOS) ->
  rfind_ch L s ch pos = Ok (std_rfind (abs s) [ch] pos).
Proof.
  intros Hs Hp. pose proof Hs as (Hb & Hl & Hz). pose proof HL as [HL1 HL2].
  set (Q := fun i => (i <=? pos) && prefixb [ch] (drop i (abs s))).
  assert (HQ : greatest Q (len s) (std_rfind (abs s) [ch] pos)).
  { unfold std_rfind. rewrite <- (abs_len L s Hs). apply positions_greatest. rewrite (abs_len L s Hs). arith. }
  unfold rfind_ch. cbv zeta.
  assert (Hstart : exists st, st <= len s /\ (forall i, st <= i -> i < len s -> pos < i) /\
                              (forall i, i < st -> i <= pos) /\
                              ((len s <? pos +! 1) || (len s =? 0) = false ->
                               (if pos =? NPOS then len s -! 1 else pos) +! 1 = st)).
  { destruct Hp as [Hp|Hp].
    - exists (pos + 1). split; [lia|]. split; [intros; lia|]. split; [intros; lia|]. intros _.
      destruct (N.eqb_spec pos NPOS); [arith|]. apply add64_small. arith.
    - subst pos. exists (len s). split; [lia|]. split; [intros; lia|]. split; [intros; arith|].
      intros H. rewrite N.eqb_refl. assert (E : len s <> 0) by (intros E; rewrite E in H; vm_compute in H; discriminate).
      rewrite sub64_small by arith. rewrite add64_small by arith. lia. }
  destruct Hstart as (st & Hst1 & Hst2 & Hst3 & Hst4).
  destruct ((len s <? pos +! 1) || (len s =? 0)) eqn:C.
  - f_equal. apply (greatest_unique Q (len s)); [arith| |assumption]. apply greatest_none.
    intros i Hi. unfold Q. destruct Hp as [Hp|Hp].
    + rewrite add64_small in C by arith. lia.
    + subst pos. replace (NPOS +! 1) with 0 in C by reflexivity. lia.
  - rewrite (Hst4 eq_refl).
    assert (Ht : forall j, j < st ->
                 (do a <- rd (buf s) j; Ok (a =? ch)) = Ok (prefixb [ch] (drop j (abs s)))).
    { intros j Hj. rewrite rd_ok by lia. cbn [bind]. f_equal.
      rewrite prefixb_single by (rewrite (abs_len L s Hs); lia).
      rewrite (abs_nth s j Hs) by lia. apply N.eqb_sym. }
    destruct (scan_down_greatest (fuel L) (fun idx => do a <- rd (buf s) idx; Ok (a =? ch))
                (fun i => prefixb [ch] (drop i (abs s))) st ltac:(arith) Ht
                ltac:(rewrite fuel_val; lia)) as (r & E & Hr).
    rewrite E. f_equal. apply (greatest_unique Q (len s)); [arith| |assumption].
      apply (greatest_transfer _ Q st (len s) r Hr); try lia.
      * intros i H1. unfold Q. specialize (Hst3 i H1). destruct (N.leb_spec i pos); [reflexivity|lia].
      * intros i H1 H2. unfold Q. specialize (Hst2 i H1 H2). destruct (N.leb_spec i pos); [lia|reflexivity].
Qed.

End Find.
