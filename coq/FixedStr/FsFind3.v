(** C11: contains, ends_with and the four character-class searches
    (find_first_of, find_first_not_of, find_last_of, find_last_not_of) of the
    model return what the std::string specification returns. *)
From Coq Require Import List NArith Bool Lia ZifyNat ZifyN ZifyBool.
Import ListNotations.
Require Import Celma.Common.Res Celma.FixedStr.FsBase Celma.FixedStr.FsModel
  Celma.FixedStr.FsLemmas Celma.FixedStr.FsSafe Celma.FixedStr.FsSafeObs Celma.FixedStr.FsSafeAll
  Celma.FixedStr.FsStd Celma.FixedStr.FsRefine Celma.FixedStr.FsRefineObs Celma.FixedStr.FsRefine3
  Celma.FixedStr.FsIter Celma.FixedStr.FsFind Celma.FixedStr.FsFind2.
Local Open Scope N_scope.

Lemma is_eq_single (a c : byte) : is_eq (bcmp [a] [c]) = (a =? c).
Proof. cbn [bcmp]. rewrite N.eqb_compare. destruct (a ?= c); reflexivity. Qed.

Section Find3.
Variable L : N.
Hypothesis HL : CapOk L.

Ltac arith := unfold NPOS, M64 in *; lia.

(* ------------------------------------------------------------------ *)
(** * contains *)

Lemma contains_test s arr n i :
  Inv L s -> 1 <= n -> n <= nlen arr -> i + n <= len s ->
  (do a <- rd (buf s) i; do b <- rd arr 0;
   if a =? b then do c <- mcmp (buf s) i arr 0 n; Ok (is_eq c) else Ok false)
  = Ok (prefixb (take n arr) (drop i (abs s))).
Proof.
  intros Hs Hn Ha Hi. pose proof Hs as (Hb & Hl & Hz).
  rewrite !rd_ok by lia. cbn [bind]. destruct (N.eqb_spec (nthN i (buf s)) (nthN 0 arr)) as [E|E].
  - apply (eq_at_match L s arr n i); assumption.
  - f_equal. symmetry.
    rewrite <- (drop_0 arr) at 1. rewrite (take_drop_cons arr 0 n) by lia.
    rewrite (drop_nth (abs s) i) by (rewrite (abs_len L s Hs); lia).
    cbn [prefixb]. rewrite <- (abs_nth L s i Hs) by lia.
    destruct (N.eqb_spec (nthN 0 arr) (nthN i (buf s))); [congruence|reflexivity].
Qed.

Lemma find_none s nd pos :
  Inv L s -> 1 <= nlen nd -> (forall i, pos <= i -> i < len s -> prefixb nd (drop i (abs s)) = false) ->
  std_find (abs s) nd pos = NPOS.
Proof.
  intros Hs Hn H. pose proof Hs as (Hb & Hl & Hz). pose proof HL as [HL1 HL2].
  set (Q := fun i => (pos <=? i) && prefixb nd (drop i (abs s))).
  apply (least_unique Q 0 (len s)); [arith| |].
  - unfold std_find. rewrite <- (abs_len L s Hs). apply positions_least. rewrite (abs_len L s Hs). arith.
  - apply least_none. intros i H1 H2. unfold Q. destruct (N.leb_spec pos i); [|reflexivity].
    rewrite H by assumption. reflexivity.
Qed.

Lemma contains_impl_refines s arr n :
  Inv L s -> 1 <= n -> n <= nlen arr -> n < M64 ->
  contains_impl L s arr n = Ok (negb (std_find (abs s) (take n arr) 0 =? NPOS)).
Proof.
  intros Hs Hn Ha Hm. pose proof Hs as (Hb & Hl & Hz). pose proof HL as [HL1 HL2].
  assert (Ln : nlen (take n arr) = n) by (rewrite nlen_take; lia).
  unfold contains_impl. cbv zeta.
  destruct (N.eqb_spec n 0); cbn [orb]; [lia|].
  destruct (N.eqb_spec (len s) 0); cbn [orb].
  { rewrite find_none; [reflexivity|assumption|lia|]. intros; lia. }
  destruct (N.ltb_spec (len s) n); cbn [orb].
  { rewrite find_none; [reflexivity|assumption|lia|].
    intros i H1 H2. apply (no_match_late L s); [assumption|lia|lia]. }
  set (Q := fun i => (0 <=? i) && prefixb (take n arr) (drop i (abs s))).
  assert (HQ : least Q 0 (len s) (std_find (abs s) (take n arr) 0)).
  { unfold std_find. rewrite <- (abs_len L s Hs). apply positions_least. rewrite (abs_len L s Hs). arith. }
  assert (Hc : forall i, 0 <= i -> i <= len s - n + 1 -> (i +! n <=? len s) = (i <? len s - n + 1)).
  { intros i _ Hi. rewrite add64_small by arith. lia. }
  assert (Ht : forall i, 0 <= i -> i < len s - n + 1 ->
               (do a <- rd (buf s) i; do b <- rd arr 0;
                if a =? b then do c <- mcmp (buf s) i arr 0 n; Ok (is_eq c) else Ok false)
               = Ok (prefixb (take n arr) (drop i (abs s))))
    by (intros; apply contains_test; [assumption|assumption|assumption|lia]).
  destruct (scan_up_least (fuel L) (fun idx => idx +! n <=? len s) _
              (fun i => prefixb (take n arr) (drop i (abs s))) (len s - n + 1) ltac:(arith)
              0 Hc Ht ltac:(lia) ltac:(rewrite fuel_val; lia)) as (r & E & Hr).
  rewrite E. cbn [bind]. f_equal. f_equal. f_equal.
  apply (least_unique Q 0 (len s)); [arith| |assumption].
  apply (least_transfer _ Q 0 (len s - n + 1) 0 (len s) r Hr); try lia.
  - intros i H1 H2. unfold Q. destruct (N.leb_spec 0 i); [reflexivity|lia].
  - intros i H1 H2. unfold Q. rewrite (no_match_late L s) by (assumption || lia). apply andb_false_r.
Qed.

Lemma contains_ch_refines s ch :
  Inv L s -> contains_ch L s ch = Ok (negb (std_find (abs s) [ch] 0 =? NPOS)).
Proof.
  intros Hs. pose proof Hs as (Hb & Hl & Hz). pose proof HL as [HL1 HL2].
  unfold contains_ch.
  set (Q := fun i => (0 <=? i) && prefixb [ch] (drop i (abs s))).
  assert (HQ : least Q 0 (len s) (std_find (abs s) [ch] 0)).
  { unfold std_find. rewrite <- (abs_len L s Hs). apply positions_least. rewrite (abs_len L s Hs). arith. }
  assert (Ht : forall i, 0 <= i -> i < len s ->
               (do a <- rd (buf s) i; Ok (a =? ch)) = Ok (prefixb [ch] (drop i (abs s)))).
  { intros i H1 H2. rewrite rd_ok by lia. cbn [bind]. f_equal.
    rewrite prefixb_single by (rewrite (abs_len L s Hs); assumption).
    rewrite (abs_nth L s i Hs H2). apply N.eqb_sym. }
  destruct (scan_up_least (fuel L) (fun idx => idx <? len s) _
              (fun i => prefixb [ch] (drop i (abs s))) (len s) ltac:(arith)
              0 ltac:(intros; reflexivity) Ht ltac:(lia) ltac:(rewrite fuel_val; lia)) as (r & E & Hr).
  rewrite E. cbn [bind]. f_equal. f_equal. f_equal.
  apply (least_unique Q 0 (len s)); [arith| |assumption].
  apply (least_transfer _ Q 0 (len s) 0 (len s) r Hr); try lia.
  intros i H1 H2. unfold Q. destruct (N.leb_spec 0 i); [reflexivity|lia].
Qed.

(* ------------------------------------------------------------------ *)
(** * ends_with *)

Lemma ends_with_impl_refines s arr n :
  Inv L s -> n <= nlen arr -> ends_with_impl s arr n = Ok (suffixb (take n arr) (abs s)).
Proof.
  intros Hs Ha. pose proof Hs as (Hb & Hl & Hz). pose proof HL as [HL1 HL2].
  unfold ends_with_impl. rewrite suffixb_take, nlen_take, (abs_len L s Hs).
  replace (N.min n (nlen arr)) with n by lia.
  destruct (N.eqb_spec n 0) as [E0|E0]; cbn [andb].
  - subst n. destruct (N.eqb_spec (len s) 0) as [E1|E1].
    + rewrite take_0. unfold abs. rewrite E1, take_0. reflexivity.
    + destruct (N.ltb_spec (len s) 0); [lia|]. rewrite mcmp_ok by lia. cbn [bind].
      rewrite !take_0. destruct (N.leb_spec 0 (len s)); [|lia]. cbn [andb].
      rewrite N.sub_0_r, drop_all by (rewrite (abs_len L s Hs); lia). reflexivity.
  - destruct (N.ltb_spec (len s) n).
    + destruct (N.leb_spec n (len s)); [lia|reflexivity].
    + destruct (N.leb_spec n (len s)); [|lia]. rewrite sub64_small by arith.
      rewrite mcmp_ok by lia. cbn [bind andb]. rewrite drop_0. f_equal. f_equal. f_equal.
      unfold abs. pw.
Qed.

Lemma ends_with_ch_refines s ch :
  Inv L s -> ends_with_ch s ch = Ok (suffixb [ch] (abs s)).
Proof.
  intros Hs. pose proof Hs as (Hb & Hl & Hz). pose proof HL as [HL1 HL2].
  unfold ends_with_ch. rewrite suffixb_take, (abs_len L s Hs). change (nlen [ch]) with 1.
  destruct (N.ltb_spec 0 (len s)).
  - destruct (N.leb_spec 1 (len s)); [|lia]. cbn [andb]. rewrite sub64_small by arith.
    rewrite rd_ok by lia. cbn [bind]. f_equal.
    rewrite (drop_nth (abs s) (len s - 1)) by (rewrite (abs_len L s Hs); lia).
    rewrite drop_all by (rewrite (abs_len L s Hs); lia). rewrite is_eq_single.
    rewrite (abs_nth L s (len s - 1) Hs) by lia. reflexivity.
  - destruct (N.leb_spec 1 (len s)); [lia|reflexivity].
Qed.

(* ------------------------------------------------------------------ *)
(** * character classes *)

(** what the three kinds of tests compute on a character of the text *)
Definition class_test (s : fs) (test : N -> res bool) (chars : list byte) (neg : bool) : Prop :=
  forall i, i < len s -> test i = Ok (xorb neg (memb (nthN i (abs s)) chars)).

Lemma in_cstr_class s arr chars neg :
  Inv L s -> cstr_ok (abs s) -> cstrlen arr < nlen arr -> take (cstrlen arr) arr = chars ->
  class_test s (in_cstr s arr neg) chars neg.
Proof.
  intros Hs Hc Ha Hch i Hi. pose proof Hs as (Hb & Hl & Hz). unfold in_cstr.
  rewrite rd_ok by lia. cbn [bind]. unfold strchr_found.
  destruct (N.ltb_spec (cstrlen arr) (nlen arr)); [|lia]. cbn [bind]. rewrite Hch.
  rewrite (abs_nth L s i Hs Hi).
  assert (Hnz : nthN i (abs s) <> 0) by (apply cstr_ok_nth; [assumption|rewrite (abs_len L s Hs); assumption]).
  destruct (N.eqb_spec (nthN i (abs s)) 0); [contradiction|]. reflexivity.
Qed.

Lemma in_chars_class s arr count neg :
  Inv L s -> count <= nlen arr -> class_test s (in_chars s arr count neg) (take count arr) neg.
Proof.
  intros Hs Ha i Hi. pose proof Hs as (Hb & Hl & Hz). unfold in_chars.
  rewrite rd_ok by lia. cbn [bind]. rewrite rdn_ok by lia. cbn [bind]. rewrite drop_0.
  rewrite (abs_nth L s i Hs Hi). reflexivity.
Qed.

Lemma is_ch_class s ch neg : Inv L s -> class_test s (is_ch s ch neg) [ch] neg.
Proof.
  intros Hs i Hi. pose proof Hs as (Hb & Hl & Hz). unfold is_ch.
  rewrite rd_ok by lia. cbn [bind]. rewrite (abs_nth L s i Hs Hi), memb_single, N.eqb_sym. reflexivity.
Qed.

Section Class.
Variables (s : fs) (test : N -> res bool) (chars : list byte) (neg : bool).
Hypothesis Hs : Inv L s.
Hypothesis Ht : class_test s test chars neg.

Let P := fun i => xorb neg (memb (nthN i (abs s)) chars).

Lemma std_first_of_least pos :
  least (fun i => (pos <=? i) && P i) 0 (len s) (std_first_of (abs s) chars neg pos).
Proof.
  pose proof Hs as (Hb & Hl & Hz). pose proof HL as [HL1 HL2].
  unfold std_first_of. rewrite <- (abs_len L s Hs). apply positions_least. rewrite (abs_len L s Hs). arith.
Qed.

Lemma std_last_of_greatest pos :
  greatest (fun i => (i <=? pos) && P i) (len s) (std_last_of (abs s) chars neg pos).
Proof.
  pose proof Hs as (Hb & Hl & Hz). pose proof HL as [HL1 HL2].
  unfold std_last_of. rewrite <- (abs_len L s Hs). apply positions_greatest. rewrite (abs_len L s Hs). arith.
Qed.

(** the forward loop from [pos] *)
Lemma scan_first pos : pos <= len s ->
  scan_up (fuel L) (fun idx => idx <? len s) test pos = Ok (std_first_of (abs s) chars neg pos).
Proof.
  intros Hp. pose proof Hs as (Hb & Hl & Hz). pose proof HL as [HL1 HL2].
  destruct (scan_up_least (fuel L) (fun idx => idx <? len s) test P (len s) ltac:(arith)
              pos ltac:(intros; reflexivity) ltac:(intros; apply Ht; assumption) Hp
              ltac:(rewrite fuel_val; lia)) as (r & E & Hr).
  rewrite E. f_equal.
  apply (least_unique (fun i => (pos <=? i) && P i) 0 (len s)); [arith| |apply std_first_of_least].
  apply (least_transfer _ _ pos (len s) 0 (len s) r Hr); try lia;
    intros i H1 H2; destruct (N.leb_spec pos i); try reflexivity; lia.
Qed.

(** the backward loop from [st], where [st] = pos + 1 (or the length for npos) *)
Lemma scan_last pos st :
  st <= len s -> (forall i, i < st -> i <= pos) -> (forall i, st <= i -> i < len s -> pos < i) ->
  scan_down (fuel L) test st = Ok (std_last_of (abs s) chars neg pos).
Proof.
  intros H1 H2 H3. pose proof Hs as (Hb & Hl & Hz). pose proof HL as [HL1 HL2].
  destruct (scan_down_greatest (fuel L) test P st ltac:(arith)
              ltac:(intros; apply Ht; lia) ltac:(rewrite fuel_val; lia)) as (r & E & Hr).
  rewrite E. f_equal.
  apply (greatest_unique (fun i => (i <=? pos) && P i) (len s)); [arith| |apply std_last_of_greatest].
  apply (greatest_transfer _ _ st (len s) r Hr); try lia.
  all: intros i Hi; try intros Hi2.
  all: try (specialize (H2 i Hi)); try (specialize (H3 i Hi Hi2));
       destruct (N.leb_spec i pos); try reflexivity; lia.
Qed.

Lemma first_none pos : len s <= pos -> std_first_of (abs s) chars neg pos = NPOS.
Proof.
  intros Hp. pose proof Hs as (Hb & Hl & Hz). pose proof HL as [HL1 HL2].
  apply (least_unique (fun i => (pos <=? i) && P i) 0 (len s)); [arith|apply std_first_of_least|].
  apply least_none. intros i H1 H2. destruct (N.leb_spec pos i); [lia|reflexivity].
Qed.

Lemma last_none_empty pos : len s = 0 -> std_last_of (abs s) chars neg pos = NPOS.
Proof.
  intros Hp. pose proof Hs as (Hb & Hl & Hz). pose proof HL as [HL1 HL2].
  apply (greatest_unique (fun i => (i <=? pos) && P i) (len s)); [arith|apply std_last_of_greatest|].
  apply greatest_none. intros; lia.
Qed.

(** findFirstOfImpl / findFirstNotOfImpl / find_first_(not_)of( str, pos, count) *)
Lemma first_of_refines pos count : pos <= len s -> count <> 0 ->
  first_of L s test pos count = Ok (std_first_of (abs s) chars neg pos).
Proof.
  intros Hp Hc. unfold first_of. destruct (N.ltb_spec (len s) pos); [lia|]. cbn [orb].
  destruct (N.eqb_spec count 0); [contradiction|]. apply scan_first. assumption.
Qed.

(** find_first_(not_)of( ch, pos) *)
Lemma first_of_ch_refines pos : pos <= len s ->
  first_of_ch L s test pos = Ok (std_first_of (abs s) chars neg pos).
Proof.
  intros Hp. unfold first_of_ch. destruct (N.leb_spec (len s) pos).
  - f_equal. symmetry. apply first_none. assumption.
  - apply scan_first. assumption.
Qed.

(** findLastOfImpl / findLastNotOfImpl *)
Lemma last_of_impl_refines pos count : (pos < len s \/ pos = NPOS) -> count <> 0 ->
  last_of_impl L s test pos count = Ok (std_last_of (abs s) chars neg pos).
Proof.
  intros Hp Hc. pose proof Hs as (Hb & Hl & Hz). pose proof HL as [HL1 HL2].
  unfold last_of_impl. cbv zeta. destruct Hp as [Hp|Hp].
  - destruct (N.eqb_spec pos NPOS); [arith|]. rewrite add64_small by arith. rewrite sub64_small by arith.
    destruct (N.leb_spec (len s) (pos + 1 - 1)); [lia|]. cbn [orb].
    destruct (N.eqb_spec count 0); [contradiction|].
    apply scan_last; intros; lia.
  - subst pos. rewrite N.eqb_refl. destruct (N.eqb_spec (len s) 0) as [E|E].
    + rewrite E. replace (0 -! 1) with NPOS by reflexivity.
      destruct (N.leb_spec 0 NPOS); [|arith]. cbn [orb]. f_equal. symmetry. apply last_none_empty. assumption.
    + rewrite sub64_small by arith. destruct (N.leb_spec (len s) (len s - 1)); [lia|]. cbn [orb].
      destruct (N.eqb_spec count 0); [contradiction|].
      apply scan_last; intros; arith.
Qed.

(** find_last_(not_)of( str, pos, count) *)
Lemma last_of_pc_refines pos count : pos < len s -> count <> 0 ->
  last_of_pc L s test pos count = Ok (std_last_of (abs s) chars neg pos).
Proof.
  intros Hp Hc. pose proof Hs as (Hb & Hl & Hz). pose proof HL as [HL1 HL2].
  unfold last_of_pc. destruct (N.ltb_spec (len s) pos); [lia|]. cbn [orb].
  destruct (N.eqb_spec count 0); [contradiction|]. rewrite add64_small by arith.
  apply scan_last; intros; lia.
Qed.

(** find_last_(not_)of( ch, pos) *)
Lemma last_of_ch_refines pos : (pos < len s \/ pos = NPOS) ->
  last_of_ch L s test pos = Ok (std_last_of (abs s) chars neg pos).
Proof.
  intros Hp. pose proof Hs as (Hb & Hl & Hz). pose proof HL as [HL1 HL2].
  unfold last_of_ch. destruct Hp as [Hp|Hp].
  - destruct (N.eqb_spec pos NPOS); [arith|]. destruct (N.leb_spec (len s) pos); [lia|].
    rewrite add64_small by arith. apply scan_last; intros; lia.
  - subst pos. rewrite N.eqb_refl. apply scan_last; intros; arith.
Qed.

End Class.

End Find3.
