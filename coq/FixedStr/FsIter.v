(** C10/C11, iterators: the index stepping of FixedStringIterator and
    FixedStringReverseIterator stays at a character or at the end value (so
    operator* never leaves the object), the traversals visit the text forwards
    and backwards, and single steps agree with std::string iterators. *)
From Coq Require Import List NArith Bool Lia ZifyNat ZifyN ZifyBool.
Import ListNotations.
Require Import Celma.Common.Res Celma.FixedStr.FsBase Celma.FixedStr.FsModel
  Celma.FixedStr.FsLemmas Celma.FixedStr.FsSafe Celma.FixedStr.FsSafeObs Celma.FixedStr.FsStd
  Celma.FixedStr.FsRefine.
Local Open Scope N_scope.

(** an iterator position: a character of the string or the end value *)
Definition valid_it (s : fs) (i : N) : Prop := i = NPOS \/ i < len s.

Lemma drop_nth (l : list byte) i : i < nlen l -> drop i l = nthN i l :: drop (i + 1) l.
Proof. intros H. pw. Qed.

Lemma take_succ_snoc (l : list byte) i : i < nlen l -> take (i + 1) l = take i l ++ [nthN i l].
Proof. intros H. pw. Qed.

Section Iter.
Variable L : N.
Hypothesis HL : CapOk L.

Ltac arith := unfold NPOS, M64 in *; lia.

Lemma it_at_valid s pos : valid_it s (it_at s pos).
Proof. unfold valid_it, it_at. destruct (N.ltb_spec pos (len s)); [right; assumption|left; reflexivity]. Qed.

Ltac vcase := unfold valid_it in *;
  repeat match goal with
    | H : _ \/ _ |- _ => destruct H
    | |- context [if ?a <? ?b then _ else _] => destruct (N.ltb_spec a b)
    | |- context [if ?a <=? ?b then _ else _] => destruct (N.leb_spec a b)
    | |- context [if ?a =? ?b then _ else _] => destruct (N.eqb_spec a b)
    | |- context [(?a <? ?b) && _] => destruct (N.ltb_spec a b); cbn [andb]
    end;
  try (left; reflexivity); try arith;
  try (right; rewrite ?sub64_small by arith; rewrite ?add64_small by arith; first [assumption | arith]).

Lemma it_inc_valid s i : Inv L s -> valid_it s i -> valid_it s (it_inc s i).
Proof.
  intros (Hb & Hl & Hz) Hi. pose proof HL as [HL1 HL2]. unfold it_inc.
  destruct (N.eqb_spec (len s) 0) as [E|E].
  - rewrite E, sub64_wrap by arith. vcase.
  - rewrite sub64_small by arith. vcase.
Qed.

Lemma it_dec_valid s i : Inv L s -> valid_it s i -> i <> NPOS -> valid_it s (it_dec i).
Proof.
  intros (Hb & Hl & Hz) Hi Hn. pose proof HL as [HL1 HL2]. unfold it_dec. vcase.
Qed.

Lemma it_prev_valid s i : Inv L s -> valid_it s i -> valid_it s (it_prev s i).
Proof.
  intros Hs Hi. pose proof Hs as (Hb & Hl & Hz). pose proof HL as [HL1 HL2]. unfold it_prev.
  destruct (N.eqb_spec i NPOS).
  - destruct (N.eqb_spec (len s) 0); [left; assumption|]. right. rewrite sub64_small by arith. lia.
  - apply it_dec_valid; assumption.
Qed.

Lemma it_add_valid s i v : valid_it s i -> valid_it s (it_add s i v).
Proof. intros Hi. unfold it_add. vcase. Qed.

Lemma it_sub_valid s i v : Inv L s -> valid_it s i -> valid_it s (it_sub i v).
Proof.
  intros (Hb & Hl & Hz) Hi. pose proof HL as [HL1 HL2]. unfold it_sub. vcase.
Qed.

Lemma it_back_valid s i v : Inv L s -> valid_it s i -> valid_it s (it_back s i v).
Proof.
  intros (Hb & Hl & Hz) Hi. pose proof HL as [HL1 HL2]. unfold it_back. vcase.
Qed.

Lemma rit_inc_valid s i : Inv L s -> valid_it s i -> valid_it s (rit_inc i).
Proof.
  intros Hs Hi. unfold rit_inc. destruct (N.eqb_spec i NPOS); [left; assumption|].
  apply it_dec_valid; assumption.
Qed.

Lemma rit_dec_valid s i : Inv L s -> valid_it s i -> valid_it s (rit_dec s i).
Proof.
  intros Hs Hi. pose proof Hs as (Hb & Hl & Hz). unfold rit_dec. destruct (N.eqb_spec i NPOS).
  - destruct (N.eqb_spec (len s) 0); [left; assumption|right; lia].
  - apply it_inc_valid; assumption.
Qed.

Lemma rit_back_valid s i v : Inv L s -> v < M64 -> valid_it s i -> valid_it s (rit_back s i v).
Proof.
  intros (Hb & Hl & Hz) Hv Hi. pose proof HL as [HL1 HL2]. unfold rit_back. vcase.
Qed.

(** one step of an iterator, then operator*: the index is a character or the end
    value; operator* reads that character or throws range_error - it never
    leaves the object *)
Lemma it_step_index_valid s rev pos k v :
  Inv L s -> v < M64 ->
  exists i c, it_step s rev pos k v = Ok (i, c) /\ valid_it s i /\
              (i = NPOS -> c = None) /\ (i <> NPOS -> c = Some (nthN i (buf s))).
Proof.
  intros Hs Hv. pose proof Hs as (Hb & Hl & Hz). unfold it_step. cbv zeta.
  pose proof (it_at_valid s pos) as H0.
  match goal with |- context [if ?e =? NPOS then _ else _] => set (i := e) end.
  assert (Hi : valid_it s i).
  { unfold i. destruct rev, k;
      first [ apply it_inc_valid | apply it_prev_valid | apply it_add_valid | apply it_back_valid
            | apply rit_inc_valid | apply rit_dec_valid | apply it_sub_valid | apply rit_back_valid ];
      assumption. }
  clearbody i. destruct (N.eqb_spec i NPOS) as [E|E].
  - eexists _, _. split; [reflexivity|]. split; [assumption|]. split; [reflexivity|congruence].
  - destruct Hi as [Hi|Hi]; [contradiction|]. rewrite rd_ok by lia. cbn [bind].
    eexists _, _. split; [reflexivity|]. split; [right; assumption|]. split; [contradiction|reflexivity].
Qed.

(** forward traversal: for (it = begin(); it != end(); ++it) collects the text *)
Lemma walk_fwd s : Inv L s ->
  forall fu i acc, i < len s -> len s - i < N.of_nat fu ->
  walk fu s (it_inc s) i acc = Ok (rev acc ++ drop i (abs s)).
Proof.
  intros (Hb & Hl & Hz). pose proof HL as [HL1 HL2].
  assert (La : nlen (abs s) = len s) by (unfold abs; rewrite nlen_take; lia).
  induction fu as [|f IH]; intros i acc Hi Hf; [lia|].
  cbn [walk]. destruct (N.eqb_spec i NPOS); [arith|].
  unfold it_deref. destruct (N.eqb_spec i NPOS); [contradiction|].
  rewrite rd_ok by lia. cbn [bind].
  assert (Hn : nthN i (buf s) = nthN i (abs s))
    by (unfold abs; rewrite nthN_take; destruct (N.ltb_spec i (len s)); [reflexivity|lia]).
  rewrite (drop_nth (abs s) i) by lia. rewrite <- Hn.
  assert (Hnext : it_inc s i = if i <? len s - 1 then i + 1 else NPOS).
  { unfold it_inc. rewrite sub64_small by arith.
    destruct (N.ltb_spec i (len s - 1)); [apply add64_small; arith|reflexivity]. }
  rewrite Hnext. clear Hnext.
  destruct (N.ltb_spec i (len s - 1)).
  - rewrite IH by lia. cbn [rev]. rewrite <- app_assoc. reflexivity.
  - assert (i + 1 = len s) by lia. rewrite (drop_all (i + 1)) by lia.
    destruct f; [lia|]. cbn [walk]. rewrite N.eqb_refl. cbn [rev]. reflexivity.
Qed.

Theorem iter_forward s : Inv L s -> walk (fuel L) s (it_inc s) (it_begin s) [] = Ok (abs s).
Proof.
  intros Hs. pose proof Hs as (Hb & Hl & Hz). unfold it_begin.
  destruct (N.eqb_spec (len s) 0) as [E|E].
  - unfold fuel. replace (N.to_nat (L + 2)) with (S (N.to_nat (L + 1))) by lia. cbn [walk].
    rewrite N.eqb_refl. unfold abs. rewrite E, take_0. reflexivity.
  - rewrite (walk_fwd s Hs) by (rewrite ?fuel_val; lia). rewrite drop_0. reflexivity.
Qed.

(** backward traversal: for (it = rbegin(); it != rend(); ++it) collects the reversed text *)
Lemma walk_rev s : Inv L s ->
  forall fu i acc, i < len s -> i + 1 < N.of_nat fu ->
  walk fu s it_dec i acc = Ok (rev acc ++ rev (take (i + 1) (abs s))).
Proof.
  intros (Hb & Hl & Hz). pose proof HL as [HL1 HL2].
  assert (La : nlen (abs s) = len s) by (unfold abs; rewrite nlen_take; lia).
  induction fu as [|f IH]; intros i acc Hi Hf; [lia|].
  cbn [walk]. destruct (N.eqb_spec i NPOS); [arith|].
  unfold it_deref. destruct (N.eqb_spec i NPOS); [contradiction|].
  rewrite rd_ok by lia. cbn [bind].
  assert (Hn : nthN i (buf s) = nthN i (abs s))
    by (unfold abs; rewrite nthN_take; destruct (N.ltb_spec i (len s)); [reflexivity|lia]).
  rewrite (take_succ_snoc (abs s) i) by lia. rewrite <- Hn, rev_app_distr. cbn [rev app].
  assert (Hnext : it_dec i = if 0 <? i then i - 1 else NPOS).
  { unfold it_dec. destruct (N.ltb_spec 0 i); [apply sub64_small; arith|reflexivity]. }
  rewrite Hnext. clear Hnext.
  destruct (N.ltb_spec 0 i).
  - rewrite IH by lia. cbn [rev]. rewrite <- app_assoc.
    replace (i - 1 + 1) with i by lia. reflexivity.
  - assert (i = 0) by lia. subst i. rewrite take_0. cbn [rev].
    destruct f; [lia|]. cbn [walk]. rewrite N.eqb_refl. cbn [rev]. reflexivity.
Qed.

Theorem iter_reverse s : Inv L s -> walk (fuel L) s it_dec (rit_begin s) [] = Ok (rev (abs s)).
Proof.
  intros Hs. pose proof Hs as (Hb & Hl & Hz). pose proof HL as [HL1 HL2]. unfold rit_begin.
  assert (La : nlen (abs s) = len s) by (unfold abs; rewrite nlen_take; lia).
  destruct (N.eqb_spec (len s) 0) as [E|E].
  - unfold fuel. replace (N.to_nat (L + 2)) with (S (N.to_nat (L + 1))) by lia. cbn [walk].
    rewrite N.eqb_refl. unfold abs. rewrite E, take_0. reflexivity.
  - rewrite sub64_small by arith.
    rewrite (walk_rev s Hs) by (rewrite ?fuel_val; lia).
    replace (len s - 1 + 1) with (len s) by lia. rewrite take_all by lia. reflexivity.
Qed.

End Iter.
