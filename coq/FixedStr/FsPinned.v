(** The functions of fixed_string.hpp as they are in the pinned tree (before
    fixes/C10-*.patch, fixes/C11-*.patch), for the functions that had to be
    repaired.  Kept to state the witnesses of the defects ([..._refuted] in
    Properties_C10.v / Properties_C11.v).  No proofs in this file. *)
From Coq Require Import List NArith Bool.
Import ListNotations.
Require Import Celma.Common.Res Celma.FixedStr.FsBase Celma.FixedStr.FsModel.
Local Open Scope N_scope.

(** std::string::max_size() of libstdc++ on a 64-bit machine *)
Definition MAXSZ : N := 4611686018427387903.

Section Pinned.
Variable L : N.

(** insert( index, count, ch): conditions computed with wrapping additions, the
    second branch moves L - index - 1 bytes *)
Definition insert_nc_pinned (s : fs) (index count ch : N) : res fs :=
  let ln := len s in
  if index <? ln then
    if ln +! count <=? L then
      do b1 <- mmove (buf s) (index +! count) index (ln -! index +! 1);
      do b2 <- mset b1 index count ch;
      fin L b2 (ln +! count)
    else if index +! count <=? L then
      do b1 <- mmove (buf s) (index +! count) index (L -! index -! 1);
      do b2 <- mset b1 index count ch;
      fin L b2 L
    else
      do b2 <- mset (buf s) index (L -! index) ch;
      fin L b2 L
  else
    let count' := if L <? ln +! count then L -! ln else count in
    do b2 <- mset (buf s) ln count' ch;
    fin L b2 (ln +! count').

(** insert( index, str, count): the second branch moves mLength - index + 1 bytes *)
Definition insert_pc_pinned (s : fs) (index : N) (arr : list byte) (count : N) : res fs :=
  let ln := len s in
  if index <? ln then
    if ln +! count <=? L then
      do b1 <- mmove (buf s) (index +! count) index (ln -! index +! 1);
      do b2 <- mcpy b1 index arr 0 count;
      fin L b2 (ln +! count)
    else if index +! count <=? L then
      do b1 <- mmove (buf s) (index +! count) index (ln -! index +! 1);
      do b2 <- mcpy b1 index arr 0 count;
      fin L b2 L
    else
      do b2 <- mcpy (buf s) index arr 0 (L -! index);
      fin L b2 L
  else
    let count' := if L <? ln +! count then L -! ln else count in
    do b2 <- mcpy (buf s) ln arr 0 count';
    fin L b2 (ln +! count').

(** insert( index, std::string, index_str, count): substr throws inside noexcept *)
Definition insert_ss_pinned (s : fs) (index : N) (x : list byte) (is count : N) : res fs :=
  if nlen x <? is then Err EOutOfRange
  else let t := substr_of x is count in insert_pc_pinned s index (carr t) (nlen t).

(** append( str, pos, count): count passed on without looking at the source *)
Definition append_ss_pinned (s : fs) (x : list byte) (pos count : N) : res fs :=
  append_impl L s (carr x) pos count.

(** append( count, ch): std::string( count, ch) throws length_error inside noexcept *)
Definition append_nc_pinned (s : fs) (count ch : N) : res fs :=
  if len s =? L then Ok s
  else if MAXSZ <? count then Err ELogic
  else let t := rep ch count in append_impl L s (carr t) 0 (nlen t).

(** sprintf: the result of vsnprintf is stored in the length type first *)
Definition sprintf_pinned (s : fs) (text : list byte) : res fs :=
  let n := cstrlen text in
  let k := N.min n L in
  do b <- mcpy (buf s) 0 (take k text ++ [0]) 0 (k + 1);
  fin L b (N.min L (trunc L n)).

Definition part_compare_pinned (s : fs) (pos1 count1 : N) (arr : list byte) (len2 : N) : res comparison :=
  let ln := len s in
  if ln <=? pos1 then Ok (if len2 =? 0 then Eq else Gt)
  else
    let use_len := if ln <? pos1 +! count1 then ln -! pos1 else count1 in
    let m := N.min use_len len2 in
    do c <- mcmp (buf s) pos1 arr 0 m;
    Ok (cmp3 c use_len len2).

Definition part_part_compare_pinned (s : fs) (pos1 count1 : N) (arr : list byte) (len2 pos2 count2 : N)
  : res comparison :=
  let ln := len s in
  if ln <=? pos1 then Ok (if len2 <=? pos2 then Eq else Gt)
  else if len2 <=? pos2 then Ok Lt
  else
    let l1 := if ln -! pos1 <? count1 then ln -! pos1 else count1 in
    let l2 := if len2 -! pos2 <? count2 then len2 -! pos2 else count2 in
    let m := N.min l1 l2 in
    do c <- mcmp (buf s) pos1 arr pos2 m;
    Ok (cmp3 c l1 l2).

Definition replace_impl_pinned (s : fs) (pos1 count1 : N) (arr : list byte) (pos2 count2 : N) : res fs :=
  let ln := len s in
  if ln <=? pos1 then Ok s
  else if ln <=? pos1 +! count1 then
    let copy_len := if L <? pos1 +! count2 then L -! pos1 else count2 in
    do b <- mcpy (buf s) pos1 arr pos2 copy_len;
    fin L b (pos1 +! copy_len)
  else if count1 =? count2 then
    do b <- mcpy (buf s) pos1 arr pos2 count2;
    Ok {| buf := b; len := ln |}
  else if count1 <? count2 then
    do b1 <- mmove (buf s) (pos1 +! count2 -! count1 +! 1) (pos1 +! count1) (ln -! pos1 -! count1);
    do b2 <- mcpy b1 pos1 arr pos2 count2;
    fin L b2 (ln -! count1 +! count2)
  else
    do b1 <- mmove (buf s) (pos1 +! count2) (pos1 +! count1) (ln -! pos1 -! count1);
    do b2 <- mcpy b1 pos1 arr pos2 count2;
    fin L b2 (ln -! (count1 -! count2)).

Definition replace_nc_pinned (s : fs) (pos count count2 ch : N) : res fs :=
  if MAXSZ <? count2 then Err ELogic
  else let t := rep ch count2 in replace_impl_pinned s pos count (carr t) 0 (nlen t).

Definition substr_pinned (s : fs) (pos count : N) : res (list byte) :=
  let ln := len s in
  if (ln <=? pos) || (count =? 0) then Ok []
  else
    let c := if (count =? NPOS) || (ln <=? pos +! count) then ln -! pos else count in
    if MAXSZ <? c then Err ELogic else rdn (buf s) pos c.

Definition copy_pinned (s : fs) (room count pos : N) : res (N * list byte) :=
  let ln := len s in
  if ln <=? pos then Ok (0, [])
  else
    let c := if ln <=? pos +! count then ln -! pos else count in
    do x <- rdn (buf s) pos c;
    if c <=? room then Ok (c, x) else Fault OOBWrite.

(** swap: char buffer[ L]; the two branches with an empty side copy no terminator *)
Definition swap_pinned (s o : fs) : res (fs * fs) :=
  let ln := len s in
  let lo := len o in
  if ln =? 0 then
    if 0 <? lo then
      do b <- mcpy (buf s) 0 (buf o) 0 lo;
      do bo <- wr (buf o) 0 0;
      Ok ({| buf := b; len := trunc L lo |}, {| buf := bo; len := trunc L 0 |})
    else Ok (s, o)
  else if lo =? 0 then
    do bo <- mcpy (buf o) 0 (buf s) 0 ln;
    do b <- wr (buf s) 0 0;
    Ok ({| buf := b; len := trunc L 0 |}, {| buf := bo; len := trunc L ln |})
  else
    do t <- mcpy (rep 0 L) 0 (buf s) 0 (ln +! 1);
    do b <- mcpy (buf s) 0 (buf o) 0 (lo +! 1);
    do bo <- mcpy (buf o) 0 t 0 (ln +! 1);
    Ok ({| buf := b; len := trunc L lo |}, {| buf := bo; len := trunc L ln |}).

Definition find_arr_pinned (s : fs) (arr : list byte) (n pos : N) : res N :=
  let ln := len s in
  if (ln <? pos +! n) || (ln =? 0) || (n =? 0) then Ok NPOS
  else scan_up (fuel L) (fun idx => idx <=? ln -! n) (eq_at s arr n) pos.

Definition rfind_arr_pinned (s : fs) (arr : list byte) (n pos : N) : res N :=
  let ln := len s in
  if (ln =? 0) || (n =? 0) || (ln <? n) then Ok NPOS
  else
    let pos' := if (pos =? NPOS) || (ln <? pos +! n) then ln -! n else pos in
    scan_down (fuel L) (eq_at s arr n) (pos' +! 1).

(** rfind( ch, npos): the search starts at the terminator *)
Definition rfind_ch_pinned (s : fs) (ch pos : N) : res N :=
  let ln := len s in
  if (ln <? pos +! 1) || (ln =? 0) then Ok NPOS
  else
    let pos' := if pos =? NPOS then ln else pos in
    scan_down (fuel L) (fun idx => do a <- rd (buf s) idx; Ok (a =? ch)) (pos' +! 1).

(** operator != with && *)
Definition ne_op_pinned (s o : fs) : res bool :=
  if negb (len s =? len o)
  then do c <- mcmp (buf s) 0 (buf o) 0 (len s); Ok (negb (is_eq c))
  else Ok false.

End Pinned.
