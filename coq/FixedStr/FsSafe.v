(** C10: every operation of the model preserves the invariant and never faults,
    for all argument values. *)
From Coq Require Import List NArith Bool Lia ZifyNat ZifyN ZifyBool.
Import ListNotations.
Require Import Celma.Common.Res Celma.FixedStr.FsBase Celma.FixedStr.FsModel Celma.FixedStr.FsLemmas.
Local Open Scope N_scope.

(** well-formed object: L+1 bytes, length at most L, terminator at the length *)
Definition Inv (L : N) (s : fs) : Prop :=
  nlen (buf s) = L + 1 /\ len s <= L /\ nthN (len s) (buf s) = 0.

(** capacities for which the class can be instantiated on a 64-bit machine *)
Definition CapOk (L : N) : Prop := 1 <= L /\ L + 1 < M64.

Lemma lenmod_gt L : L + 1 < M64 -> L < lenmod L.
Proof.
  intros H. unfold lenmod, M64 in *.
  destruct (N.ltb_spec L 256); [lia|].
  destruct (N.ltb_spec L 65536); [lia|].
  destruct (N.ltb_spec L 4294967296); lia.
Qed.

Lemma trunc_id L v : L + 1 < M64 -> v <= L -> trunc L v = v.
Proof. intros H Hv. unfold trunc. apply N.mod_small. pose proof (lenmod_gt L H). lia. Qed.

(* ------------------------------------------------------------------ *)
(** * primitives never fault under their side conditions and keep the size *)

Lemma wr_safe b i v : i < nlen b ->
  exists b', wr b i v = Ok b' /\ nlen b' = nlen b /\ nthN i b' = v /\
             (forall j, j <> i -> nthN j b' = nthN j b).
Proof.
  intros H. rewrite wr_blit by assumption. eexists; split; [reflexivity|].
  assert (N0 : nthN 0 [v] = v) by reflexivity.
  set (src := _ :: _) in *.
  assert (H1 : nlen src = 1) by reflexivity.
  assert (Hb : i + nlen src <= nlen b) by lia.
  split; [apply nlen_blit; assumption|]. split.
  - rewrite nthN_blit by assumption. rewrite H1.
    destruct (N.ltb_spec i i); [lia|].
    destruct (N.ltb_spec i (i + 1)); [|lia].
    rewrite N.sub_diag. assumption.
  - intros j Hj. rewrite nthN_blit by assumption. rewrite H1.
    destruct (N.ltb_spec j i); [reflexivity|].
    destruct (N.ltb_spec j (i + 1)); [lia|reflexivity].
Qed.

Lemma mmove_safe b d s n : (n = 0 \/ (s + n <= nlen b /\ d + n <= nlen b)) ->
  exists b', mmove b d s n = Ok b' /\ nlen b' = nlen b.
Proof.
  intros H. rewrite mmove_ok by assumption. eexists; split; [reflexivity|].
  destruct (N.eqb_spec n 0); [reflexivity|]. apply nlen_blit.
  rewrite nlen_take, nlen_drop. lia.
Qed.

Lemma mset_safe b d n v : (n = 0 \/ d + n <= nlen b) ->
  exists b', mset b d n v = Ok b' /\ nlen b' = nlen b.
Proof.
  intros H. rewrite mset_ok by assumption. eexists; split; [reflexivity|].
  destruct (N.eqb_spec n 0); [reflexivity|]. apply nlen_blit. rewrite nlen_rep. lia.
Qed.

Lemma mcpy_safe b d src off n : (n = 0 \/ (off + n <= nlen src /\ d + n <= nlen b)) ->
  exists b', mcpy b d src off n = Ok b' /\ nlen b' = nlen b.
Proof.
  intros H. rewrite mcpy_ok by assumption. eexists; split; [reflexivity|].
  destruct (N.eqb_spec n 0); [reflexivity|]. apply nlen_blit.
  rewrite nlen_take, nlen_drop. lia.
Qed.

(* ------------------------------------------------------------------ *)
(** * proof automation *)

Definition safe (L : N) (r : res fs) : Prop := exists s', r = Ok s' /\ Inv L s'.

Lemma safe_ok L s : Inv L s -> safe L (Ok s).
Proof. intros. exists s. auto. Qed.

(** simplify one 64-bit operation whose operands are known not to wrap *)
Ltac s64 :=
  repeat match goal with
    | |- context [?a -! ?b] => rewrite (sub64_small a b) by (unfold M64 in *; lia)
    | |- context [?a +! ?b] => rewrite (add64_small a b) by (unfold M64 in *; lia)
    end.

Ltac side := unfold M64 in *; repeat match goal with H : nlen _ = _ |- _ => rewrite H end; lia.

Ltac prim :=
  lazymatch goal with
  | |- safe _ (bind (mmove ?b ?d ?s ?n) _) =>
      let b' := fresh "b" in let E := fresh "E" in let Hl := fresh "Hl" in
      destruct (mmove_safe b d s n) as (b' & E & Hl); [side | rewrite E; cbn [bind]; clear E]
  | |- safe _ (bind (mset ?b ?d ?n ?v) _) =>
      let b' := fresh "b" in let E := fresh "E" in let Hl := fresh "Hl" in
      destruct (mset_safe b d n v) as (b' & E & Hl); [side | rewrite E; cbn [bind]; clear E]
  | |- safe _ (bind (mcpy ?b ?d ?src ?off ?n) _) =>
      let b' := fresh "b" in let E := fresh "E" in let Hl := fresh "Hl" in
      destruct (mcpy_safe b d src off n) as (b' & E & Hl); [side | rewrite E; cbn [bind]; clear E]
  | |- safe _ (bind (wr ?b ?i ?v) _) =>
      let b' := fresh "b" in let E := fresh "E" in let Hl := fresh "Hl" in
      let Hn := fresh "Hn" in let Ho := fresh "Ho" in
      destruct (wr_safe b i v) as (b' & E & Hl & Hn & Ho); [side | rewrite E; cbn [bind]; clear E]
  end.

Ltac split_if :=
  lazymatch goal with
  | |- safe _ (if ?a <? ?b then _ else _) => destruct (N.ltb_spec a b)
  | |- safe _ (if ?a <=? ?b then _ else _) => destruct (N.leb_spec a b)
  | |- safe _ (if ?a =? ?b then _ else _) => destruct (N.eqb_spec a b)
  end.

Section Safe.
Variable L : N.
Hypothesis HL : CapOk L.

Lemma fin_safe b l : nlen b = L + 1 -> l <= L -> safe L (fin L b l).
Proof.
  intros Hb Hl. destruct HL as [HL1 HL2]. unfold fin. rewrite trunc_id by assumption.
  prim. apply safe_ok. repeat split; cbn; [lia|assumption|assumption].
Qed.

Ltac finish := first [ apply safe_ok; assumption
                     | apply fin_safe; [side | unfold M64 in *; lia] ].

Ltac go := destruct HL as [HL1 HL2];
  repeat (s64; first [ finish | split_if | prim ]).

Lemma insert_nc_safe s index count ch :
  Inv L s -> index < M64 -> count < M64 -> safe L (insert_nc L s index count ch).
Proof.
  intros (Hb & Hl & Hz) Hi Hc. unfold insert_nc. cbv zeta. go.
Qed.

End Safe.
