(** C10: every operation of the model preserves the invariant and never faults,
    for all argument values. *)
From Coq Require Import List NArith Bool Lia ZifyNat ZifyN ZifyBool.
Import ListNotations.
Require Import Celma.Common.Res Celma.FixedStr.FsBase Celma.FixedStr.FsModel Celma.FixedStr.FsLemmas.
Local Open Scope N_scope.

(** well-formed object: L+1 bytes, length at most L, terminator at the length *)
Definition Inv (L : N) (s : fs) : Prop :=
  nlen (buf s) = L + 1 /\ len s <= L /\ nthN (len s) (buf s) = 0.

(** capacities for which the class can be instantiated on a 64-bit machine *)
Definition CapOk (L : N) : Prop := 1 <= L /\ L + 1 < M64.

Lemma lenmod_gt L : L + 1 < M64 -> L < lenmod L.
Proof.
  intros H. unfold lenmod, M64 in *.
  destruct (N.ltb_spec L 256); [lia|].
  destruct (N.ltb_spec L 65536); [lia|].
  destruct (N.ltb_spec L 4294967296); lia.
Qed.

Lemma trunc_id L v : L + 1 < M64 -> v <= L -> trunc L v = v.
Proof. intros H Hv. unfold trunc. apply N.mod_small. pose proof (lenmod_gt L H). lia. Qed.

(* ------------------------------------------------------------------ *)
(** * primitives never fault under their side conditions and keep the size *)

Lemma wr_safe b i v : i < nlen b ->
  exists b', wr b i v = Ok b' /\ nlen b' = nlen b /\ nthN i b' = v /\
             (forall j, j <> i -> nthN j b' = nthN j b).
Proof.
  intros H. rewrite wr_blit by assumption. eexists; split; [reflexivity|].
  assert (N0 : nthN 0 [v] = v) by reflexivity.
  set (src := _ :: _) in *.
  assert (H1 : nlen src = 1) by reflexivity.
  assert (Hb : i + nlen src <= nlen b) by lia.
  split; [apply nlen_blit; assumption|]. split.
  - rewrite nthN_blit by assumption. rewrite H1.
    destruct (N.ltb_spec i i); [lia|].
    destruct (N.ltb_spec i (i + 1)); [|lia].
    rewrite N.sub_diag. assumption.
  - intros j Hj. rewrite nthN_blit by assumption. rewrite H1.
    destruct (N.ltb_spec j i); [reflexivity|].
    destruct (N.ltb_spec j (i + 1)); [lia|reflexivity].
Qed.

Lemma mmove_safe b d s n : (n = 0 \/ (s + n <= nlen b /\ d + n <= nlen b)) ->
  exists b', mmove b d s n = Ok b' /\ nlen b' = nlen b.
Proof.
  intros H. rewrite mmove_ok by assumption. eexists; split; [reflexivity|].
  destruct (N.eqb_spec n 0); [reflexivity|]. apply nlen_blit.
  rewrite nlen_take, nlen_drop. lia.
Qed.

Lemma mset_safe b d n v : (n = 0 \/ d + n <= nlen b) ->
  exists b', mset b d n v = Ok b' /\ nlen b' = nlen b.
Proof.
  intros H. rewrite mset_ok by assumption. eexists; split; [reflexivity|].
  destruct (N.eqb_spec n 0); [reflexivity|]. apply nlen_blit. rewrite nlen_rep. lia.
Qed.

Lemma mcpy_safe b d src off n : (n = 0 \/ (off + n <= nlen src /\ d + n <= nlen b)) ->
  exists b', mcpy b d src off n = Ok b' /\ nlen b' = nlen b.
Proof.
  intros H. rewrite mcpy_ok by assumption. eexists; split; [reflexivity|].
  destruct (N.eqb_spec n 0); [reflexivity|]. apply nlen_blit.
  rewrite nlen_take, nlen_drop. lia.
Qed.

(* ------------------------------------------------------------------ *)
(** * proof automation *)

Definition safe (L : N) (r : res fs) : Prop := exists s', r = Ok s' /\ Inv L s'.

Lemma safe_ok L s : Inv L s -> safe L (Ok s).
Proof. intros. exists s. auto. Qed.

(** simplify one 64-bit operation whose operands are known not to wrap *)
Ltac s64 :=
  repeat match goal with
    | |- context [?a -! ?b] => rewrite (sub64_small a b) by (unfold M64 in *; lia)
    | |- context [?a +! ?b] => rewrite (add64_small a b) by (unfold M64 in *; lia)
    end.

Ltac side := unfold M64 in *; repeat match goal with H : nlen _ = _ |- _ => rewrite H end; lia.

Ltac prim :=
  lazymatch goal with
  | |- safe _ (bind (mmove ?b ?d ?s ?n) _) =>
      let b' := fresh "b" in let E := fresh "E" in let Hl := fresh "Hl" in
      destruct (mmove_safe b d s n) as (b' & E & Hl); [side | rewrite E; cbn [bind]; clear E]
  | |- safe _ (bind (mset ?b ?d ?n ?v) _) =>
      let b' := fresh "b" in let E := fresh "E" in let Hl := fresh "Hl" in
      destruct (mset_safe b d n v) as (b' & E & Hl); [side | rewrite E; cbn [bind]; clear E]
  | |- safe _ (bind (mcpy ?b ?d ?src ?off ?n) _) =>
      let b' := fresh "b" in let E := fresh "E" in let Hl := fresh "Hl" in
      destruct (mcpy_safe b d src off n) as (b' & E & Hl); [side | rewrite E; cbn [bind]; clear E]
  | |- safe _ (bind (wr ?b ?i ?v) _) =>
      let b' := fresh "b" in let E := fresh "E" in let Hl := fresh "Hl" in
      let Hn := fresh "Hn" in let Ho := fresh "Ho" in
      destruct (wr_safe b i v) as (b' & E & Hl & Hn & Ho); [side | rewrite E; cbn [bind]; clear E]
  end.

Ltac split_if :=
  lazymatch goal with
  | |- safe _ (if ?a <? ?b then _ else _) => destruct (N.ltb_spec a b)
  | |- safe _ (if ?a <=? ?b then _ else _) => destruct (N.leb_spec a b)
  | |- safe _ (if ?a =? ?b then _ else _) => destruct (N.eqb_spec a b)
  end.

Ltac split_any :=
  match goal with
  | |- context [if ?a <? ?b then _ else _] => destruct (N.ltb_spec a b)
  | |- context [if ?a <=? ?b then _ else _] => destruct (N.leb_spec a b)
  | |- context [if ?a =? ?b then _ else _] => destruct (N.eqb_spec a b)
  end.

Section Safe.
Variable L : N.
Hypothesis HL : CapOk L.

Lemma fin_safe b l : nlen b = L + 1 -> l <= L -> safe L (fin L b l).
Proof.
  intros Hb Hl. destruct HL as [HL1 HL2]. unfold fin. rewrite trunc_id by assumption.
  prim. apply safe_ok. repeat split; cbn; [lia|assumption|assumption].
Qed.

Ltac inv_goal :=
  unfold Inv; cbn [buf len];
  rewrite ?trunc_id by (assumption || (unfold M64 in *; lia));
  repeat split; first [assumption | side].
Ltac finish := first [ apply safe_ok; solve [inv_goal]
                     | apply fin_safe; [side | unfold M64 in *; lia] ].

Ltac go := destruct HL as [HL1 HL2];
  repeat (s64; first [ finish | split_if | prim | split_any ]).

Lemma insert_nc_safe s index count ch :
  Inv L s -> index < M64 -> count < M64 -> safe L (insert_nc L s index count ch).
Proof.
  intros (Hb & Hl & Hz) Hi Hc. unfold insert_nc. cbv zeta. go.
Qed.

Lemma insert_pc_safe s index arr count :
  Inv L s -> index < M64 -> count < M64 -> count <= nlen arr ->
  safe L (insert_pc L s index arr count).
Proof.
  intros (Hb & Hl & Hz) Hi Hc Ha. unfold insert_pc. cbv zeta. go.
Qed.

Lemma internal_copy_safe s src n :
  nlen (buf s) = L + 1 -> n <= L -> n <= nlen src -> safe L (internal_copy L s src n).
Proof.
  intros Hb Hn Hs. destruct HL as [HL1 HL2]. unfold internal_copy. cbv zeta.
  rewrite trunc_id by assumption.
  destruct (N.ltb_spec 0 n).
  - destruct (mcpy_safe (buf s) 0 src 0 n) as (b1 & E & Hl1); [side|]. rewrite E. cbn [bind].
    destruct (wr_safe b1 n 0) as (b2 & E2 & Hl2 & Hn2 & _); [side|]. rewrite E2. cbn [bind].
    apply safe_ok. repeat split; cbn; [lia|assumption|assumption].
  - cbn [bind].
    destruct (wr_safe (buf s) n 0) as (b2 & E2 & Hl2 & Hn2 & _); [side|]. rewrite E2. cbn [bind].
    apply safe_ok. repeat split; cbn; [lia|assumption|assumption].
Qed.

Lemma assign_arr_safe s arr n :
  nlen (buf s) = L + 1 -> n <= nlen arr -> safe L (assign_arr L s arr n).
Proof. intros. unfold assign_arr. apply internal_copy_safe; [assumption|lia|lia]. Qed.

Lemma zero_fs_len : nlen (buf (zero_fs L)) = L + 1.
Proof. cbn. apply nlen_rep. Qed.

Lemma zero_fs_inv : Inv L (zero_fs L).
Proof.
  repeat split; cbn; [apply nlen_rep|lia|]. rewrite nthN_rep. now destruct (0 <? L + 1).
Qed.

Lemma ctor_mv_safe o : Inv L o -> safe L (ctor_mv L o).
Proof.
  intros (Hb & Hl & Hz). unfold ctor_mv. destruct HL as [HL1 HL2].
  rewrite trunc_id by assumption. destruct (N.ltb_spec 0 (len o)).
  - apply internal_copy_safe; [apply zero_fs_len|assumption|lia].
  - apply safe_ok. replace (len o) with 0 by lia. apply zero_fs_inv.
Qed.

Lemma clear_safe s : Inv L s -> safe L (clear L s).
Proof.
  intros (Hb & Hl & Hz). unfold clear. destruct HL as [HL1 HL2].
  rewrite trunc_id by (assumption || lia). prim.
  apply safe_ok. repeat split; cbn; [lia|lia|assumption].
Qed.

Lemma erase_safe s index count :
  Inv L s -> index < M64 -> count < M64 -> safe L (erase L s index count).
Proof.
  intros (Hb & Hl & Hz) Hi Hc. unfold erase. cbv zeta. go.
Qed.

Lemma push_back_safe s ch : Inv L s -> safe L (push_back L s ch).
Proof. intros (Hb & Hl & Hz). unfold push_back. cbv zeta. go. Qed.

Lemma pop_back_safe s : Inv L s -> safe L (pop_back L s).
Proof. intros (Hb & Hl & Hz). unfold pop_back. cbv zeta. go. Qed.

Lemma append_impl_safe s arr pos count :
  Inv L s -> pos < M64 -> count < M64 -> pos + count <= nlen arr ->
  safe L (append_impl L s arr pos count).
Proof. intros (Hb & Hl & Hz) Hp Hc Ha. unfold append_impl. cbv zeta. go. Qed.

Lemma append_nc_safe s count ch : Inv L s -> count < M64 -> safe L (append_nc L s count ch).
Proof.
  intros Hs Hc. pose proof Hs as (Hb & Hl & Hz). unfold append_nc.
  destruct (N.eqb_spec (len s) L); [apply safe_ok; assumption|].
  destruct HL as [HL1 HL2].
  rewrite sub64_small by (unfold M64 in *; lia).
  apply append_impl_safe; try assumption; rewrite ?nlen_carr, ?nlen_rep; unfold M64 in *; lia.
Qed.

Lemma append_ss_safe s x pos count :
  Inv L s -> pos < M64 -> count < M64 -> nlen x + 1 < M64 -> safe L (append_ss L s x pos count).
Proof.
  intros Hs Hp Hc Hx. unfold append_ss.
  destruct (N.ltb_spec (nlen x) pos); [apply safe_ok; assumption|].
  rewrite sub64_small by (unfold M64 in *; lia).
  apply append_impl_safe; try assumption; rewrite ?nlen_carr; unfold M64 in *; lia.
Qed.

Lemma append_fss_safe Lo s o pos count :
  Inv L s -> Inv Lo o -> Lo + 1 < M64 -> pos < M64 -> count < M64 -> safe L (append_fss L s o pos count).
Proof.
  intros Hs (Hbo & Hlo & Hzo) HLo Hp Hc. unfold append_fss. destruct HL as [HL1 HL2].
  destruct (N.ltb_spec (len o) pos); [apply safe_ok; assumption|].
  rewrite sub64_small by (unfold M64 in *; lia).
  apply append_impl_safe; try assumption; rewrite ?Hbo; unfold M64 in *; lia.
Qed.

Lemma append_it_safe s o p q :
  Inv L s -> Inv L o -> p <= q -> q <= len o -> safe L (append_it L s o p q).
Proof.
  intros Hs (Hbo & Hlo & Hzo) Hpq Hq. pose proof Hs as (Hb & Hl & Hz).
  unfold append_it, it_at. destruct HL as [HL1 HL2]. cbv zeta.
  destruct (N.ltb_spec p (len o)) as [Hp|Hp]; destruct (N.ltb_spec q (len o)) as [Hq'|Hq'].
  - destruct (N.eqb_spec p q); cbn [orb]; [apply safe_ok; assumption|].
    destruct (N.eqb_spec (len s) L); [apply safe_ok; assumption|].
    destruct (N.eqb_spec p NPOS); [unfold NPOS, M64 in *; lia|].
    destruct (N.eqb_spec q NPOS); [unfold NPOS, M64 in *; lia|].
    rewrite sub64_small by (unfold M64 in *; lia).
    apply append_impl_safe; try assumption; rewrite ?nlen_drop, ?Hbo; unfold M64 in *; lia.
  - destruct (N.eqb_spec p NPOS); cbn [orb]; [unfold NPOS, M64 in *; lia|].
    destruct (N.eqb_spec (len s) L); [apply safe_ok; assumption|].
    rewrite N.eqb_refl.
    rewrite sub64_small by (unfold M64 in *; lia).
    apply append_impl_safe; try assumption; rewrite ?nlen_drop, ?Hbo; unfold M64 in *; lia.
  - lia.
  - rewrite N.eqb_refl. cbn [orb]. apply safe_ok; assumption.
Qed.

Lemma sprintf_safe s text : Inv L s -> safe L (sprintf_ L s text).
Proof.
  intros (Hb & Hl & Hz). unfold sprintf_. cbv zeta. destruct HL as [HL1 HL2].
  pose proof (cstrlen_le text) as Hc.
  destruct (mcpy_safe (buf s) 0 (take (N.min (cstrlen text) L) text ++ [0]) 0
              (N.min (cstrlen text) L + 1)) as (b1 & E & Hl1).
  { right. rewrite nlen_app, nlen_take. unfold nlen at 2. cbn [length N.of_nat]. side. }
  rewrite E. cbn [bind]. apply fin_safe; [side|lia].
Qed.

Lemma sprintf_fail_safe s w : Inv L s -> nlen w <= L + 1 -> safe L (sprintf_fail L s w).
Proof.
  intros (Hb & Hl & Hz) Hw. unfold sprintf_fail. destruct HL as [HL1 HL2].
  destruct (mcpy_safe (buf s) 0 w 0 (nlen w)) as (b1 & E & Hl1); [side|].
  rewrite E. cbn [bind]. apply fin_safe; [side|lia].
Qed.

Lemma glibc_partial_len wide text : nlen (glibc_partial L wide text) <= L + 1.
Proof.
  unfold glibc_partial. cbv zeta. destruct wide; rewrite nlen_app, nlen_take; change (nlen [0]) with 1; lia.
Qed.

Lemma replace_impl_safe s pos1 count1 arr pos2 count2 :
  Inv L s -> pos1 < M64 -> count1 < M64 -> pos2 < M64 -> count2 < M64 ->
  pos2 + count2 <= nlen arr ->
  safe L (replace_impl L s pos1 count1 arr pos2 count2).
Proof.
  intros (Hb & Hl & Hz) H1 H2 H3 H4 Ha. unfold replace_impl. cbv zeta.
  destruct HL as [HL1 HL2].
  destruct (N.ltb_spec (len s) pos1); [apply safe_ok; repeat split; assumption|].
  s64.
  set (c1 := if len s - pos1 <? count1 then len s - pos1 else count1).
  set (cl := if L - pos1 <? count2 then L - pos1 else count2).
  assert (Hc1 : c1 <= len s - pos1) by (unfold c1; destruct (N.ltb_spec (len s - pos1) count1); lia).
  assert (Hcl : cl <= L - pos1 /\ cl <= count2) by (unfold cl; destruct (N.ltb_spec (L - pos1) count2); lia).
  destruct (N.eqb_spec c1 cl) as [Ec|Ec]; cbn [bind].
  - destruct (mcpy_safe (buf s) pos1 arr pos2 cl) as (b2 & E & Hl2); [side|].
    rewrite E. cbn [bind]. apply safe_ok. repeat split; cbn [buf len]; [lia|assumption|].
    (* the terminator is not overwritten: pos1 + cl = pos1 + c1 <= len s *)
    rewrite mcpy_ok in E by side. inversion E; subst b2. clear E.
    destruct (N.eqb_spec cl 0); [assumption|].
    rewrite nthN_blit by (rewrite nlen_take, nlen_drop; lia).
    rewrite nlen_take, nlen_drop.
    destruct (N.ltb_spec (len s) pos1); [lia|].
    destruct (N.ltb_spec (len s) (pos1 + N.min cl (nlen arr - pos2))); [lia|assumption].
  - s64.
    set (r0 := len s - pos1 - c1).
    set (rest := if L - pos1 - cl <? r0 then L - pos1 - cl else r0).
    assert (Hr : rest <= r0 /\ rest <= L - pos1 - cl)
      by (unfold rest; destruct (N.ltb_spec (L - pos1 - cl) r0); lia).
    unfold r0 in *.
    destruct (mmove_safe (buf s) (pos1 + cl) (pos1 + c1) rest) as (b1 & E & Hl1); [side|].
    rewrite E. cbn [bind]. clear E.
    s64.
    unfold fin. rewrite trunc_id by (assumption || lia).
    destruct (wr_safe b1 (pos1 + cl + rest) 0) as (b2 & E2 & Hl2 & Hn2 & Ho2); [side|].
    rewrite E2. cbn [bind buf len]. clear E2.
    destruct (mcpy_safe b2 pos1 arr pos2 cl) as (b3 & E3 & Hl3); [side|].
    rewrite E3. cbn [bind]. apply safe_ok. repeat split; cbn [buf len]; [lia|lia|].
    rewrite mcpy_ok in E3 by side. inversion E3; subst b3. clear E3.
    destruct (N.eqb_spec cl 0); [assumption|].
    rewrite nthN_blit by (rewrite nlen_take, nlen_drop; lia).
    rewrite nlen_take, nlen_drop.
    destruct (N.ltb_spec (pos1 + cl + rest) pos1); [lia|].
    destruct (N.ltb_spec (pos1 + cl + rest) (pos1 + N.min cl (nlen arr - pos2))); [lia|assumption].
Qed.

Lemma replace_sub_safe s pos1 count1 arr alen pos2 count2 :
  Inv L s -> pos1 < M64 -> count1 < M64 -> pos2 < M64 -> count2 < M64 ->
  alen <= nlen arr -> alen < M64 ->
  safe L (replace_sub L s pos1 count1 arr alen pos2 count2).
Proof.
  intros Hs H1 H2 H3 H4 Ha Hm. unfold replace_sub.
  destruct (N.ltb_spec alen pos2); [apply safe_ok; assumption|].
  rewrite sub64_small by (unfold M64 in *; lia).
  apply replace_impl_safe; try assumption; unfold M64 in *; lia.
Qed.

Lemma replace_nc_safe s pos count count2 ch :
  Inv L s -> pos < M64 -> count < M64 -> count2 < M64 ->
  safe L (replace_nc L s pos count count2 ch).
Proof.
  intros Hs H1 H2 H3. unfold replace_nc. cbv zeta. destruct HL as [HL1 HL2].
  apply replace_impl_safe; try assumption; rewrite ?nlen_carr, ?nlen_rep; unfold M64 in *; lia.
Qed.

Lemma insert_ss_safe s index x is count :
  Inv L s -> index < M64 -> nlen x + 1 < M64 -> safe L (insert_ss L s index x is count).
Proof.
  intros Hs Hi Hx. unfold insert_ss.
  destruct (N.ltb_spec (nlen x) is); [apply safe_ok; assumption|]. cbv zeta.
  unfold substr_of.
  apply insert_pc_safe; try assumption; rewrite ?nlen_carr, ?nlen_take, ?nlen_drop; unfold M64 in *; lia.
Qed.

Lemma insert_fss_safe Lo s o index is count :
  Inv L s -> Inv Lo o -> Lo + 1 < M64 -> index < M64 -> is < M64 -> count < M64 ->
  safe L (insert_fss L s o index is count).
Proof.
  intros Hs (Hbo & Hlo & Hzo) HLo Hi His Hc. unfold insert_fss. destruct HL as [HL1 HL2].
  destruct (N.ltb_spec (len o) is); [apply safe_ok; assumption|].
  rewrite sub64_small by (unfold M64 in *; lia).
  apply insert_pc_safe; try assumption; rewrite ?nlen_drop, ?Hbo; unfold M64 in *; lia.
Qed.

(** operations that return the object together with something else *)
Definition safe2 {A} (r : res (fs * A)) : Prop := exists s' a, r = Ok (s', a) /\ Inv L s'.

Lemma insert_it_safe s p count ch :
  Inv L s -> count < M64 -> safe2 (insert_it L s p count ch).
Proof.
  intros Hs Hc. unfold insert_it, it_at. destruct HL as [HL1 HL2].
  pose proof Hs as (Hb & Hl & Hz).
  destruct (N.ltb_spec p (len s)).
  - destruct (N.eqb_spec p NPOS); [unfold NPOS, M64 in *; lia|].
    destruct (insert_nc_safe s p count ch) as (s' & E & Hs'); [assumption|unfold M64 in *; lia|assumption|].
    rewrite E. cbn [bind]. eexists _, _. split; [reflexivity|assumption].
  - rewrite N.eqb_refl. eexists _, _. split; [reflexivity|assumption].
Qed.

Lemma erase_it_safe s p : Inv L s -> safe2 (erase_it L s p).
Proof.
  intros Hs. unfold erase_it, it_at. destruct HL as [HL1 HL2].
  pose proof Hs as (Hb & Hl & Hz).
  destruct (N.ltb_spec p (len s)).
  - destruct (N.eqb_spec p NPOS); [unfold NPOS, M64 in *; lia|].
    destruct (erase_safe s p 1) as (s' & E & Hs'); [assumption|unfold M64 in *; lia|unfold M64; lia|].
    rewrite E. cbn [bind]. eexists _, _. split; [reflexivity|assumption].
  - rewrite N.eqb_refl. eexists _, _. split; [reflexivity|assumption].
Qed.

Lemma erase_itr_safe s p q : Inv L s -> safe2 (erase_itr L s p q).
Proof.
  intros Hs. unfold erase_itr, it_at. cbv zeta. destruct HL as [HL1 HL2].
  pose proof Hs as (Hb & Hl & Hz).
  destruct (N.ltb_spec p (len s)).
  - destruct (N.eqb_spec p NPOS); [unfold NPOS, M64 in *; lia|]. cbn [orb].
    match goal with |- context [p =? ?iq] => destruct (N.eqb_spec p iq) end.
    + eexists _, _. split; [reflexivity|assumption].
    + match goal with |- context [erase L s p ?c] =>
        destruct (erase_safe s p c) as (s' & E & Hs'); [assumption|unfold M64 in *; lia| |] end.
      * destruct (N.ltb_spec q (len s)).
        -- destruct (N.eqb_spec q NPOS); [unfold NPOS, M64; lia|apply sub64_lt].
        -- rewrite N.eqb_refl. unfold NPOS, M64. lia.
      * rewrite E. cbn [bind]. eexists _, _. split; [reflexivity|assumption].
  - rewrite N.eqb_refl. cbn [orb]. eexists _, _. split; [reflexivity|assumption].
Qed.

Lemma swap_safe s o :
  Inv L s -> Inv L o -> exists s' o', swap L s o = Ok (s', o') /\ Inv L s' /\ Inv L o'.
Proof.
  intros Hs Ho. pose proof Hs as (Hb & Hl & Hz). pose proof Ho as (Hbo & Hlo & Hzo).
  unfold swap. cbv zeta. destruct HL as [HL1 HL2].
  destruct (N.eqb_spec (len s) 0) as [E0|E0].
  - destruct (N.ltb_spec 0 (len o)).
    + rewrite add64_small by (unfold M64 in *; lia).
      rewrite mcpy_ok by side. destruct (N.eqb_spec (len o + 1) 0); [lia|]. cbn [bind].
      destruct (wr_safe (buf o) 0 0) as (bo & E & Hlb & Hn & _); [side|]. rewrite E. cbn [bind].
      eexists _, _. split; [reflexivity|]. rewrite !trunc_id by (assumption || lia). split.
      * repeat split; cbn [buf len]; [rewrite nlen_blit; rewrite ?nlen_take, ?nlen_drop; lia|assumption|].
        rewrite nthN_blit by (rewrite nlen_take, nlen_drop; lia).
        rewrite nlen_take, nlen_drop.
        destruct (N.ltb_spec (len o) 0); [lia|].
        destruct (N.ltb_spec (len o) (0 + N.min (len o + 1) (nlen (buf o) - 0))); [|lia].
        rewrite nthN_take, nthN_drop. destruct (N.ltb_spec (len o - 0) (len o + 1)); [|lia].
        replace (0 + (len o - 0)) with (len o) by lia. assumption.
      * repeat split; cbn [buf len]; [lia|lia|assumption].
    + eexists _, _. split; [reflexivity|]. split; assumption.
  - destruct (N.eqb_spec (len o) 0) as [Eo|Eo].
    + rewrite add64_small by (unfold M64 in *; lia).
      rewrite mcpy_ok by side. destruct (N.eqb_spec (len s + 1) 0); [lia|]. cbn [bind].
      destruct (wr_safe (buf s) 0 0) as (bs & E & Hlb & Hn & _); [side|]. rewrite E. cbn [bind].
      eexists _, _. split; [reflexivity|]. rewrite !trunc_id by (assumption || lia). split.
      * repeat split; cbn [buf len]; [lia|lia|assumption].
      * repeat split; cbn [buf len]; [rewrite nlen_blit; rewrite ?nlen_take, ?nlen_drop; lia|assumption|].
        rewrite nthN_blit by (rewrite nlen_take, nlen_drop; lia).
        rewrite nlen_take, nlen_drop.
        destruct (N.ltb_spec (len s) 0); [lia|].
        destruct (N.ltb_spec (len s) (0 + N.min (len s + 1) (nlen (buf s) - 0))); [|lia].
        rewrite nthN_take, nthN_drop. destruct (N.ltb_spec (len s - 0) (len s + 1)); [|lia].
        replace (0 + (len s - 0)) with (len s) by lia. assumption.
    + rewrite !add64_small by (unfold M64 in *; lia).
      assert (Hr : nlen (rep 0 (L + 1)) = L + 1) by apply nlen_rep.
      rewrite (mcpy_ok (rep 0 (L + 1))) by side.
      destruct (N.eqb_spec (len s + 1) 0); [lia|]. cbn [bind].
      rewrite (mcpy_ok (buf s)) by side.
      destruct (N.eqb_spec (len o + 1) 0); [lia|]. cbn [bind].
      set (t := blit (rep 0 (L + 1)) 0 (take (len s + 1) (drop 0 (buf s)))).
      assert (Ht : nlen t = L + 1)
        by (unfold t; rewrite nlen_blit; rewrite ?nlen_take, ?nlen_drop; lia).
      rewrite (mcpy_ok (buf o)) by side.
      destruct (N.eqb_spec (len s + 1) 0); [lia|]. cbn [bind].
      eexists _, _. split; [reflexivity|]. rewrite !trunc_id by (assumption || lia). split.
      * repeat split; cbn [buf len]; [rewrite nlen_blit; rewrite ?nlen_take, ?nlen_drop; lia|assumption|].
        rewrite nthN_blit by (rewrite nlen_take, nlen_drop; lia).
        rewrite nlen_take, nlen_drop.
        destruct (N.ltb_spec (len o) 0); [lia|].
        destruct (N.ltb_spec (len o) (0 + N.min (len o + 1) (nlen (buf o) - 0))); [|lia].
        rewrite nthN_take, nthN_drop. destruct (N.ltb_spec (len o - 0) (len o + 1)); [|lia].
        replace (0 + (len o - 0)) with (len o) by lia. assumption.
      * repeat split; cbn [buf len]; [rewrite nlen_blit; rewrite ?nlen_take, ?nlen_drop; lia|assumption|].
        rewrite nthN_blit by (rewrite nlen_take, nlen_drop; lia).
        rewrite nlen_take, nlen_drop.
        destruct (N.ltb_spec (len s) 0); [lia|].
        destruct (N.ltb_spec (len s) (0 + N.min (len s + 1) (nlen t - 0))); [|lia].
        rewrite nthN_take, nthN_drop. destruct (N.ltb_spec (len s - 0) (len s + 1)); [|lia].
        replace (0 + (len s - 0)) with (len s) by lia.
        unfold t. rewrite nthN_blit by (rewrite nlen_take, nlen_drop; lia).
        rewrite nlen_take, nlen_drop.
        destruct (N.ltb_spec (len s) 0); [lia|].
        destruct (N.ltb_spec (len s) (0 + N.min (len s + 1) (nlen (buf s) - 0))); [|lia].
        rewrite nthN_take, nthN_drop. destruct (N.ltb_spec (len s - 0) (len s + 1)); [|lia].
        replace (0 + (len s - 0)) with (len s) by lia. assumption.
Qed.

End Safe.
