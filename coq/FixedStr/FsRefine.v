(** C11: the model refines the std::string specification of FsStd.v, cut at L. *)
From Coq Require Import List NArith Bool Lia ZifyNat ZifyN ZifyBool.
Import ListNotations.
Require Import Celma.Common.Res Celma.FixedStr.FsBase Celma.FixedStr.FsModel
  Celma.FixedStr.FsLemmas Celma.FixedStr.FsSafe Celma.FixedStr.FsSafeObs Celma.FixedStr.FsStd
  Celma.FixedStr.FsPinned.
Local Open Scope N_scope.

(** equality and inequality are complementary (whatever the operands are) *)
Lemma eq_ne_complementary s o : ne_op s o = (do b <- eq_op s o; Ok (negb b)).
Proof.
  unfold ne_op, eq_op. destruct (len s =? len o); cbn [negb]; [|reflexivity].
  destruct (mcmp (buf s) 0 (buf o) 0 (len s)); reflexivity.
Qed.

(* ------------------------------------------------------------------ *)
(** * buffers as compositions of [blit] *)

Lemma mmove_blit b d s n : d <= nlen b -> (n = 0 \/ (s + n <= nlen b /\ d + n <= nlen b)) ->
  mmove b d s n = Ok (blit b d (take n (drop s b))).
Proof.
  intros Hd H. rewrite mmove_ok by assumption. destruct (N.eqb_spec n 0); [|reflexivity].
  subst. rewrite take_0, blit_nil by assumption. reflexivity.
Qed.
Lemma mset_blit b d n v : d <= nlen b -> (n = 0 \/ d + n <= nlen b) ->
  mset b d n v = Ok (blit b d (rep v n)).
Proof.
  intros Hd H. rewrite mset_ok by assumption. destruct (N.eqb_spec n 0); [|reflexivity].
  subst. unfold rep. cbn [N.to_nat repeat]. rewrite blit_nil by assumption. reflexivity.
Qed.
Lemma mcpy_blit b d src off n : d <= nlen b -> (n = 0 \/ (off + n <= nlen src /\ d + n <= nlen b)) ->
  mcpy b d src off n = Ok (blit b d (take n (drop off src))).
Proof.
  intros Hd H. rewrite mcpy_ok by assumption. destruct (N.eqb_spec n 0); [|reflexivity].
  subst. rewrite take_0, blit_nil by assumption. reflexivity.
Qed.

(** normalisation of lengths *)
Ltac nl :=
  repeat first
    [ rewrite nlen_app | rewrite nlen_take | rewrite nlen_drop | rewrite nlen_rep
    | rewrite nlen_cons | rewrite nlen_nil | rewrite nlen_carr | rewrite nlen_rev
    | rewrite nlen_blit by (nl; lia) ].

Ltac len_side := unfold M64 in *; nl; repeat match goal with H : nlen _ = _ |- _ => rewrite H end; lia.

(** pointwise normal form of an element of a composed list *)
Ltac nn :=
  repeat first
    [ rewrite nthN_take | rewrite nthN_app | rewrite nthN_drop | rewrite nthN_rep
    | rewrite nthN_cons | rewrite nthN_blit by len_side | progress nl ].

Ltac cases :=
  repeat match goal with
    | |- context [?a <? ?b] => destruct (N.ltb_spec a b); try lia
    | |- context [?a <=? ?b] => destruct (N.leb_spec a b); try lia
    | |- context [?a =? ?b] => destruct (N.eqb_spec a b); try lia
    end.

Ltac leaf :=
  try reflexivity; try lia;
  try (f_equal; lia);
  try (rewrite nthN_overflow by len_side; reflexivity);
  try (symmetry; rewrite nthN_overflow by len_side; reflexivity).

Ltac pw :=
  apply list_ext;
  [ nl; repeat match goal with H : nlen _ = _ |- _ => rewrite H end; try lia
  | let i := fresh "i" in let Hi := fresh "Hi" in
    intros i Hi; nn; repeat match goal with H : nlen _ = _ |- _ => rewrite H in * end; cases; leaf ].

Section Refine.
Variable L : N.
Hypothesis HL : CapOk L.

Lemma fin_blit b l : nlen b = L + 1 -> l <= L ->
  fin L b l = Ok {| buf := blit b l [0]; len := l |}.
Proof.
  intros Hb Hl. destruct HL as [HL1 HL2]. unfold fin. rewrite trunc_id by assumption.
  rewrite wr_blit by lia. reflexivity.
Qed.

Lemma abs_len s : Inv L s -> nlen (abs s) = len s.
Proof. intros (Hb & Hl & Hz). unfold abs. rewrite nlen_take. lia. Qed.

(** erase *)
Lemma erase_refines s index count :
  Inv L s -> index < M64 -> count < M64 -> index <= len s ->
  exists s', erase L s index count = Ok s' /\ abs s' = cut L (std_erase (abs s) index count).
Proof.
  intros (Hb & Hl & Hz) Hi Hc Hd. destruct HL as [HL1 HL2]. unfold erase. cbv zeta.
  destruct (N.ltb_spec (len s) index); [lia|].
  rewrite !sub64_small by (unfold M64 in *; lia).
  destruct (N.leb_spec (len s - index) count).
  - rewrite wr_blit by lia. cbn [bind]. rewrite trunc_id by (assumption || lia).
    eexists; split; [reflexivity|]. unfold abs, cut, std_erase. cbn [buf len]. pw.
  - s64. rewrite mmove_blit by len_side. cbn [bind].
    rewrite fin_blit by len_side.
    eexists; split; [reflexivity|]. unfold abs, cut, std_erase. cbn [buf len]. pw.
Qed.

Lemma push_back_refines s ch :
  Inv L s -> exists s', push_back L s ch = Ok s' /\ abs s' = cut L (abs s ++ [ch]).
Proof.
  intros (Hb & Hl & Hz). destruct HL as [HL1 HL2]. unfold push_back. cbv zeta.
  destruct (N.ltb_spec (len s) L).
  - rewrite wr_blit by lia. cbn [bind]. s64. rewrite fin_blit by len_side.
    eexists; split; [reflexivity|]. unfold abs, cut. cbn [buf len]. pw.
  - eexists; split; [reflexivity|]. unfold abs, cut. pw.
Qed.

Lemma pop_back_refines s :
  Inv L s -> 0 < len s -> exists s', pop_back L s = Ok s' /\ abs s' = take (len s - 1) (abs s).
Proof.
  intros (Hb & Hl & Hz) Hp. destruct HL as [HL1 HL2]. unfold pop_back. cbv zeta.
  destruct (N.ltb_spec 0 (len s)); [|lia]. s64. rewrite fin_blit by len_side.
  eexists; split; [reflexivity|]. unfold abs. cbn [buf len]. pw.
Qed.

Lemma clear_refines s : Inv L s -> exists s', clear L s = Ok s' /\ abs s' = [].
Proof.
  intros (Hb & Hl & Hz). destruct HL as [HL1 HL2]. unfold clear.
  rewrite wr_blit by lia. cbn [bind]. rewrite trunc_id by (assumption || lia).
  eexists; split; [reflexivity|]. unfold abs. cbn [buf len]. apply take_0.
Qed.

Lemma assign_arr_refines s arr n :
  nlen (buf s) = L + 1 -> n <= nlen arr ->
  exists s', assign_arr L s arr n = Ok s' /\ abs s' = cut L (take n arr).
Proof.
  intros Hb Ha. destruct HL as [HL1 HL2]. unfold assign_arr, internal_copy. cbv zeta.
  rewrite trunc_id by (assumption || lia).
  destruct (N.ltb_spec 0 (N.min L n)).
  - rewrite mcpy_blit by len_side. cbn [bind]. rewrite wr_blit by len_side. cbn [bind].
    eexists; split; [reflexivity|]. unfold abs, cut. cbn [buf len]. pw.
  - cbn [bind]. rewrite wr_blit by len_side. cbn [bind].
    eexists; split; [reflexivity|]. unfold abs, cut. cbn [buf len].
    replace (N.min L n) with 0 by lia. rewrite take_0. assert (n = 0) by lia. subst.
    rewrite !take_0. reflexivity.
Qed.

Lemma append_impl_refines s arr pos count :
  Inv L s -> pos < M64 -> count < M64 -> pos + count <= nlen arr ->
  exists s', append_impl L s arr pos count = Ok s' /\
             abs s' = cut L (abs s ++ take count (drop pos arr)).
Proof.
  intros (Hb & Hl & Hz) Hp Hc Ha. destruct HL as [HL1 HL2]. unfold append_impl. cbv zeta.
  destruct (N.ltb_spec 0 count).
  - s64. rewrite mcpy_blit by len_side. cbn [bind]. rewrite fin_blit by len_side.
    eexists; split; [reflexivity|]. unfold abs, cut. cbn [buf len]. pw.
  - eexists; split; [reflexivity|]. unfold abs, cut. assert (count = 0) by lia. subst.
    rewrite take_0, app_nil_r. pw.
Qed.

Lemma insert_nc_refines s index count ch :
  Inv L s -> index <= len s -> count < M64 ->
  exists s', insert_nc L s index count ch = Ok s' /\
             abs s' = cut L (std_insert (abs s) index (rep ch count)).
Proof.
  intros (Hb & Hl & Hz) Hi Hc. destruct HL as [HL1 HL2]. unfold insert_nc. cbv zeta.
  destruct (N.ltb_spec index (len s)).
  - s64. destruct (N.leb_spec count (L - len s)).
    + s64. rewrite mmove_blit by len_side. cbn [bind]. rewrite mset_blit by len_side. cbn [bind].
      rewrite fin_blit by len_side.
      eexists; split; [reflexivity|]. unfold abs, cut, std_insert. cbn [buf len]. pw.
    + destruct (N.leb_spec count (L - index)).
      * s64. rewrite mmove_blit by len_side. cbn [bind]. rewrite mset_blit by len_side. cbn [bind].
        rewrite fin_blit by len_side.
        eexists; split; [reflexivity|]. unfold abs, cut, std_insert. cbn [buf len]. pw.
      * rewrite mset_blit by len_side. cbn [bind]. rewrite fin_blit by len_side.
        eexists; split; [reflexivity|]. unfold abs, cut, std_insert. cbn [buf len]. pw.
  - s64. assert (index = len s) by lia. subst index.
    destruct (N.ltb_spec (L - len s) count).
    + rewrite mset_blit by len_side. cbn [bind]. s64. rewrite fin_blit by len_side.
      eexists; split; [reflexivity|]. unfold abs, cut, std_insert. cbn [buf len]. pw.
    + rewrite mset_blit by len_side. cbn [bind]. s64. rewrite fin_blit by len_side.
      eexists; split; [reflexivity|]. unfold abs, cut, std_insert. cbn [buf len]. pw.
Qed.

Lemma insert_pc_refines s index arr count :
  Inv L s -> index <= len s -> count < M64 -> count <= nlen arr ->
  exists s', insert_pc L s index arr count = Ok s' /\
             abs s' = cut L (std_insert (abs s) index (take count arr)).
Proof.
  intros (Hb & Hl & Hz) Hi Hc Ha. destruct HL as [HL1 HL2]. unfold insert_pc. cbv zeta.
  destruct (N.ltb_spec index (len s)).
  - s64. destruct (N.leb_spec count (L - len s)).
    + s64. rewrite mmove_blit by len_side. cbn [bind]. rewrite mcpy_blit by len_side. cbn [bind].
      rewrite fin_blit by len_side.
      eexists; split; [reflexivity|]. unfold abs, cut, std_insert. cbn [buf len]. pw.
    + destruct (N.leb_spec count (L - index)).
      * s64. rewrite mmove_blit by len_side. cbn [bind]. rewrite mcpy_blit by len_side. cbn [bind].
        rewrite fin_blit by len_side.
        eexists; split; [reflexivity|]. unfold abs, cut, std_insert. cbn [buf len]. pw.
      * rewrite mcpy_blit by len_side. cbn [bind]. rewrite fin_blit by len_side.
        eexists; split; [reflexivity|]. unfold abs, cut, std_insert. cbn [buf len]. pw.
  - s64. assert (index = len s) by lia. subst index.
    destruct (N.ltb_spec (L - len s) count).
    + rewrite mcpy_blit by len_side. cbn [bind]. s64. rewrite fin_blit by len_side.
      eexists; split; [reflexivity|]. unfold abs, cut, std_insert. cbn [buf len]. pw.
    + rewrite mcpy_blit by len_side. cbn [bind]. s64. rewrite fin_blit by len_side.
      eexists; split; [reflexivity|]. unfold abs, cut, std_insert. cbn [buf len]. pw.
Qed.

End Refine.
