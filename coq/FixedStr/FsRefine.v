(** C11: the model refines the std::string specification of FsStd.v, cut at L. *)
From Coq Require Import List NArith Bool Lia ZifyNat ZifyN ZifyBool.
Import ListNotations.
Require Import Celma.Common.Res Celma.FixedStr.FsBase Celma.FixedStr.FsModel
  Celma.FixedStr.FsLemmas Celma.FixedStr.FsSafe Celma.FixedStr.FsSafeObs Celma.FixedStr.FsStd
  Celma.FixedStr.FsPinned.
Local Open Scope N_scope.

(** equality and inequality are complementary (whatever the operands are) *)
Lemma eq_ne_complementary s o : ne_op s o = (do b <- eq_op s o; Ok (negb b)).
Proof.
  unfold ne_op, eq_op. destruct (len s =? len o); cbn [negb]; [|reflexivity].
  destruct (mcmp (buf s) 0 (buf o) 0 (len s)); reflexivity.
Qed.
