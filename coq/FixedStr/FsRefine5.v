(** C11, fifth part: contains, ends_with, the 30 overloads of the find
    family and single iterator steps of [step] return what [std_step] returns (inside the documented
    domain: non-empty needle, start position inside the string or the default
    of the overload). *)
From Coq Require Import List NArith Bool Lia ZifyNat ZifyN ZifyBool.
Import ListNotations.
Require Import Celma.Common.Res Celma.FixedStr.FsBase Celma.FixedStr.FsModel
  Celma.FixedStr.FsLemmas Celma.FixedStr.FsSafe Celma.FixedStr.FsSafeObs Celma.FixedStr.FsSafeAll
  Celma.FixedStr.FsStd Celma.FixedStr.FsRefine Celma.FixedStr.FsRefineObs Celma.FixedStr.FsRefine3
  Celma.FixedStr.FsIter Celma.FixedStr.FsIter2 Celma.FixedStr.FsFind Celma.FixedStr.FsFind2 Celma.FixedStr.FsFind3.
Local Open Scope N_scope.

(** The four character-class searches are implemented with strchr() for the
    FixedString / std::string / C string overloads: a NUL character in the text
    or in the set of characters ends the scan there, so for these overloads the
    domain is: the text and the character set hold no NUL character. *)
Definition FindOk (s o : fs) (x : op) : Prop :=
  match x with
  | OFind Find _ _ | OFind RFind _ _ => True
  | OFind _ FFs _ => cstr_ok (abs s) /\ cstr_ok (abs o)
  | OFind _ (FS x) _ => cstr_ok (abs s) /\ cstr_ok x
  | OFind _ (FC _) _ => cstr_ok (abs s)
  | _ => True
  end.

Definition is_search (x : op) : bool :=
  match x with OFind _ _ _ | OCt _ | OEw _ | OIt _ _ _ _ => true | _ => false end.

Section Refine5.
(** capacity of the object and of the other object *)
Variable L : N.
Hypothesis HL : CapOk L.
Variable Lo : N.
Hypothesis HLo : CapOk Lo.

Ltac arith := unfold NPOS, M64 in *; lia.

Ltac dom H :=
  cbn [std_step] in H; cbv zeta in H; unfold guard in H;
  lazymatch type of H with
  | (if ?c then _ else _) = _ => let D := fresh "D" in destruct c eqn:D; [|discriminate]
  | _ => idtac
  end;
  injection H as <- <- <-.

Lemma abs_take o : take (len o) (buf o) = abs o.
Proof. reflexivity. Qed.

(** the test of a character-class loop computes membership in the needle *)
Ltac cls :=
  first
    [ apply (is_ch_class L); assumption
    | apply (in_cstr_class L);
        [ assumption | tauto | apply (inv_cstrlen L); assumption
        | match goal with Ho : Inv L ?o |- take (cstrlen (buf ?o)) _ = _ =>
            rewrite (buf_cstrlen L o Ho) by tauto; reflexivity end ]
    | apply (in_cstr_class L);
        [ assumption | tauto | apply cstrlen_carr_lt
        | rewrite cstrlen_carr by tauto; apply take_carr ]
    | rewrite <- take_carr_le by lia; apply (in_chars_class L); [assumption|rewrite nlen_carr; lia] ].

Ltac sc := first [ assumption | lia | arith | (rewrite ?nlen_carr; arith) | cls ].

Ltac fin :=
  rewrite ?abs_take, ?take_carr; rewrite ?take_carr_le by lia; rewrite ?take_all by lia; reflexivity.

Theorem search_refines s o x :
  Inv L s -> Inv Lo o -> Bounded x -> CstrsOk x -> FindOk s o x -> cap_ok (Lo =? L) x = true ->
  is_search x = true ->
  forall cs' cos' rs, std_step (abs s) (abs o) x = Some (cs', cos', rs) ->
  step L s o x = Ok (s, o, rs) /\ cs' = abs s /\ cos' = abs o.
Proof.
  intros Hs Ho HB HC HF Hcap Hm cs' cos' rs Hstd.
  pose proof Hs as (Hb & Hl & Hz). pose proof Ho as (Hbo & Hlo & Hzo). pose proof HL as [HL1 HL2].
  pose proof HLo as [HLo1 HLo2].
  pose proof (abs_len L s Hs) as Las. pose proof (abs_len Lo o Ho) as Lao.
  assert (Hsame : mixed_ok x = false -> Lo = L).
  { unfold cap_ok in Hcap. destruct (N.eqb_spec Lo L); [auto|]. intros H. congruence. }
  destruct x; try discriminate Hm; clear Hm.
  - (* ends_with *)
    destruct k; unb HB; unfold CstrsOk in HC; cbn [op_cstrs] in HC; dom Hstd;
      (split; [|split; reflexivity]); cbn [step needle_arr needle_str]; unfold obs.
    + rewrite (ends_with_impl_refines L HL s (buf o) (len o)) by (assumption || lia). reflexivity.
    + rewrite (ends_with_impl_refines L HL s (carr x) (nlen x)) by (assumption || (rewrite nlen_carr; lia)).
      rewrite take_carr. reflexivity.
    + apply Forall_cons_iff in HC. destruct HC as [HC _].
      rewrite (ends_with_impl_refines L HL s (carr cs) (cstrlen cs)) by (assumption || (rewrite nlen_carr, HC; lia)).
      rewrite take_carr_c by assumption. reflexivity.
    + rewrite (ends_with_ch_refines L HL s ch Hs). reflexivity.
  - (* contains *)
    destruct k; unb HB; unfold CstrsOk in HC; cbn [op_cstrs] in HC; dom Hstd;
      cbn [needle_str] in *; rewrite ?Lao in *;
      (split; [|split; reflexivity]); cbn [step needle_arr]; unfold obs.
    + rewrite (contains_impl_refines L HL s (buf o) (len o)) by (assumption || arith). reflexivity.
    + rewrite (contains_impl_refines L HL s (carr x) (nlen x)) by (assumption || (rewrite ?nlen_carr; arith)).
      rewrite take_carr. reflexivity.
    + apply Forall_cons_iff in HC. destruct HC as [HC _].
      rewrite (contains_impl_refines L HL s (carr cs) (cstrlen cs)) by (assumption || (rewrite ?nlen_carr, ?HC; arith)).
      rewrite take_carr_c by assumption. reflexivity.
    + rewrite (contains_ch_refines L HL s ch Hs). reflexivity.
  - (* find family *)
    unfold Bounded in HB. cbn [op_nums] in HB. apply Forall_cons_iff in HB. destruct HB as [Bp HB].
    assert (Hsm : k = FFs -> Lo = L) by (intros ->; apply Hsame; reflexivity).
    clear Hsame Hcap.
    assert (Hres : forall r, find_op L s o fam k pos = Ok r -> step L s o (OFind fam k pos) = Ok (s, o, RSize r))
      by (intros r E; cbn [step]; rewrite E; reflexivity).
    destruct fam;
    (cbn [std_step] in Hstd; cbv zeta in Hstd; unfold guard in Hstd;
     match type of Hstd with (if ?c then _ else _) = _ => destruct c eqn:D; [|discriminate] end;
     injection Hstd as <- <- <-; rewrite Las in D;
     apply andb_true_iff in D; destruct D as [D Dpos]; apply andb_true_iff in D; destruct D as [Dn Dk];
     (split; [|split; reflexivity]); apply Hres; clear Hres);
    destruct k; try (rewrite (Hsm eq_refl) in *); clear Hsm;
      cbn [fneedle_str fneedle_nums] in *; unfold sz in *;
      unfold CstrsOk in HC; cbn [op_cstrs] in HC;
      repeat match type of HB with Forall _ (_ :: _) =>
               let B := fresh "B" in apply Forall_cons_iff in HB; destruct HB as [B HB] end;
      try (apply Forall_cons_iff in HC; destruct HC as [HC _]);
      rewrite ?Lao, ?nlen_take in *; cbn [find_op FindOk] in *;
      try (rewrite HC);
      first
        [ rewrite (find_arr_refines L HL) by sc; fin
        | rewrite (rfind_arr_refines L HL) by sc; fin
        | rewrite (rfind_pc_refines L HL) by sc; fin
        | rewrite (find_ch_refines L HL) by sc; fin
        | rewrite (rfind_ch_refines L HL) by sc; fin
        | apply (first_of_refines L HL); sc
        | apply (first_of_ch_refines L HL); sc
        | apply (last_of_impl_refines L HL); sc
        | apply (last_of_pc_refines L HL); sc
        | apply (last_of_ch_refines L HL); sc ].
  - (* one iterator step and operator* *)
    unb HB. cbn [std_step] in Hstd. cbv zeta in Hstd. unfold guard in Hstd.
    match type of Hstd with (if ?c then _ else _) = _ => destruct c eqn:D; [|discriminate] end.
    injection Hstd as <- <- <-. split; [|split; reflexivity].
    cbn [step]. unfold obs. rewrite Las in *.
    rewrite (it_step_refines L HL s rev pos k v Hs) by (assumption || exact D).
    unfold it_expected. rewrite Las.
    match goal with |- context [if ?c then _ else _] => destruct c end; reflexivity.
Qed.

End Refine5.
