(** C11, fourth part: the observing operations of [step] for which the
    refinement is proved return what [std_step] returns and leave both objects alone. *)
From Coq Require Import List NArith Bool Lia ZifyNat ZifyN ZifyBool.
Import ListNotations.
Require Import Celma.Common.Res Celma.FixedStr.FsBase Celma.FixedStr.FsModel
  Celma.FixedStr.FsLemmas Celma.FixedStr.FsSafe Celma.FixedStr.FsSafeObs Celma.FixedStr.FsSafeAll
  Celma.FixedStr.FsStd Celma.FixedStr.FsRefine Celma.FixedStr.FsRefineObs Celma.FixedStr.FsRefine3
  Celma.FixedStr.FsIter.
Local Open Scope N_scope.

(** observers with a refinement theorem (the find family, contains, ends_with
    and single iterator steps are tied by the correspondence check only) *)
Definition is_proved_obs (x : op) : bool :=
  match x with
  | OCmpFs | OCmpS _ | OCmpC _ | OCmppFs _ _ | OCmppS _ _ _ | OCmppC _ _ _
  | OCmpppFs _ _ _ _ | OCmpppS _ _ _ _ _ | OCmpppC _ _ _ _
  | OSw _ | OSubstr _ _ | OCopy _ _ | OAt _ | OFront | OBack | OLen | OEmpty | OStr | OEq | ONe
  | OItF | OItR => true
  | _ => false
  end.

Section Refine4.
(** capacity of the object and of the other object *)
Variable L : N.
Hypothesis HL : CapOk L.
Variable Lo : N.
Hypothesis HLo : CapOk Lo.

Ltac dom H :=
  cbn [std_step] in H; cbv zeta in H; unfold guard in H;
  lazymatch type of H with
  | (if ?c then _ else _) = _ => let D := fresh "D" in destruct c eqn:D; [|discriminate]
  | _ => idtac
  end;
  injection H as <- <- <-.

Lemma starts_with_ch_refines s ch :
  Inv L s -> starts_with_ch s ch = Ok (prefixb [ch] (abs s)).
Proof.
  intros (Hb & Hl & Hz). unfold starts_with_ch, abs.
  destruct (N.ltb_spec 0 (len s)).
  - rewrite rd_ok by lia. cbn [bind]. f_equal.
    destruct (buf s) as [|y r] eqn:Eb; [unfold nlen in Hb; cbn in Hb; lia|].
    cbn [take prefixb]. destruct (N.eqb_spec (len s) 0); [lia|].
    cbn [prefixb]. rewrite andb_true_r. rewrite nthN_cons. cbn. apply N.eqb_sym.
  - replace (len s) with 0 by lia. rewrite take_0. reflexivity.
Qed.

Theorem obs_refines s o x :
  Inv L s -> Inv Lo o -> Bounded x -> CstrsOk x -> is_proved_obs x = true ->
  forall cs' cos' rs, std_step (abs s) (abs o) x = Some (cs', cos', rs) ->
  step L s o x = Ok (s, o, rs) /\ cs' = abs s /\ cos' = abs o.
Proof.
  intros Hs Ho HB HC Hm cs' cos' rs Hstd.
  pose proof Hs as (Hb & Hl & Hz). pose proof Ho as (Hbo & Hlo & Hzo). pose proof HL as [HL1 HL2].
  pose proof HLo as [HLo1 HLo2].
  pose proof (abs_len L s Hs) as Las. pose proof (abs_len Lo o Ho) as Lao.
  destruct x; try discriminate Hm; clear Hm; unb HB;
    unfold CstrsOk in HC; cbn [op_cstrs] in HC;
    try (match type of HC with Forall _ [_] => apply Forall_cons_iff in HC; destruct HC as [HC _] end);
    dom Hstd; rewrite ?Las, ?Lao in *; (split; [|split; reflexivity]); cbn [step]; unfold obs.
  - (* cmp_fs *) rewrite (full_compare_refines L s (buf o) (len o)) by (assumption || lia). reflexivity.
  - (* cmp_s *) rewrite (full_compare_refines L s (carr x) (nlen x)) by (assumption || (rewrite nlen_carr; lia)).
    rewrite take_carr. reflexivity.
  - (* cmp_c *) rewrite (full_compare_refines L s (carr cs) (cstrlen cs)) by (assumption || (rewrite nlen_carr, HC; lia)).
    rewrite take_carr_c by assumption. reflexivity.
  - (* cmpp_fs *) rewrite (part_compare_refines L HL s p c (buf o) (len o)) by (assumption || lia). reflexivity.
  - (* cmpp_s *) rewrite (part_compare_refines L HL s p c (carr x) (nlen x)) by (assumption || (rewrite ?nlen_carr; lia)).
    rewrite take_carr. reflexivity.
  - (* cmpp_c *) rewrite (part_compare_refines L HL s p c (carr cs) (cstrlen cs)) by (assumption || (rewrite ?nlen_carr, ?HC; lia)).
    rewrite take_carr_c by assumption. reflexivity.
  - (* cmppp_fs *)
    rewrite (part_part_compare_refines L HL s p c (buf o) (len o) p2 c2) by (assumption || (unfold M64 in *; lia)).
    reflexivity.
  - (* cmppp_s *)
    rewrite (part_part_compare_refines L HL s p c (carr x) (nlen x) p2 c2)
      by (assumption || (rewrite ?nlen_carr; unfold M64 in *; lia)).
    rewrite take_carr. reflexivity.
  - (* cmppp_c *)
    rewrite (part_part_compare_refines L HL s p c (carr cs) (cstrlen cs) 0 c2)
      by (assumption || (rewrite ?nlen_carr, ?HC; unfold M64 in *; lia)).
    rewrite take_carr_c by assumption. unfold std_substr at 2. rewrite drop_0, N.sub_0_r.
    replace (N.min c2 (nlen cs)) with c2 by lia. reflexivity.
  - (* starts_with *)
    destruct k; cbn [needle_arr needle_str].
    + rewrite (starts_with_impl_refines L s (buf o) (len o)) by (assumption || lia). reflexivity.
    + rewrite (starts_with_impl_refines L s (carr x) (nlen x)) by (assumption || (rewrite nlen_carr; lia)).
      rewrite take_carr. reflexivity.
    + cbn [op_cstrs] in HC. apply Forall_cons_iff in HC. destruct HC as [HC _].
      rewrite (starts_with_impl_refines L s (carr cs) (cstrlen cs)) by (assumption || (rewrite nlen_carr, HC; lia)).
      rewrite take_carr_c by assumption. reflexivity.
    + rewrite (starts_with_ch_refines s ch Hs). reflexivity.
  - (* substr *) rewrite (substr_refines L HL s p c) by (assumption || lia). reflexivity.
  - (* copy *)
    assert (Hp : p <= len s) by lia.
    pose proof (copy_refines L HL s c p Hs Hp) as C.
    destruct (N.ltb_spec p (len s)); rewrite C; reflexivity.
  - (* at *) rewrite (at_refines L s i) by (assumption || lia). reflexivity.
  - (* front *) rewrite (front_refines L s) by (assumption || lia). reflexivity.
  - (* back *) rewrite (back_refines L HL s) by (assumption || lia). reflexivity.
  - (* len *) reflexivity.
  - (* empty *) reflexivity.
  - (* str *) rewrite (str_refines L s Hs). reflexivity.
  - (* eq *) rewrite (eq_op_refines L Lo s o Hs Ho). reflexivity.
  - (* ne *) rewrite (ne_op_refines L Lo s o Hs Ho). reflexivity.
  - (* forward traversal *) rewrite (iter_forward L HL s Hs). reflexivity.
  - (* backward traversal *) rewrite (iter_reverse L HL s Hs). reflexivity.
Qed.

End Refine4.
