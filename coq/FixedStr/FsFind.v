(** C11, find family: the two scanning loops of the model and the
    [first_where] searches of the specification both compute the least /
    greatest position with a property; least and greatest positions are unique. *)
From Coq Require Import List NArith Bool Lia ZifyNat ZifyN ZifyBool.
Import ListNotations.
Require Import Celma.Common.Res Celma.FixedStr.FsBase Celma.FixedStr.FsModel
  Celma.FixedStr.FsLemmas Celma.FixedStr.FsStd.
Local Open Scope N_scope.

(** [r] is the least position in [a, b) where [P] holds, npos when there is none *)
Definition least (P : N -> bool) (a b r : N) : Prop :=
  (r = NPOS /\ forall i, a <= i -> i < b -> P i = false) \/
  (a <= r /\ r < b /\ P r = true /\ forall i, a <= i -> i < r -> P i = false).

(** [r] is the greatest position below [b] where [P] holds, npos when there is none *)
Definition greatest (P : N -> bool) (b r : N) : Prop :=
  (r = NPOS /\ forall i, i < b -> P i = false) \/
  (r < b /\ P r = true /\ forall i, r < i -> i < b -> P i = false).

Lemma least_unique P a b r1 r2 : b <= NPOS -> least P a b r1 -> least P a b r2 -> r1 = r2.
Proof.
  intros Hb [[E1 H1]|(A1 & B1 & T1 & H1)] [[E2 H2]|(A2 & B2 & T2 & H2)].
  - congruence.
  - rewrite H1 in T2 by assumption. discriminate.
  - rewrite H2 in T1 by assumption. discriminate.
  - destruct (N.lt_trichotomy r1 r2) as [H|[H|H]]; [|assumption|].
    + rewrite H2 in T1 by assumption. discriminate.
    + rewrite H1 in T2 by assumption. discriminate.
Qed.

Lemma greatest_unique P b r1 r2 : b <= NPOS -> greatest P b r1 -> greatest P b r2 -> r1 = r2.
Proof.
  intros Hb [[E1 H1]|(B1 & T1 & H1)] [[E2 H2]|(B2 & T2 & H2)].
  - congruence.
  - rewrite H1 in T2 by assumption. discriminate.
  - rewrite H2 in T1 by assumption. discriminate.
  - destruct (N.lt_trichotomy r1 r2) as [H|[H|H]]; [|assumption|].
    + rewrite H1 in T2 by assumption. discriminate.
    + rewrite H2 in T1 by assumption. discriminate.
Qed.

(** changing the predicate outside / the range where nothing is found *)
Lemma least_transfer P Q a b a' b' r :
  least P a b r -> a' <= a -> b <= b' -> a <= b ->
  (forall i, a <= i -> i < b -> Q i = P i) ->
  (forall i, a' <= i -> i < a -> Q i = false) ->
  (forall i, b <= i -> i < b' -> Q i = false) ->
  least Q a' b' r.
Proof.
  intros [[E H]|(A & B & T & H)] Ha Hb Hab HPQ Hlo Hhi.
  - left. split; [assumption|]. intros i H1 H2.
    destruct (N.lt_ge_cases i a); [apply Hlo; assumption|].
    destruct (N.lt_ge_cases i b); [rewrite HPQ by assumption; apply H; assumption|apply Hhi; assumption].
  - right. split; [lia|]. split; [lia|]. split; [rewrite HPQ by assumption; assumption|].
    intros i H1 H2. destruct (N.lt_ge_cases i a); [apply Hlo; assumption|].
    rewrite HPQ by lia. apply H; assumption.
Qed.

Lemma greatest_transfer P Q b b' r :
  greatest P b r -> b <= b' ->
  (forall i, i < b -> Q i = P i) ->
  (forall i, b <= i -> i < b' -> Q i = false) ->
  greatest Q b' r.
Proof.
  intros [[E H]|(B & T & H)] Hb HPQ Hhi.
  - left. split; [assumption|]. intros i H1.
    destruct (N.lt_ge_cases i b); [rewrite HPQ by assumption; apply H; assumption|apply Hhi; assumption].
  - right. split; [lia|]. split; [rewrite HPQ by assumption; assumption|].
    intros i H1 H2. destruct (N.lt_ge_cases i b); [rewrite HPQ by assumption; apply H; assumption|apply Hhi; assumption].
Qed.

Lemma least_none P a b : (forall i, a <= i -> i < b -> P i = false) -> least P a b NPOS.
Proof. intros H. left. split; [reflexivity|assumption]. Qed.

Lemma greatest_none P b : (forall i, i < b -> P i = false) -> greatest P b NPOS.
Proof. intros H. left. split; [reflexivity|assumption]. Qed.

(* ------------------------------------------------------------------ *)
(** * the loops of the model *)

Lemma scan_up_least fu cont test P b : b < M64 ->
  forall a,
    (forall i, a <= i -> i <= b -> cont i = (i <? b)) ->
    (forall i, a <= i -> i < b -> test i = Ok (P i)) ->
    a <= b -> b - a < N.of_nat fu ->
    exists r, scan_up fu cont test a = Ok r /\ least P a b r.
Proof.
  intros Hb. induction fu as [|f IH]; intros a Hc Ht Hab Hf; [lia|].
  cbn [scan_up]. rewrite Hc by lia. destruct (N.ltb_spec a b) as [Hlt|Hge].
  - rewrite Ht by lia. cbn [bind]. destruct (P a) eqn:Pa.
    + exists a. split; [reflexivity|]. right. repeat split; try lia; try assumption.
    + rewrite add64_small by lia.
      destruct (IH (a + 1)) as (r & E & Hr); try lia.
      * intros i H1 H2. apply Hc; lia.
      * intros i H1 H2. apply Ht; lia.
      * exists r. split; [assumption|].
        destruct Hr as [[Er H]|(A & B & T & H)].
        -- left. split; [assumption|]. intros i H1 H2.
           destruct (N.eq_dec i a); [subst; assumption|apply H; lia].
        -- right. split; [lia|]. split; [lia|]. split; [assumption|]. intros i H1 H2.
           destruct (N.eq_dec i a); [subst; assumption|apply H; lia].
  - exists NPOS. split; [reflexivity|]. apply least_none. intros; lia.
Qed.

Lemma scan_down_greatest fu test P : forall b,
    b < M64 -> (forall j, j < b -> test j = Ok (P j)) -> b < N.of_nat fu ->
    exists r, scan_down fu test b = Ok r /\ greatest P b r.
Proof.
  induction fu as [|f IH]; intros b Hb Ht Hf; [lia|].
  cbn [scan_down]. destruct (N.ltb_spec 0 b) as [Hlt|Hge].
  - cbv zeta. rewrite sub64_small by lia. rewrite Ht by lia. cbn [bind].
    destruct (P (b - 1)) eqn:Pb.
    + exists (b - 1). split; [reflexivity|]. right. repeat split; try lia; try assumption.
    + destruct (IH (b - 1)) as (r & E & Hr); try lia.
      * intros j Hj. apply Ht. lia.
      * exists r. split; [assumption|].
        destruct Hr as [[Er H]|(B & T & H)].
        -- left. split; [assumption|]. intros i H1.
           destruct (N.eq_dec i (b - 1)); [subst; assumption|apply H; lia].
        -- right. split; [lia|]. split; [assumption|]. intros i H1 H2.
           destruct (N.eq_dec i (b - 1)); [subst; assumption|apply H; lia].
  - exists NPOS. split; [reflexivity|]. apply greatest_none. intros; lia.
Qed.

(* ------------------------------------------------------------------ *)
(** * the searches of the specification *)

Lemma first_where_least P : forall n a,
  a + N.of_nat n <= NPOS -> least P a (a + N.of_nat n) (first_where P (seqN a n)).
Proof.
  unfold first_where. induction n as [|n IH]; intros a Ha; cbn [seqN find].
  - apply least_none. intros; lia.
  - destruct (P a) eqn:Pa.
    + right. repeat split; try lia; try assumption.
    + specialize (IH (a + 1)). replace (a + 1 + N.of_nat n) with (a + N.of_nat (S n)) in IH by lia.
      destruct IH as [[Er H]|(A & B & T & H)]; [lia| |].
      * left. split; [assumption|]. intros i H1 H2.
        destruct (N.eq_dec i a); [subst; assumption|apply H; lia].
      * right. split; [lia|]. split; [lia|]. split; [assumption|]. intros i H1 H2.
        destruct (N.eq_dec i a); [subst; assumption|apply H; lia].
Qed.

Lemma seqN_snoc : forall n a, seqN a (S n) = seqN a n ++ [a + N.of_nat n].
Proof.
  induction n as [|n IH]; intros a.
  - cbn. rewrite N.add_0_r. reflexivity.
  - change (seqN a (S (S n))) with (a :: seqN (a + 1) (S n)). rewrite IH.
    cbn [seqN app]. f_equal. f_equal. f_equal. lia.
Qed.

Lemma first_where_rev_greatest P : forall n,
  N.of_nat n <= NPOS -> greatest P (N.of_nat n) (first_where P (rev (seqN 0 n))).
Proof.
  unfold first_where. induction n as [|n IH]; intros Hn.
  - cbn. apply greatest_none. intros; lia.
  - rewrite seqN_snoc, rev_app_distr. cbn [rev app find]. rewrite N.add_0_l.
    destruct (P (N.of_nat n)) eqn:Pn.
    + right. repeat split; try lia; try assumption.
    + destruct IH as [[Er H]|(B & T & H)]; [lia| |].
      * left. split; [assumption|]. intros i H1.
        destruct (N.eq_dec i (N.of_nat n)); [subst; assumption|apply H; lia].
      * right. split; [lia|]. split; [assumption|]. intros i H1 H2.
        destruct (N.eq_dec i (N.of_nat n)); [subst; assumption|apply H; lia].
Qed.

Lemma positions_least P (s : list byte) : nlen s <= NPOS ->
  least P 0 (nlen s) (first_where P (positions s)).
Proof. intros H. unfold positions. apply (first_where_least P (length s) 0). unfold nlen in H. lia. Qed.

Lemma positions_greatest P (s : list byte) : nlen s <= NPOS ->
  greatest P (nlen s) (first_where P (rev (positions s))).
Proof. intros H. unfold positions. apply first_where_rev_greatest. assumption. Qed.
