(** Extraction of the runnable C13 model (ExtrOcamlBasic only; N, Z, nat stay
    extracted datatypes).  Run by make with the current directory coq/. *)
From Coq Require Import Extraction ExtrOcamlBasic.
Require Import Celma.Common.Res Celma.Int2Str.Int2StrIR Celma.Int2Str.Int2StrGen Celma.Int2Str.Int2StrModel.
Extraction Language OCaml.
Extraction "../ocaml/gen/c13_model.ml" int2string int2string_buf grouped_int2string grouped_int2string_buf string_to.
