(** C18  The usage lists exactly the visible arguments, each once.
    Only statements; every proof is [exact <lemma of Text/UsageProofs.v>].

    Model (Text/Usage.v): [print p width args] are the lines ArgumentDesc::print
    writes for the argument descriptors [args] (definition order) under the usage
    parameters [p]; [usage_lines] adds what Handler::usage writes around it;
    [help_argument abbr args key] is Handler::helpArgument; [eval_cmd] evaluates
    one of the standard help arguments.  Vocabulary (Text/UsageProofs.v):
      [visible p a]      a is not hidden unless p prints hidden arguments, not
                         deprecated unless p prints deprecated ones, and has a short
                         (long) key when p restricts the display to short (long) keys
      [listed p m args]  the visible arguments with mandatory = m, in definition order
      [caption m b]      "Mandatory arguments:" / "Optional arguments:" (the latter
                         after an empty line when b: a mandatory section precedes)
      [section_lines]    nothing for an empty section, else the caption and the
                         entry blocks [entry_lines] of its arguments, one after the other
      [words s]          the blank-separated pieces of the lines of s (C17)
      [key_ok k]         the key text is not empty and holds no blank
    All theorems hold for every argument list, every parameter setting and every
    line width; nothing is bounded. *)
From Coq Require Import List Arith NArith Bool Permutation.
Import ListNotations.
Require Import Celma.Common.Res Celma.Text.TextBlockModel Celma.Text.TextBlockProofs.
Require Import Celma.Text.Usage Celma.Text.UsageProofs Celma.Text.UsageDigest Celma.Text.UsageSub Celma.Text.UsageAgain Celma.Text.UsagePath Celma.Text.UsagePathProofs.
Require Celma.ArgH.Key Celma.ArgH.Table.

(** usage_section: the usage is the mandatory section followed by the optional
    section; each holds, under its caption, one entry block per visible
    argument of its class, in definition order ([listed] is a [filter]). *)
Theorem C18_usage_section :
  forall p width args,
    print p width args =
    let m := max_key_length p args in
    let same := m <? MaxNameLength in
    section_lines p width same m true false (listed p true args)
    ++ section_lines p width same m false (negb (is_nil_l (listed p true args))) (listed p false args).
Proof. exact print_structure. Qed.
Print Assumptions C18_usage_section.

Theorem C18_usage_section_order :
  forall p mand args,
    listed p mand args = filter (visible p) (filter (fun a => Bool.eqb mand (mandatory a)) args).
Proof. exact listed_order. Qed.
Print Assumptions C18_usage_section_order.

(** usage_each_visible_once: whatever identifies an argument ([q]), the number
    of entries for it is the number of visible arguments it identifies - one
    for a visible argument that [q] singles out, none for an invisible one;
    the listed arguments are a rearrangement (mandatory first) of exactly the
    visible ones. *)
Theorem C18_usage_each_visible_once :
  forall p args (q : arg -> bool),
    length (filter q (listed p true args ++ listed p false args)) =
    length (filter (fun a => q a && visible p a) args).
Proof. exact listed_count. Qed.
Print Assumptions C18_usage_each_visible_once.

Theorem C18_usage_lists_exactly_visible :
  forall p args,
    Permutation (listed p true args ++ listed p false args) (filter (visible p) args) /\
    (forall a, In a (listed p true args ++ listed p false args) <-> In a args /\ visible p a = true).
Proof. intros p args. split; [apply listed_permutation|intros a; apply listed_in]. Qed.
Print Assumptions C18_usage_lists_exactly_visible.

(** usage_entry_complete: the entry starts with the indentation and the key
    text; its words are the key text followed by every word of the description
    and of the configured extras (minus the forced-break token "nn"), through
    the C17 words-preserved theorem; the key text shows every key the display
    mode allows. *)
Theorem C18_usage_entry_complete :
  forall p width same m a,
    (exists rest more,
        entry_lines p width same m a = (spaces IndentLength ++ key_text (cont p) a ++ rest) :: more) /\
    (key_ok (key_text (cont p) a) ->
     flat_map (tokens SP) (entry_lines p width same m a) =
     key_text (cont p) a
       :: filter not_nn (words (desc a) ++ words (extra_default a) ++ words (extra_check a)
                         ++ words (extra_constraint a) ++ words (extra_deprecated a)
                         ++ words (extra_hidden a))).
Proof.
  intros p width same m a. split; [apply entry_first_line|].
  intros H. rewrite <- desc_copy_words. apply entry_words. exact H.
Qed.
Print Assumptions C18_usage_entry_complete.

Theorem C18_usage_extras_configured :
  forall a,
    (mandatory a = false -> print_default a = true ->
     words (extra_default a) =
     words (S_DEFAULT ++ default_or_nil a
            ++ (if is_nil_l (unit_text a) then [] else S_UNIT_OPEN ++ unit_text a ++ S_UNIT_CLOSE))) /\
    (checks a <> [] -> words (extra_check a) = words (S_CHECK ++ join_comma (checks a))) /\
    (constraints a <> [] -> words (extra_constraint a) = words (S_CONSTRAINT ++ join_comma (constraints a))) /\
    (deprecated a = true -> replaced_by a = [] -> words (extra_deprecated a) = [S_DEPRECATED]) /\
    (deprecated a = true -> replaced_by a <> [] ->
     words (extra_deprecated a) = words (S_REPLACED ++ replaced_by a ++ S_REPLACED_END)) /\
    (hidden a = true -> words (extra_hidden a) = [S_HIDDEN]) /\
    (hidden a = false -> extra_hidden a = []) /\
    (deprecated a = false -> extra_deprecated a = []).
Proof. exact extras_configured. Qed.
Print Assumptions C18_usage_extras_configured.

Theorem C18_usage_key_text_complete :
  forall c a,
    match c with
    | CAll =>
        (Key.has_c (akey a) = true -> exists rest, key_text c a = [DASH; Key.kc (akey a)] ++ rest) /\
        (Key.has_w (akey a) = true -> exists pre, key_text c a = pre ++ [DASH; DASH] ++ Key.kw (akey a))
    | CShort => key_text c a = [DASH; Key.kc (akey a)]
    | CLong => key_text c a = [DASH; DASH] ++ Key.kw (akey a)
    end.
Proof. exact key_text_complete. Qed.
Print Assumptions C18_usage_key_text_complete.

(** usage_short_long_only: with short-only (long-only) display everything that
    is listed has a short (long) key and is shown by it; together with
    C18_usage_lists_exactly_visible: listed = the arguments that have such a
    key (and are not hidden / deprecated unless requested). *)
Theorem C18_usage_short_long_only :
  forall p args a,
    In a (listed p true args ++ listed p false args) ->
    match cont p with
    | CAll => key_text (cont p) a = key_text_all (akey a)
    | CShort => Key.has_c (akey a) = true /\ key_text (cont p) a = [DASH; Key.kc (akey a)]
    | CLong => Key.has_w (akey a) = true /\ key_text (cont p) a = [DASH; DASH] ++ Key.kw (akey a)
    end.
Proof. exact short_long_only. Qed.
Print Assumptions C18_usage_short_long_only.

(** help_arg_known_or_unknown: when the help for one argument returns, the key
    was found (exactly or as unambiguous abbreviation) and the caption is
    followed by that argument's description - all of its words - or the key
    is reported as unknown on the error stream.  [keys_distinct] / reflexive
    keys is what Storage::addArgument guarantees for the arguments of a handler. *)
Theorem C18_help_arg_known_or_unknown :
  forall abbr args ks r,
    keys_distinct args ->
    Forall (fun a => Key.key_eq (akey a) (akey a) = true) args ->
    help_argument abbr args ks = Ok r ->
    exists k, Key.parse_key ks = Ok k /\
      ((exists a, In a args /\ Table.find_arg abbr (arg_table args) k = Ok (Some a) /\
                  r = HelpOut (help_caption k :: attach [] (format_lines 3 80 true (desc a))) /\
                  flat_map (tokens SP) (attach [] (format_lines 3 80 true (desc a))) =
                  filter not_nn (words (desc a)))
       \/ (Table.find_arg abbr (arg_table args) k = Ok None /\
           r = HelpUnknown [S_ERR_ARG ++ ks ++ S_ERR_UNKNOWN])).
Proof.
  intros abbr args ks r H1 H2 H3.
  destruct (help_argument_spec abbr args ks r H1 H2 H3) as (k & Hk & [(a & Ha & Hf & Hr)|H]).
  - exists k. split; [exact Hk|]. left. exists a. repeat split; try assumption. apply help_words.
  - exists k. split; [exact Hk|]. right. exact H.
Qed.
Print Assumptions C18_help_arg_known_or_unknown.

(** the handler: -h / --help appends exactly the usage for the current
    settings and marks it printed (the final checks are skipped); a display
    requested on the command line is on afterwards; printing never throws when
    every argument that prints its default value can deliver one - which the
    destination kinds of the library do whenever their constructor enables it. *)
Theorem C18_help_prints_usage :
  forall f width args s s',
    eval_cmd f width args s CmdHelp = Ok s' ->
    hout s' = hout s ++ usage_lines (hp s) width args /\ herr s' = herr s /\ hp s' = hp s /\
    hprinted s' = true /\ print_fails (hp s) args = false.
Proof. exact eval_help. Qed.
Print Assumptions C18_help_prints_usage.

Theorem C18_display_requested :
  forall f width args s s',
    (eval_cmd f width args s CmdPrintHidden = Ok s' ->
     print_hidden (hp s') = true /\ print_deprecated (hp s') = print_deprecated (hp s) /\ cont (hp s') = cont (hp s)) /\
    (eval_cmd f width args s CmdPrintDeprecated = Ok s' ->
     print_deprecated (hp s') = true /\ print_hidden (hp s') = print_hidden (hp s) /\ cont (hp s') = cont (hp s)) /\
    (eval_cmd f width args s CmdHelpShort = Ok s' -> cont (hp s') = CShort) /\
    (eval_cmd f width args s CmdHelpLong = Ok s' -> cont (hp s') = CLong).
Proof. exact eval_request. Qed.
Print Assumptions C18_display_requested.

Theorem C18_usage_never_throws :
  (forall p args, defaults_available args -> print_fails p args = false) /\
  (forall k iv, kind_print_default k = true -> kind_default_text k iv <> None).
Proof. split; [exact print_never_fails|exact kind_defaults]. Qed.
Print Assumptions C18_usage_never_throws.

(** usage_digest: the layout-insensitive reading of the usage text that harness
    and driver print as property observable ([digest]: a line in column 0 is a
    caption, a line indented by exactly three blanks starts an entry whose first
    word is the key text, deeper lines continue the entry), applied to the
    characters the model writes, is the digest computed directly from the list
    of visible arguments: "Usage:", then per non-empty class its caption and, in
    definition order, one entry (key text, words of description and extras
    without "nn") per visible argument.  [key_good]: the key text is not empty
    and holds neither blank nor newline - true for every key whose characters
    are neither (second statement). *)
Theorem C18_usage_digest :
  forall p width args,
    (forall a, In a args -> visible p a = true -> key_good (key_text (cont p) a)) ->
    digest (unlines (usage_lines p width args)) =
    DCap S_USAGE
      :: spec_section p true (listed p true args) ++ spec_section p false (listed p false args).
Proof. exact usage_digest. Qed.
Print Assumptions C18_usage_digest.

Theorem C18_usage_digest_key_good :
  forall c a,
    char_good (Key.kc (akey a)) -> Forall char_good (Key.kw (akey a)) -> key_good (key_text c a).
Proof. exact key_text_good. Qed.
Print Assumptions C18_usage_digest_key_good.

(** usage texts (IUsageText): the constructor accepts one text, or two with
    different positions that are not (after, before); an accepted "before" text
    is written verbatim (plus two line ends) in front of the usage, an "after"
    text behind it; the usage between them still reads as the digest of the
    visible arguments, whatever the texts contain. *)
Theorem C18_usage_texts :
  (forall t1 t2,
      check_texts t1 t2 = Ok tt <->
      match t1, t2 with
      | None, None => True
      | Some _, None => True
      | None, Some _ => False
      | Some (p1, _), Some (p2, _) => p1 <> p2 /\ ~ (p1 = UAfter /\ p2 = UBefore)
      end) /\
  (forall t1 t2 f width args s s',
      eval_cmd_txt t1 t2 f width args s CmdHelp = Ok s' ->
      hout s' = hout s ++ text_before t1 ++ usage_lines (hp s) width args ++ text_after t1 t2 /\
      herr s' = herr s /\ hp s' = hp s /\ hprinted s' = true) /\
  (forall s, unlines (text_lines s) = s ++ [NL; NL]) /\
  (forall t1 t2 p width args,
      (forall a, In a args -> visible p a = true -> key_good (key_text (cont p) a)) ->
      digest (unlines (usage_lines_txt t1 t2 p width args)) =
      rev (fold_left add_line (text_after t1 t2)
             (rev (spec_digest p args) ++ fold_left add_line (text_before t1) []))).
Proof.
  split; [exact check_texts_spec|]. split; [exact eval_help_txt|].
  split; [exact text_lines_verbatim|exact usage_txt_digest].
Qed.
Print Assumptions C18_usage_texts.

(** sub-groups (one level; [eval_cmd_sg]: a main handler that owns the
    sub-group handlers [sgs], each created with the constructor that shares the
    usage settings).  The usage printed for the i-th sub-group is the usage of
    exactly that handler's arguments ([sub_args g]) under the settings in force
    at that moment ([hp s]) - so every theorem above applies to it: it lists
    the visible arguments of the sub-group, each once, in their sections, and
    its text reads as the digest of those arguments.  The display options of
    the main command line act on the same settings as in a handler without
    sub-groups (second statement), hence a display requested there is in force
    for a sub-group usage printed afterwards (third statement). *)
Theorem C18_subgroup_usage :
  forall t1 t2 sgs f width margs s i s',
    eval_cmd_sg t1 t2 sgs f width margs s (CmdSubHelp i) = Ok s' ->
    exists g, nth_error sgs i = Some g /\
      hout s' = hout s ++ usage_lines (hp s) width (sub_args g) /\
      herr s' = herr s /\ hp s' = hp s /\ hprinted s' = hprinted s /\
      (let p := hp s in let args := sub_args g in
       let m := max_key_length p args in let same := m <? MaxNameLength in
       usage_lines p width args =
       S_USAGE :: (section_lines p width same m true false (listed p true args)
                   ++ section_lines p width same m false (negb (is_nil_l (listed p true args)))
                        (listed p false args)) ++ [[]]) /\
      (forall q : arg -> bool,
          length (filter q (listed (hp s) true (sub_args g) ++ listed (hp s) false (sub_args g))) =
          length (filter (fun a => q a && visible (hp s) a) (sub_args g))) /\
      ((forall a, In a (sub_args g) -> visible (hp s) a = true -> key_good (key_text (cont (hp s)) a)) ->
       digest (unlines (usage_lines (hp s) width (sub_args g))) = spec_digest (hp s) (sub_args g)).
Proof.
  intros t1 t2 sgs f width margs s i s' H.
  destruct (sub_help_spec _ _ _ _ _ _ _ _ _ H) as (g & Hg & Ho & He & Hp & Hpr & _).
  exists g. repeat split; try assumption.
  - cbn zeta. unfold usage_lines. rewrite print_structure. reflexivity.
  - intros q. apply listed_count.
  - apply usage_digest.
Qed.
Print Assumptions C18_subgroup_usage.

Theorem C18_subgroup_settings_shared :
  (forall t1 t2 sgs f width margs s c,
      is_setting c = true ->
      eval_cmd_sg t1 t2 sgs f width margs s c = eval_cmd f width (margs ++ map sub_arg sgs) s c) /\
  (forall t1 t2 sgs f width margs s,
      eval_cmd_sg t1 t2 sgs f width margs s CmdHelp =
      eval_cmd_txt t1 t2 f width (margs ++ map sub_arg sgs) s CmdHelp) /\
  (forall t1 t2 sgs f width margs s c s1 i s2,
      is_setting c = true ->
      eval_cmd_sg t1 t2 sgs f width margs s c = Ok s1 ->
      eval_cmd_sg t1 t2 sgs f width margs s1 (CmdSubHelp i) = Ok s2 ->
      exists g, nth_error sgs i = Some g /\
        hout s2 = hout s1 ++ usage_lines (hp s1) width (sub_args g) /\
        (c = CmdPrintHidden -> print_hidden (hp s1) = true) /\
        (c = CmdPrintDeprecated -> print_deprecated (hp s1) = true) /\
        (c = CmdHelpShort -> cont (hp s1) = CShort) /\
        (c = CmdHelpLong -> cont (hp s1) = CLong)).
Proof.
  split; [exact setting_delegates|]. split; [exact main_help_delegates|exact sub_help_after_setting].
Qed.
Print Assumptions C18_subgroup_settings_shared.

(* ------------------------------------------------------------------ *)
(** Non-vacuity and the witnesses against the pinned code. *)
Definition s_ (l : list nat) : list N := map N.of_nat l.
Definition a_input : arg :=   (* -i,--input  mandatory  "the input" *)
  mkarg {| Key.kc := 105%N; Key.kw := s_ [105;110;112;117;116] |} true false false [] true
        (Some (s_ [48])) [] [] [] (s_ [116;104;101;32;105;110;112;117;116]).
Definition a_secret : arg :=  (* --secret  hidden  "a secret" *)
  mkarg {| Key.kc := 0%N; Key.kw := s_ [115;101;99;114;101;116] |} false true false [] false
        None [] [] [] (s_ [97;32;115;101;99;114;101;116]).
Definition a_verbose_pinned : arg :=  (* -v  level counter as the pinned code builds it *)
  mkarg {| Key.kc := 118%N; Key.kw := [] |} false false false [] true
        (kind_default_text_pinned KLevel (s_ [48])) [] [] [] (s_ [118]).

Example C18_nonvacuous_listed :
  listed (mkparams false false CAll) true [a_input; a_secret] = [a_input] /\
  listed (mkparams false false CAll) false [a_input; a_secret] = [] /\
  listed (mkparams true false CAll) false [a_input; a_secret] = [a_secret] /\
  listed (mkparams true false CShort) false [a_input; a_secret] = [] /\
  keys_distinct [a_input; a_secret] /\ key_ok (key_text CAll a_input).
Proof.
  repeat split; try reflexivity.
  - repeat constructor.
  - discriminate.
  - vm_compute. repeat constructor; discriminate.
Qed.

Example C18_nonvacuous_usage :
  unlines (usage_lines (mkparams false false CAll) 80 [a_input; a_secret]) =
  s_ [85;115;97;103;101;58;10;
      77;97;110;100;97;116;111;114;121;32;97;114;103;117;109;101;110;116;115;58;10;
      32;32;32;45;105;44;45;45;105;110;112;117;116;32;32;32;116;104;101;32;105;110;112;117;116;10;
      10].
Proof. vm_compute. reflexivity. Qed.

Example C18_nonvacuous_digest :
  (forall a, In a [a_input; a_secret] -> visible (mkparams true false CAll) a = true ->
             key_good (key_text CAll a)) /\
  digest (unlines (usage_lines (mkparams true false CAll) 80 [a_input; a_secret])) =
  [DCap S_USAGE; DCap CAP_MAND;
   DEnt (s_ [45;105;44;45;45;105;110;112;117;116]) [s_ [116;104;101]; s_ [105;110;112;117;116]];
   DCap CAP_OPT;
   DEnt (s_ [45;45;115;101;99;114;101;116]) [s_ [97]; s_ [115;101;99;114;101;116]; S_HIDDEN]].
Proof.
  split; [|vm_compute; reflexivity].
  intros a [<-|[<-|[]]] _; apply key_text_good; vm_compute; repeat constructor; discriminate.
Qed.

(** sub-group: "--print-hidden -ih" lists the hidden argument of the sub-group
    (7 lines: Usage:, caption, -h, -s,--secret, [hidden], empty line ... );
    printing with a private copy of the settings taken at construction (the
    seeded variant [sub_usage_copied]) would not *)
Definition g_input : sub_group :=
  mksg {| Key.kc := 105%N; Key.kw := [] |} (s_ [105;110]) 1%N [a_secret].
Example C18_nonvacuous_subgroup :
  (* flags: hfHelpShort | hfArgHidden | hfUsageCont *)
  (exists s, eval_case_sg None None [g_input] 33281%N 80 [] [CmdPrintHidden; CmdSubHelp 0] = Ok s /\
             hout s = usage_lines (mkparams true false CAll) 80 (sub_args g_input) /\
             listed (hp s) false (sub_args g_input) = [std_arg CH_h [] D_HELP; a_secret]) /\
  listed (start_params 33281%N) false (sub_args g_input) = [std_arg CH_h [] D_HELP] /\
  sub_usage_copied 33281%N 80 g_input <> usage_lines (mkparams true false CAll) 80 (sub_args g_input).
Proof.
  split; [eexists; split; [vm_compute; reflexivity|split; reflexivity]|].
  split; [reflexivity|]. vm_compute. discriminate.
Qed.

(** pinned code, defect 1: --help-arg=inp finds --input but prints no description *)
Example C18_help_arg_abbreviation_pinned_refuted :
  help_argument_pinned true [a_input] (s_ [105;110;112]) =
    Ok (HelpOut [help_caption {| Key.kc := 0%N; Key.kw := s_ [105;110;112] |}; []]) /\
  help_argument true [a_input] (s_ [105;110;112]) =
    Ok (HelpOut [help_caption {| Key.kc := 0%N; Key.kw := s_ [105;110;112] |};
                 s_ [32;32;32;116;104;101;32;105;110;112;117;116]]).
Proof. split; vm_compute; reflexivity. Qed.

(** pinned code, defect 2: the usage of a handler with an optional level
    counter argument throws *)
Example C18_level_counter_pinned_refuted :
  eval_case 32769%N 80 [a_verbose_pinned] [CmdHelp] = Err ERuntime /\
  (forall a, user_arg (s_ [118]) KLevel (s_ [48]) false false false [] None [] [] [] (s_ [118]) = Ok a ->
             is_ok (eval_case 32769%N 80 [a] [CmdHelp]) = true).
Proof.
  split; [vm_compute; reflexivity|].
  intros a H. vm_compute in H. inversion H; subst. vm_compute. reflexivity.
Qed.

(** The same handler object prints its usage again, any number of times
    (operator<< after the evaluation): every printing adds exactly the lines of
    a first printing under the settings in force - captions, entries and all -
    so the theorems about [usage_lines] hold for every one of them.  (Tie added
    after the seeded change C18-7 was missed.) *)
Theorem C18_usage_printed_again :
  forall n f width user s s',
    print_again n f width user s = Ok s' ->
    hp s' = hp s /\ herr s' = herr s /\ hprinted s' = hprinted s /\
    hout s' = hout s ++ repeat_lines n (usage_lines (hp s) width (start_args f ++ user)).
Proof. exact print_again_spec. Qed.
Print Assumptions C18_usage_printed_again.

(** --help-arg with a path "group/.../argument" through sub-groups of any
    depth (Text/UsagePath.v; added after the seeded change C18-6, which split
    the path at the last slash, was missed).  [chain node comps node']: every
    component names - exactly, or by a unique abbreviation where the handler
    allows abbreviations - a sub-group argument of the handler reached so far.
    Then the request is answered by the handler at the end of the chain as
    Handler::helpArgument answers a plain key: the description of the argument
    or "is unknown". *)
Theorem C18_help_path_follows_the_groups :
  forall f user gs comps node node' last fuel,
    chain f gs node comps node' -> Key.mem SLASH last = false -> length (join comps last) < fuel ->
    help_path f user gs fuel node (join comps last)
    = do r <- help_leaf (node_abbr f gs node') (node_args f user gs node') (sub_args_of gs node') last;
      Ok (r, match comps with [] => true | _ => false end).
Proof. exact help_path_chain. Qed.
Print Assumptions C18_help_path_follows_the_groups.

(** a component that names no sub-group of the handler reached is reported by
    that handler with the rest of the path; nothing goes to the output stream *)
Theorem C18_help_path_unknown_group :
  forall f user gs comps node node' c k cs last fuel,
    chain f gs node comps node' -> Key.mem SLASH c = false -> Key.parse_key c = Ok k ->
    Table.find_arg (node_abbr f gs node') (sub_table gs node') k = Ok None ->
    length (join (comps ++ c :: cs) last) < fuel ->
    help_path f user gs fuel node (join (comps ++ c :: cs) last)
    = Ok (HelpUnknown [S_ERR_SUB ++ join (c :: cs) last ++ S_ERR_UNKNOWN],
          match comps with [] => true | _ => false end).
Proof. exact help_path_unknown_group. Qed.
Print Assumptions C18_help_path_unknown_group.

(** whatever the path: a description block on the output stream or exactly one
    error line - never nothing; the recursion never runs out of fuel; without a
    slash it is the helpArgument of the theorems above *)
Theorem C18_help_path_answers :
  forall f user gs fuel node ks r top,
    help_path f user gs fuel node ks = Ok (r, top) ->
    (exists l ls, r = HelpOut (l :: ls)) \/ (exists l, r = HelpUnknown [l]).
Proof. exact help_path_answers. Qed.
Print Assumptions C18_help_path_answers.

Theorem C18_help_path_total :
  forall f user gs n node ks, length ks < n -> SafeProofs.nofault (help_path f user gs n node ks).
Proof. exact help_path_total. Qed.
Print Assumptions C18_help_path_total.

Theorem C18_help_path_plain_key :
  forall abbr margs sgs ks, Key.mem SLASH ks = false ->
    help_leaf abbr margs (map sub_arg sgs) ks = help_argument_sg abbr margs sgs ks.
Proof. exact help_leaf_is_help_argument_sg. Qed.
Print Assumptions C18_help_path_plain_key.

(** pinned code, defect 3: with hfUsageHidden | hfArgHidden the argument
    --print-hidden switches the display of hidden arguments off *)
Example C18_display_toggle_pinned_refuted :
  (* flags: hfHelpShort | hfUsageHidden | hfArgHidden | hfUsageCont *)
  (exists s, eval_case_pinned 33537%N 80 [a_secret] [CmdPrintHidden; CmdHelp] = Ok s /\
             print_hidden (hp s) = false /\ length (hout s) = 5) /\
  (exists s, eval_case 33537%N 80 [a_secret] [CmdPrintHidden; CmdHelp] = Ok s /\
             print_hidden (hp s) = true /\ length (hout s) = 7).
Proof. split; eexists; (split; [vm_compute; reflexivity|split; reflexivity]). Qed.
