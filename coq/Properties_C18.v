(** C18 stub (to be replaced) *)
From Coq Require Import List.
Require Import Celma.Text.Usage.
Theorem C18_stub : True. Proof. exact I. Qed.
Print Assumptions C18_stub.
