(** C03  Every command line that obeys the declared rules is accepted.
    Only statements.

    The acceptance half of completeness: (A) acceptance does not depend on the
    spelling (C01_spelling_independent: all legal spellings of a line are
    accepted or all are rejected); (B) one use is accepted when each rule that
    concerns it holds at that point - the exclusion and the requirement take
    effect from the point where the constraining argument is used (pending
    container), judged on the argument, not on the spelling; (C) at the end the
    line is accepted when the end-of-line rules hold.  Other arguments,
    checks, formats and constraints defined in the same handler enter only
    through the table lookup (C05: exact keys and unambiguous abbreviations are
    found in every definition order) and the frame property. *)
From Coq Require Import List NArith ZArith Bool Lia.
Import ListNotations.
Require Import Celma.Common.Res Celma.ArgH.Key Celma.ArgH.Table Celma.ArgH.TableProofs Celma.ArgH.Lex
               Celma.ArgH.Handler Celma.ArgH.HandlerProofs Celma.ArgH.Spell Celma.ArgH.SpellProofs
               Celma.ArgH.UseProofs Celma.ArgH.RulesProofs Celma.ArgH.ValidProofs.

Theorem C03_acceptance_spelling_independent :
  forall c, fixed_notify c = true ->
  forall inits us ws1 ws2, spell c us ws1 -> spell c us ws2 ->
    is_ok (eval_arguments c inits [] None ws1) = is_ok (eval_arguments c inits [] None ws2).
Proof.
  intros c Hf inits us ws1 ws2 H1 H2. unfold eval_arguments. cbn [eval_lines bind].
  rewrite (eval_words_spelled c Hf false us ws1 _ H1), (eval_words_spelled c Hf false us ws2 _ H2). reflexivity.
Qed.
Print Assumptions C03_acceptance_spelling_independent.

(** one use with a value is accepted when: the argument is not deprecated, no
    inversion is pending, its cardinality is not exhausted, no earlier argument
    excluded it, the handler constraints do not object, and the value passes
    checks, formats and conversion. *)
Theorem C03_use_accepted :
  forall c s (ic : bool) i v n1 p1 g1 a',
    let d := argdef_of c i in
    let a := nth i (arts s) dummy_art in
    fixed_notify c = true ->
    a_depr d = false -> inv s = false ->
    (if ic then @Ok Z (cnt a) else card_got (a_card d) (cnt a)) = Ok n1 ->
    pend_identified (pend s) (a_key d) = Ok p1 ->
    gcs_exec (gcons c) (gsts s) (a_key d) = Ok g1 ->
    assign d {| hasval := hasval a; cnt := n1; clearp := clearp a; val := val a; v2set := v2set a |} v = Ok a' ->
    use_step c s ic (UVal i v) =
    Ok {| arts := upd (arts s) i a'; pend := activate d p1; gsts := g1; last := Some i; inv := false |}.
Proof. exact use_val_accepted. Qed.
Print Assumptions C03_use_accepted.

(** a requirement registered by an earlier argument is discharged by the
    required argument in every spelling: after the repair the pending entry is
    compared with the argument's own key.  Witness of the pinned behaviour:
    'l,left' requires 'r'; '-l --right' was rejected. *)
Definition flag_req (k : key) (req : list key) : argdef :=
  {| a_key := k; a_kind := DBool; a_vmode := VMNone; a_mand := false; a_multi := false; a_sep := 44%N;
     a_clear := false; a_sort := false; a_uniq := false; a_uniq_err := false; a_checks := []; a_fmts := [];
     a_card := CardMax 1; a_excl := []; a_req := req; a_depr := false; a_mix := false |}.
Definition cfg_req (fixed : bool) : cfg :=
  {| args := [flag_req k_l [key_of_char 114%N]; flag_req k_r []]; gcons := []; abbr := true; fixed_notify := fixed |}.

Theorem C03_pinned_notify_refuted :
  eval_arguments (cfg_req false) [VBool false; VBool false] [] None argv_l_right = Err ERuntime /\
  is_ok (eval_arguments (cfg_req true) [VBool false; VBool false] [] None argv_l_right) = true.
Proof. split; vm_compute; reflexivity. Qed.
Print Assumptions C03_pinned_notify_refuted.

(** the end-of-line rules are exactly what is checked at the end *)
Theorem C03_end_rules :
  forall c s,
    final_checks c s = Ok tt ->
    Forall2 (fun d a => (a_mand d = true -> hasval a = true) /\ card_end (a_card d) (cnt a) = Ok tt)
            (firstn (length (arts s)) (args c)) (firstn (length (args c)) (arts s)) /\
    Forall (fun e => fst e <> KRequired) (pend s) /\
    Forall2 (gc_satisfied (arts s)) (firstn (length (gsts s)) (gcons c)) (firstn (length (gcons c)) (gsts s)).
Proof. exact final_checks_ok. Qed.
Print Assumptions C03_end_rules.

(** Grammar form, completeness on the scalar fragment (flags, int, string,
    optional<int> destinations with any checks, formats and cardinalities,
    requires / excludes, all_of / any_of / one_of): a command line whose
    abstract content obeys every declared rule ([valid], ArgH/ValidProofs.v:
    known keys, values that pass checks and convert, uses within the
    cardinality, no use after an excluder, every required argument used
    afterwards, handler constraints met, mandatory arguments used) is accepted
    in EVERY legal spelling - whatever else is defined in the handler. *)
Theorem C03_valid_line_accepted :
  forall c inits us ws,
    fixed_notify c = true -> RulesProofs.specs_canonical c -> length inits = length (args c) ->
    ValidProofs.valid c us -> spell c us ws ->
    exists s', eval_arguments c inits [] None ws = Ok s'.
Proof. exact ValidProofs.valid_line_accepted. Qed.
Print Assumptions C03_valid_line_accepted.

(** Non-vacuity: a configuration with a flag -v, an int -n/--number and a string
    --name, the line "v, number=5, name=x" is valid. *)
Definition nv_flag (k : key) : argdef :=
  {| a_key := k; a_kind := DBool; a_vmode := VMNone; a_mand := false; a_multi := false; a_sep := 44%N;
     a_clear := false; a_sort := false; a_uniq := false; a_uniq_err := false; a_checks := []; a_fmts := [];
     a_card := CardMax 1; a_excl := []; a_req := []; a_depr := false; a_mix := false |}.
Definition nv_val (k : key) (kd : dkind) : argdef :=
  {| a_key := k; a_kind := kd; a_vmode := VMRequired; a_mand := false; a_multi := false; a_sep := 44%N;
     a_clear := false; a_sort := false; a_uniq := false; a_uniq_err := false; a_checks := []; a_fmts := [];
     a_card := CardMax 1; a_excl := []; a_req := []; a_depr := false; a_mix := false |}.
Definition nv_cfg : cfg :=
  {| args := [nv_flag (key_of_char 118%N); nv_val {| kc := 110%N; kw := [110; 117; 109]%N |} DInt;
              nv_val {| kc := 0%N; kw := [110; 97; 109; 101]%N |} DStr];
     gcons := [GCAny [key_of_char 118%N; key_of_char 110%N]]; abbr := true; fixed_notify := true |}.
Definition nv_line : list use := [UVal 1 [53%N]; UVal 2 [120%N]].

Example C03_nonvacuous : ValidProofs.valid nv_cfg nv_line.
Proof.
  constructor.
  - repeat constructor.
  - repeat constructor; cbn; auto; eexists; reflexivity.
  - intros [|[|[|i]]] Hi; cbn in *; try lia; right; cbn; lia.
  - intros pre j mid u post k _ Hk. unfold argdef_of in Hk.
    destruct (use_index j) as [|[|[|n]]]; cbn in Hk; try contradiction; try (destruct n; contradiction).
  - intros pre j post k _ Hk. unfold argdef_of in Hk.
    destruct (use_index j) as [|[|[|n]]]; cbn in Hk; try contradiction; try (destruct n; contradiction).
  - repeat constructor; vm_compute; lia.
  - repeat constructor.
  - intros [|[|[|i]]] Hi Hm; cbn in *; try discriminate; lia.
Qed.
