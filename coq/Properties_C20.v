(** C20  Concurrency helpers keep their contract under every schedule.

    Only statements.  The protocols [singleton_proto] and [managed_proto] are what
    translate/tr_conc.py extracted from the C++ source of the tree under check
    (Conc/ConcGen.v, regenerated on every run); the general theorems of
    Conc/SingletonProofs.v and Conc/ManagedProofs.v are instantiated with them, the premises
    ([sg_once_ok], [sg_race_ok], [mt_ok]) are discharged by computation.  A source change that
    removes the check under the lock, makes an unlocked access to a plain pointer, moves the
    initialisation of the flag behind the start of the thread, ... makes [eq_refl] ill-typed.

    Scope (the property is labelled partial): interleaving semantics with sequentially
    consistent memory (Conc/Interleave.v); a data race is a reachable state in which two threads
    are both able to perform conflicting accesses one of which is not atomic.  What the hardware,
    the compiler and the allocator do below that is exhibited only by the forced-schedule and
    ThreadSanitizer runs of the check (search and tie, not proof). *)
From Coq Require Import List Arith.
Import ListNotations.
Require Import Celma.Conc.Interleave Celma.Conc.Singleton Celma.Conc.SingletonProofs
               Celma.Conc.ManagedThread Celma.Conc.ManagedProofs Celma.Conc.ConcGen.

(** The protocols of the pinned source (before the repairs fixes/C20-1, C20-2) violate the
    property; witnesses (schedules) that are also forced on the real code by the harness. *)
Theorem C20_singleton_race_free_refuted :
  exists n sched, race_state sg_local (sg_next sg_pinned) (sg_run sg_pinned n sched).
Proof. exists 2, [0; 0; 0; 0]. exact sg_pinned_race. Qed.
Print Assumptions C20_singleton_race_free_refuted.

Theorem C20_managed_active_observed_refuted :
  exists g k sched i f a,
    2 <= i /\ nth_error (thr (mt_run mt_pinned g k sched)) i = Some (3, [f; a; 1]) /\ f = 0 /\ a <> 1.
Proof.
  exists 0, 1, [0; 1; 1; 0; 0; 2; 2; 2], 2, 0, 0.
  split; [auto|]. split; [reflexivity|]. split; [reflexivity|discriminate].
Qed.
Print Assumptions C20_managed_active_observed_refuted.

Theorem C20_managed_race_free_refuted :
  exists g k sched, race_state sl_local (sl_next (mt_code mt_pinned)) (mt_run mt_pinned g k sched).
Proof. exists 0, 1, [0]. exact mt_pinned_race. Qed.
Print Assumptions C20_managed_race_free_refuted.

(** Without the check under the lock the object is constructed twice. *)
Theorem C20_singleton_once_refuted_without_second_check :
  exists n sched, nctor (sg_run sg_nosecond n sched) = 2.
Proof. exists 2, [0; 1; 0; 0; 0; 0; 1; 1; 1; 1]. exact sg_nosecond_twice. Qed.
Print Assumptions C20_singleton_once_refuted_without_second_check.

(** For every number n of threads that call instance() for the first time and every schedule,
    in every state reached: at most one object has been constructed; every thread that has
    returned received object number 1 (the one the instance pointer designates), and then
    exactly one construction has taken place. *)
Theorem C20_singleton_once :
  forall n sched,
    nctor (sg_run singleton_proto n sched) <= 1 /\
    forall i l, nth_error (thr (sg_run singleton_proto n sched)) i = Some l -> pc l = PDone ->
      res l = Some 1 /\ nctor (sg_run singleton_proto n sched) = 1 /\
      mem (sg_run singleton_proto n sched) PTR = 1.
Proof. exact (sg_once singleton_proto eq_refl). Qed.
Print Assumptions C20_singleton_once.

(** No schedule of any number of threads reaches a data race on the instance pointer. *)
Theorem C20_singleton_race_free :
  forall n sched,
    ~ race_state sg_local (sg_next singleton_proto) (sg_run singleton_proto n sched).
Proof. exact (sg_race_free singleton_proto eq_refl eq_refl). Qed.
Print Assumptions C20_singleton_race_free.

(** Managed thread, any number k of observers, any content g of the flag's storage before
    its initialisation, every schedule: whenever the user function has started and not yet
    finished the flag is set; an observer that saw the function started, then called isActive()
    and afterwards found the function still running obtained true. *)
Theorem C20_managed_active_observed :
  forall g k sched,
    (mem (mt_run managed_proto g k sched) STARTED = 1 ->
     mem (mt_run managed_proto g k sched) FINISHED = 0 ->
     mem (mt_run managed_proto g k sched) FLAG = 1) /\
    (forall i l, 2 <= i -> nth_error (thr (mt_run managed_proto g k sched)) i = Some l -> fst l = 3 ->
       exists f a, snd l = [f; a; 1] /\ (f = 0 -> a = 1)).
Proof. exact (mt_active_observed managed_proto eq_refl). Qed.
Print Assumptions C20_managed_active_observed.

(** Once the started thread has run to its end the flag is clear, and isActive() called by the
    owner after join() returns false. *)
Theorem C20_managed_inactive_after_join :
  forall g k sched,
    (forall l1, nth_error (thr (mt_run managed_proto g k sched)) 1 = Some l1 -> fst l1 = 4 ->
       mem (mt_run managed_proto g k sched) FLAG = 0) /\
    (forall l0, nth_error (thr (mt_run managed_proto g k sched)) 0 = Some l0 -> fst l0 = 5 ->
       exists r, snd l0 = 0 :: r).
Proof. exact (mt_inactive_after_join managed_proto eq_refl). Qed.
Print Assumptions C20_managed_inactive_after_join.

Theorem C20_managed_race_free :
  forall g k sched,
    ~ race_state sl_local (sl_next (mt_code managed_proto)) (mt_run managed_proto g k sched).
Proof. exact (mt_race_free managed_proto eq_refl). Qed.
Print Assumptions C20_managed_race_free.

(** The hypotheses are satisfiable / the statements not vacuous: complete runs. *)
Example C20_nonvacuous_singleton :
  map res (thr (sg_run sg_locked 3 [0; 1; 2; 0; 0; 0; 0; 0; 1; 1; 1; 1; 2; 2; 2; 2; 2])) =
  [Some 1; Some 1; Some 1].
Proof. exact sg_locked_complete. Qed.

Example C20_nonvacuous_managed :
  thr (mt_run mt_good 7 2 [0; 0; 1; 1; 0; 2; 2; 3; 2; 1; 3; 3; 1; 0; 0]) =
  [(5, [0; 0; 0; 0; 0]); (4, [0; 0; 0; 0]); (3, [0; 1; 1]); (3, [1; 1; 1])].
Proof. exact mt_good_complete. Qed.
