(** Extraction of the runnable C16 model (ExtrOcamlBasic only). *)
From Coq Require Import Extraction ExtrOcamlBasic.
Require Import Celma.Common.Res Celma.Log.AttrModel Celma.Log.FormatModel.
Extraction Language OCaml.
Extraction "../ocaml/gen/c16_model.ml" run run_pinned world_init.
