(** C10  Fixed-capacity string never touches memory outside itself and stays well-formed.
    Only statements; every proof is [exact <lemma of FixedStr/...>] or, for the
    witnesses of the defects of the pinned tree, [vm_compute]. *)
From Coq Require Import List NArith Bool.
Import ListNotations.
Require Import Celma.Common.Res Celma.FixedStr.FsBase Celma.FixedStr.FsModel
  Celma.FixedStr.FsSafe Celma.FixedStr.FsSafeObs Celma.FixedStr.FsSafeAll Celma.FixedStr.FsPinned
  Celma.FixedStr.FsIter.
Local Open Scope N_scope.

(** One step.  The object is a FixedString<L>, the other object (the argument
    of the two-object operations) a FixedString<Lo>; the two capacities are
    independent, 1 <= L, Lo < 2^64-1.  For every pair of well-formed objects
    (capacity+1 bytes, length <= capacity, terminator at the length), every one
    of the 91 modelled entry points (all mutators: constructors incl. the
    converting constructor from another capacity, assign, the insert / erase /
    push_back / pop_back / append / sprintf / replace families - sprintf also
    with a vsnprintf call that fails after partial output -, swap, clear; all
    observers: compare, starts_with / ends_with / contains, substr, copy, at /
    front / back / length / empty / str, == and !=, iteration in both
    directions, single steps ++ / -- / += / -= of the iterator and reverse
    iterator classes followed by operator*, the 30 overloads of the find family)
    and all argument values that fit into size_t - positions and counts up to
    2^64-1 included -: the operation returns normally (possibly by the documented
    out_of_range of at()), no read or write leaves either object, the source
    arguments or the destination of copy() (no [Fault]: every memcpy / memmove /
    memset / memcmp / strchr / index access of the model is checked against the
    extent of the buffer it touches, reads included), and both objects are
    well-formed afterwards.  [pre_A] is the caller contract: a (pointer, count)
    argument is readable for count characters, append( first, last) gets a valid
    range.  [cap_ok]: operations that exist only between objects of the same
    type (move / copy constructor, swap, append( first, last), the find family
    with a FixedString needle) require Lo = L; the converting constructor is
    chosen only for Lo <> L. *)
Theorem C10_step_safe :
  forall L Lo s o x,
    CapOk L -> CapOk Lo -> Inv L s -> Inv Lo o -> Bounded x -> pre_A s o x = true ->
    cap_ok (Lo =? L) x = true ->
    exists s' o' v, step L s o x = Ok (s', o', v) /\ Inv L s' /\ Inv Lo o'.
Proof. intros L Lo s o x H Ho. exact (step_safe L H Lo Ho s o x). Qed.
Print Assumptions C10_step_safe.

(** Any history of operations, from any well-formed pair of objects of any two
    capacities ([run] skips the steps outside the caller contract and the
    operations that do not exist for the two capacities). *)
Theorem C10_history_safe :
  forall L Lo ops s o,
    CapOk L -> CapOk Lo -> Inv L s -> Inv Lo o -> Forall Bounded ops ->
    exists s' o' vs, run L Lo s o ops = Ok (s', o', vs) /\ Inv L s' /\ Inv Lo o'.
Proof. intros L Lo ops s o H Ho. exact (run_safe L H Lo Ho ops s o). Qed.
Print Assumptions C10_history_safe.

(** The constructor from a C string of any length establishes the invariant. *)
Theorem C10_constructed_well_formed :
  forall L cs, CapOk L -> exists s, fs_init L cs = Ok s /\ Inv L s.
Proof. intros L cs H. exact (fs_init_safe L H cs). Qed.
Print Assumptions C10_constructed_well_formed.

(** A well-formed object that holds no NUL character in its content has
    strlen( c_str()) = length(). *)
Theorem C10_strlen_is_length :
  forall L s, Inv L s -> (forall i, i < len s -> nthN i (buf s) <> 0) -> cstrlen (buf s) = len s.
Proof. exact inv_strlen. Qed.
Print Assumptions C10_strlen_is_length.

(** The stored length never needs more bits than LengthType<L>::type has. *)
Theorem C10_length_fits_length_type :
  forall L v, L + 1 < M64 -> v <= L -> trunc L v = v.
Proof. exact trunc_id. Qed.
Print Assumptions C10_length_fits_length_type.

(** Index stepping of the four iterator classes: after ++, --, += v, -= v (any v)
    the index is a character position or the end value, so operator* reads
    inside the string or throws range_error. *)
Theorem C10_iterator_step_valid :
  forall L s rev pos k v,
    CapOk L -> Inv L s -> v < M64 ->
    exists i c, it_step s rev pos k v = Ok (i, c) /\ valid_it s i /\
                (i = NPOS -> c = None) /\ (i <> NPOS -> c = Some (nthN i (buf s))).
Proof. intros L s rev pos k v H. exact (it_step_index_valid L H s rev pos k v). Qed.
Print Assumptions C10_iterator_step_valid.

(* ------------------------------------------------------------------ *)
(** Witnesses of the defects of the pinned tree (functions of FsPinned.v);
    each input also fails on the real pinned code (corpus of props/C10.py). *)

Definition fs10 (cs : list byte) : fs :=
  match fs_init 10 cs with Ok s => s | _ => zero_fs 10 end.
Definition aaaccccc : list byte := [97;97;97;99;99;99;99;99].

(** FixedString<10>("aaaccccc").insert( 3, "bbbb") and insert( 3, 4, 'b') write behind the object *)
Theorem C10_insert_pinned_refuted :
  insert_pc_pinned 10 (fs10 aaaccccc) 3 (carr [98;98;98;98]) 4 = Fault OOBWrite /\
  insert_nc_pinned 10 (fs10 aaaccccc) 3 4 98 = Fault OOBWrite /\
  (exists count, count < M64 /\ insert_nc_pinned 10 (fs10 [97;98;99]) 1 count 97 = Fault OOBWrite).
Proof.
  split; [vm_compute; reflexivity|]. split; [vm_compute; reflexivity|].
  exists 18446744073709551615. split; vm_compute; reflexivity.
Qed.
Print Assumptions C10_insert_pinned_refuted.

(** FixedString<10>("abc").append( std::string("xyz"), 1) reads behind the source *)
Theorem C10_append_substring_pinned_refuted :
  append_ss_pinned 10 (fs10 [97;98;99]) [120;121;122] 1 NPOS = Fault OOBRead.
Proof. vm_compute. reflexivity. Qed.
Print Assumptions C10_append_substring_pinned_refuted.

(** swap of a full string overflows the local buffer; swap into an emptied string loses the terminator *)
Theorem C10_swap_pinned_refuted :
  swap_pinned 10 (fs10 [48;49;50;51;52;53;54;55;56;57]) (fs10 [97;98]) = Fault OOBWrite /\
  (exists s o s' o', Inv 10 s /\ Inv 10 o /\ swap_pinned 10 s o = Ok (s', o') /\ ~ Inv 10 s').
Proof.
  split; [vm_compute; reflexivity|].
  exists {| buf := [0;101;108;108;111;0;0;0;0;0;0]; len := 0 |}, (fs10 [97;98]).
  eexists _, _. repeat split; try (vm_compute; reflexivity); try (vm_compute; discriminate).
  intros (_ & _ & H). vm_compute in H. discriminate.
Qed.
Print Assumptions C10_swap_pinned_refuted.

(** FixedString<10>("0123456").replace( 2, 1, "abcdefgh") writes behind the object *)
Theorem C10_replace_pinned_refuted :
  replace_impl_pinned 10 (fs10 [48;49;50;51;52;53;54]) 2 1 (carr [97;98;99;100;101;102;103;104]) 0 8
    = Fault OOBWrite.
Proof. vm_compute. reflexivity. Qed.
Print Assumptions C10_replace_pinned_refuted.

(** position + count computed with wrap-around: copy( dest, npos, 1) writes 2^64-1 bytes,
    compare( 1, npos, long string) and find / rfind with huge positions read outside the object *)
Theorem C10_wraparound_pinned_refuted :
  copy_pinned (fs10 [97;98;99]) 2 NPOS 1 = Fault OOBRead /\
  part_compare_pinned (fs10 [97;98;99]) 1 NPOS (carr (repeat 97 16)) 16 = Fault OOBRead /\
  rfind_arr_pinned 10 (fs10 [97;98;99]) (carr [98;99]) 2 18446744073709551614 = Fault OOBRead /\
  find_arr_pinned 10 (fs10 [97]) (carr [97;97]) 2 NPOS = Fault OOBRead.
Proof. vm_compute. repeat split. Qed.
Print Assumptions C10_wraparound_pinned_refuted.

(** exceptions escaping noexcept functions (std::terminate): append( npos, 'a'),
    replace( 1, 1, npos, 'a'), insert( 1, std::string("ab"), 5, 1), substr( 2, 2^64-2) *)
Theorem C10_terminate_pinned_refuted :
  append_nc_pinned 10 (fs10 [97;98;99]) NPOS 97 = Err ELogic /\
  replace_nc_pinned 10 (fs10 [97;98;99]) 1 1 NPOS 97 = Err ELogic /\
  insert_ss_pinned 10 (fs10 [97;98;99]) 1 [97;98] 5 1 = Err EOutOfRange /\
  substr_pinned (fs10 [97;98;99;100]) 2 18446744073709551614 = Err ELogic.
Proof. vm_compute. repeat split. Qed.
Print Assumptions C10_terminate_pinned_refuted.

(** --end() of the pinned FixedStringIterator (operator-- = [it_dec] without a test for
    the end value) gives index 2^64-2; operator* then reads far outside the object *)
Theorem C10_iterator_pinned_refuted :
  it_dec NPOS = 18446744073709551614 /\ it_deref (fs10 [97;98;99]) (it_dec NPOS) = Fault OOBRead.
Proof. vm_compute. split; reflexivity. Qed.
Print Assumptions C10_iterator_pinned_refuted.

(** Two capacities: a full FixedString<20> compared with a FixedString<3>.  The
    operator== of the code ("lengths equal && memcmp( lhs, rhs, length)") stays
    inside both objects; a comparison folded into memcmp( lhs, rhs,
    lhs.length() + 1) would read behind the 4-byte buffer of the right operand
    (corpus case "A 20/3 ... eq ne" of props/C10.py). *)
Definition fsL (L : N) (cs : list byte) : fs :=
  match fs_init L cs with Ok s => s | _ => zero_fs L end.

Example C10_mixed_capacity_witness :
  Inv 20 (fsL 20 (repeat 113 20)) /\ Inv 3 (fsL 3 [114;114;114]) /\
  cap_ok (3 =? 20) OEq = true /\
  eq_op (fsL 20 (repeat 113 20)) (fsL 3 [114;114;114]) = Ok false /\
  mcmp (buf (fsL 20 (repeat 113 20))) 0 (buf (fsL 3 [114;114;114])) 0
       (len (fsL 20 (repeat 113 20)) + 1) = Fault OOBRead.
Proof.
  split; [repeat split; vm_compute; try reflexivity; discriminate|].
  split; [repeat split; vm_compute; try reflexivity; discriminate|].
  repeat split; vm_compute; reflexivity.
Qed.

(** Non-vacuity: the hypotheses are satisfiable and the theorems apply to a
    history with huge arguments on a full string. *)
Example C10_nonvacuous :
  CapOk 10 /\ Inv 10 (fs10 aaaccccc) /\
  Forall Bounded [OInsC 3 [98;98;98;98]; OInsNC 3 NPOS 98; OSwap; OCopy NPOS 1; OFind RFind (FC [98;99]) 18446744073709551614] /\
  match run 10 10 (fs10 aaaccccc) (fs10 [97;98]) [OInsC 3 [98;98;98;98]; OInsNC 3 NPOS 98; OSwap; OStr] with
  | Ok (_, _, vs) => vs = [RNone; RNone; RNone; RStr [97;98]]
  | _ => False
  end.
Proof.
  split; [split; [vm_compute; discriminate|vm_compute; reflexivity]|].
  split; [repeat split; vm_compute; try reflexivity; discriminate|].
  split; [repeat constructor; vm_compute; reflexivity|].
  vm_compute. reflexivity.
Qed.
