(** Proofs for C12: basic facts about the storage primitives and loops,
    pointwise characterisation of every member, refinement of the reference
    bit vector, iterators. *)
From Coq Require Import List Arith NArith ZArith Bool Lia.
Import ListNotations.
Require Import Celma.Common.Res Celma.Common.Tactics Celma.Bitset.BsModel Celma.Bitset.BsSpec.

(* ------------------------------------------------------------------ *)
(** * storage primitives *)

Lemma get_ok d i : i < length d -> get d i = Ok (nth i d false).
Proof.
  intros H. unfold get. destruct (nth_error d i) eqn:E.
  - rewrite (nth_error_nth _ _ _ E). reflexivity.
  - apply nth_error_None in E. lia.
Qed.

Lemma get_oob d i : length d <= i -> get d i = Fault OOBRead.
Proof. intros H. unfold get. apply nth_error_None in H. rewrite H. reflexivity. Qed.

Lemma put_ok d i v : i < length d -> put d i v = Ok (firstn i d ++ v :: skipn (S i) d).
Proof. intros H. unfold put. apply Nat.ltb_lt in H. rewrite H. reflexivity. Qed.

Lemma put_oob d i v : length d <= i -> put d i v = Fault OOBWrite.
Proof. intros H. unfold put. apply Nat.ltb_ge in H. rewrite H. reflexivity. Qed.

Lemma upd_length (d : bs) i v : i < length d -> length (firstn i d ++ v :: skipn (S i) d) = length d.
Proof. intros H. rewrite app_length, firstn_length. cbn [length]. rewrite skipn_length. lia. Qed.

Lemma upd_nth (d : bs) i v j : i < length d ->
  nth j (firstn i d ++ v :: skipn (S i) d) false = if j =? i then v else nth j d false.
Proof.
  intros H. destruct (Nat.eqb_spec j i) as [->|N].
  - rewrite app_nth2; rewrite firstn_length; [|lia].
    replace (i - Nat.min i (length d)) with 0 by lia. reflexivity.
  - destruct (Nat.lt_ge_cases j i).
    + rewrite app_nth1 by (rewrite firstn_length; lia).
      rewrite <- (firstn_skipn i d) at 2. rewrite app_nth1 by (rewrite firstn_length; lia). reflexivity.
    + rewrite app_nth2 by (rewrite firstn_length; lia). rewrite firstn_length.
      replace (j - Nat.min i (length d)) with (S (j - S i)) by lia. cbn [nth].
      rewrite <- (firstn_skipn (S i) d) at 2. rewrite app_nth2 by (rewrite firstn_length; lia).
      rewrite firstn_length. f_equal. lia.
Qed.

(** [put] in one statement: length kept, one position changed *)
Lemma put_spec d i v : i < length d ->
  exists d', put d i v = Ok d' /\ length d' = length d /\
             forall j, nth j d' false = if j =? i then v else nth j d false.
Proof.
  intros H. eexists. split; [apply put_ok; exact H|]. split.
  - apply upd_length; exact H.
  - intros j. apply upd_nth; exact H.
Qed.

Lemma vresize_length d c v : length (vresize d c v) = c.
Proof.
  unfold vresize. destruct (Nat.leb_spec c (length d)).
  - rewrite firstn_length. lia.
  - rewrite app_length, repeat_length. lia.
Qed.

Lemma nth_repeat_false n j : nth j (repeat false n) false = false.
Proof. revert j. induction n; intros [|j]; cbn; auto. Qed.

Lemma nth_repeat' (v : bool) n j : j < n -> nth j (repeat v n) false = v.
Proof. revert j. induction n; intros [|j] H; cbn; try lia; auto. apply IHn. lia. Qed.

Lemma vresize_nth d c v j :
  nth j (vresize d c v) false =
  if j <? c then (if j <? length d then nth j d false else v) else false.
Proof.
  unfold vresize. destruct (Nat.leb_spec c (length d)).
  - destruct (Nat.ltb_spec j c).
    + assert (j <? length d = true) as -> by (apply Nat.ltb_lt; lia).
      rewrite <- (firstn_skipn c d) at 2. rewrite app_nth1; [reflexivity|]. rewrite firstn_length. lia.
    + apply nth_overflow. rewrite firstn_length. lia.
  - destruct (Nat.ltb_spec j c).
    + destruct (Nat.ltb_spec j (length d)).
      * apply app_nth1. lia.
      * rewrite app_nth2 by lia. apply nth_repeat'. lia.
    + apply nth_overflow. rewrite app_length, repeat_length. lia.
Qed.

Lemma m_ctor_length n : length (m_ctor n) = n.
Proof. unfold m_ctor. destruct (Nat.ltb_spec 0 n); [apply vresize_length|cbn; lia]. Qed.

Lemma m_ctor_nth n j : nth j (m_ctor n) false = false.
Proof.
  unfold m_ctor. destruct (Nat.ltb_spec 0 n).
  - rewrite vresize_nth. cbn [length]. destruct (j <? n); [|reflexivity].
    destruct (j <? 0) eqn:E; [apply Nat.ltb_lt in E; lia|reflexivity].
  - destruct j; reflexivity.
Qed.

(** two bit lists with the same length and the same bits are equal *)
Lemma bs_ext (a b : bs) : length a = length b -> (forall j, nth j a false = nth j b false) -> a = b.
Proof. intros L H. apply (nth_ext a b false false L). intros; apply H. Qed.

(* ------------------------------------------------------------------ *)
(** * loops *)

Lemma for_up_inv (P : nat -> bs -> Prop) f n : forall start d,
  P start d ->
  (forall k dk, start <= k < start + n -> P k dk -> exists dk', f k dk = Ok dk' /\ P (S k) dk') ->
  exists d', for_up n start f d = Ok d' /\ P (start + n) d'.
Proof.
  induction n as [|n IH]; intros start d H0 Hs.
  - exists d. rewrite Nat.add_0_r. split; [reflexivity|exact H0].
  - cbn [for_up]. destruct (Hs start d ltac:(lia) H0) as (d1 & E1 & P1). rewrite E1. cbn [bind].
    destruct (IH (S start) d1 P1) as (d' & E' & P').
    + intros k dk Hk. apply Hs. lia.
    + exists d'. split; [exact E'|]. replace (start + S n) with (S start + n) by lia. exact P'.
Qed.

(** [Q j] holds after [j] iterations; iteration [j] runs with index [idx - j] *)
Lemma for_down_inv (Q : nat -> bs -> Prop) f n : forall idx d j0,
  Q j0 d ->
  (forall j dj, j0 <= j < j0 + n -> Q j dj -> exists dj', f (idx + j0 - j) dj = Ok dj' /\ Q (S j) dj') ->
  exists d', for_down n idx f d = Ok d' /\ Q (j0 + n) d'.
Proof.
  induction n as [|n IH]; intros idx d j0 H0 Hs.
  - exists d. rewrite Nat.add_0_r. split; [reflexivity|exact H0].
  - cbn [for_down]. destruct (Hs j0 d ltac:(lia) H0) as (d1 & E1 & P1).
    replace (idx + j0 - j0) with idx in E1 by lia. rewrite E1. cbn [bind].
    destruct (IH (idx - 1) d1 (S j0) P1) as (d' & E' & P').
    + intros j dj Hj Qj. destruct (Hs j dj ltac:(lia) Qj) as (dj' & Ej & Qj').
      exists dj'. split; [|exact Qj'].
      (* idx - 1 + S j0 - j = idx + j0 - j needs idx >= 1 or j > j0 + idx ... *)
      destruct idx as [|idx'].
      * replace (0 - 1 + S j0 - j) with (0 + j0 - j) by lia. exact Ej.
      * replace (S idx' - 1 + S j0 - j) with (S idx' + j0 - j) by lia. exact Ej.
    + exists d'. split; [exact E'|]. replace (j0 + S n) with (S j0 + n) by lia. exact P'.
Qed.

Ltac case_bools :=
  repeat match goal with
  | |- context [?a <? ?b] => destruct (Nat.ltb_spec a b)
  | |- context [?a <=? ?b] => destruct (Nat.leb_spec a b)
  | |- context [?a =? ?b] => destruct (Nat.eqb_spec a b)
  end; cbn [andb orb negb].

Ltac fin := try reflexivity; try lia; try (f_equal; lia); try (subst; reflexivity).

(** mData[idx] = f(mData[idx], other[idx]) for idx in [0,n) *)
Lemma combine_loop f o n d :
  n <= length d -> n <= length o ->
  exists d', for_up n 0 (combine_at f o) d = Ok d' /\ length d' = length d /\
    forall j, nth j d' false = if j <? n then f (nth j d false) (nth j o false) else nth j d false.
Proof.
  intros Hd Ho.
  destruct (for_up_inv
    (fun k dk => length dk = length d /\
       forall j, nth j dk false = if j <? k then f (nth j d false) (nth j o false) else nth j d false)
    (combine_at f o) n 0 d) as (d' & E & L & H).
  - split; [reflexivity|]. intros j. reflexivity.
  - intros k dk Hk [L H]. unfold combine_at.
    rewrite get_ok by lia. cbn [bind]. rewrite get_ok by lia. cbn [bind].
    destruct (put_spec dk k (f (nth k dk false) (nth k o false)) ltac:(lia)) as (dk' & E & L' & H').
    exists dk'. split; [exact E|]. split; [lia|]. intros j. rewrite H', !H.
    case_bools; fin.
  - exists d'. auto.
Qed.

(** mData[idx] = false for idx in [start, start+n) *)
Lemma clear_loop start n d :
  start + n <= length d ->
  exists d', for_up n start clear_at d = Ok d' /\ length d' = length d /\
    forall j, nth j d' false = if (start <=? j) && (j <? start + n) then false else nth j d false.
Proof.
  intros Hd.
  destruct (for_up_inv
    (fun k dk => length dk = length d /\
       forall j, nth j dk false = if (start <=? j) && (j <? k) then false else nth j d false)
    clear_at n start d) as (d' & E & L & H).
  - split; [reflexivity|]. intros j. case_bools; fin.
  - intros k dk Hk [L H]. unfold clear_at.
    destruct (put_spec dk k false ltac:(lia)) as (dk' & E & L' & H').
    exists dk'. split; [exact E|]. split; [lia|]. intros j. rewrite H', H.
    case_bools; fin.
  - exists d'. auto.
Qed.

(** acc[idx + b] = src[idx + a] for idx in [0,n), [src] not modified *)
Lemma copy_loop_shl (src : bs) pos acc :
  length src + pos <= length acc ->
  exists d', for_up (length src) 0 (fun idx acc => do v <- get src idx; put acc (idx + pos) v) acc = Ok d' /\
    length d' = length acc /\
    forall j, nth j d' false =
      if (pos <=? j) && (j <? pos + length src) then nth (j - pos) src false else nth j acc false.
Proof.
  intros Ha.
  destruct (for_up_inv
    (fun k dk => length dk = length acc /\
       forall j, nth j dk false =
         if (pos <=? j) && (j <? pos + k) then nth (j - pos) src false else nth j acc false)
    (fun idx acc => do v <- get src idx; put acc (idx + pos) v) (length src) 0 acc) as (d' & E & L & H).
  - split; [reflexivity|]. intros j. case_bools; fin.
  - intros k dk Hk [L H]. cbn beta. rewrite get_ok by lia. cbn [bind].
    destruct (put_spec dk (k + pos) (nth k src false) ltac:(lia)) as (dk' & E & L' & H').
    exists dk'. split; [exact E|]. split; [lia|]. intros j. rewrite H', H.
    case_bools; fin.
  - exists d'. auto.
Qed.

Lemma copy_loop_shr (src : bs) pos acc :
  length src <= length acc ->
  exists d', for_up (length src - pos) 0 (fun idx acc => do v <- get src (idx + pos); put acc idx v) acc = Ok d' /\
    length d' = length acc /\
    forall j, nth j d' false =
      if j <? length src - pos then nth (j + pos) src false else nth j acc false.
Proof.
  intros Ha.
  destruct (for_up_inv
    (fun k dk => length dk = length acc /\
       forall j, nth j dk false = if j <? k then nth (j + pos) src false else nth j acc false)
    (fun idx acc => do v <- get src (idx + pos); put acc idx v) (length src - pos) 0 acc) as (d' & E & L & H).
  - split; [reflexivity|]. intros j. reflexivity.
  - intros k dk Hk [L H]. cbn beta. rewrite get_ok by lia. cbn [bind].
    destruct (put_spec dk k (nth (k + pos) src false) ltac:(lia)) as (dk' & E & L' & H').
    exists dk'. split; [exact E|]. split; [lia|]. intros j. rewrite H', H.
    case_bools; fin.
  - exists d'. auto.
Qed.

(** in place, ascending: mData[idx] = mData[idx + pos], pos >= 1 *)
Lemma move_down_loop pos d :
  1 <= pos ->
  exists d', for_up (length d - pos) 0 (fun idx d => do v <- get d (idx + pos); put d idx v) d = Ok d' /\
    length d' = length d /\
    forall j, nth j d' false = if j <? length d - pos then nth (j + pos) d false else nth j d false.
Proof.
  intros Hp.
  destruct (for_up_inv
    (fun k dk => length dk = length d /\
       forall j, nth j dk false = if j <? k then nth (j + pos) d false else nth j d false)
    (fun idx d => do v <- get d (idx + pos); put d idx v) (length d - pos) 0 d) as (d' & E & L & H).
  - split; [reflexivity|]. intros j. reflexivity.
  - intros k dk Hk [L H]. cbn beta. rewrite get_ok by lia. cbn [bind].
    destruct (put_spec dk k (nth (k + pos) dk false) ltac:(lia)) as (dk' & E & L' & H').
    exists dk'. split; [exact E|]. split; [lia|]. intros j. rewrite H', !H.
    case_bools; fin.
  - exists d'. auto.
Qed.

(** in place, descending from the top: mData[idx] = mData[idx - pos] for idx = len-1 .. pos *)
Lemma move_up_loop pos d :
  1 <= pos -> pos <= length d ->
  exists d', for_down (length d - pos) (length d - 1)
               (fun idx d => do v <- get d (idx - pos); put d idx v) d = Ok d' /\
    length d' = length d /\
    forall j, nth j d' false =
      if (pos <=? j) && (j <? length d) then nth (j - pos) d false else nth j d false.
Proof.
  intros Hp Hl.
  destruct (for_down_inv
    (fun k dk => length dk = length d /\
       forall j, nth j dk false =
         if (length d - k <=? j) && (j <? length d) then nth (j - pos) d false else nth j d false)
    (fun idx d => do v <- get d (idx - pos); put d idx v) (length d - pos) (length d - 1) d 0)
    as (d' & E & L & H).
  - split; [reflexivity|]. intros j. case_bools; fin.
  - intros k dk Hk [L H]. cbn beta. rewrite get_ok by lia. cbn [bind].
    destruct (put_spec dk (length d - 1 + 0 - k) (nth (length d - 1 + 0 - k - pos) dk false) ltac:(lia))
      as (dk' & E & L' & H').
    exists dk'. split; [exact E|]. split; [lia|]. intros j. rewrite H', !H.
    case_bools; fin.
  - exists d'. split; [exact E|]. split; [exact L|]. intros j. rewrite H.
    case_bools; fin.
Qed.

(* ------------------------------------------------------------------ *)
(** * members, pointwise *)

Lemma grow_size_gt pos : pos < grow_size pos.
Proof. unfold grow_size. lia. Qed.

(** the grow-before-access prefix of set/reset/flip/operator[] *)
Definition grown (d : bs) (pos : nat) : bs :=
  if length d <=? pos then vresize d (grow_size pos) false else d.
Definition grown_len (d : bs) (pos : nat) : nat :=
  if pos <? length d then length d else grow_size pos.

Lemma grown_spec d pos :
  length (grown d pos) = grown_len d pos /\ pos < length (grown d pos) /\
  forall j, nth j (grown d pos) false = nth j d false.
Proof.
  unfold grown, grown_len. pose proof (grow_size_gt pos).
  destruct (Nat.leb_spec (length d) pos); destruct (Nat.ltb_spec pos (length d)); try lia.
  - rewrite vresize_length. splits; try lia. intros j. rewrite vresize_nth.
    case_bools; fin; symmetry; apply nth_overflow; lia.
  - splits; auto.
Qed.

Lemma grown_put d pos v :
  exists d', put (grown d pos) pos v = Ok d' /\ length d' = grown_len d pos /\
    forall j, nth j d' false = if j =? pos then v else nth j d false.
Proof.
  destruct (grown_spec d pos) as (L & Hp & H).
  destruct (put_spec (grown d pos) pos v Hp) as (d' & E & L' & H').
  exists d'. splits; [exact E|lia|]. intros j. rewrite H', H. reflexivity.
Qed.

Lemma m_set_pw d pos v :
  exists d', m_set d pos v = Ok d' /\ length d' = grown_len d pos /\
    forall j, nth j d' false = if j =? pos then v else nth j d false.
Proof. apply grown_put. Qed.

Lemma m_reset_pw d pos :
  exists d', m_reset d pos = Ok d' /\ length d' = grown_len d pos /\
    forall j, nth j d' false = if j =? pos then false else nth j d false.
Proof. apply grown_put. Qed.

Lemma m_index_write_pw d pos v :
  exists d', m_index_write d pos v = Ok d' /\ length d' = grown_len d pos /\
    forall j, nth j d' false = if j =? pos then v else nth j d false.
Proof. apply grown_put. Qed.

Lemma m_flip_pw d pos :
  exists d', m_flip d pos = Ok d' /\ length d' = grown_len d pos /\
    forall j, nth j d' false = if j =? pos then negb (nth pos d false) else nth j d false.
Proof.
  unfold m_flip. fold (grown d pos). destruct (grown_spec d pos) as (L & Hp & H).
  rewrite get_ok by exact Hp. cbn [bind]. rewrite H. apply grown_put.
Qed.

Lemma m_index_read_pw d pos :
  exists d', m_index_read d pos = Ok (d', nth pos d false) /\ length d' = grown_len d pos /\
    forall j, nth j d' false = nth j d false.
Proof.
  unfold m_index_read, m_index_ref. fold (grown d pos). destruct (grown_spec d pos) as (L & Hp & H).
  rewrite get_ok by exact Hp. cbn [bind]. rewrite H. exists (grown d pos). auto.
Qed.

Lemma m_and_assign_pw d o :
  exists d', m_and_assign d o = Ok d' /\ length d' = length d /\
    forall j, nth j d' false = nth j d false && nth j o false.
Proof.
  unfold m_and_assign. destruct (Nat.ltb_spec (length d) (length o)) as [Hlt|Hge].
  - destruct (combine_loop andb o (length d) d ltac:(lia) ltac:(lia)) as (d' & E & L & H).
    exists d'. splits; auto. intros j. rewrite H. case_bools; fin.
    rewrite (nth_overflow d) by lia. reflexivity.
  - destruct (combine_loop andb o (length o) d ltac:(lia) ltac:(lia)) as (d1 & E1 & L1 & H1).
    rewrite E1. cbn [bind].
    destruct (clear_loop (length o) (length d - length o) d1 ltac:(lia)) as (d' & E & L & H).
    exists d'. splits; [exact E|lia|]. intros j. rewrite H, H1.
    case_bools; fin.
    + rewrite (nth_overflow o) by lia. rewrite andb_false_r. reflexivity.
    + rewrite (nth_overflow d) by lia. reflexivity.
Qed.

Lemma widen_combine (f : bool -> bool -> bool) d o :
  (forall a, f a false = a) ->
  let d1 := if length d <? length o then vresize d (length o) false else d in
  exists d', for_up (Nat.min (length d1) (length o)) 0 (combine_at f o) d1 = Ok d' /\
    length d' = Nat.max (length d) (length o) /\
    forall j, nth j d' false = if j <? Nat.max (length d) (length o)
                               then f (nth j d false) (nth j o false) else false.
Proof.
  intros Hf d1.
  assert (L1 : length d1 = Nat.max (length d) (length o)).
  { subst d1. destruct (Nat.ltb_spec (length d) (length o)) as [Hlt|Hge]; [rewrite vresize_length|]; lia. }
  assert (H1 : forall j, nth j d1 false = nth j d false).
  { intros j. subst d1. destruct (Nat.ltb_spec (length d) (length o)) as [Hlt|Hge]; [|reflexivity].
    rewrite vresize_nth. case_bools; fin; symmetry; apply nth_overflow; lia. }
  destruct (combine_loop f o (Nat.min (length d1) (length o)) d1 ltac:(lia) ltac:(lia)) as (d' & E & L & H).
  exists d'. splits; [exact E|lia|]. intros j. rewrite H, !H1, L1.
  case_bools; fin.
  - rewrite (nth_overflow o) by lia. rewrite Hf. reflexivity.
  - apply nth_overflow. lia.
Qed.

Lemma m_or_assign_pw d o :
  exists d', m_or_assign d o = Ok d' /\ length d' = Nat.max (length d) (length o) /\
    forall j, nth j d' false = if j <? Nat.max (length d) (length o)
                               then nth j d false || nth j o false else false.
Proof. apply (widen_combine orb). apply orb_false_r. Qed.

Lemma m_xor_assign_pw d o :
  exists d', m_xor_assign d o = Ok d' /\ length d' = Nat.max (length d) (length o) /\
    forall j, nth j d' false = if j <? Nat.max (length d) (length o)
                               then xorb (nth j d false) (nth j o false) else false.
Proof. apply (widen_combine xorb). apply xorb_false_r. Qed.

(** the early return of the four shift operators *)
Definition shift_noop (d : bs) (pos : nat) : bool := (pos =? 0) || (length d =? 0).

Lemma m_shl_pw d pos : shift_noop d pos = false ->
  exists d', m_shl d pos = Ok d' /\ length d' = length d + pos /\
    forall j, nth j d' false = if j <? pos then false else nth (j - pos) d false.
Proof.
  intros G. unfold m_shl. fold (shift_noop d pos). rewrite G.
  destruct (copy_loop_shl d pos (m_ctor (length d + pos))) as (d' & E & L & H).
  { rewrite m_ctor_length. lia. }
  exists d'. rewrite m_ctor_length in L. splits; auto. intros j. rewrite H, m_ctor_nth.
  case_bools; fin. symmetry. apply nth_overflow. lia.
Qed.

Lemma m_shl_assign_pw d pos : shift_noop d pos = false ->
  exists d', m_shl_assign d pos = Ok d' /\ length d' = length d + pos /\
    forall j, nth j d' false = if j <? pos then false else nth (j - pos) d false.
Proof.
  intros G. unfold m_shl_assign. fold (shift_noop d pos). rewrite G.
  unfold shift_noop in G. apply orb_false_elim in G. destruct G as [G1 G2].
  apply Nat.eqb_neq in G1. apply Nat.eqb_neq in G2.
  set (d1 := vresize d (length d + pos) false).
  assert (L1 : length d1 = length d + pos) by apply vresize_length.
  destruct (move_up_loop pos d1 ltac:(lia) ltac:(lia)) as (d2 & E2 & L2 & H2).
  rewrite E2. cbn [bind].
  destruct (clear_loop 0 pos d2 ltac:(lia)) as (d' & E & L & H).
  exists d'. splits; [exact E|lia|]. intros j. rewrite H, H2. subst d1.
  rewrite !vresize_nth, vresize_length. case_bools; fin.
  all: try (symmetry; apply nth_overflow; lia).
Qed.

Lemma m_shr_pw d pos : shift_noop d pos = false ->
  exists d', m_shr d pos = Ok d' /\ length d' = length d /\
    forall j, nth j d' false = nth (j + pos) d false.
Proof.
  intros G. unfold m_shr. fold (shift_noop d pos). rewrite G.
  destruct (copy_loop_shr d pos (m_ctor (length d))) as (d' & E & L & H).
  { rewrite m_ctor_length. lia. }
  exists d'. rewrite m_ctor_length in L. splits; auto. intros j. rewrite H, m_ctor_nth.
  case_bools; fin. symmetry. apply nth_overflow. lia.
Qed.

Lemma m_shr_assign_pw d pos : shift_noop d pos = false ->
  exists d', m_shr_assign d pos = Ok d' /\ length d' = length d /\
    forall j, nth j d' false = nth (j + pos) d false.
Proof.
  intros G. unfold m_shr_assign. fold (shift_noop d pos). rewrite G.
  unfold shift_noop in G. apply orb_false_elim in G. destruct G as [G1 G2].
  apply Nat.eqb_neq in G1. apply Nat.eqb_neq in G2.
  destruct (move_down_loop pos d ltac:(lia)) as (d1 & E1 & L1 & H1).
  rewrite E1. cbn [bind].
  set (start := if pos <? length d then length d - pos else 0).
  destruct (clear_loop start (length d - start) d1) as (d' & E & L & H).
  { subst start. destruct (pos <? length d); lia. }
  exists d'. splits; [exact E|lia|]. intros j. rewrite H, H1. subst start.
  case_bools; fin; try (symmetry; apply nth_overflow; lia);
    rewrite !(nth_overflow d) by lia; reflexivity.
Qed.

(** the pinned operator>>= : correct up to distance = size, a no-op beyond *)
Lemma m_shr_assign_pinned_beyond d pos :
  length d < pos -> m_shr_assign_pinned d pos = Ok d.
Proof.
  intros H. unfold m_shr_assign_pinned.
  destruct ((pos =? 0) || (length d =? 0)); [reflexivity|].
  replace (length d - pos) with 0 by lia. cbn [for_up bind].
  apply Nat.ltb_lt in H. rewrite H. reflexivity.
Qed.

(* ------------------------------------------------------------------ *)
(** * compound assignment = binary operator *)

Lemma shl_assign_eq_shl d n : m_shl_assign d n = m_shl d n.
Proof.
  destruct (shift_noop d n) eqn:G.
  - unfold m_shl_assign, m_shl. fold (shift_noop d n). rewrite G. reflexivity.
  - destruct (m_shl_assign_pw d n G) as (d1 & E1 & L1 & H1).
    destruct (m_shl_pw d n G) as (d2 & E2 & L2 & H2).
    rewrite E1, E2. f_equal. apply bs_ext; [lia|]. intros j. rewrite H1, H2. reflexivity.
Qed.

Lemma shr_assign_eq_shr d n : m_shr_assign d n = m_shr d n.
Proof.
  destruct (shift_noop d n) eqn:G.
  - unfold m_shr_assign, m_shr. fold (shift_noop d n). rewrite G. reflexivity.
  - destruct (m_shr_assign_pw d n G) as (d1 & E1 & L1 & H1).
    destruct (m_shr_pw d n G) as (d2 & E2 & L2 & H2).
    rewrite E1, E2. f_equal. apply bs_ext; [lia|]. intros j. rewrite H1, H2. reflexivity.
Qed.

Lemma m_shl_total d n : exists d', m_shl d n = Ok d'.
Proof.
  destruct (shift_noop d n) eqn:G.
  - exists d. unfold m_shl. fold (shift_noop d n). rewrite G. reflexivity.
  - destruct (m_shl_pw d n G) as (d' & E & _). eauto.
Qed.

Lemma m_shr_total d n : exists d', m_shr d n = Ok d'.
Proof.
  destruct (shift_noop d n) eqn:G.
  - exists d. unfold m_shr. fold (shift_noop d n). rewrite G. reflexivity.
  - destruct (m_shr_pw d n G) as (d' & E & _). eauto.
Qed.

(* ------------------------------------------------------------------ *)
(** * observers *)

Lemma repr_map d r : repr d r -> d = map (rbit r) (seq 0 (rsize r)).
Proof.
  intros [L H]. apply (nth_ext _ _ false (rbit r 0)).
  - rewrite map_length, seq_length. exact L.
  - intros n Hn. rewrite L in Hn. rewrite map_nth, seq_nth by exact Hn. cbn. apply H. exact Hn.
Qed.

Lemma map_repr r : repr (map (rbit r) (seq 0 (rsize r))) r.
Proof.
  split.
  - rewrite map_length, seq_length. reflexivity.
  - intros i Hi. rewrite (nth_indep _ false (rbit r 0)) by (rewrite map_length, seq_length; exact Hi).
    rewrite map_nth, seq_nth by exact Hi. reflexivity.
Qed.

Lemma m_any_existsb l : m_any l = existsb id l.
Proof.
  unfold m_any. induction l as [|b l IH]; [reflexivity|]. cbn [vfind existsb].
  destruct b; cbn; [reflexivity|]. destruct (vfind true l); cbn in *; exact IH.
Qed.

Lemma m_all_forallb l : m_all l = forallb id l.
Proof.
  unfold m_all. induction l as [|b l IH]; [reflexivity|]. cbn [vfind forallb].
  destruct b; cbn; [|reflexivity]. destruct (vfind false l); cbn in *; exact IH.
Qed.

Lemma existsb_map {A} (f : A -> bool) l : existsb id (map f l) = existsb f l.
Proof. induction l; cbn; [reflexivity|]. rewrite IHl. reflexivity. Qed.

Lemma forallb_map {A} (f : A -> bool) l : forallb id (map f l) = forallb f l.
Proof. induction l; cbn; [reflexivity|]. rewrite IHl. reflexivity. Qed.

Lemma vcount_map {A} (f : A -> bool) l : vcount (map f l) = length (filter f l).
Proof. induction l; cbn; [reflexivity|]. destruct (f a); cbn; rewrite IHl; reflexivity. Qed.

Lemma to_ulong_loop_map f n : forall k acc,
  to_ulong_loop (map f (seq k n)) k acc =
  if existsb (fun i => 64 <=? i) (filter f (seq k n)) then Err EOverflow
  else Ok (acc + pow2sum (filter f (seq k n)))%N.
Proof.
  induction n as [|n IH]; intros k acc; cbn [seq map to_ulong_loop filter].
  - cbn. rewrite N.add_0_r. reflexivity.
  - destruct (f k) eqn:F.
    + cbn [existsb]. destruct (64 <=? k) eqn:E; [reflexivity|]. cbn [orb]. rewrite IH.
      destruct (existsb _ _); [reflexivity|]. cbn [pow2sum fold_right]. f_equal.
      unfold pow2sum. lia.
    + apply IH.
Qed.

Lemma veq_true_iff a b : veq a b = true <-> a = b.
Proof.
  revert b. induction a as [|x a IH]; intros [|y b]; cbn; split; intros H; try congruence; try discriminate.
  - apply andb_true_iff in H. destruct H as [H1 H2]. apply eqb_prop in H1. apply IH in H2. congruence.
  - inversion H; subst. rewrite eqb_reflx. cbn. apply IH. reflexivity.
Qed.

(* ------------------------------------------------------------------ *)
(** * iterators *)

Definition bitf (d : bs) (i : nat) : bool := nth i d false.
(** set positions >= k, ascending *)
Definition ps_from (d : bs) (k : nat) : list nat := filter (bitf d) (seq k (length d - k)).
(** set positions < k, ascending *)
Definition ps_upto (d : bs) (k : nat) : list nat := filter (bitf d) (seq 0 k).

Lemma filter_length_le' {A} (f : A -> bool) l : length (filter f l) <= length l.
Proof. induction l; cbn; [lia|]. destruct (f a); cbn; lia. Qed.

Lemma filter_seq_head f : forall m k q rest,
  filter f (seq k m) = q :: rest ->
  k <= q < k + m /\ f q = true /\ rest = filter f (seq (S q) (k + m - S q)).
Proof.
  induction m as [|m IH]; intros k q rest H; cbn in H; [discriminate|].
  destruct (f k) eqn:F.
  - inversion H; subst. splits; try lia; auto. f_equal. f_equal. lia.
  - apply IH in H. destruct H as (H1 & H2 & H3). splits; try lia; auto.
    rewrite H3. f_equal. f_equal. lia.
Qed.

Lemma ps_from_step d k : k < length d ->
  ps_from d k = if nth k d false then k :: ps_from d (S k) else ps_from d (S k).
Proof.
  intros H. unfold ps_from. replace (length d - k) with (S (length d - S k)) by lia.
  cbn [seq filter]. unfold bitf at 1. reflexivity.
Qed.

Lemma ps_from_end d k : length d <= k -> ps_from d k = [].
Proof. intros H. unfold ps_from. replace (length d - k) with 0 by lia. reflexivity. Qed.

Lemma ps_from_head d k q rest : k <= length d -> ps_from d k = q :: rest ->
  k <= q < length d /\ rest = ps_from d (S q).
Proof.
  intros Hk H. apply filter_seq_head in H. destruct H as (H1 & _ & H3). split; [lia|].
  rewrite H3. unfold ps_from. f_equal. f_equal. lia.
Qed.

Lemma ps_upto_step d k :
  ps_upto d (S k) = ps_upto d k ++ (if nth k d false then [k] else []).
Proof. unfold ps_upto. rewrite seq_S, filter_app. cbn. reflexivity. Qed.

Lemma rev_upto_step d k :
  rev (ps_upto d (S k)) = if nth k d false then k :: rev (ps_upto d k) else rev (ps_upto d k).
Proof.
  rewrite ps_upto_step. destruct (nth k d false).
  - rewrite rev_app_distr. reflexivity.
  - rewrite app_nil_r. reflexivity.
Qed.

Lemma rev_upto_head d : forall k q rest,
  rev (ps_upto d k) = q :: rest -> q < k /\ rest = rev (ps_upto d q).
Proof.
  induction k as [|k IH]; intros q rest H; [discriminate|].
  rewrite rev_upto_step in H. destruct (nth k d false).
  - inversion H; subst. auto.
  - apply IH in H. destruct H. split; [lia|assumption].
Qed.

Lemma ult_size_nat d k : ult_size (Z.of_nat k) d = (k <? length d).
Proof.
  unfold ult_size. destruct (Nat.ltb_spec k (length d)).
  - apply andb_true_iff. split; [apply Z.leb_le|apply Z.ltb_lt]; lia.
  - apply andb_false_iff. right. apply Z.ltb_ge. lia.
Qed.

Lemma ult_size_neg d p : (p < 0)%Z -> ult_size p d = false.
Proof. intros H. unfold ult_size. apply andb_false_iff. left. apply Z.leb_gt. exact H. Qed.

Lemma it_test_nat d k : k < length d -> it_test d (Z.of_nat k) = Ok (nth k d false).
Proof.
  intros H. unfold it_test. assert ((Z.of_nat k <? 0)%Z = false) as -> by (apply Z.ltb_ge; lia).
  rewrite Nat2Z.id. unfold m_test. apply Nat.leb_gt in H. rewrite H. apply get_ok. apply Nat.leb_gt. exact H.
Qed.

(** reading at or beyond the size is refused, whatever the position *)
Lemma it_test_outside d p : ult_size p d = false -> it_test d p = Err EOutOfRange.
Proof.
  intros H. unfold it_test. destruct (p <? 0)%Z eqn:E; [reflexivity|].
  apply Z.ltb_ge in E. unfold m_test.
  assert (length d <=? Z.to_nat p = true) as ->; [|reflexivity].
  apply Nat.leb_le. unfold ult_size in H. apply andb_false_iff in H. destruct H as [H|H].
  - apply Z.leb_gt in H. lia.
  - apply Z.ltb_ge in H. lia.
Qed.

Lemma fwd_loop_spec d : forall fuel k,
  k <= length d -> length d - k < fuel ->
  fwd_loop fuel d (Z.of_nat k - 1) = Ok (Z.of_nat (hd (length d) (ps_from d k))).
Proof.
  induction fuel as [|f IH]; intros k Hk Hf; [lia|].
  cbn [fwd_loop]. replace (Z.of_nat k - 1 + 1)%Z with (Z.of_nat k) by lia.
  rewrite ult_size_nat. destruct (Nat.ltb_spec k (length d)) as [Hlt|Hge].
  - rewrite it_test_nat by exact Hlt. cbn [bind]. rewrite ps_from_step by exact Hlt.
    destruct (nth k d false); [reflexivity|].
    replace (Z.of_nat k) with (Z.of_nat (S k) - 1)%Z by lia. apply IH; lia.
  - rewrite ps_from_end by exact Hge. cbn. f_equal. lia.
Qed.

Lemma it_forward_spec d k : k < length d ->
  it_forward d (Z.of_nat k) = Ok (Z.of_nat (hd (length d) (ps_from d (S k)))).
Proof.
  intros H. unfold it_forward. rewrite ult_size_nat. apply Nat.ltb_lt in H. rewrite H.
  apply Nat.ltb_lt in H. replace (Z.of_nat k) with (Z.of_nat (S k) - 1)%Z by lia.
  apply fwd_loop_spec; lia.
Qed.

Lemma it_forward_end d p : ult_size p d = false -> it_forward d p = Ok p.
Proof. intros H. unfold it_forward. rewrite H. reflexivity. Qed.

Lemma it_begin_spec d : it_begin d = Ok (Z.of_nat (hd (length d) (ps_from d 0))).
Proof.
  unfold it_begin, it_ctor. change 0%Z with (Z.of_nat 0). rewrite ult_size_nat.
  destruct (Nat.ltb_spec 0 (length d)) as [Hlt|Hge].
  - rewrite it_test_nat by exact Hlt. cbn [bind]. rewrite (ps_from_step d 0) by exact Hlt.
    destruct (nth 0 d false); [reflexivity|]. apply it_forward_spec. exact Hlt.
  - rewrite ps_from_end by exact Hge. cbn. f_equal. lia.
Qed.

Lemma walk_fwd_spec d : forall fuel k,
  k <= length d -> length (ps_from d k) < fuel ->
  walk fuel (it_inc d) (it_end d) (Z.of_nat (hd (length d) (ps_from d k))) =
  Ok (map Z.of_nat (ps_from d k)).
Proof.
  induction fuel as [|f IH]; intros k Hk Hf; [lia|].
  cbn [walk]. destruct (ps_from d k) as [|q rest] eqn:E.
  - cbn [hd]. unfold it_end. rewrite Z.eqb_refl. reflexivity.
  - cbn [hd]. apply ps_from_head in E; [|exact Hk]. destruct E as [Hq ->].
    unfold it_end. assert ((Z.of_nat q =? Z.of_nat (length d))%Z = false) as -> by (apply Z.eqb_neq; lia).
    unfold it_inc at 1. rewrite it_forward_spec by lia. cbn [bind].
    fold (it_end d). rewrite IH; [reflexivity|lia|cbn in Hf; lia].
Qed.

Lemma iter_fwd_list d : iter_fwd d = Ok (map Z.of_nat (ps_from d 0)).
Proof.
  unfold iter_fwd. rewrite it_begin_spec. cbn [bind]. apply walk_fwd_spec; [lia|].
  unfold ps_from. pose proof (filter_length_le' (bitf d) (seq 0 (length d - 0))) as H.
  rewrite seq_length in H. lia.
Qed.

(** reverse direction *)
Definition last_below (d : bs) (k : nat) : Z :=
  match rev (ps_upto d k) with [] => (-1)%Z | q :: _ => Z.of_nat q end.

Lemma last_below_step d k :
  last_below d (S k) = if nth k d false then Z.of_nat k else last_below d k.
Proof. unfold last_below. rewrite rev_upto_step. destruct (nth k d false); reflexivity. Qed.

Lemma rev_loop_spec d : forall fuel k,
  k <= length d -> k < fuel -> rev_loop fuel d (Z.of_nat k) = Ok (last_below d k).
Proof.
  induction fuel as [|f IH]; intros k Hk Hf; [lia|].
  cbn [rev_loop]. destruct k as [|k].
  - cbn. reflexivity.
  - replace (Z.of_nat (S k) - 1)%Z with (Z.of_nat k) by lia.
    assert ((0 <=? Z.of_nat k)%Z = true) as -> by (apply Z.leb_le; lia).
    rewrite it_test_nat by lia. cbn [bind]. rewrite last_below_step.
    destruct (nth k d false); [reflexivity|]. apply IH; lia.
Qed.

Lemma it_reverse_spec d k : k <= length d -> it_reverse d (Z.of_nat k) = Ok (last_below d k).
Proof.
  intros H. unfold it_reverse. assert ((Z.of_nat k <? 0)%Z = false) as -> by (apply Z.ltb_ge; lia).
  rewrite Nat2Z.id. apply rev_loop_spec; lia.
Qed.

Lemma it_rbegin_spec d : it_rbegin d = Ok (last_below d (length d)).
Proof.
  unfold it_rbegin, rit_ctor. destruct (length d) as [|n] eqn:L.
  - cbn. reflexivity.
  - replace (Z.of_nat (S n) - 1)%Z with (Z.of_nat n) by lia.
    assert ((0 <=? Z.of_nat n)%Z = true) as -> by (apply Z.leb_le; lia).
    rewrite it_test_nat by lia. cbn [bind]. rewrite last_below_step.
    destruct (nth n d false); [reflexivity|]. apply it_reverse_spec. lia.
Qed.

Lemma walk_rev_spec d : forall fuel k,
  k <= length d -> k < fuel ->
  walk fuel (rit_inc d) it_rend (last_below d k) = Ok (map Z.of_nat (rev (ps_upto d k))).
Proof.
  induction fuel as [|f IH]; intros k Hk Hf; [lia|].
  cbn [walk]. destruct (rev (ps_upto d k)) as [|q rest] eqn:E.
  - assert (last_below d k = (-1)%Z) as -> by (unfold last_below; rewrite E; reflexivity).
    reflexivity.
  - assert (last_below d k = Z.of_nat q) as -> by (unfold last_below; rewrite E; reflexivity).
    apply rev_upto_head in E. destruct E as [Hq ->].
    unfold it_rend. assert ((Z.of_nat q =? -1)%Z = false) as -> by (apply Z.eqb_neq; lia).
    unfold rit_inc at 1. rewrite it_reverse_spec by lia. cbn [bind].
    fold it_rend. rewrite IH by lia. reflexivity.
Qed.

Lemma iter_rev_list d : iter_rev d = Ok (map Z.of_nat (rev (ps_upto d (length d)))).
Proof. unfold iter_rev. rewrite it_rbegin_spec. cbn [bind]. apply walk_rev_spec; lia. Qed.

(** walking back with operator-- of the forward iterator *)
Lemma it_dec_spec d k : k <= length d ->
  it_dec d (Z.of_nat k) = Ok (Z.of_nat (hd (length d) (rev (ps_upto d k)))).
Proof.
  intros H. unfold it_dec. rewrite it_reverse_spec by exact H. cbn [bind]. unfold last_below.
  destruct (rev (ps_upto d k)) as [|q rest]; cbn [hd].
  - reflexivity.
  - assert ((Z.of_nat q <? 0)%Z = false) as -> by (apply Z.ltb_ge; lia). reflexivity.
Qed.

Lemma walk_back_spec d : forall fuel k,
  k <= length d -> k < fuel ->
  walk fuel (it_dec d) (it_end d) (Z.of_nat (hd (length d) (rev (ps_upto d k)))) =
  Ok (map Z.of_nat (rev (ps_upto d k))).
Proof.
  induction fuel as [|f IH]; intros k Hk Hf; [lia|].
  cbn [walk]. destruct (rev (ps_upto d k)) as [|q rest] eqn:E; cbn [hd].
  - unfold it_end. rewrite Z.eqb_refl. reflexivity.
  - apply rev_upto_head in E. destruct E as [Hq ->].
    unfold it_end. assert ((Z.of_nat q =? Z.of_nat (length d))%Z = false) as -> by (apply Z.eqb_neq; lia).
    rewrite it_dec_spec by lia. cbn [bind]. fold (it_end d). rewrite IH by lia. reflexivity.
Qed.

Lemma iter_back_list d : iter_back d = Ok (map Z.of_nat (rev (ps_upto d (length d)))).
Proof.
  unfold iter_back, it_end. rewrite it_dec_spec by lia. cbn [bind]. fold (it_end d).
  apply walk_back_spec; lia.
Qed.

(** the pinned constructors on an empty bitset *)
Lemma iter_fwd_pinned_empty : iter_fwd_pinned [] = Err EOutOfRange.
Proof. reflexivity. Qed.
Lemma iter_rev_pinned_empty : iter_rev_pinned [] = Err EOutOfRange.
Proof. reflexivity. Qed.

(* ------------------------------------------------------------------ *)
(** * a stored bitset and its reference: observers *)

Lemma repr_bit0 d r : repr d r -> forall i, nth i d false = bit0 r i.
Proof.
  intros [L H] i. unfold bit0. destruct (Nat.ltb_spec i (rsize r)); [apply H; assumption|].
  apply nth_overflow. lia.
Qed.

Lemma repr_positions_from d r : repr d r -> ps_from d 0 = positions r.
Proof.
  intros [L H]. unfold ps_from, positions. rewrite Nat.sub_0_r, L. apply filter_ext_in.
  intros i Hi. apply in_seq in Hi. apply H. lia.
Qed.

Lemma repr_positions_upto d r : repr d r -> ps_upto d (length d) = positions r.
Proof.
  intros [L H]. unfold ps_upto, positions. rewrite L. apply filter_ext_in.
  intros i Hi. apply in_seq in Hi. apply H. lia.
Qed.

Lemma repr_test d r pos : repr d r -> m_test d pos = r_test r pos.
Proof.
  intros [L H]. unfold m_test, r_test. rewrite L.
  destruct (Nat.leb_spec (rsize r) pos); destruct (Nat.ltb_spec pos (rsize r)); try lia; [reflexivity|].
  rewrite get_ok by lia. rewrite H by assumption. reflexivity.
Qed.

Lemma repr_eq d r o : repr d r -> m_eq d o = r_eq r o.
Proof.
  intros [L H]. apply eq_iff_eq_true. unfold m_eq, r_eq. rewrite veq_true_iff, andb_true_iff, forallb_forall.
  rewrite Nat.eqb_eq. split.
  - intros <-. split; [symmetry; exact L|]. intros i Hi. apply in_seq in Hi.
    rewrite <- H by lia. apply eqb_reflx.
  - intros [Ls Hb]. apply (nth_ext _ _ false false); [lia|]. intros i Hi.
    rewrite H by lia. apply eqb_prop. apply Hb. apply in_seq. lia.
Qed.

Lemma repr_obs_agree d r : repr d r -> obs_agree d r.
Proof.
  intros R. pose proof R as [L H]. unfold obs_agree. splits.
  - exact L.
  - intros pos. apply repr_test. exact R.
  - intros pos. apply (repr_test d r pos R).
  - rewrite (repr_map d r R). unfold m_count. rewrite vcount_map. reflexivity.
  - rewrite (repr_map d r R). rewrite m_any_existsb, existsb_map. reflexivity.
  - transitivity (negb (m_any d)); [unfold m_none, m_any; destruct (vfind true d); reflexivity|].
    unfold r_none, r_any. f_equal. rewrite (repr_map d r R). rewrite m_any_existsb, existsb_map. reflexivity.
  - rewrite (repr_map d r R). rewrite m_all_forallb, forallb_map. reflexivity.
  - unfold m_to_string, r_to_string. rewrite L. apply map_ext_in. intros k Hk. apply in_seq in Hk.
    apply H. lia.
  - unfold m_to_ulong, r_to_ulong. rewrite (repr_map d r R) at 1. rewrite to_ulong_loop_map.
    fold (positions r). rewrite N.add_0_l. reflexivity.
  - intros o. apply repr_eq. exact R.
  - rewrite iter_fwd_list, (repr_positions_from d r R). reflexivity.
  - rewrite iter_rev_list, (repr_positions_upto d r R). reflexivity.
  - rewrite iter_back_list, (repr_positions_upto d r R). reflexivity.
Qed.

(* ------------------------------------------------------------------ *)
(** * a stored bitset and its reference: one operation *)

Lemma grown_len_ref d r pos : length d = rsize r -> grown_len d pos = rsize (r_grow r pos).
Proof. intros L. unfold grown_len, r_grow. rewrite L. destruct (pos <? rsize r); reflexivity. Qed.

Lemma grow_bit r pos i : i < rsize (r_grow r pos) -> rbit (r_grow r pos) i = bit0 r i.
Proof.
  unfold r_grow. destruct (pos <? rsize r); cbn; [|reflexivity].
  intros Hi. unfold bit0. apply Nat.ltb_lt in Hi. rewrite Hi. reflexivity.
Qed.

Lemma repr_grow_upd d r pos v d' :
  repr d r -> length d' = grown_len d pos ->
  (forall j, nth j d' false = if j =? pos then v else nth j d false) ->
  repr d' (r_upd (r_grow r pos) pos v).
Proof.
  intros R L' H'. pose proof R as [L H]. split.
  - cbn. rewrite L'. apply grown_len_ref. exact L.
  - cbn. intros i Hi. rewrite H'. destruct (i =? pos); [reflexivity|].
    rewrite grow_bit by exact Hi. apply repr_bit0. exact R.
Qed.

Lemma repr_grow d r pos d' :
  repr d r -> length d' = grown_len d pos -> (forall j, nth j d' false = nth j d false) ->
  repr d' (r_grow r pos).
Proof.
  intros R L' H'. pose proof R as [L H]. split.
  - rewrite L'. apply grown_len_ref. exact L.
  - intros i Hi. rewrite H'. rewrite grow_bit by exact Hi. apply repr_bit0. exact R.
Qed.

Lemma repr_map_bits (f : bool -> bool) d r : repr d r -> repr (map f d) (r_map f r).
Proof.
  intros [L H]. split; cbn.
  - rewrite map_length. exact L.
  - intros i Hi. rewrite (nth_indep _ false (f false)) by (rewrite map_length; lia).
    rewrite map_nth. f_equal. apply H. exact Hi.
Qed.

Lemma of_list_repr l : repr l (of_list l).
Proof. split; cbn; auto. Qed.

Lemma firstn_nth_snoc {A} (l : list A) : forall idx dflt, idx < length l ->
  firstn (idx + 1) l = firstn idx l ++ [nth idx l dflt].
Proof.
  induction l as [|x l IH]; intros idx dflt Hi; cbn [length] in Hi; [lia|].
  destruct idx as [|idx]; cbn [Nat.add firstn nth app]; [reflexivity|].
  rewrite (IH idx dflt) by lia. reflexivity.
Qed.

(** copying every position of [o] into a vector of the same size gives [o], whatever the vector held *)
Lemma copy_loop_eq (o : bs) : forall n idx d,
  length d = length o -> idx + n = length o -> firstn idx d = firstn idx o ->
  for_up n idx (fun i d' => put d' i (nth i o false)) d = Ok o.
Proof.
  induction n as [|n IH]; intros idx d Hl Hn Hf; cbn [for_up].
  - assert (idx = length o) by lia. subst idx. rewrite <- Hl in Hf at 1. rewrite !firstn_all in Hf. congruence.
  - unfold put. assert (Hlt : idx < length d) by lia. apply Nat.ltb_lt in Hlt. rewrite Hlt. cbn [bind].
    apply Nat.ltb_lt in Hlt. apply IH.
    + rewrite app_length, firstn_length. cbn [length]. rewrite skipn_length. lia.
    + lia.
    + replace (S idx) with (idx + 1) by lia. rewrite firstn_app, firstn_firstn, firstn_length.
      replace (Nat.min (idx + 1) idx) with idx by lia. replace (idx + 1 - Nat.min idx (length d)) with 1 by lia.
      cbn [firstn]. rewrite Hf.
      rewrite (firstn_nth_snoc o idx false) by lia. reflexivity.
Qed.

Lemma m_assign_bitset_eq d o : m_assign_bitset d o = Ok o.
Proof.
  unfold m_assign_bitset. apply copy_loop_eq; [apply vresize_length|lia|reflexivity].
Qed.

Lemma m_ctor_bitset_eq o : m_ctor_bitset o = Ok o.
Proof.
  unfold m_ctor_bitset. apply copy_loop_eq; [apply repeat_length|lia|reflexivity].
Qed.

Definition step_agree (s : res (bs * outv)) (t : (rbv * outv) + err) : Prop :=
  match s, t with
  | Ok (d', v), inl (r', v') => v = v' /\ repr d' r'
  | Err e, inr e' => e = e'
  | _, _ => False
  end.

Lemma step_refines d r o : repr d r -> step_agree (step d o) (rstep r o).
Proof.
  intros R. pose proof R as [L H]. destruct o; cbn [step rstep].
  - (* test *) unfold obs. rewrite (repr_test d r pos R). unfold r_test.
    destruct (pos <? rsize r); cbn; auto.
  - (* const [] *) unfold obs. change (m_index_const d pos) with (m_test d pos).
    rewrite (repr_test d r pos R). unfold r_test. destruct (pos <? rsize r); cbn; auto.
  - (* non-const [] read *)
    destruct (m_index_read_pw d pos) as (d' & E & L' & H'). rewrite E. cbn.
    split.
    + f_equal. rewrite (repr_bit0 d r R). symmetry.
      destruct (grown_spec d pos) as (G1 & G2 & _). rewrite G1, (grown_len_ref d r pos L) in G2.
      apply grow_bit. exact G2.
    + apply (repr_grow d r pos d' R L' H').
  - (* non-const [] write *)
    destruct (m_index_write_pw d pos v) as (d' & E & L' & H'). unfold upd. rewrite E. cbn.
    split; [reflexivity|]. apply (repr_grow_upd d r pos v d' R L' H').
  - (* set(pos, v) *)
    destruct (m_set_pw d pos v) as (d' & E & L' & H'). unfold upd. rewrite E. cbn.
    split; [reflexivity|]. apply (repr_grow_upd d r pos v d' R L' H').
  - (* set() *) cbn. split; [reflexivity|]. apply (repr_map_bits (fun _ => true)). exact R.
  - (* reset(pos) *)
    destruct (m_reset_pw d pos) as (d' & E & L' & H'). unfold upd. rewrite E. cbn.
    split; [reflexivity|]. apply (repr_grow_upd d r pos false d' R L' H').
  - (* reset() *) cbn. split; [reflexivity|]. split; cbn; [reflexivity|]. intros i Hi. lia.
  - (* flip(pos) *)
    destruct (m_flip_pw d pos) as (d' & E & L' & H'). unfold upd. rewrite E. cbn.
    split; [reflexivity|].
    assert (Hb : nth pos d false = rbit (r_grow r pos) pos).
    { rewrite (repr_bit0 d r R). symmetry.
      destruct (grown_spec d pos) as (G1 & G2 & _). rewrite G1, (grown_len_ref d r pos L) in G2.
      apply grow_bit. exact G2. }
    rewrite <- Hb. apply (repr_grow_upd d r pos _ d' R L' H').
  - (* flip() *) cbn. split; [reflexivity|]. apply (repr_map_bits negb). exact R.
  - (* resize *)
    unfold step_agree. split; [reflexivity|]. split.
    + apply vresize_length.
    + unfold r_resize. cbn [rsize rbit]. intros i Hi. unfold m_resize. rewrite vresize_nth. rewrite L.
      apply Nat.ltb_lt in Hi. rewrite Hi. destruct (Nat.ltb_spec i (rsize r)); [apply H; assumption|reflexivity].
  - (* assign *) cbn. split; [reflexivity|]. apply of_list_repr.
  - (* = std::bitset<N> *) unfold upd. rewrite m_assign_bitset_eq. cbn. split; [reflexivity|]. apply of_list_repr.
  - (* DynamicBitset( std::bitset<N>) *) unfold upd. rewrite m_ctor_bitset_eq. cbn. split; [reflexivity|]. apply of_list_repr.
  - (* == *) cbn. split; [|exact R]. f_equal. apply repr_eq. exact R.
  - (* &= *)
    destruct (m_and_assign_pw d o) as (d' & E & L' & H'). unfold upd. rewrite E. cbn.
    split; [reflexivity|]. split; cbn; [lia|]. intros i Hi. rewrite H', H by exact Hi. reflexivity.
  - (* |= *)
    destruct (m_or_assign_pw d o) as (d' & E & L' & H'). unfold upd. rewrite E. cbn.
    split; [reflexivity|]. split; cbn; [lia|]. intros i Hi. rewrite H', L.
    apply Nat.ltb_lt in Hi. rewrite Hi. rewrite (repr_bit0 d r R). reflexivity.
  - (* ^= *)
    destruct (m_xor_assign_pw d o) as (d' & E & L' & H'). unfold upd. rewrite E. cbn.
    split; [reflexivity|]. split; cbn; [lia|]. intros i Hi. rewrite H', L.
    apply Nat.ltb_lt in Hi. rewrite Hi. rewrite (repr_bit0 d r R). reflexivity.
  - (* & *)
    unfold m_and. destruct (m_and_assign_pw d o) as (d' & E & L' & H'). unfold upd. rewrite E. cbn.
    split; [reflexivity|]. split; cbn; [lia|]. intros i Hi. rewrite H', H by exact Hi. reflexivity.
  - (* | *)
    unfold m_or. destruct (m_or_assign_pw d o) as (d' & E & L' & H'). unfold upd. rewrite E. cbn.
    split; [reflexivity|]. split; cbn; [lia|]. intros i Hi. rewrite H', L.
    apply Nat.ltb_lt in Hi. rewrite Hi. rewrite (repr_bit0 d r R). reflexivity.
  - (* ^ *)
    unfold m_xor. destruct (m_xor_assign_pw d o) as (d' & E & L' & H'). unfold upd. rewrite E. cbn.
    split; [reflexivity|]. split; cbn; [lia|]. intros i Hi. rewrite H', L.
    apply Nat.ltb_lt in Hi. rewrite Hi. rewrite (repr_bit0 d r R). reflexivity.
  - (* ~ *) cbn. split; [reflexivity|]. apply (repr_map_bits negb). exact R.
  - (* <<= *)
    rewrite shl_assign_eq_shl. unfold r_shl. rewrite <- L. fold (shift_noop d n).
    destruct (shift_noop d n) eqn:G.
    + unfold m_shl. fold (shift_noop d n). rewrite G. cbn. auto.
    + destruct (m_shl_pw d n G) as (d' & E & L' & H'). unfold upd. rewrite E. cbn [bind step_agree].
      split; [reflexivity|]. split; cbn [rsize rbit]; [lia|]. intros i Hi. rewrite H'.
      destruct (Nat.ltb_spec i n); [reflexivity|]. apply H. lia.
  - (* << *)
    unfold r_shl. rewrite <- L. fold (shift_noop d n).
    destruct (shift_noop d n) eqn:G.
    + unfold m_shl. fold (shift_noop d n). rewrite G. cbn. auto.
    + destruct (m_shl_pw d n G) as (d' & E & L' & H'). unfold upd. rewrite E. cbn [bind step_agree].
      split; [reflexivity|]. split; cbn [rsize rbit]; [lia|]. intros i Hi. rewrite H'.
      destruct (Nat.ltb_spec i n); [reflexivity|]. apply H. lia.
  - (* >>= *)
    rewrite shr_assign_eq_shr. unfold r_shr. rewrite <- L. fold (shift_noop d n).
    destruct (shift_noop d n) eqn:G.
    + unfold m_shr. fold (shift_noop d n). rewrite G. cbn. auto.
    + destruct (m_shr_pw d n G) as (d' & E & L' & H'). unfold upd. rewrite E. cbn.
      split; [reflexivity|]. split; cbn; [lia|]. intros i Hi. rewrite H'. apply repr_bit0. exact R.
  - (* >> *)
    unfold r_shr. rewrite <- L. fold (shift_noop d n).
    destruct (shift_noop d n) eqn:G.
    + unfold m_shr. fold (shift_noop d n). rewrite G. cbn. auto.
    + destruct (m_shr_pw d n G) as (d' & E & L' & H'). unfold upd. rewrite E. cbn.
      split; [reflexivity|]. split; cbn; [lia|]. intros i Hi. rewrite H'. apply repr_bit0. exact R.
Qed.

(* ------------------------------------------------------------------ *)
(** * histories *)

Lemma run_refines : forall ops d r, repr d r ->
  Forall2 sout_agree (fst (run d ops)) (fst (rrun r ops)) /\
  repr (snd (run d ops)) (snd (rrun r ops)).
Proof.
  induction ops as [|o ops IH]; intros d r R; cbn [run rrun].
  - cbn. auto.
  - pose proof (step_refines d r o R) as S. unfold step_agree in S.
    destruct (step d o) as [[d' v]|e|f]; destruct (rstep r o) as [[r' v']|e']; try contradiction.
    + destruct S as [-> R']. specialize (IH d' r' R').
      destruct (run d' ops) as [outs df]. destruct (rrun r' ops) as [routs rf]. cbn [fst snd] in *.
      destruct IH as [IH1 IH2]. split; [|exact IH2]. constructor; [|exact IH1].
      cbn. splits; auto. apply repr_obs_agree. exact R'.
    + subst e'. specialize (IH d r R).
      destruct (run d ops) as [outs df]. destruct (rrun r ops) as [routs rf]. cbn [fst snd] in *.
      destruct IH as [IH1 IH2]. split; [|exact IH2]. constructor; [|exact IH1].
      cbn. splits; auto. apply repr_obs_agree. exact R.
Qed.

Lemma run_spec ops d r outs d' :
  repr d r -> run d ops = (outs, d') ->
  exists routs r', rrun r ops = (routs, r') /\
    Forall2 sout_agree outs routs /\ repr d' r' /\ obs_agree d' r' /\
    length outs = length ops /\ (forall f, ~ In (SFault f) outs).
Proof.
  intros R E. destruct (run_refines ops d r R) as [F R']. rewrite E in F, R'. cbn [fst snd] in *.
  destruct (rrun r ops) as [routs rf] eqn:E2. cbn [fst snd] in *.
  exists routs, rf. splits; auto.
  - apply repr_obs_agree. exact R'.
  - assert (length routs = length ops).
    { clear -E2. revert r routs rf E2. induction ops as [|o ops IH]; intros r routs rf E2; cbn in E2.
      - inversion E2. reflexivity.
      - destruct (rstep r o) as [[r' v]|e].
        + destruct (rrun r' ops) eqn:E3. inversion E2; subst. cbn. f_equal. eapply IH. exact E3.
        + destruct (rrun r ops) eqn:E3. inversion E2; subst. cbn. f_equal. eapply IH. exact E3. }
    assert (length outs = length routs) as -> by (clear -F; induction F; cbn; congruence).
    assumption.
  - intros f Hin. clear -F Hin. induction F as [|x y l l' Hxy F IH]; [contradiction|].
    destruct Hin as [->|Hin]; [|auto]. cbn in Hxy. destruct y; contradiction.
Qed.

(** the same from construction: every vector<bool> has a reference, so does DynamicBitset(n) *)
Lemma ctor_repr n : repr (m_ctor n) {| rsize := n; rbit := fun _ => false |}.
Proof. split; cbn; [apply m_ctor_length|]. intros i _. apply m_ctor_nth. Qed.

(* ------------------------------------------------------------------ *)
(** * growth, refusal *)

Lemma grown_len_gt d pos : pos < grown_len d pos /\ length d <= grown_len d pos.
Proof.
  unfold grown_len. pose proof (grow_size_gt pos). destruct (Nat.ltb_spec pos (length d)); lia.
Qed.

Lemma grow_never_faults d pos v :
  (exists d', m_set d pos v = Ok d' /\ pos < length d' /\ length d <= length d' /\ nth pos d' false = v) /\
  (exists d', m_reset d pos = Ok d' /\ pos < length d' /\ length d <= length d' /\ nth pos d' false = false) /\
  (exists d', m_flip d pos = Ok d' /\ pos < length d' /\ length d <= length d' /\
              nth pos d' false = negb (nth pos d false)) /\
  (exists d', m_index_write d pos v = Ok d' /\ pos < length d' /\ length d <= length d' /\ nth pos d' false = v) /\
  (exists d', m_index_read d pos = Ok (d', nth pos d false) /\ pos < length d' /\ length d <= length d').
Proof.
  destruct (grown_len_gt d pos) as [G1 G2]. splits.
  - destruct (m_set_pw d pos v) as (d' & E & L & H). exists d'. splits; auto; try lia.
    rewrite H, Nat.eqb_refl. reflexivity.
  - destruct (m_reset_pw d pos) as (d' & E & L & H). exists d'. splits; auto; try lia.
    rewrite H, Nat.eqb_refl. reflexivity.
  - destruct (m_flip_pw d pos) as (d' & E & L & H). exists d'. splits; auto; try lia.
    rewrite H, Nat.eqb_refl. reflexivity.
  - destruct (m_index_write_pw d pos v) as (d' & E & L & H). exists d'. splits; auto; try lia.
    rewrite H, Nat.eqb_refl. reflexivity.
  - destruct (m_index_read_pw d pos) as (d' & E & L & H). exists d'. splits; auto; lia.
Qed.

(** positions that were there keep their bit when the bitset grows *)
Lemma grow_keeps_bits d pos v d' j :
  m_set d pos v = Ok d' -> j <> pos -> nth j d' false = nth j d false.
Proof.
  intros E N. destruct (m_set_pw d pos v) as (d1 & E1 & _ & H). rewrite E in E1. inversion E1; subst.
  rewrite H. apply Nat.eqb_neq in N. rewrite N. reflexivity.
Qed.

Lemma readonly_access d pos :
  (length d <= pos -> m_test d pos = Err EOutOfRange /\ m_index_const d pos = Err EOutOfRange) /\
  (pos < length d -> m_test d pos = Ok (nth pos d false) /\ m_index_const d pos = Ok (nth pos d false)).
Proof.
  unfold m_test, m_index_const. split; intros H.
  - apply Nat.leb_le in H. rewrite H. auto.
  - rewrite get_ok by exact H. apply Nat.leb_gt in H. rewrite H. auto.
Qed.

(** the pinned guards: position = size is written / read without growing *)
Lemma pinned_guard_faults d :
  m_reset_pinned d (length d) = Fault OOBWrite /\
  m_flip_pinned d (length d) = Fault OOBRead /\
  (forall v, m_index_write_pinned d (length d) v = Fault OOBWrite) /\
  m_index_read_pinned d (length d) = Fault OOBRead /\
  m_index_const_pinned d (length d) = Fault OOBRead.
Proof.
  unfold m_reset_pinned, m_flip_pinned, m_index_write_pinned, m_index_read_pinned,
    m_index_ref_pinned, m_index_const_pinned.
  rewrite Nat.ltb_irrefl. rewrite (put_oob d (length d)) by lia. rewrite (get_oob d (length d)) by lia.
  splits; auto. intros v. apply put_oob. lia.
Qed.

(* ------------------------------------------------------------------ *)
(** * statements in the form used by Properties_C12.v *)

Lemma filter_none {A} (f : A -> bool) l : (forall x, In x l -> f x = false) -> filter f l = [].
Proof.
  induction l as [|a l IH]; intros H; cbn; [reflexivity|].
  rewrite (H a (or_introl eq_refl)). apply IH. intros x Hx. apply H. right. exact Hx.
Qed.

Lemma positions_all_zero r : (forall i, i < rsize r -> rbit r i = false) -> positions r = [].
Proof. intros H. apply filter_none. intros x Hx. apply in_seq in Hx. apply H. lia. Qed.

Lemma positions_sound r i : In i (positions r) <-> i < rsize r /\ rbit r i = true.
Proof. unfold positions. rewrite filter_In, in_seq. intuition lia. Qed.

Lemma compound_eq_binary d o n :
  (m_and_assign d o = m_and d o /\ exists d', m_and d o = Ok d') /\
  (m_or_assign d o = m_or d o /\ exists d', m_or d o = Ok d') /\
  (m_xor_assign d o = m_xor d o /\ exists d', m_xor d o = Ok d') /\
  (m_shl_assign d n = m_shl d n /\ exists d', m_shl d n = Ok d') /\
  (m_shr_assign d n = m_shr d n /\ exists d', m_shr d n = Ok d').
Proof.
  splits; try reflexivity.
  - destruct (m_and_assign_pw d o) as (d' & E & _). eauto.
  - destruct (m_or_assign_pw d o) as (d' & E & _). eauto.
  - destruct (m_xor_assign_pw d o) as (d' & E & _). eauto.
  - apply shl_assign_eq_shl.
  - apply m_shl_total.
  - apply shr_assign_eq_shr.
  - apply m_shr_total.
Qed.

Lemma iteration_spec d r : repr d r ->
  iter_fwd d = Ok (map Z.of_nat (positions r)) /\
  iter_rev d = Ok (map Z.of_nat (rev (positions r))) /\
  iter_back d = Ok (map Z.of_nat (rev (positions r))).
Proof. intros R. destruct (repr_obs_agree d r R) as (_&_&_&_&_&_&_&_&_&_&A&B&C). auto. Qed.

Lemma iteration_nothing d :
  (forall i, nth i d false = false) -> iter_fwd d = Ok [] /\ iter_rev d = Ok [] /\ iter_back d = Ok [].
Proof.
  intros H. destruct (iteration_spec d (of_list d) (of_list_repr d)) as (A & B & C).
  rewrite (positions_all_zero (of_list d)) in A, B, C by (intros i _; apply H). auto.
Qed.

(** to_ulong never wraps: the value it returns is below 2^64 *)
Definition below (b : nat) (l : list nat) : list nat := filter (fun i => i <? b) l.
Definition has (b : nat) (l : list nat) : bool := existsb (fun i => i =? b) l.

Lemma pow2sum_split b : forall l, NoDup l -> (forall i, In i l -> i < S b) ->
  pow2sum l = (pow2sum (below b l) + (if has b l then 2 ^ N.of_nat b else 0))%N.
Proof.
  induction l as [|a l IHl]; intros ND Hl; [reflexivity|]. inversion ND as [|? ? Hn ND']; subst.
  unfold below, has. cbn [pow2sum fold_right filter existsb]. fold (pow2sum l). fold (below b l). fold (has b l).
  rewrite IHl by (auto; intros i Hi; apply Hl; right; exact Hi).
  assert (Ha : a < S b) by (apply Hl; left; reflexivity).
  destruct (Nat.ltb_spec a b); destruct (Nat.eqb_spec a b); try lia; cbn [orb].
  - cbn [pow2sum fold_right]. fold (pow2sum (below b l)). lia.
  - subst a. assert (has b l = false) as ->.
    { apply not_true_is_false. intros C. apply existsb_exists in C. destruct C as (x & Hx & Ex).
      apply Nat.eqb_eq in Ex. subst x. contradiction. }
    rewrite N.shiftl_1_l. fold (pow2sum (below b l)). lia.
Qed.

Lemma pow2sum_bound : forall b l, (forall i, In i l -> i < b) -> NoDup l -> (pow2sum l < 2 ^ N.of_nat b)%N.
Proof.
  induction b as [|b IH]; intros l Hl ND.
  - destruct l as [|a l]; [cbn; lia|]. specialize (Hl a (or_introl eq_refl)). lia.
  - rewrite (pow2sum_split b l ND Hl).
    assert (B : (pow2sum (below b l) < 2 ^ N.of_nat b)%N).
    { apply IH.
      - intros i Hi. apply filter_In in Hi. destruct Hi as [_ Hi]. apply Nat.ltb_lt in Hi. exact Hi.
      - apply NoDup_filter. exact ND. }
    replace (N.of_nat (S b)) with (N.succ (N.of_nat b)) by lia. rewrite N.pow_succ_r'.
    destruct (has b l); lia.
Qed.

Lemma to_ulong_bound d n : m_to_ulong d = Ok n -> (n < 2 ^ 64)%N.
Proof.
  intros E. destruct (repr_obs_agree d (of_list d) (of_list_repr d)) as (_&_&_&_&_&_&_&_&U&_).
  rewrite U in E. unfold r_to_ulong in E.
  destruct (existsb (fun i => 64 <=? i) (positions (of_list d))) eqn:X; [discriminate|].
  inversion E; subst. change 64%N with (N.of_nat 64). apply pow2sum_bound.
  - intros i Hi. destruct (Nat.lt_ge_cases i 64) as [|Hge]; [assumption|].
    assert (existsb (fun i => 64 <=? i) (positions (of_list d)) = true).
    { apply existsb_exists. exists i. split; [exact Hi|]. apply Nat.leb_le. exact Hge. }
    congruence.
  - unfold positions. apply NoDup_filter. apply seq_NoDup.
Qed.
