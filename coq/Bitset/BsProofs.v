(** Proofs for C12: basic facts about the storage primitives and loops,
    pointwise characterisation of every member, refinement of the reference
    bit vector, iterators. *)
From Coq Require Import List Arith NArith ZArith Bool Lia.
Import ListNotations.
Require Import Celma.Common.Res Celma.Common.Tactics Celma.Bitset.BsModel Celma.Bitset.BsSpec.

(* ------------------------------------------------------------------ *)
(** * storage primitives *)

Lemma get_ok d i : i < length d -> get d i = Ok (nth i d false).
Proof.
  intros H. unfold get. destruct (nth_error d i) eqn:E.
  - rewrite (nth_error_nth _ _ _ E). reflexivity.
  - apply nth_error_None in E. lia.
Qed.

Lemma get_oob d i : length d <= i -> get d i = Fault OOBRead.
Proof. intros H. unfold get. apply nth_error_None in H. rewrite H. reflexivity. Qed.

Lemma put_ok d i v : i < length d -> put d i v = Ok (firstn i d ++ v :: skipn (S i) d).
Proof. intros H. unfold put. apply Nat.ltb_lt in H. rewrite H. reflexivity. Qed.

Lemma put_oob d i v : length d <= i -> put d i v = Fault OOBWrite.
Proof. intros H. unfold put. apply Nat.ltb_ge in H. rewrite H. reflexivity. Qed.

Lemma upd_length (d : bs) i v : i < length d -> length (firstn i d ++ v :: skipn (S i) d) = length d.
Proof. intros H. rewrite app_length, firstn_length. cbn [length]. rewrite skipn_length. lia. Qed.

Lemma upd_nth (d : bs) i v j : i < length d ->
  nth j (firstn i d ++ v :: skipn (S i) d) false = if j =? i then v else nth j d false.
Proof.
  intros H. destruct (Nat.eqb_spec j i) as [->|N].
  - rewrite app_nth2; rewrite firstn_length; [|lia].
    replace (i - Nat.min i (length d)) with 0 by lia. reflexivity.
  - destruct (Nat.lt_ge_cases j i).
    + rewrite app_nth1 by (rewrite firstn_length; lia).
      rewrite <- (firstn_skipn i d) at 2. rewrite app_nth1 by (rewrite firstn_length; lia). reflexivity.
    + rewrite app_nth2 by (rewrite firstn_length; lia). rewrite firstn_length.
      replace (j - Nat.min i (length d)) with (S (j - S i)) by lia. cbn [nth].
      rewrite <- (firstn_skipn (S i) d) at 2. rewrite app_nth2 by (rewrite firstn_length; lia).
      rewrite firstn_length. f_equal. lia.
Qed.

(** [put] in one statement: length kept, one position changed *)
Lemma put_spec d i v : i < length d ->
  exists d', put d i v = Ok d' /\ length d' = length d /\
             forall j, nth j d' false = if j =? i then v else nth j d false.
Proof.
  intros H. eexists. split; [apply put_ok; exact H|]. split.
  - apply upd_length; exact H.
  - intros j. apply upd_nth; exact H.
Qed.

Lemma vresize_length d c v : length (vresize d c v) = c.
Proof.
  unfold vresize. destruct (Nat.leb_spec c (length d)).
  - rewrite firstn_length. lia.
  - rewrite app_length, repeat_length. lia.
Qed.

Lemma nth_repeat_false n j : nth j (repeat false n) false = false.
Proof. revert j. induction n; intros [|j]; cbn; auto. Qed.

Lemma nth_repeat' (v : bool) n j : j < n -> nth j (repeat v n) false = v.
Proof. revert j. induction n; intros [|j] H; cbn; try lia; auto. apply IHn. lia. Qed.

Lemma vresize_nth d c v j :
  nth j (vresize d c v) false =
  if j <? c then (if j <? length d then nth j d false else v) else false.
Proof.
  unfold vresize. destruct (Nat.leb_spec c (length d)).
  - destruct (Nat.ltb_spec j c).
    + assert (j <? length d = true) as -> by (apply Nat.ltb_lt; lia).
      rewrite <- (firstn_skipn c d) at 2. rewrite app_nth1; [reflexivity|]. rewrite firstn_length. lia.
    + apply nth_overflow. rewrite firstn_length. lia.
  - destruct (Nat.ltb_spec j c).
    + destruct (Nat.ltb_spec j (length d)).
      * apply app_nth1. lia.
      * rewrite app_nth2 by lia. apply nth_repeat'. lia.
    + apply nth_overflow. rewrite app_length, repeat_length. lia.
Qed.

Lemma m_ctor_length n : length (m_ctor n) = n.
Proof. unfold m_ctor. destruct (Nat.ltb_spec 0 n); [apply vresize_length|cbn; lia]. Qed.

Lemma m_ctor_nth n j : nth j (m_ctor n) false = false.
Proof.
  unfold m_ctor. destruct (Nat.ltb_spec 0 n).
  - rewrite vresize_nth. cbn [length]. destruct (j <? n); [|reflexivity].
    destruct (j <? 0) eqn:E; [apply Nat.ltb_lt in E; lia|reflexivity].
  - destruct j; reflexivity.
Qed.

(** two bit lists with the same length and the same bits are equal *)
Lemma bs_ext (a b : bs) : length a = length b -> (forall j, nth j a false = nth j b false) -> a = b.
Proof. intros L H. apply (nth_ext a b false false L). intros; apply H. Qed.

(* ------------------------------------------------------------------ *)
(** * loops *)

Lemma for_up_inv (P : nat -> bs -> Prop) f n : forall start d,
  P start d ->
  (forall k dk, start <= k < start + n -> P k dk -> exists dk', f k dk = Ok dk' /\ P (S k) dk') ->
  exists d', for_up n start f d = Ok d' /\ P (start + n) d'.
Proof.
  induction n as [|n IH]; intros start d H0 Hs.
  - exists d. rewrite Nat.add_0_r. split; [reflexivity|exact H0].
  - cbn [for_up]. destruct (Hs start d ltac:(lia) H0) as (d1 & E1 & P1). rewrite E1. cbn [bind].
    destruct (IH (S start) d1 P1) as (d' & E' & P').
    + intros k dk Hk. apply Hs. lia.
    + exists d'. split; [exact E'|]. replace (start + S n) with (S start + n) by lia. exact P'.
Qed.

(** [Q j] holds after [j] iterations; iteration [j] runs with index [idx - j] *)
Lemma for_down_inv (Q : nat -> bs -> Prop) f n : forall idx d j0,
  Q j0 d ->
  (forall j dj, j0 <= j < j0 + n -> Q j dj -> exists dj', f (idx + j0 - j) dj = Ok dj' /\ Q (S j) dj') ->
  exists d', for_down n idx f d = Ok d' /\ Q (j0 + n) d'.
Proof.
  induction n as [|n IH]; intros idx d j0 H0 Hs.
  - exists d. rewrite Nat.add_0_r. split; [reflexivity|exact H0].
  - cbn [for_down]. destruct (Hs j0 d ltac:(lia) H0) as (d1 & E1 & P1).
    replace (idx + j0 - j0) with idx in E1 by lia. rewrite E1. cbn [bind].
    destruct (IH (idx - 1) d1 (S j0) P1) as (d' & E' & P').
    + intros j dj Hj Qj. destruct (Hs j dj ltac:(lia) Qj) as (dj' & Ej & Qj').
      exists dj'. split; [|exact Qj'].
      (* idx - 1 + S j0 - j = idx + j0 - j needs idx >= 1 or j > j0 + idx ... *)
      destruct idx as [|idx'].
      * replace (0 - 1 + S j0 - j) with (0 + j0 - j) by lia. exact Ej.
      * replace (S idx' - 1 + S j0 - j) with (S idx' + j0 - j) by lia. exact Ej.
    + exists d'. split; [exact E'|]. replace (j0 + S n) with (S j0 + n) by lia. exact P'.
Qed.
