(** Specification side of C12: the reference bit vector.

    A reference bit vector is a size together with a total function from
    positions to bits; only the positions below the size matter.  Every
    operation of the bitset is restated on it directly (no loops, no guards, no
    storage), growth included.  The reference knows exceptions (the documented
    out_of_range / overflow_error) but has no notion of a memory fault. *)
From Coq Require Import List Arith NArith ZArith Bool.
Import ListNotations.
Require Import Celma.Common.Res Celma.Bitset.BsModel.

Record rbv := { rsize : nat; rbit : nat -> bool }.

(** [d] stores exactly the reference vector [r] *)
Definition repr (d : bs) (r : rbv) : Prop :=
  length d = rsize r /\ forall i, i < rsize r -> nth i d false = rbit r i.

Definition of_list (l : list bool) : rbv := {| rsize := length l; rbit := fun i => nth i l false |}.

(** bit [i] of [r], false beyond the size *)
Definition bit0 (r : rbv) (i : nat) : bool := if i <? rsize r then rbit r i else false.

(* ------------------------------------------------------------------ *)
(** * observers *)

(** ascending list of the set positions *)
Definition positions (r : rbv) : list nat := filter (rbit r) (seq 0 (rsize r)).

Definition r_test (r : rbv) (pos : nat) : res bool :=
  if pos <? rsize r then Ok (rbit r pos) else Err EOutOfRange.
Definition r_count (r : rbv) : nat := length (positions r).
Definition r_any (r : rbv) : bool := existsb (rbit r) (seq 0 (rsize r)).
Definition r_none (r : rbv) : bool := negb (r_any r).
Definition r_all (r : rbv) : bool := forallb (rbit r) (seq 0 (rsize r)).
(** character k of to_string shows position size-1-k *)
Definition r_to_string (r : rbv) : list bool :=
  map (fun k => rbit r (rsize r - k - 1)) (seq 0 (rsize r)).
Definition pow2sum (l : list nat) : N :=
  fold_right (fun i s => (N.shiftl 1 (N.of_nat i) + s)%N) 0%N l.
Definition r_to_ulong (r : rbv) : res N :=
  if existsb (fun i => 64 <=? i) (positions r) then Err EOverflow else Ok (pow2sum (positions r)).
Definition r_eq (r : rbv) (o : list bool) : bool :=
  (rsize r =? length o) && forallb (fun i => Bool.eqb (rbit r i) (nth i o false)) (seq 0 (rsize r)).

(* ------------------------------------------------------------------ *)
(** * operations *)

(** make position [pos] addressable: sizes >= pos + 1 are left alone, smaller
    ones grow to [grow_size pos] with the new bits clear *)
Definition r_grow (r : rbv) (pos : nat) : rbv :=
  if pos <? rsize r then r else {| rsize := grow_size pos; rbit := bit0 r |}.

Definition r_upd (r : rbv) (pos : nat) (v : bool) : rbv :=
  {| rsize := rsize r; rbit := fun i => if i =? pos then v else rbit r i |}.

Definition r_map (f : bool -> bool) (r : rbv) : rbv :=
  {| rsize := rsize r; rbit := fun i => f (rbit r i) |}.

Definition r_resize (r : rbv) (count : nat) (init : bool) : rbv :=
  {| rsize := count; rbit := fun i => if i <? rsize r then rbit r i else init |}.

(** and keeps the size of the left operand; missing bits of the operand are 0 *)
Definition r_and (r : rbv) (o : list bool) : rbv :=
  {| rsize := rsize r; rbit := fun i => rbit r i && nth i o false |}.
(** or / xor widen to the larger size *)
Definition r_or (r : rbv) (o : list bool) : rbv :=
  {| rsize := Nat.max (rsize r) (length o); rbit := fun i => bit0 r i || nth i o false |}.
Definition r_xor (r : rbv) (o : list bool) : rbv :=
  {| rsize := Nat.max (rsize r) (length o); rbit := fun i => xorb (bit0 r i) (nth i o false) |}.

(** left shift widens by the distance (nothing is shifted out), except that a
    distance of 0 and an empty bitset are left alone *)
Definition r_shl (r : rbv) (n : nat) : rbv :=
  if (n =? 0) || (rsize r =? 0) then r
  else {| rsize := rsize r + n; rbit := fun i => if i <? n then false else rbit r (i - n) |}.
(** right shift keeps the size, zeros come in from the top *)
Definition r_shr (r : rbv) (n : nat) : rbv :=
  if (n =? 0) || (rsize r =? 0) then r
  else {| rsize := rsize r; rbit := fun i => bit0 r (i + n) |}.

Definition rstep (r : rbv) (o : op) : (rbv * outv) + err :=
  match o with
  | OTest pos | OIdx pos =>
      if pos <? rsize r then inl (r, VBool (rbit r pos)) else inr EOutOfRange
  | ORef pos => let r1 := r_grow r pos in inl (r1, VBool (rbit r1 pos))
  | OPut pos v | OSet pos v => inl (r_upd (r_grow r pos) pos v, VNone)
  | OSetAll => inl (r_map (fun _ => true) r, VNone)
  | OReset pos => inl (r_upd (r_grow r pos) pos false, VNone)
  | OResetAll => inl ({| rsize := 0; rbit := fun _ => false |}, VNone)
  | OFlip pos => let r1 := r_grow r pos in inl (r_upd r1 pos (negb (rbit r1 pos)), VNone)
  | OFlipAll | ONot => inl (r_map negb r, VNone)
  | OResize c i => inl (r_resize r c i, VNone)
  | OAssign o | OAssignBs o | OCtorBs o => inl (of_list o, VNone)
  | OEq o => inl (r, VBool (r_eq r o))
  | OAndA o | OAnd o => inl (r_and r o, VNone)
  | OOrA o | OOr o => inl (r_or r o, VNone)
  | OXorA o | OXor o => inl (r_xor r o, VNone)
  | OShlA n | OShl n => inl (r_shl r n, VNone)
  | OShrA n | OShr n => inl (r_shr r n, VNone)
  end.

Inductive rout := ROk (v : outv) (r : rbv) | RErr (e : err) (r : rbv).

Fixpoint rrun (r : rbv) (ops : list op) : list rout * rbv :=
  match ops with
  | [] => ([], r)
  | o :: ops' =>
      match rstep r o with
      | inl (r', v) => let '(outs, rf) := rrun r' ops' in (ROk v r' :: outs, rf)
      | inr e => let '(outs, rf) := rrun r ops' in (RErr e r :: outs, rf)
      end
  end.

(* ------------------------------------------------------------------ *)
(** * what "the observers agree" means for a stored bitset and a reference *)

Definition obs_agree (d : bs) (r : rbv) : Prop :=
  m_size d = rsize r /\
  (forall pos, m_test d pos = r_test r pos) /\
  (forall pos, m_index_const d pos = r_test r pos) /\
  m_count d = r_count r /\
  m_any d = r_any r /\ m_none d = r_none r /\ m_all d = r_all r /\
  m_to_string d = r_to_string r /\
  m_to_ulong d = r_to_ulong r /\
  (forall o, m_eq d o = r_eq r o) /\
  iter_fwd d = Ok (map Z.of_nat (positions r)) /\
  iter_rev d = Ok (map Z.of_nat (rev (positions r))) /\
  iter_back d = Ok (map Z.of_nat (rev (positions r))).

(** one step of the implementation model against one step of the reference *)
Definition sout_agree (s : sout) (ro : rout) : Prop :=
  match s, ro with
  | SOk v d, ROk v' r => v = v' /\ repr d r /\ obs_agree d r
  | SErr e d, RErr e' r => e = e' /\ repr d r /\ obs_agree d r
  | _, _ => False
  end.
