(** Executable model of celma::container::DynamicBitset
    (src/library/container/dynamic_bitset.cpp, src/celma/container/dynamic_bitset.hpp)
    and of its iterators (src/celma/container/detail/dynamic_bitset_iterator.hpp),
    mirrored member by member.  No proofs in this file.

    - the storage [mData] (std::vector<bool>) is a [list bool], index = position,
      [length] = size()
    - every [mData[i]] goes through the checked primitives [get]/[put]: an index
      outside [0,size) is [Fault] (undefined behaviour of vector<bool>::operator[])
    - C++ exceptions are [Err] (out_of_range, overflow_error)
    - [(pos + 1) * 1.5] is computed in double and truncated; it is exact for
      pos + 1 < 2^52 and equals (pos+1) + (pos+1)/2 there ([grow_size])
    - index loops of the source are [for_up]/[for_down] with the same bounds
    - the iterator position [mCurrPos] (ssize_t) is a [Z]; [static_cast<size_t>]
      of a negative position is larger than every size, see [ult_size]
    - the model mirrors the tree with fixes/C12-*.patch applied; the three
      members that were changed are kept in their pinned form with the suffix
      [_pinned]. *)
From Coq Require Import List Arith NArith ZArith Bool.
Import ListNotations.
Require Import Celma.Common.Res.

Definition bs := list bool.

(* ------------------------------------------------------------------ *)
(** * checked storage primitives *)

Definition get (d : bs) (i : nat) : res bool :=
  match nth_error d i with Some v => Ok v | None => Fault OOBRead end.

Definition put (d : bs) (i : nat) (v : bool) : res bs :=
  if i <? length d then Ok (firstn i d ++ v :: skipn (S i) d) else Fault OOBWrite.

(** std::vector<bool>::resize(count, init) *)
Definition vresize (d : bs) (count : nat) (init : bool) : bs :=
  if count <=? length d then firstn count d else d ++ repeat init (count - length d).

(** static_cast<size_t>((pos + 1) * 1.5) *)
Definition grow_size (pos : nat) : nat := (pos + 1) + (pos + 1) / 2.

(** for (idx = start, n times; ++idx) body *)
Fixpoint for_up (n : nat) (idx : nat) (f : nat -> bs -> res bs) (d : bs) : res bs :=
  match n with
  | 0 => Ok d
  | S n' => do d' <- f idx d; for_up n' (S idx) f d'
  end.

(** for (idx = start, n times; --idx) body *)
Fixpoint for_down (n : nat) (idx : nat) (f : nat -> bs -> res bs) (d : bs) : res bs :=
  match n with
  | 0 => Ok d
  | S n' => do d' <- f idx d; for_down n' (idx - 1) f d'
  end.

(** std::find(begin, end, v): index of the first element equal to v *)
Fixpoint vfind (v : bool) (d : bs) : option nat :=
  match d with
  | [] => None
  | b :: r => if Bool.eqb b v then Some 0 else option_map S (vfind v r)
  end.

(** std::count(begin, end, true) *)
Fixpoint vcount (d : bs) : nat :=
  match d with
  | [] => 0
  | b :: r => (if b then 1 else 0) + vcount r
  end.

(** operator== of std::vector<bool> *)
Fixpoint veq (a b : bs) : bool :=
  match a, b with
  | [], [] => true
  | x :: a', y :: b' => Bool.eqb x y && veq a' b'
  | _, _ => false
  end.

(* ------------------------------------------------------------------ *)
(** * DynamicBitset members *)

(** DynamicBitset(num_bits) *)
Definition m_ctor (n : nat) : bs := if 0 <? n then vresize [] n false else [].

(** test(pos) const *)
Definition m_test (d : bs) (pos : nat) : res bool :=
  if length d <=? pos then Err EOutOfRange else get d pos.

Definition m_all (d : bs) : bool := match vfind false d with None => true | Some _ => false end.
Definition m_any (d : bs) : bool := match vfind true d with None => false | Some _ => true end.
Definition m_none (d : bs) : bool := match vfind true d with None => true | Some _ => false end.
Definition m_count (d : bs) : nat := vcount d.
Definition m_size (d : bs) : nat := length d.
Definition m_resize (d : bs) (count : nat) (init : bool) : bs := vresize d count init.

(** set(): for (auto flag : mData) flag = true;  (flag is a proxy reference) *)
Definition m_set_all (d : bs) : bs := map (fun _ => true) d.

(** set(pos, value) *)
Definition m_set (d : bs) (pos : nat) (v : bool) : res bs :=
  let d1 := if length d <=? pos then vresize d (grow_size pos) false else d in
  put d1 pos v.

(** reset(): mData.clear() *)
Definition m_reset_all (d : bs) : bs := [].

(** reset(pos), after fixes/C12-3: guard pos >= size *)
Definition m_reset (d : bs) (pos : nat) : res bs :=
  let d1 := if length d <=? pos then vresize d (grow_size pos) false else d in
  put d1 pos false.

(** reset(pos) of the pinned tree: guard pos > size *)
Definition m_reset_pinned (d : bs) (pos : nat) : res bs :=
  let d1 := if length d <? pos then vresize d (grow_size pos) false else d in
  put d1 pos false.

(** flip(): mData.flip() *)
Definition m_flip_all (d : bs) : bs := map negb d.

(** flip(pos), after fixes/C12-3 *)
Definition m_flip (d : bs) (pos : nat) : res bs :=
  let d1 := if length d <=? pos then vresize d (grow_size pos) false else d in
  do v <- get d1 pos; put d1 pos (negb v).

Definition m_flip_pinned (d : bs) (pos : nat) : res bs :=
  let d1 := if length d <? pos then vresize d (grow_size pos) false else d in
  do v <- get d1 pos; put d1 pos (negb v).

(** to_ulong(): for idx < size: if (mData[idx]) { if (idx >= 64) throw; result += 1L << idx; } *)
Fixpoint to_ulong_loop (d : bs) (idx : nat) (acc : N) : res N :=
  match d with
  | [] => Ok acc
  | b :: r =>
      if b then
        if 64 <=? idx then Err EOverflow
        else to_ulong_loop r (S idx) (acc + N.shiftl 1 (N.of_nat idx))
      else to_ulong_loop r (S idx) acc
  end.
Definition m_to_ulong (d : bs) : res N := to_ulong_loop d 0 0%N.

(** to_string(): result[size - idx - 1] = one for every set idx; true = '1' *)
Definition m_to_string (d : bs) : list bool :=
  let n := length d in
  map (fun k => nth (n - k - 1) d false) (seq 0 n).

(** operator=(const std::vector<bool>&) *)
Definition m_assign (d other : bs) : bs := other.

(** operator=(const std::bitset<N>&): mData.resize( N); for (idx < N) mData[idx] = other[idx];
    [other] holds the N bits of the std::bitset *)
Definition m_assign_bitset (d other : bs) : res bs :=
  for_up (length other) 0 (fun idx d' => put d' idx (nth idx other false)) (vresize d (length other) false).

(** DynamicBitset( const std::bitset<N>&): mData( N, false); for (idx < N) mData[idx] = other[idx]; *)
Definition m_ctor_bitset (other : bs) : res bs :=
  for_up (length other) 0 (fun idx d' => put d' idx (nth idx other false)) (repeat false (length other)).

(** operator==(other) *)
Definition m_eq (d other : bs) : bool := veq d other.

(** operator[](pos) const, after fixes/C12-3: guard pos >= size *)
Definition m_index_const (d : bs) (pos : nat) : res bool :=
  if length d <=? pos then Err EOutOfRange else get d pos.

Definition m_index_const_pinned (d : bs) (pos : nat) : res bool :=
  if length d <? pos then Err EOutOfRange else get d pos.

(** operator[](pos) non-const returns a reference into mData after growing;
    [m_index_ref] is the common prefix, the caller then reads or writes *)
Definition m_index_ref (d : bs) (pos : nat) : bs :=
  if length d <=? pos then vresize d (grow_size pos) false else d.
Definition m_index_ref_pinned (d : bs) (pos : nat) : bs :=
  if length d <? pos then vresize d (grow_size pos) false else d.

Definition m_index_read (d : bs) (pos : nat) : res (bs * bool) :=
  let d1 := m_index_ref d pos in do v <- get d1 pos; Ok (d1, v).
Definition m_index_write (d : bs) (pos : nat) (v : bool) : res bs :=
  let d1 := m_index_ref d pos in put d1 pos v.
Definition m_index_read_pinned (d : bs) (pos : nat) : res (bs * bool) :=
  let d1 := m_index_ref_pinned d pos in do v <- get d1 pos; Ok (d1, v).
Definition m_index_write_pinned (d : bs) (pos : nat) (v : bool) : res bs :=
  let d1 := m_index_ref_pinned d pos in put d1 pos v.

(** mData[idx] = mData[idx] OP other.mData[idx] *)
Definition combine_at (f : bool -> bool -> bool) (o : bs) (idx : nat) (d : bs) : res bs :=
  do a <- get d idx; do b <- get o idx; put d idx (f a b).

Definition clear_at (idx : nat) (d : bs) : res bs := put d idx false.

(** operator&=(other) *)
Definition m_and_assign (d o : bs) : res bs :=
  if length d <? length o then
    for_up (length d) 0 (combine_at andb o) d
  else
    do d1 <- for_up (length o) 0 (combine_at andb o) d;
    for_up (length d - length o) (length o) clear_at d1.

(** operator|=(other) *)
Definition m_or_assign (d o : bs) : res bs :=
  let d1 := if length d <? length o then vresize d (length o) false else d in
  for_up (Nat.min (length d1) (length o)) 0 (combine_at orb o) d1.

(** operator^=(other) *)
Definition m_xor_assign (d o : bs) : res bs :=
  let d1 := if length d <? length o then vresize d (length o) false else d in
  for_up (Nat.min (length d1) (length o)) 0 (combine_at xorb o) d1.

(** operator~() *)
Definition m_not (d : bs) : bs := m_flip_all d.

(** free operators &, |, ^ : copy( lhs); copy OP= rhs; *)
Definition m_and (l r : bs) : res bs := m_and_assign l r.
Definition m_or (l r : bs) : res bs := m_or_assign l r.
Definition m_xor (l r : bs) : res bs := m_xor_assign l r.

(** operator<<(pos) const *)
Definition m_shl (d : bs) (pos : nat) : res bs :=
  if (pos =? 0) || (length d =? 0) then Ok d
  else
    let dbs := m_ctor (length d + pos) in
    for_up (length d) 0 (fun idx acc => do v <- get d idx; put acc (idx + pos) v) dbs.

(** operator<<=(pos):
    resize(size + pos); for (idx = size - 1; idx >= pos; --idx) mData[idx] = mData[idx - pos];
    for (idx = 0; idx < pos; ++idx) mData[idx] = false;
    (pos >= 1 here, so the unsigned idx >= pos terminates at idx = pos - 1) *)
Definition m_shl_assign (d : bs) (pos : nat) : res bs :=
  if (pos =? 0) || (length d =? 0) then Ok d
  else
    let d1 := vresize d (length d + pos) false in
    do d2 <- for_down (length d1 - pos) (length d1 - 1)
               (fun idx d => do v <- get d (idx - pos); put d idx v) d1;
    for_up pos 0 clear_at d2.

(** operator>>(pos) const: for (idx = 0; idx + pos < size; ++idx) dbs[idx] = mData[idx + pos] *)
Definition m_shr (d : bs) (pos : nat) : res bs :=
  if (pos =? 0) || (length d =? 0) then Ok d
  else
    let dbs := m_ctor (length d) in
    for_up (length d - pos) 0 (fun idx acc => do v <- get d (idx + pos); put acc idx v) dbs.

(** operator>>=(pos), after fixes/C12-2: the clearing loop starts at
    (pos < size) ? size - pos : 0 *)
Definition m_shr_assign (d : bs) (pos : nat) : res bs :=
  if (pos =? 0) || (length d =? 0) then Ok d
  else
    do d1 <- for_up (length d - pos) 0 (fun idx d => do v <- get d (idx + pos); put d idx v) d;
    let start := if pos <? length d then length d - pos else 0 in
    for_up (length d - start) start clear_at d1.

(** operator>>=(pos) of the pinned tree: the clearing loop starts at the size_t
    value size - pos; for pos > size this wraps to 2^64 + size - pos >= size, so
    the loop body is never executed *)
Definition m_shr_assign_pinned (d : bs) (pos : nat) : res bs :=
  if (pos =? 0) || (length d =? 0) then Ok d
  else
    do d1 <- for_up (length d - pos) 0 (fun idx d => do v <- get d (idx + pos); put d idx v) d;
    if length d <? pos then Ok d1
    else for_up pos (length d - pos) clear_at d1.

(* ------------------------------------------------------------------ *)
(** * Iterators: state = mCurrPos *)

(** static_cast<size_t>(p) < size() *)
Definition ult_size (p : Z) (d : bs) : bool :=
  (0 <=? p)%Z && (p <? Z.of_nat (length d))%Z.

(** mpDynBitset->test(mCurrPos): the ssize_t is converted to size_t *)
Definition it_test (d : bs) (p : Z) : res bool :=
  if (p <? 0)%Z then Err EOutOfRange else m_test d (Z.to_nat p).

(** while ((size_t)(++mCurrPos) < size && !test(mCurrPos)) {} *)
Fixpoint fwd_loop (fuel : nat) (d : bs) (p : Z) : res Z :=
  match fuel with
  | 0 => Fault Fuel
  | S f =>
      let p' := (p + 1)%Z in
      if ult_size p' d then
        do t <- it_test d p'; if t then Ok p' else fwd_loop f d p'
      else Ok p'
  end.

(** forward() *)
Definition it_forward (d : bs) (p : Z) : res Z :=
  if ult_size p d then fwd_loop (S (length d)) d p else Ok p.

(** while ((--mCurrPos >= 0) && !test(mCurrPos)) {} *)
Fixpoint rev_loop (fuel : nat) (d : bs) (p : Z) : res Z :=
  match fuel with
  | 0 => Fault Fuel
  | S f =>
      let p' := (p - 1)%Z in
      if (0 <=? p')%Z then
        do t <- it_test d p'; if t then Ok p' else rev_loop f d p'
      else Ok p'
  end.

(** reverse() *)
Definition it_reverse (d : bs) (p : Z) : res Z :=
  if (p <? 0)%Z then Ok p else rev_loop (S (Z.to_nat p)) d p.

(** DynamicBitsetIterator(dbs, startpos), after fixes/C12-1:
    if ((size_t)mCurrPos < size && !test(mCurrPos)) forward(); *)
Definition it_ctor (d : bs) (start : Z) : res Z :=
  if ult_size start d then
    do t <- it_test d start; if t then Ok start else it_forward d start
  else Ok start.

Definition it_ctor_pinned (d : bs) (start : Z) : res Z :=
  do t <- it_test d start; if t then Ok start else it_forward d start.

(** DynamicBitsetReverseIterator(dbs, startpos), after fixes/C12-1:
    if (mCurrPos >= 0 && !test(mCurrPos)) reverse(); *)
Definition rit_ctor (d : bs) (start : Z) : res Z :=
  if (0 <=? start)%Z then
    do t <- it_test d start; if t then Ok start else it_reverse d start
  else Ok start.

Definition rit_ctor_pinned (d : bs) (start : Z) : res Z :=
  do t <- it_test d start; if t then Ok start else it_reverse d start.

(** begin() / cbegin(): iterator(this, 0);  end(): iterator(this) = size() *)
Definition it_begin (d : bs) : res Z := it_ctor d 0%Z.
Definition it_begin_pinned (d : bs) : res Z := it_ctor_pinned d 0%Z.
Definition it_end (d : bs) : Z := Z.of_nat (length d).

(** rbegin(): reverse_iterator(this, size() - 1): the size_t value size - 1
    (2^64 - 1 for an empty bitset) converted to ssize_t;  rend(): -1 *)
Definition it_rbegin (d : bs) : res Z := rit_ctor d (Z.of_nat (length d) - 1)%Z.
Definition it_rbegin_pinned (d : bs) : res Z := rit_ctor_pinned d (Z.of_nat (length d) - 1)%Z.
Definition it_rend : Z := (-1)%Z.

(** forward iterator ++ / -- *)
Definition it_inc (d : bs) (p : Z) : res Z := it_forward d p.
Definition it_dec (d : bs) (p : Z) : res Z :=
  do q <- it_reverse d p; Ok (if (q <? 0)%Z then Z.of_nat (length d) else q).

(** reverse iterator ++ / -- *)
Definition rit_inc (d : bs) (p : Z) : res Z := it_reverse d p.
Definition rit_dec (d : bs) (p : Z) : res Z :=
  do q <- it_forward d p; Ok (if (Z.of_nat (length d) <=? q)%Z then (-1)%Z else q).

(** for (it = first; it != stop; it = next(it)) visit( * it) *)
Fixpoint walk (fuel : nat) (next : Z -> res Z) (stop : Z) (p : Z) : res (list Z) :=
  match fuel with
  | 0 => Fault Fuel
  | S f =>
      if (p =? stop)%Z then Ok []
      else do q <- next p; do r <- walk f next stop q; Ok (p :: r)
  end.

(** range-for / for (it = begin(); it != end(); ++it) *)
Definition iter_fwd (d : bs) : res (list Z) :=
  do p <- it_begin d; walk (S (length d)) (it_inc d) (it_end d) p.
Definition iter_fwd_pinned (d : bs) : res (list Z) :=
  do p <- it_begin_pinned d; walk (S (length d)) (it_inc d) (it_end d) p.

(** for (it = rbegin(); it != rend(); ++it) *)
Definition iter_rev (d : bs) : res (list Z) :=
  do p <- it_rbegin d; walk (S (length d)) (rit_inc d) it_rend p.
Definition iter_rev_pinned (d : bs) : res (list Z) :=
  do p <- it_rbegin_pinned d; walk (S (length d)) (rit_inc d) it_rend p.

(** it = end(); while (--it != end()) visit( * it) *)
Definition iter_back (d : bs) : res (list Z) :=
  do p <- it_dec d (it_end d); walk (S (length d)) (it_dec d) (it_end d) p.

(* ------------------------------------------------------------------ *)
(** * Operation histories *)

Inductive op :=
| OTest (pos : nat)                 (* test(pos) *)
| OIdx (pos : nat)                  (* operator[](pos) const *)
| ORef (pos : nat)                  (* bool v = bs[pos]  (non-const) *)
| OPut (pos : nat) (v : bool)       (* bs[pos] = v *)
| OSet (pos : nat) (v : bool)       (* set(pos, v) *)
| OSetAll
| OReset (pos : nat)
| OResetAll
| OFlip (pos : nat)
| OFlipAll
| OResize (count : nat) (init : bool)
| OAssign (o : bs)                  (* bs = vector<bool> *)
| OAssignBs (o : bs)                (* bs = std::bitset<N> *)
| OCtorBs (o : bs)                  (* bs = DynamicBitset( std::bitset<N>) *)
| OEq (o : bs)                      (* bs == o *)
| OAndA (o : bs) | OOrA (o : bs) | OXorA (o : bs)    (* bs &= o ... *)
| OAnd (o : bs) | OOr (o : bs) | OXor (o : bs)       (* bs = bs & o ... *)
| ONot                              (* bs = ~bs *)
| OShlA (n : nat) | OShl (n : nat)  (* bs <<= n ; bs = bs << n *)
| OShrA (n : nat) | OShr (n : nat).

Inductive outv := VNone | VBool (b : bool).

Definition upd (r : res bs) : res (bs * outv) := do d <- r; Ok (d, VNone).
Definition obs (d : bs) (r : res bool) : res (bs * outv) := do v <- r; Ok (d, VBool v).

Definition step (d : bs) (o : op) : res (bs * outv) :=
  match o with
  | OTest pos => obs d (m_test d pos)
  | OIdx pos => obs d (m_index_const d pos)
  | ORef pos => do r <- m_index_read d pos; let '(d1, v) := r in Ok (d1, VBool v)
  | OPut pos v => upd (m_index_write d pos v)
  | OSet pos v => upd (m_set d pos v)
  | OSetAll => Ok (m_set_all d, VNone)
  | OReset pos => upd (m_reset d pos)
  | OResetAll => Ok (m_reset_all d, VNone)
  | OFlip pos => upd (m_flip d pos)
  | OFlipAll => Ok (m_flip_all d, VNone)
  | OResize c i => Ok (m_resize d c i, VNone)
  | OAssign o => Ok (m_assign d o, VNone)
  | OAssignBs o => upd (m_assign_bitset d o)
  | OCtorBs o => upd (m_ctor_bitset o)
  | OEq o => Ok (d, VBool (m_eq d o))
  | OAndA o => upd (m_and_assign d o)
  | OOrA o => upd (m_or_assign d o)
  | OXorA o => upd (m_xor_assign d o)
  | OAnd o => upd (m_and d o)
  | OOr o => upd (m_or d o)
  | OXor o => upd (m_xor d o)
  | ONot => Ok (m_not d, VNone)
  | OShlA n => upd (m_shl_assign d n)
  | OShl n => upd (m_shl d n)
  | OShrA n => upd (m_shr_assign d n)
  | OShr n => upd (m_shr d n)
  end.

(** the same dispatcher on the members of the pinned tree *)
Definition step_pinned (d : bs) (o : op) : res (bs * outv) :=
  match o with
  | OIdx pos => obs d (m_index_const_pinned d pos)
  | ORef pos => do r <- m_index_read_pinned d pos; let '(d1, v) := r in Ok (d1, VBool v)
  | OPut pos v => upd (m_index_write_pinned d pos v)
  | OReset pos => upd (m_reset_pinned d pos)
  | OFlip pos => upd (m_flip_pinned d pos)
  | OShrA n => upd (m_shr_assign_pinned d n)
  | _ => step d o
  end.

Inductive sout :=
| SOk (v : outv) (state : bs)
| SErr (e : err) (state : bs)
| SFault (f : fault).

(** an exception leaves the object as it was (every throw of the source comes
    before the first modification); a fault ends the history *)
Fixpoint run (d : bs) (ops : list op) : list sout * bs :=
  match ops with
  | [] => ([], d)
  | o :: ops' =>
      match step d o with
      | Ok (d', v) => let '(outs, df) := run d' ops' in (SOk v d' :: outs, df)
      | Err e => let '(outs, df) := run d ops' in (SErr e d :: outs, df)
      | Fault f => ([SFault f], d)
      end
  end.

(** final state of a history ([None] after a fault) *)
Fixpoint exec (d : bs) (ops : list op) : option bs :=
  match ops with
  | [] => Some d
  | o :: ops' =>
      match step d o with
      | Ok (d', _) => exec d' ops'
      | Err _ => exec d ops'
      | Fault _ => None
      end
  end.
