(** C08  Evaluating through an argument group equals one handler owning all arguments.
    Only statements. *)
From Coq Require Import List NArith ZArith Bool.
Import ListNotations.
Require Import Celma.Common.Res Celma.ArgH.Key Celma.ArgH.Table Celma.ArgH.TableProofs Celma.ArgH.Lex
               Celma.ArgH.Handler Celma.ArgH.Spell Celma.ArgH.Groups Celma.ArgH.GroupsProofs
               Celma.ArgH.UseProofs Celma.ArgH.GenSim Celma.ArgH.GroupsSim Celma.ArgH.MergeProofs Celma.ArgH.GroupsMerge
               Celma.ArgH.SubGroup Celma.ArgH.GroupsGen Celma.ArgH.GroupsGenProofs.

(** Each word is handled by exactly the handler that defines its key: when
    the members before [c] answer "unknown" and [c] consumes the element, the
    group step is [c]'s step, and the destinations, pending constraints and
    handler-constraint states of all other members are untouched - for any
    number of members. *)
Theorem C08_element_goes_to_first_owner :
  forall e cur, is_value e = false -> forall pre c post spre s spost s1 i1,
    length pre = length spre ->
    Forall2 (fun ci si => exists si', eval_single ci si false e cur = Ok (AUnknown, si', cur)) pre spre ->
    eval_single c s false e cur = Ok (AConsumed, s1, i1) ->
    exists ss', offer false (pre ++ c :: post) (spre ++ s :: spost) e cur = Ok (AConsumed, ss', i1) /\
                map arts ss' = map arts (spre ++ s1 :: spost) /\
                map pend ss' = map pend (spre ++ s1 :: spost) /\
                map gsts ss' = map gsts (spre ++ s1 :: spost).
Proof. exact offer_first_owner. Qed.
Print Assumptions C08_element_goes_to_first_owner.

Theorem C08_unknown_to_all_is_rejected :
  forall e cur, is_value e = false -> forall cs ss,
    Forall2 (fun ci si => exists si', eval_single ci si false e cur = Ok (AUnknown, si', cur)) cs ss ->
    exists ss', offer false cs ss e cur = Ok (AUnknown, ss', cur).
Proof. exact offer_all_unknown. Qed.
Print Assumptions C08_unknown_to_all_is_rejected.

(** Every rule attached inside a member handler is enforced at the end of a
    group evaluation exactly as in stand-alone evaluation: a normal return
    implies that every member passed its complete final checks (mandatory,
    cardinality, pending requires, handler constraints). *)
Theorem C08_member_rules_enforced :
  forall pinned cs initss argv ss,
    eval_group pinned false cs initss argv = Ok ss ->
    Forall2 (fun c s => final_checks c s = Ok tt) (firstn (length ss) cs) (firstn (length cs) ss).
Proof. intros. apply group_final_ok. eapply eval_group_final. eassumption. Qed.
Print Assumptions C08_member_rules_enforced.

(** the key tables of the members behave as one table at definition time *)
Theorem C08_shared_key_refused :
  forall (A : Type) (t1 t2 : @table A) k,
    add_scan (t1 ++ t2) k = Ok tt <-> add_scan t1 k = Ok tt /\ add_scan t2 k = Ok tt.
Proof. exact @add_scan_app. Qed.
Print Assumptions C08_shared_key_refused.

(** The group evaluation of the pinned tree violated the property in two ways
    (no end-of-line checks of requires / handler constraints; a free value
    appended to a multi-value argument of another member depending on the member
    order); both witnesses are rejected after the repairs. *)
Theorem C08_pinned_group_refuted :
  is_ok (eval_group false true grp1 grp1_inits argv_l_x) = true /\
  eval_group false false grp1 grp1_inits argv_l_x = Err ERuntime /\
  is_ok (eval_group false true grp2 grp1_inits argv_x) = true /\
  eval_group false false grp2 grp1_inits argv_x = Err ERuntime /\
  is_ok (eval_group true false grp3 grp3_inits argv_l1x2) = true /\
  eval_group false false grp3 grp3_inits argv_l1x2 = Err ERuntime.
Proof. exact pinned_group_refuted. Qed.
Print Assumptions C08_pinned_group_refuted.

(** a free value goes to the multi-value argument identified last, also when an
    earlier member owns a positional argument (repaired: "fix: ... offered
    first to the handler of the argument identified last"); second component:
    the member-order behaviour of the pinned tree *)
Theorem C08_free_value_routing :
  (exists ss, eval_group false false grp5 grp5_inits argv_l12 = Ok ss /\
              map (fun s => map val (arts s)) ss = [[VStr []]; [VInts [1; 2]%Z]]) /\
  (exists ss, eval_group true false grp5 grp5_inits argv_l12 = Ok ss /\
              map (fun s => map val (arts s)) ss = [[VStr [50%N]]; [VInts [1%Z]]]).
Proof. exact group_free_value_order. Qed.
Print Assumptions C08_free_value_routing.

(** Whole-line form.  Names in a group are pairs (member, index); a word
    belongs to the first member whose table resolves it.  For EVERY group
    (any number of members, any definitions, checks, constraints), every
    abstract line [gus] of group uses and every legal spelling [ws] of it
    ([gspell_grp]: long/short keys, abbreviations, grouped flags, values glued,
    behind '=' or as the next word): if the group evaluation returns normally
    then each member handler, evaluating alone exactly its own uses in line
    order ([proj m gus]), accepts them, passes its complete end-of-line checks
    and ends with the same destinations, pending constraints and
    handler-constraint states as inside the group.  [Forall keyed gus]: the
    line consists of uses named by a key; lines with free values are covered by
    C08_group_line_is_fold_of_uses below and by the routing witnesses. *)
Theorem C08_group_line_is_fold_of_uses :
  forall cs gus ws ss,
    all_fixed cs -> length ss = length cs -> gspell_grp cs gus ws ->
    (do f0 <- first ws; iterate_group (S (words_size ws)) false cs ss f0)
    = gfold gname (list hstate) (gustep cs) ss gus.
Proof. exact group_words_spelled. Qed.
Print Assumptions C08_group_line_is_fold_of_uses.

Theorem C08_group_is_members_on_their_parts :
  forall cs initss gus ws ss',
    all_fixed cs -> length initss = length cs -> gspell_grp cs gus ws -> Forall keyed gus ->
    eval_group false false cs initss ws = Ok ss' ->
    forall m, m < length cs ->
      exists sm, fold_uses (member cs m) (init_state (member cs m) (nth m initss [])) false (proj m gus) = Ok sm /\
                 final_checks (member cs m) sm = Ok tt /\
                 forget_last sm = forget_last (nth m ss' st0).
Proof. exact group_projection. Qed.
Print Assumptions C08_group_is_members_on_their_parts.

(** the same against Handler::evalArguments of the member alone, on any legal
    spelling of its part of the line *)
Theorem C08_group_member_standalone :
  forall cs initss gus ws ss',
    all_fixed cs -> length initss = length cs -> gspell_grp cs gus ws -> Forall keyed gus ->
    eval_group false false cs initss ws = Ok ss' ->
    forall m wsm, m < length cs -> spell (member cs m) (proj m gus) wsm ->
      exists sm, eval_arguments (member cs m) (nth m initss []) [] None wsm = Ok sm /\
                 arts sm = arts (nth m ss' st0) /\ pend sm = pend (nth m ss' st0) /\
                 gsts sm = gsts (nth m ss' st0).
Proof. exact group_member_standalone. Qed.
Print Assumptions C08_group_member_standalone.

(** and conversely: a line whose parts the members accept (including their
    end-of-line checks) is accepted by the group *)
Theorem C08_group_accepts_what_members_accept :
  forall cs initss gus ws,
    cs <> [] -> all_fixed cs -> length initss = length cs -> gspell_grp cs gus ws -> Forall keyed gus ->
    (forall m, m < length cs ->
       exists sm, fold_uses (member cs m) (init_state (member cs m) (nth m initss [])) false (proj m gus) = Ok sm /\
                  final_checks (member cs m) sm = Ok tt) ->
    exists ss', eval_group false false cs initss ws = Ok ss'.
Proof. exact group_accepts. Qed.
Print Assumptions C08_group_accepts_what_members_accept.

(** Non-vacuity: group grp1 (member a: -l requires -r, -r; member b: -x), the
    line "-lx -r" is a legal spelling of [l@a; x@b; r@a]. *)
Example C08_nonvacuous_spelling :
  all_fixed grp1 /\ Forall keyed [GFlag (0, 0); GFlag (1, 0); GFlag (0, 1)] /\
  gspell_grp grp1 [GFlag (0, 0); GFlag (1, 0); GFlag (0, 1)] [[45; 108; 120]; [45; 114]]%N /\
  proj 0 [GFlag (0, 0); GFlag (1, 0); GFlag (0, 1)] = [UFlag 0; UFlag 1] /\
  is_ok (eval_group false false grp1 grp1_inits [[45; 108; 120]; [45; 114]]%N) = true.
Proof.
  split; [repeat constructor|]. split; [repeat constructor|]. split; [|split; vm_compute; reflexivity].
  unfold gspell_grp.
  apply (gsp_flags gname (glname grp1) (gsname grp1) (gtnone grp1) (gtreq grp1) (gtopt grp1)
           [((0, 0), 108%N); ((1, 0), 120%N)] [GFlag (0, 1)] [[45; 114]%N]); [discriminate| |].
  - repeat constructor; cbn; try discriminate; vm_compute; auto.
  - apply (gsp_flags gname (glname grp1) (gsname grp1) (gtnone grp1) (gtreq grp1) (gtopt grp1)
             [((0, 1), 114%N)] [] []); [discriminate| |constructor].
    repeat constructor; cbn; try discriminate; vm_compute; auto.
Qed.

(** THE PROPERTY as one theorem (ArgH/MergeProofs.v, GroupsMerge.v).
    [merged cs] is the ONE handler that owns the arguments and the handler
    constraints of all members, in member order.  For every group
      - whose members do not refer to each other ([separated]: no requires /
        excludes list and no handler constraint of a member names an argument
        of another member - each member has its own constraint container),
      - with handler constraints all_of / any_of / one_of ([key_cons]),
    every line [gus] of uses named by keys of defined arguments and every
    spelling [ws] of it that designates the same arguments in the group and in
    the single handler (always the case for exact keys; for abbreviations this
    is where the known finding lives):
      the group accepts the line  <=>  the single handler accepts it,
      and then every destination holds the same value. *)
Theorem C08_group_equals_one_handler :
  forall cs initss gus ws,
    cs <> [] -> all_fixed cs -> separated cs -> key_cons cs ->
    length initss = length cs ->
    (forall m, m < length cs -> length (nth m initss []) = length (args (member cs m))) ->
    Forall keyed gus -> Forall (fun u => valid_name cs (name u)) gus ->
    gspell_grp cs gus ws -> spell (merged cs) (map (globalize cs) gus) ws ->
    is_ok (eval_group false false cs initss ws) = is_ok (eval_arguments (merged cs) (concat initss) [] None ws) /\
    forall ss' s', eval_group false false cs initss ws = Ok ss' ->
                   eval_arguments (merged cs) (concat initss) [] None ws = Ok s' ->
                   arts s' = concat (map arts ss').
Proof. exact group_equals_merged. Qed.
Print Assumptions C08_group_equals_one_handler.

(** the single-handler half on its own: a handler whose arguments fall into two
    blocks that do not refer to each other evaluates a line exactly as the
    blocks evaluate their parts *)
Theorem C08_one_handler_splits :
  forall c1 c2, separate c1 c2 -> forall ic us s s1 s2,
    joined c1 c2 s s1 s2 -> Forall (fun u => use_index u < length (args c1) + n2 c2) us ->
    (forall s', fold_uses (merge2 c1 c2) s ic us = Ok s' ->
       exists s1' s2', fold_uses c1 s1 ic (part1 c1 us) = Ok s1' /\ fold_uses c2 s2 ic (part2 c1 us) = Ok s2' /\
                       joined c1 c2 s' s1' s2') /\
    (forall s1' s2', fold_uses c1 s1 ic (part1 c1 us) = Ok s1' -> fold_uses c2 s2 ic (part2 c1 us) = Ok s2' ->
       exists s', fold_uses (merge2 c1 c2) s ic us = Ok s' /\ joined c1 c2 s' s1' s2').
Proof. exact fold_merge. Qed.
Print Assumptions C08_one_handler_splits.

(** Non-vacuity: grp1 (member a: -l requires -r, -r; member b: -x) meets the
    hypotheses with the line "-lx -r"; group and single handler store the same. *)
Ltac finite_keys :=
  cbn; intros;
  repeat match goal with
         | H : _ \/ _ |- _ => destruct H
         | H : False |- _ => destruct H
         end; subst; reflexivity.

Example C08_nonvacuous_one_handler :
  separated grp1 /\ key_cons grp1 /\
  Forall (fun u => valid_name grp1 (name u)) [GFlag (0, 0); GFlag (1, 0); GFlag (0, 1)] /\
  spell (merged grp1) (map (globalize grp1) [GFlag (0, 0); GFlag (1, 0); GFlag (0, 1)]) [[45; 108; 120]; [45; 114]]%N /\
  (exists ss s, eval_group false false grp1 grp1_inits [[45; 108; 120]; [45; 114]]%N = Ok ss /\
                eval_arguments (merged grp1) (concat grp1_inits) [] None [[45; 108; 120]; [45; 114]]%N = Ok s /\
                map val (arts s) = [VBool true; VBool true; VBool true] /\ arts s = concat (map arts ss)).
Proof.
  split; [|split; [|split; [|split]]].
  - cbn [separated grp1]. split; [|split; [|exact I]].
    + split; split; finite_keys.
    + split; split; finite_keys.
  - repeat constructor.
  - repeat constructor; cbn; auto.
  - cbn [map globalize glob fst snd grp1 length args mk_cfg Nat.add].
    apply (sp_flags (merged grp1) [(0, 108%N); (2, 120%N)] [UFlag 1] [[45; 114]%N]); [discriminate| |].
    + repeat constructor; cbn; try discriminate; vm_compute; auto.
    + apply (sp_flags (merged grp1) [(1, 114%N)] [] []); [discriminate| |constructor].
      repeat constructor; cbn; try discriminate; vm_compute; auto.
  - eexists. eexists. split; [vm_compute; reflexivity|]. split; [vm_compute; reflexivity|].
    split; vm_compute; reflexivity.
Qed.

(** Member handlers may own sub-group arguments (Handler::addArgument( spec,
    subGroup, desc)).  The group loop is the same loop with another member
    step (ArgH/GroupsGen.v, [geval]): instantiated with plain handlers it IS
    [eval_group], and the group of members with sub-group arguments is a
    conservative extension of it - so every theorem above holds for the
    members of such a group that own no sub-group argument, and the tie runs
    both through the same harness. *)
Theorem C08_generic_loop_is_eval_group :
  forall cs initss argv,
    geval plain_step forget_last has_last final_checks cs
          (map (fun p => init_state (fst p) (snd p)) (combine cs initss)) argv
    = eval_group false false cs initss argv.
Proof. exact geval_plain. Qed.
Print Assumptions C08_generic_loop_is_eval_group.

Theorem C08_members_with_subgroups_conservative :
  forall cs initss argv,
    eval_group_sg (map plain_sg cs) (map (fun i => (i, [])) initss) argv
    = do l <- eval_group false false cs initss argv; Ok (map emb l).
Proof. exact eval_group_sg_conservative. Qed.
Print Assumptions C08_members_with_subgroups_conservative.

(** Known finding, recorded in known_findings.json (group-abbrev-per-member):
    the full statement "group evaluation = single handler owning all
    arguments" is FALSE of the faithful model when a word is an abbreviation in
    an earlier member and an exact key (or another abbreviation) in a later one.
    The theorems above are the part that holds; this is the witness. *)
Theorem C08_group_abbrev_refuted :
  (exists ss, eval_group false false grp4 grp4_inits argv_out = Ok ss /\
              map (fun s => map val (arts s)) ss = [[VBool true]; [VBool false]]) /\
  (exists s, eval_arguments merged4 [VBool false; VBool false] [] None argv_out = Ok s /\
             map val (arts s) = [VBool false; VBool true]).
Proof. exact group_abbrev_refuted. Qed.
Print Assumptions C08_group_abbrev_refuted.
