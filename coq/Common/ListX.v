(** List lemmas missing from the Coq 8.16 standard library. *)
From Coq Require Import List Arith Lia.
Import ListNotations.

Lemma skipn_skipn' {A} : forall x y (l : list A), skipn x (skipn y l) = skipn (x + y) l.
Proof.
  intros x y. revert x. induction y as [|y IH]; intros x l.
  - rewrite Nat.add_0_r. reflexivity.
  - destruct l as [|a l].
    + rewrite !skipn_nil. reflexivity.
    + replace (x + S y) with (S (x + y)) by lia. cbn [skipn]. apply IH.
Qed.

Lemma firstn_app_exact {A} (l1 l2 : list A) : firstn (length l1) (l1 ++ l2) = l1.
Proof. rewrite firstn_app, Nat.sub_diag, firstn_all. cbn. apply app_nil_r. Qed.

Lemma skipn_app_exact {A} (l1 l2 : list A) : skipn (length l1) (l1 ++ l2) = l2.
Proof. rewrite skipn_app, Nat.sub_diag, skipn_all. reflexivity. Qed.
