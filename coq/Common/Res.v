(** Result type shared by all models.
    [Ok]    : the operation returned normally.
    [Err]   : the operation ended with a C++ exception (small enum of classes).
    [Fault] : undefined behaviour the model can see (out-of-bounds access,
              mismatched deallocation, starvation of a loop by its fuel ...).
    Memory-safety theorems are statements "never [Fault]". *)
From Coq Require Import List.
Import ListNotations.

Inductive err :=
| EInvalidArgument | ERuntime | EOutOfRange | ERange | EOverflow | EUnderflow
| ELogic | EBadCast | EArgument | EOther.

Inductive fault :=
| OOBRead | OOBWrite | Starved | BadFree | NullDeref | Fuel | Wrap.

Inductive res (A : Type) :=
| Ok (a : A) | Err (e : err) | Fault (f : fault).
Arguments Ok {A}. Arguments Err {A}. Arguments Fault {A}.

Definition bind {A B} (r : res A) (f : A -> res B) : res B :=
  match r with Ok a => f a | Err e => Err e | Fault x => Fault x end.

Notation "'do' x <- r ; k" := (bind r (fun x => k))
  (at level 200, x pattern, r at level 100, k at level 200).

Definition is_ok {A} (r : res A) : bool := match r with Ok _ => true | _ => false end.
Definition is_fault {A} (r : res A) : bool := match r with Fault _ => true | _ => false end.

Lemma bind_ok {A B} (r : res A) (f : A -> res B) b :
  bind r f = Ok b -> exists a, r = Ok a /\ f a = Ok b.
Proof. destruct r; simpl; intros H; try discriminate; eauto. Qed.
