(** Small tactics used across the development. *)
Ltac splits := repeat match goal with |- _ /\ _ => split end.

(** split exactly one [if] of the goal on its boolean test *)
Ltac destruct_if :=
  match goal with
  | |- context [if ?c then _ else _] => let E := fresh "E" in destruct c eqn:E
  end.
