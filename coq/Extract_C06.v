(** Extraction of the runnable C06 model (multi-value destinations). *)
From Coq Require Import Extraction ExtrOcamlBasic.
Require Import Celma.Common.Res Celma.ArgH.Key Celma.ArgH.Handler Celma.ArgH.Cont.
Extraction Language OCaml.
Extraction "../ocaml/gen/c06_model.ml" add_format add_format_pos setup_ok default_sep default_card init_ints init_map nset_add flag_value eval eval_pinned.
