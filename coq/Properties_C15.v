From Coq Require Import List Arith.
Import ListNotations.
Require Import Celma.Common.Res Celma.Log.RollModel.

Theorem C15_stub : forall fs, file_size (fs_open true fs) = 0.
Proof. intros fs. unfold file_size, fs_open. destruct (fs 0); reflexivity. Qed.
Print Assumptions C15_stub.
