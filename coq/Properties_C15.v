(** C15  Rolling log files keep the most recent messages, complete and in order.
    Only statements; the proofs are in Log/RollProofs.v.

    [c] is the policy configuration (Counted or MaxSize, limit, number of
    generations), a history is [Restart :: evs]: the start of the handler followed by
    any sequence of messages and restarts.  [final c init_state h] is the state after
    the history ([None] if an operation throws), [sfs st j] the content of the
    generation file number j (0 = the file being written), [retained G st] the
    generation files read from the oldest to the newest, [enc ms] the messages [ms]
    as they are written (text, line terminator).  [valid c]: limit >= 1 and at least
    one generation. *)
From Coq Require Import List Arith.
Import ListNotations.
Require Import Celma.Common.Res Celma.Log.RollModel Celma.Log.RollProofs.

(** No history makes the policies throw. *)
Theorem C15_roll_no_error :
  forall c evs, valid c -> exists st, final c init_state (Restart :: evs) = Some st.
Proof. exact history_final. Qed.
Print Assumptions C15_roll_no_error.

(** For every limit, generation count and history: the generations read from oldest
    to newest are the encoding of a suffix of the messages written (no loss inside,
    no duplication, order kept, whole messages); as long as the oldest generation
    slot is unused nothing at all has been lost; a message just written is the last
    one retained. *)
Theorem C15_roll_suffix :
  forall c evs st,
    valid c -> final c init_state (Restart :: evs) = Some st ->
    exists kept, is_suffix kept (writes evs) /\ retained (cgens c) st = enc kept /\
                 (sfs st (cgens c - 1) = None -> kept = writes evs) /\
                 (forall evs' t, evs = evs' ++ [Write t] -> exists k', kept = k' ++ [t]).
Proof. exact roll_suffix. Qed.
Print Assumptions C15_roll_suffix.

(** Count-limited files, at least two generations, no restart: at least the last
    min( number of messages, limit) messages are retained.  (With restarts this does
    not hold - see C15_counted_restart_refuted.) *)
Theorem C15_roll_retains_partial :
  forall c ts st,
    valid c -> ckind c = KCounted -> 2 <= cgens c ->
    final c init_state (Restart :: map Write ts) = Some st ->
    exists kept, is_suffix kept ts /\ retained (cgens c) st = enc kept /\
                 Nat.min (length ts) (climit c) <= length kept.
Proof. exact counted_retains. Qed.
Print Assumptions C15_roll_retains_partial.

(** Every generation file holds whole messages only: a contiguous part of the history. *)
Theorem C15_roll_no_truncation :
  forall c evs st j x,
    valid c -> final c init_state (Restart :: evs) = Some st -> sfs st j = Some x ->
    exists ms, x = enc ms /\ is_infix ms (writes evs).
Proof. exact roll_no_truncation. Qed.
Print Assumptions C15_roll_no_truncation.

(** No generation exceeds its limit - entries, resp. bytes including the line
    terminators - provided that (size limit) every message with its terminator fits
    into an empty generation; and there is no file beyond the configured generations. *)
Theorem C15_roll_limit :
  forall c evs st j x,
    valid c -> Forall (fits c) evs ->
    final c init_state (Restart :: evs) = Some st -> sfs st j = Some x ->
    exists ms, x = enc ms /\
      match ckind c with
      | KCounted => length ms <= climit c
      | KMaxSize => length x <= climit c
      end.
Proof. exact roll_limit. Qed.
Print Assumptions C15_roll_limit.

Theorem C15_roll_generations :
  forall c evs st j,
    valid c -> final c init_state (Restart :: evs) = Some st -> cgens c <= j -> sfs st j = None.
Proof. exact roll_generations. Qed.
Print Assumptions C15_roll_generations.

(** A new generation is started by a message only when the message would exceed the
    limit of the current one (entries + 1, resp. bytes + text + terminator) ... *)
Theorem C15_roll_only_when_needed_write :
  forall c evs st t st',
    valid c -> final c init_state (Restart :: evs) = Some st ->
    step c st (Write t) = Ok (st', true) ->
    exists ms, sfs st 0 = Some (enc ms) /\
      match ckind c with
      | KCounted => climit c < length ms + 1
      | KMaxSize => climit c < length (enc ms) + length t + 1
      end.
Proof. exact write_rolls_only_when_needed. Qed.
Print Assumptions C15_roll_only_when_needed_write.

(** ... and by a restart of a size-limited log only when the current generation is
    full (no message, not even an empty one, fits any more).
    Full statement (not provable for the code as it is): the same for count-limited
    logs, i.e. "f = true -> climit c <= length ms".  What holds there is that a
    restart starts a new generation exactly when the current file is not empty. *)
Theorem C15_roll_only_when_needed_restart_partial :
  forall c evs st st' f,
    valid c -> final c init_state (Restart :: evs) = Some st ->
    step c st Restart = Ok (st', f) ->
    exists ms, sfs st 0 = Some (enc ms) /\
      match ckind c with
      | KMaxSize => f = true <-> climit c <= length (enc ms)
      | KCounted => f = true <-> ms <> []
      end.
Proof. exact restart_rolls. Qed.
Print Assumptions C15_roll_only_when_needed_restart_partial.

(** The excluded region is a genuine violation (known finding
    restart-starts-new-generation): count limit 3, three generations, one message,
    restart - a new generation is started although two more entries fit; with two
    generations and two restarts the first message is lost although only two
    messages were ever written. *)
Theorem C15_counted_restart_refuted :
  exists c evs st st',
    valid c /\ ckind c = KCounted /\ final c init_state (Restart :: evs) = Some st /\
    step c st Restart = Ok (st', true) /\
    exists ms, sfs st 0 = Some (enc ms) /\ length ms + 1 <= climit c.
Proof.
  exists {| ckind := KCounted; climit := 3; cgens := 3 |}, [Write [97]].
  eexists. eexists. split; [split; cbn; auto with arith|]. split; [reflexivity|].
  split; [vm_compute; reflexivity|]. split; [vm_compute; reflexivity|].
  exists [[97]]. split; [reflexivity|]. cbn. auto with arith.
Qed.
Print Assumptions C15_counted_restart_refuted.

Example C15_counted_restart_loses_message :
  let c := {| ckind := KCounted; climit := 3; cgens := 2 |} in
  option_map (snapshot 2) (final c init_state [Restart; Write [97]; Restart; Write [98]; Restart])
  = Some [Some []; Some (enc [[98]])].
Proof. vm_compute. reflexivity. Qed.

(* ------------------------------------------------------------------ *)
(** The pinned tree violated the property in three more places; witnesses on the
    model of the pinned code (corpus cases of the generator, confirmed on the real
    code through the harness). *)

(** 1. open( out|ate) truncates: the message written before the restart is gone *)
Example C15_pinned_refuted_restart_truncates :
  let c := {| ckind := KCounted; climit := 2; cgens := 3 |} in
  option_map (snapshot 3) (final_pinned c init_state [Restart; Write [97]; Restart])
    = Some [Some []; None; None] /\
  option_map (snapshot 3) (final c init_state [Restart; Write [97]; Restart])
    = Some [Some []; Some (enc [[97]]); None].
Proof. split; vm_compute; reflexivity. Qed.

(** 2. Counted never resets its counter: after the first roll-over one message per
    generation, the oldest messages are lost although they would fit *)
Example C15_pinned_refuted_counter_not_reset :
  let c := {| ckind := KCounted; climit := 2; cgens := 2 |} in
  let h := [Restart; Write [97]; Write [98]; Write [99]; Write [100]] in
  option_map (snapshot 2) (final_pinned c init_state h) = Some [Some (enc [[100]]); Some (enc [[99]])] /\
  option_map (snapshot 2) (final c init_state h) = Some [Some (enc [[99]; [100]]); Some (enc [[97]; [98]])].
Proof. split; vm_compute; reflexivity. Qed.

(** 3. MaxSize does not count the line terminator: 8 bytes in a generation limited to 6 *)
Example C15_pinned_refuted_newline_not_counted :
  let c := {| ckind := KMaxSize; climit := 6; cgens := 2 |} in
  let h := [Restart; Write [97; 97]; Write [98; 98]; Write [99]] in
  option_map (snapshot 2) (final_pinned c init_state h) = Some [Some (enc [[97; 97]; [98; 98]; [99]]); None] /\
  option_map (snapshot 2) (final c init_state h) = Some [Some (enc [[99]]); Some (enc [[97; 97]; [98; 98]])].
Proof. split; vm_compute; reflexivity. Qed.

(** Non-vacuity: a history with roll-overs and a restart, three generations. *)
Example C15_nonvacuous :
  let c := {| ckind := KMaxSize; climit := 6; cgens := 3 |} in
  let h := [Restart; Write [97; 97]; Write [98; 98]; Write [99]; Restart; Write [100; 100; 100];
            Write [101; 101]; Write [102; 102]; Write [103; 103; 103; 103]] in
  option_map (snapshot 4) (final c init_state h)
  = Some [Some (enc [[103; 103; 103; 103]]); Some (enc [[101; 101]; [102; 102]]);
          Some (enc [[99]; [100; 100; 100]]); None].
Proof. vm_compute. reflexivity. Qed.
