(** Extraction of the runnable C05 model (keys and table). *)
From Coq Require Import Extraction ExtrOcamlBasic.
Require Import Celma.Common.Res Celma.ArgH.Key Celma.ArgH.Table Celma.ArgH.TableOps.
Extraction Language OCaml.
Extraction "../ocaml/gen/c05_model.ml" parse_key key_of_char add_argument find_arg find_arg_pinned run_ops.
