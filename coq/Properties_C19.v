(** C19  Buffered reading and writing preserve the byte stream for every chunking.
    Only statements; every proof is [exact <lemma of Buffers/RWProofs.v>]. *)
From Coq Require Import List Arith NArith.
Import ListNotations.
Require Import Celma.Common.Res Celma.Buffers.RWModel Celma.Buffers.RWProofs Celma.Buffers.WFail Celma.Buffers.WFailProofs.

(** Any history of get() calls on a fresh ReadBuffer of any capacity, any
    source content, any chunking: the bytes handed out, followed by what is
    still buffered and what the source still holds, are the source's bytes in
    order (nothing lost, duplicated or reordered); the only fault the model can
    reach is starvation by a source that stops delivering - never an access
    outside the internal buffer. *)
Theorem C19_read_stream_exact :
  forall cap stream chunks ops outs b' src',
    rb_run (rb_init cap) {| s_rest := stream; s_chunks := chunks |} ops = (outs, b', src') ->
    gots outs ++ rwindow b' ++ s_rest src' = stream /\
    (forall f, In (RFault f) outs -> f = Starved).
Proof. exact rb_stream_exact. Qed.
Print Assumptions C19_read_stream_exact.

(** Same from any state satisfying the invariant, with the per-call contract:
    each successful call returns exactly the requested number of bytes, requests
    larger than the buffer (or with a null pointer) are refused with
    runtime_error and leave the object alone, and every request made to the
    source has room for at least one byte inside the internal buffer. *)
Theorem C19_read_history :
  forall ops b src outs b' src',
    RInv b -> rb_run b src ops = (outs, b', src') ->
    RInv b' /\ r_cap b' = r_cap b /\
    gots outs ++ rwindow b' ++ s_rest src' = rwindow b ++ s_rest src /\
    (forall f, In (RFault f) outs -> f = Starved) /\
    length outs <= length ops /\
    Forall2 (out_ok (r_cap b)) (firstn (length outs) ops) outs.
Proof. exact rb_run_spec. Qed.
Print Assumptions C19_read_history.

(** A source that delivers at least one byte per call cannot starve a refill
    for bytes that exist. *)
Theorem C19_read_progress :
  forall cap min_len chunks data dstart dend rest rq,
    length data = cap -> dstart <= dend -> dend < cap ->
    dstart + min_len <= cap -> dend - dstart < min_len ->
    Forall (fun c => 1 <= c) chunks ->
    min_len - (dend - dstart) <= length rest ->
    min_len - (dend - dstart) <= length chunks ->
    fill_loop cap data dstart dend min_len rest chunks rq <> Fault Starved.
Proof. exact fill_loop_progress. Qed.
Print Assumptions C19_read_progress.

(** Any history of append()/flush() on a fresh WriteBuffer of any positive
    capacity: no fault; the sink's content followed by what is buffered is
    exactly what was appended, in order, each byte once; after a history that
    ends with a flush everything has reached the sink. *)
Theorem C19_write_exact :
  forall cap ops outs b' sk',
    0 < cap -> wb_run (wb_init cap) [] ops = (outs, b', sk') ->
    (forall f, ~ In (WFault f) outs) /\
    concat sk' ++ buffered b' = appended ops /\
    (ops <> [] -> last ops WFlush = WFlush -> concat sk' = appended ops).
Proof. exact wb_exact_after_flush. Qed.
Print Assumptions C19_write_exact.

Theorem C19_write_history :
  forall ops b sk outs b' sk',
    WInv b -> 0 < w_cap b -> wb_run b sk ops = (outs, b', sk') ->
    WInv b' /\ length outs = length ops /\
    (forall f, ~ In (WFault f) outs) /\
    concat sk' ++ buffered b' = concat sk ++ buffered b ++ appended ops.
Proof. exact wb_run_spec. Qed.
Print Assumptions C19_write_history.

(** Oversized writes are passed through, as one call, after what was buffered. *)
Theorem C19_write_passthrough :
  forall b sk blk,
    WInv b -> w_cap b <= length blk -> 0 < length blk ->
    exists b' pre, wb_append b (Some blk) sk = Ok (b', pre ++ [blk]) /\
                   concat pre = concat sk ++ buffered b /\ w_pos b' = 0 /\ WInv b'.
Proof. exact wb_passthrough. Qed.
Print Assumptions C19_write_passthrough.

(** A sink that fails (writeData throws; Buffers/WFail.v - added after the seeded
    change C19-10, which forgot the buffered bytes before the write, was missed):
    the buffer, the sink and the results of the other operations are those of
    the run WITHOUT the operations the sink refused - so the history theorem
    above speaks about the operations that took effect, and a refused operation
    can be repeated: nothing is lost, nothing is written twice. *)
Theorem C19_failing_sink_effective_operations :
  forall ops b sk outs bf sf eff,
    wb_run_f b sk ops = (outs, bf, sf, eff) ->
    (forall o, In o outs -> match o with WFault _ => False | _ => True end) ->
    exists outs', wb_run b sk eff = (outs', bf, sf).
Proof. exact wb_run_f_effective. Qed.
Print Assumptions C19_failing_sink_effective_operations.

Theorem C19_failed_operation_can_be_repeated :
  forall b sk o,
    calls_write b o = true ->
    let '(outs2, bf2, sf2, _) := wb_run_f b sk [(o, false); (o, true)] in
    let '(outs, bf, sf) := wb_run b sk [o] in
    outs2 = WErr ERuntime :: outs /\ bf2 = bf /\ sf2 = sf.
Proof. exact failed_operation_can_be_repeated. Qed.
Print Assumptions C19_failed_operation_can_be_repeated.

(** Non-vacuity: concrete histories that meet the hypotheses and exercise the
    compaction, refill and pass-through branches. *)
Example C19_nonvacuous_read :
  let '(outs, b', src') :=
    rb_run (rb_init 4) {| s_rest := [1;2;3;4;5;6;7;8;9]%N; s_chunks := [3;1;2;4;4] |}
           [(true, 2); (true, 3); (true, 5); (true, 4)] in
  gots outs = [1;2;3;4;5;6;7;8;9]%N /\ RInv b'.
Proof. vm_compute. split; [reflexivity|]. repeat split; auto. Qed.

Example C19_nonvacuous_write :
  let '(outs, b', sk') :=
    wb_run (wb_init 4) [] [WAppend [1;2;3]%N; WAppend [4;5]%N; WAppend [6;7;8;9;10]%N; WFlush] in
  sk' = [[1;2;3]; [4;5]; [6;7;8;9;10]]%N /\ w_pos b' = 0.
Proof. vm_compute. split; reflexivity. Qed.
