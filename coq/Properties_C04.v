(** C04  Argument evaluation is memory-safe for every argument vector and source.
    Only statements.  PARTIAL by nature: the theorems are about the index and
    size logic the model sees (every character read of the iterator is
    bounds-checked in the model, loops run on explicit fuel); std::string,
    Boost, iostreams and the allocator are below the model and are covered only
    by the sanitizer-instrumented correspondence run. *)
From Coq Require Import List NArith ZArith Bool Arith.
Require Import Celma.ArgH.ArgFile Celma.ArgH.ArgFileSafe Celma.ArgH.SubGroup Celma.ArgH.SubGroupProofs
               Celma.ArgH.Groups Celma.ArgH.GroupsGen Celma.ArgH.GroupsGenProofs.
Import ListNotations.
Require Import Celma.Common.Res Celma.ArgH.Key Celma.ArgH.Lex Celma.ArgH.Handler Celma.ArgH.Sources
               Celma.ArgH.Alloc Celma.ArgH.SafeProofs.

(** operator++ of the argument list iterator, from any state that satisfies
    the position invariant, for ANY words (any bytes, any lengths): no read
    outside a word (no [Fault]), the invariant is kept, the remaining input
    shrinks (termination). *)
Theorem C04_iterator_step_safe :
  forall rem i, it_ok i -> step_ok (msize i) (next rem i).
Proof. exact next_ok. Qed.
Print Assumptions C04_iterator_step_safe.

Theorem C04_iterator_start_safe :
  forall words, step_ok (words_size words) (first words).
Proof. exact first_ok. Qed.
Print Assumptions C04_iterator_start_safe.

(** Evaluation of any argument vector with any argument-file lines and any
    environment words, for any configuration and any initial values: the only
    outcomes are a normal return or an exception - never an out-of-bounds
    access, never an endless loop (fuel is never exhausted). *)
Theorem C04_evaluation_total :
  forall c inits lines env argv, nofault (eval_arguments c inits lines env argv).
Proof. exact eval_arguments_nofault. Qed.
Print Assumptions C04_evaluation_total.

Theorem C04_sources_total :
  forall c inits file env argv, nofault (eval_sources c inits file env argv).
Proof. exact eval_sources_nofault. Qed.
Print Assumptions C04_sources_total.

(** ... with an argument that names an argument file (ArgH/ArgFile.v): for ANY
    words and ANY set of named files - files that name themselves or each
    other included - the evaluation comes back (iterator invariant, loop
    measure, and the limit on the number of argument files open at a time).
    The pinned code had no such limit: a file that names itself recursed until
    the stack was exhausted (found here, repaired: "fix: an argument file that
    names itself no longer ends in a stack overflow"); now it is refused. *)
Theorem C04_named_files_total :
  forall c af inits file env argv, nofault (eval_sources_af c af inits file env argv).
Proof. exact eval_sources_af_nofault. Qed.
Print Assumptions C04_named_files_total.

Theorem C04_self_including_file_refused :
  eval_sources_af self_cfg self_af [VStr []] None None [[45; 45; 97; 114; 103; 45; 102; 105; 108; 101]; [102]]%N
  = Err ERuntime.
Proof. exact self_including_file_refused. Qed.
Print Assumptions C04_self_including_file_refused.

(** ... and with sub-group arguments (ArgH/SubGroup.v): for ANY words, any
    main handler and any sub-group handlers the evaluation comes back *)
Theorem C04_subgroups_total :
  forall c inits sub_inits argv, nofault (eval_sg false c inits sub_inits argv).
Proof. exact eval_sg_nofault. Qed.
Print Assumptions C04_subgroups_total.

(** ... through an argument group (Groups::evalArguments), with plain member
    handlers and with members that own sub-group arguments: evaluation of ANY
    words by ANY group is total - no read outside a word, the loop fuel (the
    total length of the words) is never exhausted. *)
Theorem C04_groups_total :
  forall cs initss argv, nofault (eval_group false false cs initss argv).
Proof. exact eval_group_nofault. Qed.
Print Assumptions C04_groups_total.

Theorem C04_groups_with_subgroups_total :
  forall cs inits argv, nofault (eval_group_sg cs inits argv).
Proof. exact eval_group_sg_nofault. Qed.
Print Assumptions C04_groups_with_subgroups_total.

(** the hand-sized buffers: the program-name copy holds the terminator (after
    the repair; the pinned size overflows by one byte for every name), the
    pointer array of ArgString2Array has room for every word and the nullptr *)
Theorem C04_progname_copy_safe :
  forall arg0, copy_progname false arg0 = Ok tt /\ copy_progname true arg0 = Fault OOBWrite.
Proof. exact copy_progname_spec. Qed.
Print Assumptions C04_progname_copy_safe.

Theorem C04_arg_array_safe :
  forall with_progname nwords, nofault (arg_array with_progname nwords).
Proof. exact arg_array_nofault. Qed.
Print Assumptions C04_arg_array_safe.

Example C04_nonvacuous :
  it_ok (mk [[45; 45; 97; 61]; [45]]%N 0 false false) /\
  nofault (first [[45; 45; 97; 61]; [45]; [45; 45]; [61; 61]; [40]]%N).
Proof. split; [right|]; vm_compute; auto. Qed.
