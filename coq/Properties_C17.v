(** C17  Text-block formatting preserves the words and respects indentation and width.
    Only statements; every proof is [exact <lemma of Text/TextBlockProofs.v>].

    [format ind width first txt] is the text celma::format::TextBlock( ind,
    width, first).format( os, txt) writes, [format_lines] the same as a list of
    lines.  Vocabulary (Text/TextBlockProofs.v):
      [words s]        the blank-separated pieces of the newline-separated pieces of s
      [not_nn w]       w is not the forced-break token "nn"
      [pref p l]       l starts with p
      [wok w ind off l]  length l + off <= w, or l holds exactly one word, or l holds
                       no word and w <= ind (the indentation alone fills the width)
      [block_ok line b]  b is a non-empty group of lines whose words are exactly the
                       words of [line] without "nn", in order *)
From Coq Require Import List Arith NArith.
Import ListNotations.
Require Import Celma.Text.TextBlockModel Celma.Text.TextBlockProofs.

(** The characters written, cut at the newlines, are exactly [format_lines]
    (no line contains a newline); nothing at all is written exactly when the
    text has no non-empty line. *)
Theorem C17_output_lines :
  forall ind width first txt,
    (format_lines ind width first txt <> [] ->
     split NL (format ind width first txt) = format_lines ind width first txt) /\
    (format_lines ind width first txt = [] ->
     format ind width first txt = [] /\ tokens NL txt = []).
Proof. exact tb_output_lines. Qed.
Print Assumptions C17_output_lines.

(** No word is lost, duplicated, reordered or split; "nn" is consumed. *)
Theorem C17_words_preserved :
  forall ind width first txt,
    words (format ind width first txt) =
    filter (fun w => negb (str_eqb w NN)) (words txt).
Proof. exact tb_words_preserved. Qed.
Print Assumptions C17_words_preserved.

(** Explicit newlines always start a new line: the output lines are the
    concatenation of one non-empty group of lines per non-empty input line, and
    each group holds exactly the words of its input line. *)
Theorem C17_newlines :
  forall ind width first txt,
    exists blocks,
      format_lines ind width first txt = concat blocks /\
      Forall2 (fun line b =>
                 b <> [] /\
                 flat_map (tokens SP) b =
                 filter (fun w => negb (str_eqb w NN)) (tokens SP line))
              (tokens NL txt) blocks.
Proof. exact tb_newlines. Qed.
Print Assumptions C17_newlines.

(** Every output line starts with the indentation, the first one when requested. *)
Theorem C17_indent :
  forall ind width first txt,
    match format_lines ind width first txt with
    | [] => True
    | l :: r =>
        (first = true -> exists rest, l = repeat SP ind ++ rest) /\
        Forall (fun l => exists rest, l = repeat SP ind ++ rest) r
    end.
Proof. exact tb_indent. Qed.
Print Assumptions C17_indent.

(** No line is longer than the width unless it holds a single word (the first
    line counts the [ind] characters the caller has already written when it is
    not indented here).  The third alternative of [wok] - a line without any
    word - only exists when the indentation alone reaches the width. *)
Theorem C17_width :
  forall ind width first txt,
    match format_lines ind width first txt with
    | [] => True
    | l :: r =>
        (length l + (if first then 0 else ind) <= width \/
         length (tokens SP l) = 1 \/
         (width <= ind /\ tokens SP l = [])) /\
        Forall (fun l => length l + 0 <= width \/
                         length (tokens SP l) = 1 \/
                         (width <= ind /\ tokens SP l = [])) r
    end.
Proof. exact tb_width. Qed.
Print Assumptions C17_width.

Theorem C17_width_single_word :
  forall ind width first txt,
    ind < width ->
    match format_lines ind width first txt with
    | [] => True
    | l :: r =>
        (length l + (if first then 0 else ind) <= width \/ length (tokens SP l) = 1) /\
        Forall (fun l => length l <= width \/ length (tokens SP l) = 1) r
    end.
Proof. exact tb_width_single_word. Qed.
Print Assumptions C17_width_single_word.

(** Non-vacuity: a list line that wraps with the two extra blanks, a forced
    break inside the list item, an explicit newline, and a word that cannot fit
    (it gets a line of its own, longer than the width). *)
Definition s_ (l : list nat) : list N := map N.of_nat l.
Example C17_nonvacuous_wrap :
  (* "- ab cd nn ef\nlongword x" with indent 1, width 7 *)
  format_lines 1 7 true
    (s_ [45;32;97;98;32;99;100;32;110;110;32;101;102;10;108;111;110;103;119;111;114;100;32;120]) =
  [ s_ [32;45;32;97;98];          (* " - ab"   *)
    s_ [32;32;32;99;100];         (* "   cd"   *)
    s_ [32;32;32;101;102];        (* "   ef"   (blank of the nn trick + blank before the word) *)
    s_ [32];                      (* " "       the word does not fit after the indentation ... *)
    s_ [32;108;111;110;103;119;111;114;100];   (* " longword": 9 > 7, single word *)
    s_ [32;120] ].                (* " x" *)
Proof. vm_compute. reflexivity. Qed.
