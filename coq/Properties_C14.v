From Coq Require Import List Arith NArith.
Import ListNotations.
Require Import Celma.Common.Res Celma.Log.FilterOpsGen Celma.Log.FilterModel.

Theorem C14_stub : forall m l c, filter_pass (FMax m) (l, c) = Ok (l <=? m).
Proof. reflexivity. Qed.
Print Assumptions C14_stub.
