(** C14  A log message reaches exactly the destinations whose filters it passes.
    Only statements; every proof is [exact <lemma of Log/FilterProofs.v>].
    Levels and classes are the enumerator values (0 = undefined ... 6); the
    comparison operators, the enum orders, the class texts and the declared size
    of the class bitset are regenerated from the C++ source (Log/FilterOpsGen.v):
    a changed operator or bitset size makes these statements unprovable. *)
From Coq Require Import List Arith NArith Bool String.
Import ListNotations.
Require Import Celma.Common.Res Celma.Log.FilterOpsGen Celma.Log.FilterModel Celma.Log.FilterProofs.

(** Maximum-, minimum- and exact-level filters accept precisely the levels they
    name - for every level (not only the seven enumerators) and every class. *)
Theorem C14_filter_accepts_exactly_levels :
  forall x l c,
    filter_pass (FMax x) (l, c) = Ok (l <=? x) /\
    filter_pass (FMin x) (l, c) = Ok (x <=? l) /\
    filter_pass (FLevel x) (l, c) = Ok (l =? x).
Proof. intros. repeat split. Qed.
Print Assumptions C14_filter_accepts_exactly_levels.

(** Class-list filter, every list of tokens (any order, repetitions, any spelling
    text2logClass accepts): the filter can be constructed exactly when there is at
    least one token and every token names a class other than "undefined"; it then
    accepts precisely the classes named, for each of the seven classes. *)
Theorem C14_filter_accepts_exactly_classes :
  forall toks,
    (Forall (fun t => text2logclass t <> 0) toks /\ toks <> [] ->
       exists b, make_classes_tokens toks = Ok (FClasses b) /\ filter_wf (FClasses b) /\
                 forall l c, c < 7 -> filter_pass (FClasses b) (l, c) = Ok (names_class toks c)) /\
    (Exists (fun t => text2logclass t = 0) toks \/ toks = [] ->
       make_classes_tokens toks = Err ERuntime).
Proof. exact classes_tokens_exact. Qed.
Print Assumptions C14_filter_accepts_exactly_classes.

(** ... and from the text: every subset of the six real classes, written as the
    comma separated list of the class names, selects exactly that subset; the empty
    list is refused (finite domain: 64 subsets x 7 classes, by computation). *)
Theorem C14_filter_accepts_exactly_class_subsets :
  forall mask,
    List.length mask = 6 ->
    let r := make_classes (join_comma (mask_names mask)) in
    (existsb (fun x => x) mask = true ->
       exists f, r = Ok f /\ forall l c, c < 7 -> filter_pass f (l, c) = Ok (mask_selects mask c)) /\
    (existsb (fun x => x) mask = false -> r = Err ERuntime).
Proof. exact classes_subsets_exact. Qed.
Print Assumptions C14_filter_accepts_exactly_class_subsets.

(** Every class other than "undefined" can be named: the filter built from its text
    exists and accepts exactly that class. *)
Theorem C14_classes_parse_total :
  forall c, 1 <= c <= 6 ->
    exists f, make_classes (class_text c) = Ok f /\
              forall l c', c' < 7 -> filter_pass f (l, c') = Ok (c' =? c).
Proof. exact classes_parse_total. Qed.
Print Assumptions C14_classes_parse_total.

(** The cheap level pre-check never refuses a level of which a message passes the
    full filters: for every history of settings (every type, parameter and duplicate
    policy, refused settings included) on a Filters object, for every message. *)
Theorem C14_precheck_sound :
  forall (h : list (policy * setting)) (m : msg),
    snd m < 7 ->
    pass (apply_settings new_filters h) m = Ok true ->
    process_level (apply_settings new_filters h) (fst m) = Ok true.
Proof. exact precheck_sound. Qed.
Print Assumptions C14_precheck_sound.

(** The duplicate policy decides what a second setting of a filter type does. *)
Theorem C14_duplicate_policy_ignore :
  forall s fs i,
    find_type (setting_type s) (fl fs) 0 = Some i ->
    exists fs', check_set_filter PIgnore s fs = Ok fs' /\ fl fs' = fl fs.
Proof. exact dup_ignore. Qed.
Print Assumptions C14_duplicate_policy_ignore.

Theorem C14_duplicate_policy_exception :
  forall s fs i,
    find_type (setting_type s) (fl fs) 0 = Some i ->
    check_set_filter PException s fs = Err ERuntime.
Proof. exact dup_exception. Qed.
Print Assumptions C14_duplicate_policy_exception.

(** replace: the new filter takes the place of the old one; when the new filter
    cannot be constructed the call fails and (a failing call leaves the object as it
    was) the old filter stays in effect - never a fault. *)
Theorem C14_duplicate_policy_replace :
  forall s fs i,
    find_type (setting_type s) (fl fs) 0 = Some i ->
    match make_filter s with
    | Ok f => exists fs', check_set_filter PReplace s fs = Ok fs' /\ fl fs' = replace_nth i f (fl fs)
    | Err e => check_set_filter PReplace s fs = Err e
    | Fault x => False
    end.
Proof. exact dup_replace. Qed.
Print Assumptions C14_duplicate_policy_replace.

(** with one filter per type (invariant [FInv]) the filters in effect after a
    replacement are the new one and the old ones of the other types *)
Theorem C14_duplicate_policy_replace_members :
  forall (l : list filter) i f g,
    NoDup (map filter_type l) -> nth_error (map filter_type l) i = Some (filter_type f) ->
    (In g (replace_nth i f l) <-> g = f \/ (In g l /\ filter_type g <> filter_type f)).
Proof. exact replace_nth_members. Qed.
Print Assumptions C14_duplicate_policy_replace_members.

(** The policy is the configured one: after setDuplicatePolicy( p), whatever logs
    and destinations are created and whatever filters are set afterwards, a repeated
    setting on a log is answered as p says. *)
Theorem C14_configured_policy_decides :
  forall w p ops ln s i d k,
    forallb (fun o => negb (is_policy_op o)) ops = true ->
    let w1 := fst (run (set_policy p w) ops) in
    find_log ln (logs w1) 0 = Some (i, d) ->
    find_type (setting_type s) (fl (lfil (llog d))) 0 = Some k ->
    match p with
    | PIgnore => exists w2, step w1 (OSet (TgLog ln) s) = (w2, ROk) /\
                   exists d2, nth_error (logs w2) i = Some d2 /\ fl (lfil (llog d2)) = fl (lfil (llog d))
    | PException => step w1 (OSet (TgLog ln) s) = (w1, RErr ERuntime)
    | PReplace =>
        match make_filter s with
        | Ok f => exists w2, step w1 (OSet (TgLog ln) s) = (w2, ROk) /\
                   exists d2, nth_error (logs w2) i = Some d2 /\
                              fl (lfil (llog d2)) = replace_nth k f (fl (lfil (llog d)))
        | Err e => step w1 (OSet (TgLog ln) s) = (w1, RErr e)
        | Fault _ => False
        end
    end.
Proof. exact configured_policy_decides. Qed.
Print Assumptions C14_configured_policy_decides.

(** Every world reachable by any history of operations satisfies the invariant the
    routing theorems need (distinct id bits and names, one filter per type, cached
    level filter inside the list, bitsets of the declared size). *)
Theorem C14_reachable_invariant :
  forall ops, WInv (fst (run init_world ops)).
Proof. intros. apply run_inv, init_world_inv. Qed.
Print Assumptions C14_reachable_invariant.

(** Routing: the deliveries of a message sent to an id mask are, as a list (each
    exactly once, in order), the destinations d of the selected logs L, in creation
    order, such that the message passes every filter of L and every filter of d. *)
Theorem C14_routing_exact :
  forall ops ids m,
    snd m < 7 ->
    let w := fst (run init_world ops) in
    log_ids (logs w) ids m =
    Ok (flat_map (fun ld =>
          if N.testbit ids (N.of_nat (lbit ld)) && forallb (fun f => filter_accepts f m) (fl (lfil (llog ld)))
          then map (fun d => (lname ld, dname d))
                   (List.filter (fun d => forallb (fun f => filter_accepts f m) (fl (dfil d))) (ldests (llog ld)))
          else []) (logs w)).
Proof.
  intros ops ids m H w. unfold w. rewrite routing_exact; [|apply run_inv, init_world_inv|exact H].
  f_equal. unfold expected_deliveries, log_deliveries, selected, pass_b.
  apply flat_map_ext. intros ld. destruct (N.testbit _ _); reflexivity.
Qed.
Print Assumptions C14_routing_exact.

Theorem C14_routing_by_name :
  forall ops name m,
    snd m < 7 ->
    let w := fst (run init_world ops) in
    log_name (logs w) name m =
    Ok (flat_map (fun ld => if String.eqb name (lname ld) then log_deliveries ld m else []) (logs w)).
Proof. intros. apply routing_by_name; [apply run_inv, init_world_inv|assumption]. Qed.
Print Assumptions C14_routing_by_name.

(** discard_by_level (the test in front of the LOG_LEVEL macros): when it says
    "discard", sending the message would have delivered it nowhere. *)
Theorem C14_precheck_never_discards_deliverable :
  forall ops l c,
    c < 7 ->
    let w := fst (run init_world ops) in
    (forall ids, discard_id (logs w) ids l = Ok true -> log_ids (logs w) ids (l, c) = Ok []) /\
    (forall name, discard_name (logs w) name l = Ok true -> log_name (logs w) name (l, c) = Ok []).
Proof.
  intros ops l c H w. split; intros x D.
  - apply discard_id_sound; auto. apply run_inv, init_world_inv.
  - apply discard_name_sound; auto. apply run_inv, init_world_inv.
Qed.
Print Assumptions C14_precheck_never_discards_deliverable.

(** Addressing by name.  For every history of operations - every set of logs in
    every creation order, names that are prefixes of each other included - the log
    found for a name (getLog( name), used by GET_LOG and by the level pre-check of
    the macros) is the log with exactly that name; sending by name delivers what
    sending to the id of that log delivers; the pre-check by name answers what the
    pre-check by that id answers.  For a name no log has: no log, nothing delivered,
    the pre-check discards. *)
Theorem C14_by_name_is_by_id :
  forall ops name m,
    snd m < 7 ->
    let w := fst (run init_world ops) in
    (forall ld, In ld (logs w) -> lname ld = name ->
       get_log_name (logs w) name = Some ld /\
       log_name (logs w) name m = log_ids (logs w) (id_of_bit (lbit ld)) m /\
       discard_name (logs w) name (fst m) = discard_id (logs w) (id_of_bit (lbit ld)) (fst m)) /\
    ((forall ld, In ld (logs w) -> lname ld <> name) ->
       get_log_name (logs w) name = None /\ log_name (logs w) name m = Ok [] /\
       discard_name (logs w) name (fst m) = Ok true /\ macro_name (logs w) name m = Ok []).
Proof.
  intros ops name m H w. split.
  - intros ld I E. apply by_name_is_by_id; auto. apply run_inv, init_world_inv.
  - intros NN. apply unknown_name. intros I. apply in_map_iff in I.
    destruct I as [ld [E I]]. exact (NN ld I E).
Qed.
Print Assumptions C14_by_name_is_by_id.

(** The level-guarded macros (LOG_LEVEL( a, l) << class << text = pre-check, then
    StreamLog -> Logging::log): for a log addressed by name or by its id they deliver
    exactly what the unguarded send delivers, and by name = by id. *)
Theorem C14_macro_path_exact :
  forall ops name ld m,
    snd m < 7 -> name <> EmptyString ->
    let w := fst (run init_world ops) in
    In ld (logs w) -> lname ld = name ->
    macro_name (logs w) name m = log_name (logs w) name m /\
    macro_ids (logs w) (id_of_bit (lbit ld)) m = log_ids (logs w) (id_of_bit (lbit ld)) m /\
    macro_name (logs w) name m = macro_ids (logs w) (id_of_bit (lbit ld)) m.
Proof.
  intros ops name ld m H NE w I E.
  assert (WI : WInv w) by apply run_inv, init_world_inv.
  split; [now apply macro_name_exact|]. split; [now apply macro_ids_exact|].
  now apply macro_by_name_is_by_id.
Qed.
Print Assumptions C14_macro_path_exact.

(* ------------------------------------------------------------------ *)
(** The pinned tree violated the property in three places; witnesses on the
    functions that mirror the pinned code (also corpus cases of the generator,
    confirmed on the real code through the harness). *)

(** 1. std::bitset< operatorAction>: the class "Operator Action" cannot be named *)
Example C14_pinned_refuted_operator_action :
  make_classes_pinned (class_text 6) = Err EOutOfRange /\
  exists f, make_classes (class_text 6) = Ok f /\ filter_pass f (1, 6) = Ok true.
Proof. split; [vm_compute; reflexivity|]. eexists. split; vm_compute; reflexivity. Qed.

(** 2. every Filters constructor reset the configured policy *)
Example C14_pinned_refuted_policy_reset :
  ctor_policy_pinned (Some PReplace) = Some PIgnore /\ ctor_policy (Some PReplace) = Some PReplace.
Proof. split; reflexivity. Qed.

(** 3. replace with a class list that is refused: the old filter was deleted first,
    the next pass() uses the dangling pointer *)
Example C14_pinned_refuted_replace_dangling :
  let '(l, e) := replace_pinned (make_filter (SClasses EmptyString)) 0 [Some (FClasses (repeat true 7))] in
  e = Some ERuntime /\ pass_list_pinned l (1, 2) = Fault BadFree.
Proof. vm_compute. split; reflexivity. Qed.

(** Non-vacuity: a concrete history exercising replace, ignore, the cached level
    filter and two logs. *)
Example C14_nonvacuous :
  let ops := [ONewLog "a"; OAddDest "a" "x"; ONewLog "b"; OAddDest "b" "y"; OAddDest "b" "z";
              OPolicy PReplace; OSet (TgLog "a") (SMax 2); OSet (TgLog "a") (SMax 4);
              OSet (TgDest "b" "y") (SClasses "Data,Operator Action");
              OPolicy PIgnore; OSet (TgLog "a") (SMin 1); OSet (TgLog "a") (SMin 5)]%string in
  let w := fst (run init_world ops) in
  log_ids (logs w) 3 (3, 6) = Ok [("a", "x"); ("b", "y"); ("b", "z")]%string /\
  log_ids (logs w) 3 (5, 1) = Ok [("b", "z")]%string /\
  discard_id (logs w) 1 0 = Ok true /\ discard_id (logs w) 1 3 = Ok false /\
  discard_id (logs w) 3 3 = Err ERuntime.
Proof. vm_compute. repeat split; reflexivity. Qed.

(** Non-vacuity for the names: "net.debug" is created before its prefix "net", the two
    logs have different level filters; by name each log answers for itself. *)
Example C14_nonvacuous_prefix_names :
  let ops := [ONewLog "net.debug"; OAddDest "net.debug" "x"; ONewLog "net"; OAddDest "net" "y";
              ONewLog "n"; OAddDest "n" "z";
              OSet (TgLog "net.debug") (SMin 5); OSet (TgLog "net") (SMax 2);
              OSet (TgLog "n") (SLevel 4)]%string in
  let w := fst (run init_world ops) in
  macro_name (logs w) "net" (1, 1) = Ok [("net", "y")]%string /\
  macro_ids (logs w) 2 (1, 1) = Ok [("net", "y")]%string /\
  macro_name (logs w) "net.debug" (1, 1) = Ok [] /\
  macro_name (logs w) "net.debug" (6, 1) = Ok [("net.debug", "x")]%string /\
  macro_name (logs w) "n" (4, 3) = Ok [("n", "z")]%string /\
  macro_name (logs w) "ne" (4, 3) = Ok [] /\
  discard_name (logs w) "net" 1 = Ok false /\ discard_name (logs w) "net.debug" 1 = Ok true.
Proof. vm_compute. repeat split; reflexivity. Qed.
