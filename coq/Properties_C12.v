(** C12  Dynamic bitset behaves like a growable reference bit vector.
    Only statements; every proof is [exact <lemma of Bitset/BsProofs.v>].

    Model: Bitset/BsModel.v (storage = list bool, checked accesses, loops and
    guards of dynamic_bitset.cpp / dynamic_bitset_iterator.hpp, with
    fixes/C12-1..3 applied; the members those patches change are kept in their
    pinned form as [*_pinned]).
    Reference: Bitset/BsSpec.v ([rbv] = size + function position -> bit, every
    operation restated without storage; [positions] = ascending set positions). *)
From Coq Require Import List Arith NArith ZArith Bool.
Import ListNotations.
Require Import Celma.Common.Res Celma.Bitset.BsModel Celma.Bitset.BsSpec Celma.Bitset.BsProofs.

(** After ANY sequence of operations, started from any bitset [d] that stores a
    reference vector [r]: the model never faults (no access outside the
    storage), every step returns what the reference returns (value or exception),
    and after every step - and at the end - all observers agree with the
    reference: size, test and const [] at every position (out_of_range included),
    count, any, none, all, to_string, to_ulong (overflow_error included), ==
    against every operand, and the three iteration orders. *)
Theorem C12_observers_agree :
  forall ops d r outs d',
    repr d r -> run d ops = (outs, d') ->
    exists routs r', rrun r ops = (routs, r') /\
      Forall2 sout_agree outs routs /\ repr d' r' /\ obs_agree d' r' /\
      length outs = length ops /\ (forall f, ~ In (SFault f) outs).
Proof. exact run_spec. Qed.
Print Assumptions C12_observers_agree.

(** Every way of constructing a bitset yields one that stores a reference
    vector, so the theorem above applies to every history from construction. *)
Theorem C12_constructed_has_reference :
  (forall l, repr l (of_list l)) /\
  (forall n, repr (m_ctor n) {| rsize := n; rbit := fun _ => false |}).
Proof. split; [exact of_list_repr|exact ctor_repr]. Qed.
Print Assumptions C12_constructed_has_reference.

(** One state: storing a reference vector is enough for all observers to agree. *)
Theorem C12_observers_of_state : forall d r, repr d r -> obs_agree d r.
Proof. exact repr_obs_agree. Qed.
Print Assumptions C12_observers_of_state.

(** Compound assignment = binary operator, for every operand and every shift
    distance, and none of them leaves the storage. *)
Theorem C12_compound_eq_binary :
  forall d o n,
    (m_and_assign d o = m_and d o /\ exists d', m_and d o = Ok d') /\
    (m_or_assign d o = m_or d o /\ exists d', m_or d o = Ok d') /\
    (m_xor_assign d o = m_xor d o /\ exists d', m_xor d o = Ok d') /\
    (m_shl_assign d n = m_shl d n /\ exists d', m_shl d n = Ok d') /\
    (m_shr_assign d n = m_shr d n /\ exists d', m_shr d n = Ok d').
Proof. exact compound_eq_binary. Qed.
Print Assumptions C12_compound_eq_binary.

(** Forward iteration (range-for) visits exactly the set positions in ascending
    order, reverse iteration (rbegin..rend) and walking back from end() with
    operator-- visit them in descending order.  The result is [Ok]: the loops end
    within size+1 steps (no [Fault Fuel]) and no [test] is made outside
    [0,size) (it would be [Err], see C12_iter_test_outside). *)
Theorem C12_iteration :
  forall d r, repr d r ->
    iter_fwd d = Ok (map Z.of_nat (positions r)) /\
    iter_rev d = Ok (map Z.of_nat (rev (positions r))) /\
    iter_back d = Ok (map Z.of_nat (rev (positions r))).
Proof. exact iteration_spec. Qed.
Print Assumptions C12_iteration.

Theorem C12_positions_exact :
  forall r i, In i (positions r) <-> i < rsize r /\ rbit r i = true.
Proof. exact positions_sound. Qed.
Print Assumptions C12_positions_exact.

(** None for an empty or all-zero bitset. *)
Theorem C12_iteration_nothing :
  forall d, (forall i, nth i d false = false) ->
    iter_fwd d = Ok [] /\ iter_rev d = Ok [] /\ iter_back d = Ok [].
Proof. exact iteration_nothing. Qed.
Print Assumptions C12_iteration_nothing.

(** What a test outside [0,size) inside an iterator would do: throw. *)
Theorem C12_iter_test_outside :
  forall d p, ult_size p d = false -> it_test d p = Err EOutOfRange.
Proof. exact it_test_outside. Qed.
Print Assumptions C12_iter_test_outside.

(** set / reset / flip / non-const [] at ANY position (in particular at or
    beyond the size) end normally with the position inside the bitset, the size
    not smaller than before and the addressed bit as asked. *)
Theorem C12_grow_never_faults :
  forall d pos v,
    (exists d', m_set d pos v = Ok d' /\ pos < length d' /\ length d <= length d' /\ nth pos d' false = v) /\
    (exists d', m_reset d pos = Ok d' /\ pos < length d' /\ length d <= length d' /\ nth pos d' false = false) /\
    (exists d', m_flip d pos = Ok d' /\ pos < length d' /\ length d <= length d' /\
                nth pos d' false = negb (nth pos d false)) /\
    (exists d', m_index_write d pos v = Ok d' /\ pos < length d' /\ length d <= length d' /\ nth pos d' false = v) /\
    (exists d', m_index_read d pos = Ok (d', nth pos d false) /\ pos < length d' /\ length d <= length d').
Proof. exact grow_never_faults. Qed.
Print Assumptions C12_grow_never_faults.

(** Read-only access at or beyond the size throws out_of_range, below it
    returns the bit. *)
Theorem C12_readonly_throws :
  forall d pos,
    (length d <= pos -> m_test d pos = Err EOutOfRange /\ m_index_const d pos = Err EOutOfRange) /\
    (pos < length d -> m_test d pos = Ok (nth pos d false) /\ m_index_const d pos = Ok (nth pos d false)).
Proof. exact readonly_access. Qed.
Print Assumptions C12_readonly_throws.

(** to_ulong's accumulation cannot wrap. *)
Theorem C12_to_ulong_bound : forall d n, m_to_ulong d = Ok n -> (n < 2 ^ 64)%N.
Proof. exact to_ulong_bound. Qed.
Print Assumptions C12_to_ulong_bound.

(* ------------------------------------------------------------------ *)
(** * The pinned tree violates the property in three places (repaired by
      fixes/C12-1..3; the witnesses are corpus cases of props/C12.py) *)

(** range-for / rbegin() on an empty bitset: out_of_range instead of nothing *)
Theorem C12_pinned_iterate_empty_refuted :
  exists d, (forall i, nth i d false = false) /\
            iter_fwd_pinned d <> Ok [] /\ iter_rev_pinned d <> Ok [].
Proof. exists []. split; [intros [|i]; reflexivity|]. split; vm_compute; discriminate. Qed.
Print Assumptions C12_pinned_iterate_empty_refuted.

(** >>= by more than the size leaves the bits, >> clears them *)
Theorem C12_pinned_shr_assign_refuted :
  exists d n, m_shr_assign_pinned d n <> m_shr d n.
Proof. exists [true; true; true; true], 6. vm_compute. discriminate. Qed.
Print Assumptions C12_pinned_shr_assign_refuted.

(** ... for every bitset and every distance beyond its size it is a no-op *)
Theorem C12_pinned_shr_assign_noop :
  forall d n, length d < n -> m_shr_assign_pinned d n = Ok d.
Proof. exact m_shr_assign_pinned_beyond. Qed.
Print Assumptions C12_pinned_shr_assign_noop.

(** reset / flip / [] at position = size touch the storage outside, for every bitset *)
Theorem C12_pinned_grow_guard_refuted :
  forall d,
    m_reset_pinned d (length d) = Fault OOBWrite /\
    m_flip_pinned d (length d) = Fault OOBRead /\
    (forall v, m_index_write_pinned d (length d) v = Fault OOBWrite) /\
    m_index_read_pinned d (length d) = Fault OOBRead /\
    m_index_const_pinned d (length d) = Fault OOBRead.
Proof. exact pinned_guard_faults. Qed.
Print Assumptions C12_pinned_grow_guard_refuted.

(* ------------------------------------------------------------------ *)
(** * Non-vacuity *)

(** a history across growth, shifts beyond the size and the binary operators *)
Example C12_nonvacuous_history :
  let '(outs, d') := run [true; false; true]
       [OSet 7 true; OFlip 12; OShrA 30; OOrA [true; true]; OShlA 3; OReset 40; OTest 100; OIdx 61] in
  length outs = 8 /\ length d' = 61 /\ iter_fwd d' = Ok [3; 4]%Z /\ iter_rev d' = Ok [4; 3]%Z.
Proof. vm_compute. repeat split; reflexivity. Qed.

Example C12_nonvacuous_shift_beyond :
  m_shr_assign [true; true; true; true] 6 = Ok [false; false; false; false] /\
  m_shr [true; true; true; true] 6 = Ok [false; false; false; false].
Proof. vm_compute. split; reflexivity. Qed.

Example C12_nonvacuous_pos_eq_size :
  m_reset [true; true] 2 = Ok [true; true; false; false] /\
  m_flip [true; true] 2 = Ok [true; true; true; false] /\
  m_index_const [true; true] 2 = Err EOutOfRange.
Proof. vm_compute. repeat split; reflexivity. Qed.

Example C12_nonvacuous_iterate_empty :
  iter_fwd [] = Ok [] /\ iter_rev [] = Ok [] /\ iter_back [] = Ok [] /\
  iter_fwd (repeat false 70) = Ok [].
Proof. vm_compute. repeat split; reflexivity. Qed.
