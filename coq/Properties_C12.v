(** C12 (stub, theorems follow) *)
From Coq Require Import List Arith NArith ZArith.
Require Import Celma.Common.Res Celma.Bitset.BsModel.
