(** Extraction of the runnable C12 model (ExtrOcamlBasic only; nat, N and Z stay
    extracted datatypes).  Run by make with the current directory coq/. *)
From Coq Require Import Extraction ExtrOcamlBasic.
Require Import Celma.Common.Res Celma.Bitset.BsModel.
Extraction Language OCaml.
Extraction "../ocaml/gen/c12_model.ml"
  step step_pinned m_size m_to_string m_count m_any m_none m_all m_to_ulong
  iter_fwd iter_rev iter_back iter_fwd_pinned iter_rev_pinned.
