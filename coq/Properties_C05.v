(** C05  A key designates exactly one argument, independent of definition order.
    Only statements; proofs are [exact <lemma of ArgH/TableProofs.v>]. *)
From Coq Require Import List NArith Bool Permutation.
Import ListNotations.
Require Import Celma.Common.Res Celma.ArgH.Key Celma.ArgH.Table Celma.ArgH.TableProofs
               Celma.ArgH.TableOps Celma.ArgH.TableOpsProofs
               Celma.ArgH.Lex Celma.ArgH.Handler Celma.ArgH.SubGroup Celma.ArgH.SubGroupProofs.

(** What the definition-time test ([==] or [mismatch] of ArgumentKey) means:
    the short key or the long key is already taken - which includes a
    short/long pair that contradicts an existing pair. *)
Theorem C05_conflict_means_taken :
  forall a b, key_wf a -> key_wf b ->
    (key_eq a b = true \/ key_mismatch a b = true) <-> (same_short a b \/ same_long a b).
Proof. exact key_conflict_iff. Qed.
Print Assumptions C05_conflict_means_taken.

(** Defining an argument is accepted exactly when no existing entry conflicts
    with its key, and the table stays conflict-free; otherwise it is refused
    (invalid_argument) - for every table and key. *)
Theorem C05_add_refuses_taken :
  forall (A : Type) (t : @table A) k a,
    table_ok t ->
    (exists t', add_argument t k a = Ok t' /\ t' = t ++ [(k, a)] /\ table_ok t' /\
       Forall (fun e => ok_pair e (k, a)) t)
    \/ (add_argument t k a = Err EInvalidArgument /\
        exists e, In e t /\ (key_eq (fst e) k = true \/ key_mismatch (fst e) k = true)).
Proof. exact @add_argument_spec. Qed.
Print Assumptions C05_add_refuses_taken.

(** An exact key (a short key alone or a long key alone, as typed on the command
    line) selects its own argument in every definition order, whatever other
    long keys it is a prefix of, with abbreviations enabled or disabled. *)
Theorem C05_exact_key_order_independent :
  forall (A : Type) abbr (defs : list (key * A)) t t' k ka a,
    build [] defs = Ok t -> Permutation t t' ->
    typed_key k -> In (ka, a) t -> key_eq ka k = true ->
    find_arg abbr t' k = Ok (Some a).
Proof. exact @find_exact_order_independent. Qed.
Print Assumptions C05_exact_key_order_independent.

(** A key that is nobody's exact key: selected iff abbreviations are enabled and
    exactly one long key starts with it; ambiguous (runtime_error) when several
    do; unknown otherwise. *)
Theorem C05_prefix :
  forall (A : Type) abbr (t : @table A) k,
    Forall (fun e : key * A => key_eq (fst e) k = false) t ->
    find_arg abbr t k =
    match map snd (filter (fun e : key * A => abbr && key_starts_with (fst e) k) t) with
    | [] => Ok None
    | [x] => Ok (Some x)
    | _ :: _ :: _ => Err ERuntime
    end.
Proof. exact @find_prefix. Qed.
Print Assumptions C05_prefix.

Theorem C05_prefix_abbr_disabled :
  forall (A : Type) (t : @table A) k,
    Forall (fun e : key * A => key_eq (fst e) k = false) t -> find_arg false t k = Ok None.
Proof. exact @find_abbr_disabled. Qed.
Print Assumptions C05_prefix_abbr_disabled.

(** ... and that verdict does not depend on the definition order either. *)
Theorem C05_prefix_order_independent :
  forall (A : Type) abbr (t t' : @table A) k,
    Permutation t t' ->
    Forall (fun e : key * A => key_eq (fst e) k = false) t ->
    match find_arg abbr t k, find_arg abbr t' k with
    | Ok None, Ok None => True
    | Ok (Some a), Ok (Some a') => a = a'
    | Err e, Err e' => e = e'
    | _, _ => False
    end.
Proof. exact @find_prefix_order_independent. Qed.
Print Assumptions C05_prefix_order_independent.

(** The findArg of the pinned tree (before the repair "fix: findArg ...") violates
    the property: witness input, input-file, input-dir. *)
Theorem C05_pinned_findArg_refuted :
  let t1 := [(lk s_input, 1); (lk s_input_file, 2); (lk s_input_dir, 3)] in
  let t2 := [(lk s_input_file, 2); (lk s_input_dir, 3); (lk s_input, 1)] in
  Permutation t1 t2 /\ table_ok t1 /\
  find_arg_pinned true t1 (lk s_input) None = Ok (Some 1) /\
  find_arg_pinned true t2 (lk s_input) None = Err ERuntime /\
  find_arg true t2 (lk s_input) = Ok (Some 1).
Proof. exact find_arg_pinned_order_dependent. Qed.
Print Assumptions C05_pinned_findArg_refuted.

(** Definitions and look-ups in any interleaving on one handler (a program may
    ask for an argument before all arguments are defined): the answer to a
    look-up is [find_arg] on the table of the definitions accepted before it;
    earlier look-ups leave no trace in later answers or in the table - so all
    theorems above hold at every point of such a sequence.  (Added after the
    seeded change C05-8, a look-up cache that later definitions did not
    invalidate, was missed.) *)
Theorem C05_lookup_has_no_memory :
  forall (A : Type) abbr (t : @table A) pre k post ps t2,
    run_ops abbr t (pre ++ TProbe k :: post) = Some (ps, t2) ->
    exists t1, run_ops abbr t (defs_of pre) = Some ([], t1) /\
               nth_error ps (probes_in pre) = Some (find_arg abbr t1 k) /\
               run_ops abbr t (defs_of (pre ++ TProbe k :: post)) = Some ([], t2).
Proof. exact @lookup_has_no_memory. Qed.
Print Assumptions C05_lookup_has_no_memory.

Theorem C05_staged_exact_key_order_independent :
  forall (A : Type) abbr (defs : list (key * A)) t pre k post ps t2 ka a,
    build [] defs = Ok t -> Permutation defs (def_pairs pre) ->
    Forall (fun o => match o with TDef _ _ tol => tol = false | TProbe _ => True end) pre ->
    run_ops abbr [] (pre ++ TProbe k :: post) = Some (ps, t2) ->
    typed_key k -> In (ka, a) defs -> key_eq ka k = true ->
    nth_error ps (probes_in pre) = Some (Ok (Some a)).
Proof. exact @staged_exact_key_order_independent. Qed.
Print Assumptions C05_staged_exact_key_order_independent.

(** Non-vacuity of the staged statements: --input is defined, --inp is looked up
    (an abbreviation), --inp is defined, --inp is looked up again (its own key). *)
Example C05_staged_nonvacuous :
  run_ops true [] [TDef (lk s_input) 1 false; TProbe (lk [105; 110; 112]%N);
                   TDef (lk [105; 110; 112]%N) 2 false; TProbe (lk [105; 110; 112]%N)]
  = Some ([Ok (Some 1); Ok (Some 2)], [(lk s_input, 1); (lk [105; 110; 112]%N, 2)]).
Proof. vm_compute. reflexivity. Qed.

(** Sub-group arguments are kept in a container of their own.  With the
    definitions accepted (each addArgument path refuses a key that is taken in
    either container - [sg_keys_ok]; found missing in the pinned tree and
    repaired: "fix: the key of a sub-group argument and the key of a plain
    argument of the same handler must differ") no word is the exact key of a
    plain argument and of a sub-group argument at the same time. *)
Theorem C05_subgroup_key_one_argument :
  forall c d ks cs k,
    sg_keys_ok c = true ->
    In d (args (sg_main c)) -> In (ks, cs) (sg_subs c) ->
    typed_key k ->
    key_eq (a_key d) k = true -> key_eq ks k = true -> False.
Proof. exact sg_exact_key_one_argument. Qed.
Print Assumptions C05_subgroup_key_one_argument.

(** Non-vacuity: a table built from three definitions, a permutation of it, an
    exact key that is a prefix of two other long keys. *)
Example C05_nonvacuous :
  exists t, build [] [(lk s_input_file, 2); (lk s_input_dir, 3); (lk s_input, 1)] = Ok t /\
            typed_key (lk s_input) /\ In (lk s_input, 1) t /\ key_eq (lk s_input) (lk s_input) = true.
Proof.
  eexists. split; [reflexivity|]. split; [|split; [cbn; auto|reflexivity]].
  right. exists s_input. split; [discriminate|reflexivity].
Qed.
