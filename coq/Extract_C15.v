(** Extraction of the runnable C15 model (ExtrOcamlBasic only; nat stays an
    extracted datatype).  Run by make with the current directory coq/. *)
From Coq Require Import Extraction ExtrOcamlBasic.
Require Import Celma.Common.Res Celma.Log.RollModel.
Extraction Language OCaml.
Extraction "../ocaml/gen/c15_model.ml" run init_state.
