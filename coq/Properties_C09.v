(** C09  Independent handlers can be used concurrently.

    Only statements.  [shared_inventory] (Conc/SharedGen.v) is regenerated on every run by
    translate/tr_statics.py: the objects with static storage duration of the compiled
    argument-handler code, classified ConstInit / Guarded / Mutable, each marked as lying on the
    set-up/evaluation path of an independent handler or not.  The premise of the general
    non-interference theorem - no object on that path is Mutable - is discharged by
    computation ([eq_refl]); a new function-local static buffer makes it ill-typed.

    Scope (the property is labelled partial): threads are arbitrary straight-line action lists
    that respect the classification of the inventory (read ConstInit objects, lock/read/unlock
    Guarded ones, read and write Mutable ones) - everything else a handler touches is owned by
    its thread.  Sharing through the heap, through libstdc++/Boost internals and effects of a
    memory model weaker than sequential consistency are not visible to the scan; they are
    looked for by the ThreadSanitizer run of the check only (search and tie, not proof). *)
From Coq Require Import List Arith String.
Import ListNotations.
Require Import Celma.Conc.Interleave Celma.Conc.Shared Celma.Conc.SharedProofs Celma.Conc.SharedGen.

(** The pinned tree (before fixes/C09-1): the buffer of Tokenizer::convChar2String is Mutable and
    on the path; two threads with the separators ',' and ';': write, write, read gives thread 0
    the separator of thread 1 (alone it reads its own), and the two writes race. *)
Theorem C09_noninterference_refuted :
  inv_ok pinned_tokenizer_inventory = false /\
  code_ok pinned_tokenizer_inventory pinned_tokenizer_code /\
  exists sched sched' l l',
    nth_error (thr (sh_run pinned_tokenizer_code (fun _ => 0) 2 sched)) 0 = Some l /\
    nth_error (thr (sh_run pinned_tokenizer_code (fun _ => 0) 2 sched')) 0 = Some l' /\
    fst l = 2 /\ fst l' = 2 /\ l <> l'.
Proof.
  split; [exact pinned_inventory_not_ok|]. split; [exact pinned_code_respects_inventory|].
  exists [0; 1; 0], [0; 0], (2, [59; 0]), (2, [44; 0]).
  destruct pinned_interference as [A B].
  split; [exact A|]. split; [exact B|]. split; [reflexivity|]. split; [reflexivity|discriminate].
Qed.
Print Assumptions C09_noninterference_refuted.

Theorem C09_race_free_refuted :
  exists sched,
    race_state sl_local (sl_next pinned_tokenizer_code) (sh_run pinned_tokenizer_code (fun _ => 0) 2 sched).
Proof. exists []. exact pinned_race. Qed.
Print Assumptions C09_race_free_refuted.

(** For every number of threads, every code that respects the inventory, every content of the
    constants and every schedule: what a thread has obtained so far is a function of its own
    code and position only. *)
Theorem C09_results_schedule_independent :
  forall code, code_ok shared_inventory code ->
  forall m0 n sched i pc ob,
    nth_error (thr (sh_run code m0 n sched)) i = Some (pc, ob) ->
    ob = rev (map (result0 m0) (firstn pc (code i))).
Proof. exact (results_schedule_independent shared_inventory eq_refl). Qed.
Print Assumptions C09_results_schedule_independent.

(** A thread that ran to its end holds the same results after any two schedules - in
    particular the schedule in which it runs alone (its sequential result). *)
Theorem C09_noninterference :
  forall code, code_ok shared_inventory code ->
  forall m0 n sched sched' i l l',
    nth_error (thr (sh_run code m0 n sched)) i = Some l ->
    nth_error (thr (sh_run code m0 n sched')) i = Some l' ->
    fst l = List.length (code i) -> fst l' = List.length (code i) -> l = l'.
Proof. exact (noninterference shared_inventory eq_refl). Qed.
Print Assumptions C09_noninterference.

(** No schedule reaches a data race on an object of the inventory. *)
Theorem C09_race_free :
  forall code, code_ok shared_inventory code ->
  forall m0 n sched, ~ race_state sl_local (sl_next code) (sh_run code m0 n sched).
Proof. exact (shared_race_free shared_inventory eq_refl). Qed.
Print Assumptions C09_race_free.

(** The hypotheses are satisfiable: a code that reads every object of the inventory that lies
    on the path respects it. *)
Example C09_nonvacuous_code_ok :
  code_ok shared_inventory
    (fun _ => map (fun k => ARead Plain k)
                  (filter (fun k => match nth_error shared_inventory k with
                                    | Some o => so_touched o | None => false end)
                          (seq 0 (List.length shared_inventory)))).
Proof. intros i. vm_compute. reflexivity. Qed.
