(** C06  Multi-value destinations end up as the fold of all values given.
    Only statements; proofs are [exact <lemma of ArgH/ContProofs.v>].

    Model: ArgH/Cont.v ([run_uses k o st uses] = the state of the one container
    argument after the uses, each use = one value string as delivered by the
    handler for "-k v" and for every free value in multi-value mode;
    [step k o] = what assign() does with one list element).  The spec
    [fold_spec] is the property's sentence as a function of the flat element
    sequence [all_tokens o uses].  Quantification: every destination kind
    [k], every option record [o] that the definition-time setters accept
    ([setup_ok]), every earlier content / state [st], every list of uses. *)
From Coq Require Import List NArith ZArith Bool Permutation Sorted.
Import ListNotations.
Require Import Celma.Common.Res Celma.ArgH.Key Celma.ArgH.Handler Celma.ArgH.Cont Celma.ArgH.ContProofs
  Celma.ArgH.ContProofs2 Celma.ArgH.ContProofs3.

(** The destination after any list of uses is the fold over the concatenated
    elements: earlier content discarded once if so configured, then every
    element in order (counted, checked, formatted, converted, tested for
    duplicates, placed), sorted at the end if so configured.  All 21 kinds,
    all option combinations.  [card_cut_ok]: a use without any element is
    invisible only when there is no cardinality (the default of containers). *)
Theorem C06_cont_fold :
  forall k o st uses,
    setup_ok k o = true -> card_cut_ok o uses ->
    run_uses k o st uses = fold_spec (step k o) o st (negb (is_nil uses)) (all_tokens o uses).
Proof. exact cont_fold. Qed.
Print Assumptions C06_cont_fold.

(** Two ways of cutting the same element sequence into uses / lists / free
    values give the same destination (and the same refusal). *)
Theorem C06_cont_cut_independent :
  forall k o st uses1 uses2,
    setup_ok k o = true -> card_cut_ok o uses1 -> card_cut_ok o uses2 ->
    all_tokens o uses1 = all_tokens o uses2 -> is_nil uses1 = is_nil uses2 ->
    run_uses k o st uses1 = run_uses k o st uses2.
Proof. exact cont_cut_independent. Qed.
Print Assumptions C06_cont_cut_independent.

(** In multi-value mode a free value is one more use of the argument ... *)
Theorem C06_cont_free_values :
  forall stp o st fc us,
    (o_multi o = true /\ forallb not_flag us = true) \/ forallb is_key us = true ->
    run_events stp o st true fc us = do st' <- run_uses_gen stp o st (map use_text us); Ok (st', fc).
Proof. exact cont_free_values. Qed.
Print Assumptions C06_cont_free_values.

(** ... otherwise the first free value is refused. *)
Theorem C06_cont_free_value_refused :
  forall stp o st hl fc pre v post,
    o_multi o = false -> forall r, run_events stp o st hl fc (pre ++ UFree v :: post) <> Ok r.
Proof. exact cont_free_value_refused. Qed.
Print Assumptions C06_cont_free_value_refused.

(** Another argument (here: a flag) ends the value list: a free value after it
    does not reach the container; without a positional argument the command
    line is refused - also in multi-value mode. *)
Theorem C06_cont_flag_ends_value_list :
  forall stp o st hl fc pre v post,
    forall r, run_events stp o st hl fc (pre ++ UFlag :: UFree v :: post) <> Ok r.
Proof. exact cont_flag_ends_value_list. Qed.
Print Assumptions C06_cont_flag_ends_value_list.

(** Whatever command line is accepted, the container is the result of its own
    uses in order (so all theorems about [run_uses] apply); uses of the flag
    only influence acceptance. *)
Theorem C06_cont_events_uses :
  forall stp o us st hl fc st1 fc1,
    run_events stp o st hl fc us = Ok (st1, fc1) ->
    run_uses_gen stp o st (map use_text (filter not_flag us)) = Ok st1.
Proof. exact cont_events_uses. Qed.
Print Assumptions C06_cont_events_uses.

(** Clear-before-assign discards earlier content exactly once: the uses behave
    like the same uses without the option on the emptied destination (so what
    the first use stored is kept by all later uses). *)
Theorem C06_cont_clear_once :
  forall k o before u rest,
    o_clear o = true ->
    run_uses k o (init_state o before) (u :: rest) =
    run_uses k (no_clear o) (init_state (no_clear o) (clear_cont before)) (u :: rest).
Proof. exact cont_clear_once. Qed.
Print Assumptions C06_cont_clear_once.

(** Sorting yields ascending order (int containers, the filled part of arrays,
    strings in byte order). *)
Theorem C06_cont_sorted :
  forall k o st uses st',
    o_sort o = true -> uses <> [] -> run_uses k o st uses = Ok st' -> sorted_cont (c_val st').
Proof. exact cont_sorted. Qed.
Print Assumptions C06_cont_sorted.

(** Checks are applied to every single element, whatever the kind and the cut:
    accepted uses contain only elements that pass all checks ... *)
Theorem C06_cont_checks_every_element :
  forall p k o st uses st',
    run_uses_gen (step_gen p k o) o st uses = Ok st' ->
    Forall (fun t => run_checks (o_checks o) t = Ok tt) (all_tokens o uses).
Proof. exact cont_checks_every_element. Qed.
Print Assumptions C06_cont_checks_every_element.

(** ... so one violating element at any position refuses the uses. *)
Corollary C06_cont_bad_element_refused :
  forall p k o st uses t,
    In t (all_tokens o uses) -> run_checks (o_checks o) t <> Ok tt ->
    forall st', run_uses_gen (step_gen p k o) o st uses <> Ok st'.
Proof. exact cont_bad_element_refused. Qed.
Print Assumptions C06_cont_bad_element_refused.

(** Without unique-data the int containers other than the sets keep every
    element: formats and conversion applied to each ([conv_int]), placed after
    (or, for forward_list / stack, in front of) the earlier content. *)
Theorem C06_cont_seq_content :
  forall p k o st u rest st' l0,
    ints_kind k = true -> keeps_all k = true -> o_uniq o = false ->
    c_val st = CInts l0 ->
    run_uses_gen (step_gen p k o) o st (u :: rest) = Ok st' ->
    exists l vals, c_val st' = CInts l /\
      Forall2 (fun t v => conv_int o t = Ok v) (all_tokens o (u :: rest)) vals /\
      Permutation l (start_of st l0 ++ vals) /\
      (o_sort o = false -> l = fold_left (fun acc v => place k v acc) vals (start_of st l0)) /\
      (o_sort o = true -> l = sort_by Z.ltb (start_of st l0 ++ vals)).
Proof. exact cont_seq_content. Qed.
Print Assumptions C06_cont_seq_content.

Theorem C06_place_append :
  forall k vals l,
    match k with KVec | KDeque | KList | KQueue => true | _ => false end = true ->
    fold_left (fun acc v => place k v acc) vals l = l ++ vals.
Proof. exact place_fold_append. Qed.
Print Assumptions C06_place_append.

Theorem C06_place_front :
  forall k vals l,
    match k with KFwd | KStack => true | _ => false end = true ->
    fold_left (fun acc v => place k v acc) vals l = rev vals ++ l.
Proof. exact place_fold_front. Qed.
Print Assumptions C06_place_front.

(** Unique data, duplicates dropped. *)
Theorem C06_cont_unique_drop :
  forall p k o st u rest st' l0,
    ints_kind k = true -> o_uniq o = true -> o_dup_err o = false ->
    c_val st = CInts l0 -> NoDup (start_of st l0) ->
    run_uses_gen (step_gen p k o) o st (u :: rest) = Ok st' ->
    exists l, c_val st' = CInts l /\ NoDup l /\
      forall z, In z l <->
        In z (start_of st l0) \/ exists t, In t (all_tokens o (u :: rest)) /\ conv_int o t = Ok z.
Proof. exact cont_unique_drop. Qed.
Print Assumptions C06_cont_unique_drop.

(** Unique data, duplicates refused: accepted only if all values are new. *)
Theorem C06_cont_unique_refuse :
  forall p k o st u rest st' l0,
    ints_kind k = true -> o_uniq o = true -> o_dup_err o = true ->
    c_val st = CInts l0 -> NoDup (start_of st l0) ->
    run_uses_gen (step_gen p k o) o st (u :: rest) = Ok st' ->
    exists l vals, c_val st' = CInts l /\
      Forall2 (fun t v => conv_int o t = Ok v) (all_tokens o (u :: rest)) vals /\
      Permutation l (start_of st l0 ++ vals) /\ NoDup (start_of st l0 ++ vals).
Proof. exact cont_unique_refuse. Qed.
Print Assumptions C06_cont_unique_refuse.

(** Arrays (fixed tree): unique data looks at the filled part only; nothing
    given is lost. *)
Theorem C06_cont_array_unique_drop :
  forall k n o st u rest st' l0 i0,
    arr_kind k n -> o_uniq o = true -> o_dup_err o = false ->
    c_val st = CArr l0 i0 -> NoDup (firstn i0 l0) ->
    run_uses k o st (u :: rest) = Ok st' ->
    exists l i, c_val st' = CArr l i /\ NoDup (firstn i l) /\
      forall z, In z (firstn i l) <->
                In z (firstn i0 l0) \/ exists t, In t (all_tokens o (u :: rest)) /\ conv_int o t = Ok z.
Proof. exact cont_array_unique_drop. Qed.
Print Assumptions C06_cont_array_unique_drop.

(** vector<bool> (fixed tree): exactly the positions given (and kept from
    before) are set and the vector covers them. *)
Theorem C06_cont_vector_bool_positions :
  forall o st u rest st' size0 l0,
    c_val st = CVBool size0 l0 -> Forall (fun q => (q < size0)%N) l0 ->
    run_uses KVecBool o st (u :: rest) = Ok st' ->
    exists size l, c_val st' = CVBool size l /\ Forall (fun q => (q < size)%N) l /\
      forall q, In q l <->
        In q (if c_clearp st then [] else l0) \/
        exists t, In t (all_tokens o (u :: rest)) /\ lex_size (apply_fmts (o_fmts o) t) = Ok q.
Proof. exact cont_vector_bool_positions. Qed.
Print Assumptions C06_cont_vector_bool_positions.

(** Fixed-size destinations refuse more elements than they can hold. *)
Theorem C06_cont_fixed_refuses_overflow_array :
  forall p k n o st uses st' l i,
    arr_kind k n -> c_val st = CArr l i -> i <= n ->
    run_uses_gen (step_gen p k o) o st uses = Ok st' ->
    exists l' i', c_val st' = CArr l' i' /\ i' <= n /\
      (o_uniq o = false -> i' = i + length (all_tokens o uses)).
Proof. exact cont_fixed_refuses_overflow_array. Qed.
Print Assumptions C06_cont_fixed_refuses_overflow_array.

Theorem C06_cont_fixed_refuses_overflow_tuple :
  forall p o st uses st' a s b n,
    c_val st = CTuple a s b n -> n <= 3 ->
    run_uses_gen (step_gen p KTuple o) o st uses = Ok st' ->
    exists a' s' b' n', c_val st' = CTuple a' s' b' n' /\ n' <= 3 /\ n' = n + length (all_tokens o uses).
Proof. exact cont_fixed_refuses_overflow_tuple. Qed.
Print Assumptions C06_cont_fixed_refuses_overflow_tuple.

Theorem C06_cont_fixed_refuses_overflow_bitset :
  forall p n o st uses st' l,
    c_val st = CBits l -> Forall (fun q => (q < n)%N) l ->
    run_uses_gen (step_gen p (KBitset n) o) o st uses = Ok st' ->
    (exists l', c_val st' = CBits l' /\ Forall (fun q => (q < n)%N) l') /\
    Forall (fun t => exists q, lex_size (apply_fmts (o_fmts o) t) = Ok q /\ (q < n)%N) (all_tokens o uses).
Proof. exact cont_fixed_refuses_overflow_bitset. Qed.
Print Assumptions C06_cont_fixed_refuses_overflow_bitset.

(** vector<string>: checks, then the general formats, then the formats of the
    position the element lands at (= current size of the destination) are
    applied before the unique test.  Without unique data every element is
    stored, so element i of all elements given - whatever the cut into value
    strings and free values - lands at position |earlier content| + i
    ([pos_vals]); sorted in byte order if so configured. *)
Theorem C06_cont_strs_content :
  forall p o st u rest st' l0,
    o_uniq o = false -> c_val st = CStrs l0 ->
    run_uses_gen (step_gen p KVecStr o) o st (u :: rest) = Ok st' ->
    let vals := pos_vals o (length (start_strs st l0)) (all_tokens o (u :: rest)) in
    exists l, c_val st' = CStrs l /\
      (o_sort o = false -> l = start_strs st l0 ++ vals) /\
      (o_sort o = true -> l = sort_by str_ltb (start_strs st l0 ++ vals)).
Proof. exact cont_strs_content. Qed.
Print Assumptions C06_cont_strs_content.

(** unique data: never two equal strings, with or without position formats *)
Theorem C06_cont_strs_unique_nodup :
  forall p o st u rest st' l0,
    o_uniq o = true ->
    c_val st = CStrs l0 -> NoDup (start_strs st l0) ->
    run_uses_gen (step_gen p KVecStr o) o st (u :: rest) = Ok st' ->
    exists l, c_val st' = CStrs l /\ NoDup l.
Proof. exact cont_strs_unique_nodup. Qed.
Print Assumptions C06_cont_strs_unique_nodup.

(** unique data, dropping, no position formats ([pos_free]; with position
    formats a dropped duplicate shifts the position of its successors, the
    content is then given by [C06_cont_fold] only) *)
Theorem C06_cont_strs_unique_drop :
  forall p o st u rest st' l0,
    pos_free o -> o_uniq o = true -> o_dup_err o = false ->
    c_val st = CStrs l0 -> NoDup (start_strs st l0) ->
    run_uses_gen (step_gen p KVecStr o) o st (u :: rest) = Ok st' ->
    exists l, c_val st' = CStrs l /\ NoDup l /\
      forall z, In z l <->
        In z (start_strs st l0) \/ exists t, In t (all_tokens o (u :: rest)) /\ conv_str o t = Ok z.
Proof. exact cont_strs_unique_drop. Qed.
Print Assumptions C06_cont_strs_unique_drop.

(** unique data, refusing: accepted only if all (position-formatted) values are new *)
Theorem C06_cont_strs_unique_refuse :
  forall p o st u rest st' l0,
    o_uniq o = true -> o_dup_err o = true ->
    c_val st = CStrs l0 -> NoDup (start_strs st l0) ->
    run_uses_gen (step_gen p KVecStr o) o st (u :: rest) = Ok st' ->
    let vals := pos_vals o (length (start_strs st l0)) (all_tokens o (u :: rest)) in
    exists l, c_val st' = CStrs l /\
      Permutation l (start_strs st l0 ++ vals) /\ NoDup (start_strs st l0 ++ vals) /\
      (o_sort o = false -> l = start_strs st l0 ++ vals).
Proof. exact cont_strs_unique_refuse. Qed.
Print Assumptions C06_cont_strs_unique_refuse.

(** std::tuple<int,string,int>: element k of the result is the k-th value given
    over all uses, formatted with the formats of position k (and no others) and
    converted to the element's type - independent of how the values are cut
    into value strings and free values; elements not given keep their value. *)
Theorem C06_cont_tuple_elements :
  forall p o st u rest st' a0 s0 b0 n0,
    c_val st = CTuple a0 s0 b0 n0 ->
    run_uses_gen (step_gen p KTuple o) o st (u :: rest) = Ok st' ->
    exists a s b, c_val st' = CTuple a s b (n0 + length (all_tokens o (u :: rest))) /\
      (forall j t, nth_error (all_tokens o (u :: rest)) j = Some t -> tuple_elem_ok o a s b (n0 + j) t) /\
      (n0 + length (all_tokens o (u :: rest)) <= 0 \/ 0 < n0 -> a = a0) /\
      (n0 + length (all_tokens o (u :: rest)) <= 1 \/ 1 < n0 -> s = s0) /\
      (n0 + length (all_tokens o (u :: rest)) <= 2 \/ 2 < n0 -> b = b0).
Proof. exact cont_tuple_elements. Qed.
Print Assumptions C06_cont_tuple_elements.

(** ... and the whole state of the tuple argument does not depend on the cut
    (instance of the general theorem; the tuple has a cardinality, so no use
    without elements). *)
Corollary C06_cont_tuple_cut_independent :
  forall o st uses1 uses2,
    setup_ok KTuple o = true -> card_cut_ok o uses1 -> card_cut_ok o uses2 ->
    all_tokens o uses1 = all_tokens o uses2 -> is_nil uses1 = is_nil uses2 ->
    run_uses KTuple o st uses1 = run_uses KTuple o st uses2.
Proof. exact (cont_cut_independent KTuple). Qed.
Print Assumptions C06_cont_tuple_cut_independent.

(** T[N] / std::array<T,N> without unique data: slot i0 + i gets the i-th value
    of all uses (general and position formats applied - without effect on how
    a text converts to int, [lex_int_fmt_pos]); sorted part if so configured. *)
Theorem C06_cont_array_content :
  forall p k n o st u rest st' l0 i0,
    arr_kind k n -> o_uniq o = false -> c_val st = CArr l0 i0 ->
    run_uses_gen (step_gen p k o) o st (u :: rest) = Ok st' ->
    exists l vals, c_val st' = CArr l (i0 + length (all_tokens o (u :: rest))) /\
      Forall2 (fun t v => conv_int o t = Ok v) (all_tokens o (u :: rest)) vals /\
      (o_sort o = false -> firstn (i0 + length vals) l = firstn i0 l0 ++ vals) /\
      (o_sort o = true -> firstn (i0 + length vals) l = sort_by Z.ltb (firstn i0 l0 ++ vals)).
Proof. exact cont_array_content. Qed.
Print Assumptions C06_cont_array_content.

(** formats (upper / lower case) never change how a text converts to int, so
    general and position formats are invisible on the int destinations *)
Theorem C06_formats_invisible_on_int :
  forall o idx s, lex_int (fmt_pos o idx (apply_fmts (o_fmts o) s)) = lex_int s.
Proof. intros. rewrite lex_int_fmt_pos. apply lex_int_fmts. Qed.
Print Assumptions C06_formats_invisible_on_int.

(** the range rule of TypedArgBase::format never hides a registered format *)
Theorem C06_fmt_pos_range_rule :
  forall o idx s, fmt_pos o idx s = apply_fmts (nth (idx + 1) (o_ftab o) []) s.
Proof. exact fmt_pos_nth. Qed.
Print Assumptions C06_fmt_pos_range_rule.

(** map<string,int> and unordered_map<string,int> ([map_kind]; the latter as
    printed: ascending by key): keys stay strictly ascending; an entry that was
    there before keeps its value; otherwise the FIRST element with that key
    decides (insert() of these two containers does not overwrite; with unique
    data the later elements are dropped before their value is converted);
    otherwise the key is absent. *)
Theorem C06_cont_map_content :
  forall p k o st u rest st' l0,
    map_kind k ->
    c_val st = CMap l0 -> keys_sorted (start_map st l0) ->
    run_uses_gen (step_gen p k o) o st (u :: rest) = Ok st' ->
    exists l, c_val st' = CMap l /\ keys_sorted l /\
      forall key, map_entry_spec (start_map st l0) (all_tokens o (u :: rest)) key (map_get key l).
Proof. exact cont_map_content. Qed.
Print Assumptions C06_cont_map_content.

(** ... with "duplicates are errors" the uses are accepted only if all keys are
    new and pairwise different ... *)
Theorem C06_cont_map_unique_refuse :
  forall p k o st u rest st' l0,
    map_kind k ->
    o_uniq o = true -> o_dup_err o = true ->
    c_val st = CMap l0 -> keys_sorted (start_map st l0) ->
    run_uses_gen (step_gen p k o) o st (u :: rest) = Ok st' ->
    NoDup (map fst (start_map st l0) ++ map tok_key (all_tokens o (u :: rest))).
Proof. exact cont_map_unique_refuse. Qed.
Print Assumptions C06_cont_map_unique_refuse.

(** ... and on all four key-value destinations (map, multimap, unordered_map,
    unordered_multimap) every accepted element is a pair "key,value" with both
    parts non-empty. *)
Theorem C06_cont_map_pair_format :
  forall p k o st uses st' l0,
    kv_kind k = true ->
    c_val st = CMap l0 ->
    run_uses_gen (step_gen p k o) o st uses = Ok st' ->
    Forall (fun t => tok_key t <> [] /\ tok_val t <> []) (all_tokens o uses).
Proof. exact cont_map_pair_format. Qed.
Print Assumptions C06_cont_map_pair_format.

(** fold and cut independence for the map are the instances of the general theorems *)
Corollary C06_cont_map_cut_independent :
  forall o st uses1 uses2,
    setup_ok KMap o = true -> card_cut_ok o uses1 -> card_cut_ok o uses2 ->
    all_tokens o uses1 = all_tokens o uses2 -> is_nil uses1 = is_nil uses2 ->
    run_uses KMap o st uses1 = run_uses KMap o st uses2.
Proof. exact (cont_cut_independent KMap). Qed.
Print Assumptions C06_cont_map_cut_independent.

(** Unique data on ALL four key-value destinations, dropping or refusing, any
    earlier content [l0] (a multimap may hold several entries under one key),
    any list of uses: for every key the destination holds ([entries key l] =
    all pairs with that key, in container order) what [uq_entry_spec] says -
    a key that was stored before the first element keeps exactly its earlier
    entries and none of the pairs given for it is stored; any other key given
    holds exactly ONE pair, the first one given for it (its value converted);
    a key not given is absent.  In particular this does not depend on what
    insert() of the container would do with a key that is stored already
    (std::multimap / std::unordered_multimap would add the pair). *)
Theorem C06_cont_kv_unique :
  forall p k o st u rest st' l0,
    kv_kind k = true -> o_uniq o = true ->
    c_val st = CMap l0 ->
    run_uses_gen (step_gen p k o) o st (u :: rest) = Ok st' ->
    exists l, c_val st' = CMap l /\
      forall key, uq_entry_spec (start_map st l0) (all_tokens o (u :: rest)) key (entries key l).
Proof. exact cont_kv_unique. Qed.
Print Assumptions C06_cont_kv_unique.

(** ... hence never two of the pairs given under one key, and no pair given
    under a key of the earlier content *)
Corollary C06_cont_kv_unique_one_per_key :
  forall p k o st u rest st' l0,
    kv_kind k = true -> o_uniq o = true ->
    c_val st = CMap l0 ->
    run_uses_gen (step_gen p k o) o st (u :: rest) = Ok st' ->
    exists l, c_val st' = CMap l /\
      forall key, (entries key (start_map st l0) <> [] -> entries key l = entries key (start_map st l0)) /\
                  (entries key (start_map st l0) = [] -> length (entries key l) <= 1).
Proof. exact cont_kv_unique_one_per_key. Qed.
Print Assumptions C06_cont_kv_unique_one_per_key.

(** "duplicates are errors" on all four: accepted only if the keys given are
    pairwise different and none of them was stored before *)
Theorem C06_cont_kv_unique_refuse :
  forall p k o st u rest st' l0,
    kv_kind k = true -> o_uniq o = true -> o_dup_err o = true ->
    c_val st = CMap l0 ->
    run_uses_gen (step_gen p k o) o st (u :: rest) = Ok st' ->
    NoDup (map tok_key (all_tokens o (u :: rest))) /\
    Forall (fun t => entries (tok_key t) (start_map st l0) = []) (all_tokens o (u :: rest)).
Proof. exact cont_kv_unique_refuse. Qed.
Print Assumptions C06_cont_kv_unique_refuse.

(** multimap<string,int> without unique data: every pair given is stored ([ps]
    = the pairs the elements denote, values converted); keys ascending; under
    every key first the entries that were there before, then the pairs given
    for that key in the order given *)
Theorem C06_cont_multimap_content :
  forall p o st u rest st' l0,
    o_uniq o = false ->
    c_val st = CMap l0 -> ksorted (start_map st l0) ->
    run_uses_gen (step_gen p KMMap o) o st (u :: rest) = Ok st' ->
    exists l ps, c_val st' = CMap l /\ Forall2 tok_pair (all_tokens o (u :: rest)) ps /\
      ksorted l /\ Permutation l (start_map st l0 ++ ps) /\
      forall key, entries key l = entries key (start_map st l0) ++ entries key ps.
Proof. exact cont_multimap_content. Qed.
Print Assumptions C06_cont_multimap_content.

(** unordered_multimap<string,int> without unique data: exactly the earlier
    entries and all pairs given (printed ascending by key and value) *)
Theorem C06_cont_unordered_multimap_content :
  forall p o st u rest st' l0,
    o_uniq o = false ->
    c_val st = CMap l0 -> psorted (start_map st l0) ->
    run_uses_gen (step_gen p KUMMap o) o st (u :: rest) = Ok st' ->
    exists l ps, c_val st' = CMap l /\ Forall2 tok_pair (all_tokens o (u :: rest)) ps /\
      psorted l /\ Permutation l (start_map st l0 ++ ps).
Proof. exact cont_unordered_multimap_content. Qed.
Print Assumptions C06_cont_unordered_multimap_content.

(** clear-before-assign on a multimap: whatever it held, after the uses it
    holds the pairs given and nothing else (the earlier content is discarded
    once: what the first use stored is kept by the later uses) *)
Corollary C06_cont_multimap_clear :
  forall p o before u rest st',
    o_uniq o = false -> o_clear o = true ->
    run_uses_gen (step_gen p KMMap o) o (init_state o (CMap before)) (u :: rest) = Ok st' ->
    exists l ps, c_val st' = CMap l /\ Forall2 tok_pair (all_tokens o (u :: rest)) ps /\
      ksorted l /\ Permutation l ps /\ forall key, entries key l = entries key ps.
Proof. exact cont_multimap_clear. Qed.
Print Assumptions C06_cont_multimap_clear.

(** the cut into uses / lists / free values does not matter for the multi-maps either *)
Corollary C06_cont_multimap_cut_independent :
  forall k o st uses1 uses2,
    k = KMMap \/ k = KUMap \/ k = KUMMap ->
    setup_ok k o = true -> card_cut_ok o uses1 -> card_cut_ok o uses2 ->
    all_tokens o uses1 = all_tokens o uses2 -> is_nil uses1 = is_nil uses2 ->
    run_uses k o st uses1 = run_uses k o st uses2.
Proof. intros k o st uses1 uses2 _. exact (cont_cut_independent k o st uses1 uses2). Qed.
Print Assumptions C06_cont_multimap_cut_independent.

(** The accept / refuse table of the definition-time setters, as the model has
    it (tied to setSortData / setUniqueData / setClearBeforeAssign / addFormat /
    addFormatPos / setListSep by the correspondence check: every refused
    subset is a case). *)
Theorem C06_setup_table :
  forall k o,
    setup_ok k o = true <->
    (o_sort o = true -> sortable k = true) /\
    (o_uniq o = true -> has_iter k = true) /\
    (o_clear o = true -> clearable k = true) /\
    ftab_ok k (o_ftab o) = true /\
    (kv_kind k = true -> o_sep o <> COMMA).
Proof. exact setup_ok_table. Qed.
Print Assumptions C06_setup_table.

Theorem C06_ftab_table :
  forall k tab,
    ftab_ok k tab = true <->
    (nth 0 tab [] <> [] -> k <> KTuple) /\
    (forall i, nth (S i) tab [] <> [] -> pos_fmt_allowed k i = true).
Proof. exact ftab_ok_table. Qed.
Print Assumptions C06_ftab_table.

(** addFormatPos( idx, f), idx >= -1: accepted by std::vector for every idx, by
    the arrays for idx < N, by the tuple for 0 <= idx < length, refused by
    everybody else; what addFormat / addFormatPos accepted is a table of that kind. *)
Theorem C06_add_format_pos_table :
  forall k tab idx f,
    (-1 <= idx)%Z ->
    (is_ok (add_format_pos k tab idx f) = true <->
     match k with
     | KVec | KVecStr => True
     | KArr n | KStdArr n => (idx < Z.of_nat n)%Z
     | KTuple => (0 <= idx < 3)%Z
     | _ => False
     end).
Proof. exact add_format_pos_table. Qed.
Print Assumptions C06_add_format_pos_table.

Theorem C06_add_format_pos_ok :
  forall k tab idx f tab',
    ftab_ok k tab = true -> add_format_pos k tab idx f = Ok tab' -> ftab_ok k tab' = true.
Proof. exact add_format_pos_ok. Qed.
Print Assumptions C06_add_format_pos_ok.

Theorem C06_add_format_ok :
  forall k tab f tab',
    ftab_ok k tab = true -> add_format k tab f = Ok tab' -> ftab_ok k tab' = true.
Proof. exact add_format_ok. Qed.
Print Assumptions C06_add_format_ok.

Theorem C06_sortable_table :
  forall k, sortable k = true <->
    In k [KVec; KDeque; KList; KFwd; KVecStr] \/ exists n, k = KArr n \/ k = KStdArr n.
Proof. exact sortable_table. Qed.
Print Assumptions C06_sortable_table.

Theorem C06_has_iter_table :
  forall k, has_iter k = true <->
    In k [KVec; KDeque; KList; KFwd; KSet; KMSet; KUSet; KUMSet; KVecStr; KMap; KMMap; KUMap; KUMMap] \/
    exists n, k = KArr n \/ k = KStdArr n.
Proof. exact has_iter_table. Qed.
Print Assumptions C06_has_iter_table.

Theorem C06_clearable_table :
  forall k, clearable k = false <-> k = KTuple \/ exists n, k = KArr n \/ k = KStdArr n.
Proof. exact clearable_table. Qed.
Print Assumptions C06_clearable_table.

(** The pinned tree violates the property in two places (both repaired, see
    fixes/C06-1, C06-2): on the pinned element steps the statements of
    [C06_cont_array_unique_drop] and [C06_cont_vector_bool_positions] fail. *)
Theorem C06_pinned_array_unique_refuted :
  exists o ws st l i,
    eval_pinned (KArr 4) o (CArr [0; 0; 0; 0]%Z 0) [] ws = Ok (st, 0%Z) /\ c_val st = CArr l i /\
    conv_int o [48%N] = Ok 0%Z /\ In [48%N] (all_tokens o [[48; 44; 53]%N]) /\
    ws = [[45; 108]; [48; 44; 53]]%N /\ ~ In 0%Z (firstn i l).
Proof.
  exists (o_uniq_only (KArr 4)), w_arr. eexists. exists [5; 0; 0; 0]%Z, 1.
  split; [vm_compute; reflexivity|]. split; [reflexivity|]. split; [vm_compute; reflexivity|].
  split; [vm_compute; auto|]. split; [reflexivity|]. simpl. intros [H|[]]. discriminate H.
Qed.
Print Assumptions C06_pinned_array_unique_refuted.

Theorem C06_pinned_vector_bool_refuted :
  exists o ws st size l,
    eval_pinned KVecBool o (CVBool 1 []) [] ws = Ok (st, 0%Z) /\ c_val st = CVBool size l /\
    lex_size (apply_fmts (o_fmts o) [49%N]) = Ok 1%N /\ ws = [[45; 108]; [49]]%N /\ ~ In 1%N l.
Proof.
  exists (o_plain KVecBool), w_vb. eexists. exists 1%N, [].
  split; [vm_compute; reflexivity|]. split; [reflexivity|]. split; [vm_compute; reflexivity|].
  split; [reflexivity|]. intros [].
Qed.
Print Assumptions C06_pinned_vector_bool_refuted.

(** Non-vacuity: the hypotheses are satisfiable and the statements say
    something on concrete cases. *)
Definition o_all : copts :=
  {| o_sep := 44; o_clear := true; o_sort := true; o_uniq := true; o_dup_err := false; o_multi := true;
     o_checks := [CLower 0]; o_ftab := []; o_card := CardNone |}.

(** "3,1" then "2,3" on a vector holding [7;3], clear + sort + unique: [1;2;3] *)
Example C06_nonvacuous_fold :
  setup_ok KVec o_all = true /\
  option_map c_val (match run_uses KVec o_all (init_state o_all (CInts [7; 3]%Z)) [[51; 44; 49]; [50; 44; 51]]%N with
                    | Ok s => Some s | _ => None end) = Some (CInts [1; 2; 3]%Z).
Proof. split; vm_compute; reflexivity. Qed.

(** the same elements cut differently: "3" "1,2" "3" *)
Example C06_nonvacuous_cut :
  all_tokens o_all [[51; 44; 49]; [50; 44; 51]]%N = all_tokens o_all [[51]; [49; 44; 44; 50]; [51]]%N /\
  card_cut_ok o_all [[51]; [49; 44; 44; 50]; [51]]%N.
Proof. split; [vm_compute; reflexivity|left; reflexivity]. Qed.

(** the two fixed witnesses *)
Example C06_fixed_array_unique :
  option_map c_val (match eval (KArr 4) (o_uniq_only (KArr 4)) (CArr [0; 0; 0; 0]%Z 0) [] w_arr with
                    | Ok r => Some (fst r) | _ => None end) = Some (CArr [0; 5; 0; 0]%Z 2).
Proof. vm_compute; reflexivity. Qed.

Example C06_fixed_vector_bool :
  option_map c_val (match eval KVecBool (o_plain KVecBool) (CVBool 1 []) [] w_vb with
                    | Ok r => Some (fst r) | _ => None end) = Some (CVBool 2 [1%N]).
Proof. vm_compute; reflexivity. Qed.

(** a fifth element for T[4] is refused *)
Example C06_nonvacuous_overflow :
  is_ok (eval (KArr 4) (o_plain (KArr 4)) (CArr [0; 0; 0; 0]%Z 0) [] [[45; 108]; [49; 44; 50; 44; 51; 44; 52; 44; 53]]%N) = false.
Proof. vm_compute; reflexivity. Qed.

(** "-l 1 2 -f 9" with a multi-value vector and the flag -f: refused; "-l 1 2 -f" accepted *)
Definition o_multi_only : copts :=
  {| o_sep := 44; o_clear := false; o_sort := false; o_uniq := false; o_dup_err := false; o_multi := true;
     o_checks := []; o_ftab := []; o_card := CardNone |}.
Example C06_nonvacuous_flag :
  is_ok (eval KVec o_multi_only (CInts []) [[45; 102]]%N [[45; 108]; [49]; [50]; [45; 102]; [57]]%N) = false /\
  option_map (fun r => (c_val (fst r), snd r))
    (match eval KVec o_multi_only (CInts []) [[45; 102]]%N [[45; 108]; [49]; [50]; [45; 102]]%N with
     | Ok r => Some r | _ => None end) = Some (CInts [1; 2]%Z, 1%Z).
Proof. split; vm_compute; reflexivity. Qed.

(** map: "b,2;a,1;b,3" on a map holding {a:7}: a keeps 7, b gets its first value 2 *)
Example C06_nonvacuous_map :
  option_map c_val (match run_uses KMap (o_plain KMap) (init_state (o_plain KMap) (CMap [([97%N], 7%Z)]))
                            [[98; 44; 50; 59; 97; 44; 49; 59; 98; 44; 51]%N] with
                    | Ok s => Some s | _ => None end) = Some (CMap [([97%N], 7%Z); ([98%N], 2%Z)]).
Proof. vm_compute; reflexivity. Qed.

(** "b,2;a,1;b,3;a,4" on destinations holding a:7 (multimap: a:7 and a:8):
    multimap without unique data keeps every pair behind the earlier ones of its key;
    with unique data (drop) the key a is left alone and b gets its first pair only -
    on the multimap and on the unordered multimap, where insert() alone would add;
    "duplicates are errors" refuses; the unordered map behaves like the map *)
Definition o_kv (uq de cl : bool) : copts :=
  {| o_sep := 59; o_clear := cl; o_sort := false; o_uniq := uq; o_dup_err := de; o_multi := false;
     o_checks := []; o_ftab := []; o_card := CardNone |}.
Definition w_kv : list str := [[98; 44; 50; 59; 97; 44; 49; 59; 98; 44; 51; 59; 97; 44; 52]%N].
Definition kv_a78 : list (str * Z) := [([97%N], 7%Z); ([97%N], 8%Z)].
Example C06_nonvacuous_multimap :
  let r k o c := option_map c_val (match run_uses k o (init_state o (CMap c)) w_kv with
                                   | Ok s => Some s | _ => None end) in
  setup_ok KMMap (o_kv true false false) = true /\ ksorted kv_a78 /\ psorted kv_a78 /\
  r KMMap (o_kv false false false) kv_a78
    = Some (CMap [([97%N], 7%Z); ([97%N], 8%Z); ([97%N], 1%Z); ([97%N], 4%Z); ([98%N], 2%Z); ([98%N], 3%Z)]) /\
  r KMMap (o_kv true false false) kv_a78 = Some (CMap [([97%N], 7%Z); ([97%N], 8%Z); ([98%N], 2%Z)]) /\
  r KUMMap (o_kv true false false) kv_a78 = Some (CMap [([97%N], 7%Z); ([97%N], 8%Z); ([98%N], 2%Z)]) /\
  r KUMMap (o_kv false false false) kv_a78
    = Some (CMap [([97%N], 1%Z); ([97%N], 4%Z); ([97%N], 7%Z); ([97%N], 8%Z); ([98%N], 2%Z); ([98%N], 3%Z)]) /\
  r KMMap (o_kv true true false) kv_a78 = None /\
  r KMMap (o_kv false false true) kv_a78
    = Some (CMap [([97%N], 1%Z); ([97%N], 4%Z); ([98%N], 2%Z); ([98%N], 3%Z)]) /\
  r KUMap (o_kv false false false) [([97%N], 7%Z)] = Some (CMap [([97%N], 7%Z); ([98%N], 2%Z)]) /\
  entries [97%N] kv_a78 = kv_a78 /\ first_tok [98%N] (all_tokens (o_kv true false false) w_kv) = Some [98; 44; 50]%N.
Proof.
  cbv zeta. repeat split; try (vm_compute; reflexivity);
    repeat constructor.
Qed.

(** vector<string>, format "upper" + unique: "ab,AB,c" stores AB and C *)
Example C06_nonvacuous_strs :
  option_map c_val
    (match run_uses KVecStr
             {| o_sep := 44; o_clear := false; o_sort := false; o_uniq := true; o_dup_err := false; o_multi := false;
                o_checks := []; o_ftab := [[FUpper]]; o_card := CardNone |}
             {| c_val := CStrs []; c_clearp := false; c_cnt := 0 |}
             [[97; 98; 44; 65; 66; 44; 99]%N] with
     | Ok s => Some s | _ => None end) = Some (CStrs [[65; 66]; [67]]%N).
Proof. vm_compute; reflexivity. Qed.

(** tuple with "upper" on position 1: "7,aBc,9" / "7" "aBc,9" / "7" "aBc" "9" all give (7,"ABC",9) *)
Definition o_tuple_pos : copts :=
  {| o_sep := 44; o_clear := false; o_sort := false; o_uniq := false; o_dup_err := false; o_multi := true;
     o_checks := []; o_ftab := [[]; []; [FUpper]]; o_card := CardExact 3 |}.
Example C06_nonvacuous_tuple_pos :
  setup_ok KTuple o_tuple_pos = true /\
  let r uses := option_map c_val (match run_uses KTuple o_tuple_pos
                                          {| c_val := CTuple 0 [] 0 0; c_clearp := false; c_cnt := 0 |} uses with
                                   | Ok s => Some s | _ => None end) in
  r [[55; 44; 97; 66; 99; 44; 57]]%N = Some (CTuple 7 [65; 66; 67]%N 9 3) /\
  r [[55]; [97; 66; 99; 44; 57]]%N = Some (CTuple 7 [65; 66; 67]%N 9 3) /\
  r [[55]; [97; 66; 99]; [57]]%N = Some (CTuple 7 [65; 66; 67]%N 9 3).
Proof. split; [|split; [|split]]; vm_compute; reflexivity. Qed.

(** vector<string> holding ["k"], "lower" on position 1, "upper" on 2: "Ab" "Cd" land at 1 and 2 *)
Example C06_nonvacuous_strs_pos :
  option_map c_val
    (match run_uses KVecStr
             {| o_sep := 44; o_clear := false; o_sort := false; o_uniq := false; o_dup_err := false; o_multi := false;
                o_checks := []; o_ftab := [[]; []; [FLower]; [FUpper]]; o_card := CardNone |}
             {| c_val := CStrs [[107%N]]; c_clearp := false; c_cnt := 0 |}
             [[65; 98]; [67; 100]]%N with
     | Ok s => Some s | _ => None end) = Some (CStrs [[107]; [97; 98]; [67; 68]]%N).
Proof. vm_compute; reflexivity. Qed.

(* ------------------------------------------------------------------ *)
(** * The two models of vector destinations agree (ArgH/HandlerCont.v)

    vector<int> / vector<string> destinations are modelled twice: in
    ArgH/Handler.v (the complete handler of C01-C04, C07, C08) and here in
    ArgH/Cont.v.  For every argument definition (without position formats),
    every state of the destination and every value string, assign() of the
    handler model and assign_container of this model store the same content,
    the same clear flag and the same cardinality counter, or fail alike. *)
Require Import Celma.ArgH.HandlerCont.

Theorem C06_vector_int_models_agree :
  forall d a v l,
    a_kind d = DVecInt -> val a = VInts l ->
    match assign d a v, assign_container (step KVec (copts_of d)) (copts_of d)
                          {| c_val := CInts l; c_clearp := clearp a; c_cnt := cnt a |} v with
    | Ok a', Ok st' => c_val st' = CInts (match val a' with VInts l' => l' | _ => [] end) /\
                       (exists l', val a' = VInts l') /\ c_clearp st' = clearp a' /\ c_cnt st' = cnt a'
    | Err e1, Err e2 => e1 = e2
    | Fault f1, Fault f2 => f1 = f2
    | _, _ => False
    end.
Proof. exact vec_int_models_agree. Qed.
Print Assumptions C06_vector_int_models_agree.

Theorem C06_vector_string_models_agree :
  forall d a v l,
    a_kind d = DVecStr -> val a = VStrs l ->
    match assign d a v, assign_container (step KVecStr (copts_of d)) (copts_of d)
                          {| c_val := CStrs l; c_clearp := clearp a; c_cnt := cnt a |} v with
    | Ok a', Ok st' => c_val st' = CStrs (match val a' with VStrs l' => l' | _ => [] end) /\
                       (exists l', val a' = VStrs l') /\ c_clearp st' = clearp a' /\ c_cnt st' = cnt a'
    | Err e1, Err e2 => e1 = e2
    | Fault f1, Fault f2 => f1 = f2
    | _, _ => False
    end.
Proof. exact vec_str_models_agree. Qed.
Print Assumptions C06_vector_string_models_agree.
