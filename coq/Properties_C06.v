(** C06 placeholder (statements follow). *)
Require Import Celma.ArgH.Cont.
