(** Executable model of the log message formatting of Celma (C16):
      celma::log::formatting::Creator   (creator.cpp, creator.hpp)
      celma::log::formatting::Format    (format.cpp)
      the getters of detail::LogMsg     (log_msg.hpp)
    No proofs in this file.

    The destination std::ostream is modelled with the three pieces of state the
    code touches: the characters written, the pending field width (reset by
    every string output) and the adjustfield flag.  The fill character is the
    default blank (Format never changes it on the destination).

    strftime/localtime are external: a [Section] variable [strftime_ fmt ts]
    stands for the complete expansion of [fmt] for the time stamp [ts] (the
    correspondence run supplies the values of the real strftime with TZ=UTC).

    [format_datetime] mirrors the tree with the repair
    fixes/C16-2-strftime-buffer.patch (the buffer grows until the expansion
    fits); [format_datetime_pinned] mirrors the pinned code: a fixed buffer of
    128 characters whose content is used although strftime reported that the
    expansion did not fit. *)
From Coq Require Import List Arith NArith ZArith Bool String Ascii.
Import ListNotations.
Require Import Celma.Common.Res Celma.Log.AttrModel.

Open Scope Z_scope.

Definition s_ (s : string) : str := map N_of_ascii (list_ascii_of_string s).

Inductive ftype :=
| FConstant | FDate | FTime | FTimeMs | FTimeUs | FDateTime | FPid | FThreadId
| FLineNbr | FFunctionName | FFileName | FMsgLevel | FMsgClass | FErrorNbr | FText
| FAttribute.

Record field := mkfield { f_type : ftype; f_const : str; f_width : Z; f_left : bool }.

(* ------------------------------------------------------------------ *)
(** * Creator *)

Record creator := mkcr { c_sep : str; c_fmt : str; c_width : Z; c_left : bool }.

(** Creator( def, auto_sep): [None] is the null pointer *)
Definition creator_init (sep : option str) : creator :=
  mkcr (match sep with Some s => s | None => [] end) [] 0 false.

Inductive cop :=
| ONew (sep : option str)     (* a new Creator on the same Definition *)
| OWidth (w : Z)              (* << int *)
| OLeft                       (* << left *)
| OFmt (s : str)              (* << formatString( s) *)
| OSep (s : option str)       (* << separator( s) *)
| OConst (s : str)            (* << std::string *)
| OAttr (s : str)             (* << attribute( s) *)
| OField (t : ftype).         (* << date, time, ..., text  = field( t) *)

(** Creator::addField *)
Definition add_field (c : creator) (fs : list field) (f : field) : creator * list field :=
  let fs1 := if negb (is_nil (c_sep c)) && negb (is_nil fs)
             then fs ++ [mkfield FConstant (c_sep c) 0 false] else fs in
  (mkcr (c_sep c) [] 0 false, fs1 ++ [f]).

Definition cstep (st : creator * list field) (o : cop) : creator * list field :=
  let '(c, fs) := st in
  match o with
  | ONew sep => (creator_init sep, fs)
  | OWidth w => (mkcr (c_sep c) (c_fmt c) w (c_left c), fs)
  | OLeft => (mkcr (c_sep c) (c_fmt c) (c_width c) true, fs)
  | OFmt s => (mkcr (c_sep c) s (c_width c) (c_left c), fs)
  | OSep s => (mkcr (match s with Some x => x | None => [] end) (c_fmt c) (c_width c) (c_left c), fs)
  | OConst s => add_field c fs (mkfield FConstant s (c_width c) (c_left c))
  | OAttr s => add_field c fs (mkfield FAttribute s (c_width c) (c_left c))
  | OField t => add_field c fs (mkfield t (c_fmt c) (c_width c) (c_left c))
  end.

(* ------------------------------------------------------------------ *)
(** * numbers as text *)

Fixpoint uint_chars (u : Decimal.uint) : str :=
  match u with
  | Decimal.Nil => []
  | Decimal.D0 r => 48%N :: uint_chars r | Decimal.D1 r => 49%N :: uint_chars r
  | Decimal.D2 r => 50%N :: uint_chars r | Decimal.D3 r => 51%N :: uint_chars r
  | Decimal.D4 r => 52%N :: uint_chars r | Decimal.D5 r => 53%N :: uint_chars r
  | Decimal.D6 r => 54%N :: uint_chars r | Decimal.D7 r => 55%N :: uint_chars r
  | Decimal.D8 r => 56%N :: uint_chars r | Decimal.D9 r => 57%N :: uint_chars r
  end.

Fixpoint hex_chars (u : Hexadecimal.uint) : str :=
  match u with
  | Hexadecimal.Nil => []
  | Hexadecimal.D0 r => 48%N :: hex_chars r | Hexadecimal.D1 r => 49%N :: hex_chars r
  | Hexadecimal.D2 r => 50%N :: hex_chars r | Hexadecimal.D3 r => 51%N :: hex_chars r
  | Hexadecimal.D4 r => 52%N :: hex_chars r | Hexadecimal.D5 r => 53%N :: hex_chars r
  | Hexadecimal.D6 r => 54%N :: hex_chars r | Hexadecimal.D7 r => 55%N :: hex_chars r
  | Hexadecimal.D8 r => 56%N :: hex_chars r | Hexadecimal.D9 r => 57%N :: hex_chars r
  | Hexadecimal.Da r => 97%N :: hex_chars r | Hexadecimal.Db r => 98%N :: hex_chars r
  | Hexadecimal.Dc r => 99%N :: hex_chars r | Hexadecimal.Dd r => 100%N :: hex_chars r
  | Hexadecimal.De r => 101%N :: hex_chars r | Hexadecimal.Df r => 102%N :: hex_chars r
  end.

(** std::to_string( unsigned) / operator<< of an unsigned value *)
Definition dec_N (n : N) : str := uint_chars (N.to_uint n).
(** std::to_string( int) *)
Definition dec_Z (z : Z) : str :=
  match z with
  | Z0 => [48%N]
  | Zpos p => dec_N (Npos p)
  | Zneg p => 45%N :: dec_N (Npos p)
  end.
(** oss << "0x" << std::hex << value *)
Definition hex_N (n : N) : str := [48%N; 120%N] ++ hex_chars (N.to_hex_uint n).
(** oss << setw( k) << setfill( '0') << value *)
Definition pad0 (k : nat) (s : str) : str := repeat 48%N (k - List.length s) ++ s.

(* ------------------------------------------------------------------ *)
(** * the message *)

(** [m_ts], [m_us]: mTimestamp = from_time_t( ts) + microseconds( us) *)
Record msg := mkmsg {
  m_ts : N; m_us : N; m_pid : Z; m_tid : N; m_file : str; m_func : str; m_line : Z;
  m_level : N; m_class : N; m_err : Z; m_text : str }.

Definition total_us (m : msg) : N := (m_ts m * 1000000 + m_us m)%N.
(** LogMsg::getTimeMilliSecs / getTimeMicroSecs *)
Definition time_ms (m : msg) : N := ((total_us m / 1000) mod 1000)%N.
Definition time_us (m : msg) : N := (total_us m mod 1000000)%N.
(** LogMsg::getTimestamp (to_time_t truncates) *)
Definition timestamp (m : msg) : N := (total_us m / 1000000)%N.

(** detail::logLevel2text / logClass2text (log_defs.hpp) *)
Definition level_text (l : N) : str :=
  match l with
  | 1%N => s_ "Fatal Error" | 2%N => s_ "Error" | 3%N => s_ "Warning" | 4%N => s_ "Info"
  | 5%N => s_ "Debug" | 6%N => s_ "Full Debug" | _ => s_ "undefined"
  end.
Definition class_text (c : N) : str :=
  match c with
  | 1%N => s_ "SysCall" | 2%N => s_ "Data" | 3%N => s_ "Communication" | 4%N => s_ "Application"
  | 5%N => s_ "Accounting" | 6%N => s_ "Operator Action" | _ => s_ "undefined"
  end.

(* ------------------------------------------------------------------ *)
(** * Format *)

Record ostream := mkos { o_out : str; o_width : Z; o_left : bool }.

Definition os_init : ostream := mkos [] 0 false.

Definition spaces (n : nat) : str := repeat 32%N n.

(** dest << str (std::string inserter: pads to width(), then width( 0)) *)
Definition put_str (o : ostream) (s : str) : ostream :=
  let pad := Z.to_nat (o_width o - Z.of_nat (List.length s)) in
  mkos (o_out o ++ (if o_left o then s ++ spaces pad else spaces pad ++ s)) 0 (o_left o).

(** Format::append *)
Definition append (o : ostream) (f : field) (s : str) : ostream :=
  let o1 := if 0 <? f_width f then mkos (o_out o) (f_width f) (o_left o) else o in
  let o2 := if f_left f then mkos (o_out o1) (o_width o1) true else o1 in
  let o3 := put_str o2 s in
  if f_left f then mkos (o_out o3) (o_width o3) false else o3.

(** the default formats of the date, time and date_time fields *)
Definition fmt_date : str := s_ "%F".
Definition fmt_time : str := s_ "%T".
Definition fmt_datetime : str := s_ "%F %T".

Section WithStrftime.

Variable strftime_ : str -> N -> str.

(** Format::formatDateTime *)
Definition format_datetime (o : ostream) (f : field) (default : str) (ts : N) : res ostream :=
  let use := if is_nil (f_const f) then default else f_const f in
  Ok (append o f (strftime_ use ts)).

Definition format_datetime_pinned (o : ostream) (f : field) (default : str) (ts : N) : res ostream :=
  let use := if is_nil (f_const f) then default else f_const f in
  let text := strftime_ use ts in
  (* strftime( buf, 127, ...) returns 0 and leaves the buffer unspecified when
     the expansion and its terminator need more than 127 characters *)
  if (127 <=? List.length text)%nat then Fault OOBRead else Ok (append o f text).

(** one iteration of the loop of Format::format; [lookup] is the attribute
    lookup (message attributes, then the global ones) *)
Definition format_field (lookup : str -> str) (m : msg) (o : ostream) (f : field) : res ostream :=
  match f_type f with
  | FConstant => Ok (append o f (f_const f))
  | FDate => format_datetime o f fmt_date (timestamp m)
  | FTime => format_datetime o f fmt_time (timestamp m)
  | FDateTime => format_datetime o f fmt_datetime (timestamp m)
  | FTimeMs => Ok (append o f (pad0 3 (dec_N (time_ms m))))
  | FTimeUs => Ok (append o f (pad0 6 (dec_N (time_us m))))
  | FPid => Ok (append o f (dec_Z (m_pid m)))
  | FThreadId => Ok (append o f (hex_N (m_tid m)))
  | FLineNbr => Ok (append o f (dec_Z (m_line m)))
  | FFunctionName => Ok (append o f (m_func m))
  | FFileName => Ok (append o f (m_file m))
  | FMsgLevel => Ok (append o f (level_text (m_level m)))
  | FMsgClass => Ok (append o f (class_text (m_class m)))
  | FErrorNbr => Ok (append o f (dec_Z (m_err m)))
  | FText => Ok (append o f (m_text m))
  | FAttribute => Ok (append o f (lookup (f_const f)))
  end.

Definition format_field_pinned (lookup : str -> str) (m : msg) (o : ostream) (f : field) : res ostream :=
  match f_type f with
  | FDate => format_datetime_pinned o f fmt_date (timestamp m)
  | FTime => format_datetime_pinned o f fmt_time (timestamp m)
  | FDateTime => format_datetime_pinned o f fmt_datetime (timestamp m)
  | _ => format_field lookup m o f
  end.

(** Format::format *)
Fixpoint format_loop (lookup : str -> str) (m : msg) (o : ostream) (fs : list field) : res ostream :=
  match fs with
  | [] => Ok o
  | f :: r => do o' <- format_field lookup m o f; format_loop lookup m o' r
  end.

Fixpoint format_loop_pinned (lookup : str -> str) (m : msg) (o : ostream) (fs : list field) : res ostream :=
  match fs with
  | [] => Ok o
  | f :: r => do o' <- format_field_pinned lookup m o f; format_loop_pinned lookup m o' r
  end.

(** the text a fresh stream destination receives *)
Definition format (def : list field) (m : msg) (ma : option chain) (global : attrs) : res str :=
  do o <- format_loop (attr_lookup ma global) m os_init def; Ok (o_out o).

Definition format_pinned (def : list field) (m : msg) (ma : option chain) (global : attrs) : res str :=
  do o <- format_loop_pinned (attr_lookup_pinned ma global) m os_init def; Ok (o_out o).

(* ------------------------------------------------------------------ *)
(** * scripted histories (what the correspondence run executes) *)

Inductive wop :=
| WC (o : cop)
| WA (o : aop)
| WMsg (m : msg) (a : option nat).

Record world := mkw { x_cr : creator; x_def : list field; x_attr : aworld }.

Definition world_init : world := mkw (creator_init None) [] aw_init.

Fixpoint run (w : world) (ops : list wop) : list (res str) * world :=
  match ops with
  | [] => ([], w)
  | WC o :: r => let '(c, fs) := cstep (x_cr w, x_def w) o in run (mkw c fs (x_attr w)) r
  | WA o :: r => run (mkw (x_cr w) (x_def w) (astep (x_attr w) o)) r
  | WMsg m a :: r =>
      let '(outs, w') := run w r in
      (format (x_def w) m (msg_chain (x_attr w) a) (w_global (x_attr w)) :: outs, w')
  end.

(** the same on the copies of the pinned functions (used to validate them
    against the pinned tree: driver with C16_MODEL=pinned) *)
Fixpoint run_pinned (w : world) (ops : list wop) : list (res str) * world :=
  match ops with
  | [] => ([], w)
  | WC o :: r => let '(c, fs) := cstep (x_cr w, x_def w) o in run_pinned (mkw c fs (x_attr w)) r
  | WA o :: r => run_pinned (mkw (x_cr w) (x_def w) (astep (x_attr w) o)) r
  | WMsg m a :: r =>
      let '(outs, w') := run_pinned w r in
      (format_pinned (x_def w) m (msg_chain (x_attr w) a) (w_global (x_attr w)) :: outs, w')
  end.

End WithStrftime.
