(** Executable model of the log attributes of Celma (C16):
      celma::log::detail::LogAttributesContainer  (log_attributes_container.cpp)
      celma::log::LogAttributes                   (log_attributes.cpp)
      celma::log::detail::ScopedAttribute         (log_scoped_attribute.cpp)
      the attribute part of celma::log::Logging   (logging.cpp/.hpp)
    No proofs in this file.

    A container is the list of its (name, value) pairs, NEWEST FIRST: the
    vector's push_back is a cons, the reverse iteration of getAttribute /
    removeAttribute( name) is a walk from the head.

    The functions without suffix mirror the tree with the repair
    fixes/C16-1-empty-attribute-value.patch (an attribute that exists with an
    empty value is found); the [_pinned] copies mirror the pinned code, where the
    empty string returned for "not found" is also taken for "not found" when it
    is the value. *)
From Coq Require Import List Arith NArith Bool.
Import ListNotations.

Notation str := (list N) (only parsing).

Fixpoint str_eqb (a b : str) : bool :=
  match a, b with
  | [], [] => true
  | x :: a', y :: b' => N.eqb x y && str_eqb a' b'
  | _, _ => false
  end.

Definition is_nil {A} (s : list A) : bool := match s with [] => true | _ => false end.

Definition attrs := list (str * str).

(** LogAttributesContainer::addAttribute *)
Definition c_add (c : attrs) (n v : str) : attrs := (n, v) :: c.

(** the reverse loop of getAttribute *)
Fixpoint c_find (c : attrs) (n : str) : option str :=
  match c with
  | [] => None
  | (k, v) :: r => if str_eqb k n then Some v else c_find r n
  end.

(** LogAttributesContainer::getAttribute: empty string when not found *)
Definition c_get (c : attrs) (n : str) : str :=
  match c_find c n with Some v => v | None => [] end.

(** LogAttributesContainer::hasAttribute (added by the repair) *)
Definition c_has (c : attrs) (n : str) : bool :=
  match c_find c n with Some _ => true | None => false end.

(** LogAttributesContainer::removeAttribute(): the entry added last *)
Definition c_remove_last (c : attrs) : attrs := tl c.

(** LogAttributesContainer::removeAttribute( name): the newest entry with that name *)
Fixpoint c_remove (c : attrs) (n : str) : attrs :=
  match c with
  | [] => []
  | (k, v) :: r => if str_eqb k n then r else (k, v) :: c_remove r n
  end.

(** a LogAttributes object followed by its chain of outer objects *)
Definition chain := list attrs.

(** LogAttributes::hasAttribute (added by the repair) *)
Fixpoint chain_has (ch : chain) (n : str) : bool :=
  match ch with
  | [] => false
  | c :: outer => c_has c n || chain_has outer n
  end.

(** LogAttributes::getAttribute *)
Fixpoint chain_get (ch : chain) (n : str) : str :=
  match ch with
  | [] => []
  | c :: outer => if negb (c_has c n) then chain_get outer n else c_get c n
  end.

Fixpoint chain_get_pinned (ch : chain) (n : str) : str :=
  match ch with
  | [] => []
  | c :: outer => let v := c_get c n in if is_nil v then chain_get_pinned outer n else v
  end.

(** the lookup of Format::format (case attribute) and StreamLog::addAttribute:
    the message's attributes ([None]: no LogAttributes object was passed), then
    the global ones *)
Definition attr_lookup (m : option chain) (global : attrs) (n : str) : str :=
  match m with
  | Some ch => if chain_has ch n then chain_get ch n else c_get global n
  | None => c_get global n
  end.

Definition attr_lookup_pinned (m : option chain) (global : attrs) (n : str) : str :=
  let v := match m with Some ch => chain_get_pinned ch n | None => [] end in
  if is_nil v then c_get global n else v.

(* ------------------------------------------------------------------ *)
(** * histories *)

Record lobj := mklobj { l_attrs : attrs; l_outer : option nat }.

(** [w_scopes]: names held by the live ScopedAttribute objects, innermost first *)
Record aworld := mkaw { w_global : attrs; w_scopes : list str; w_objs : list lobj }.

Definition aw_init : aworld := mkaw [] [] [].

Inductive aop :=
| GAdd (n v : str)            (* Logging::addAttribute *)
| GRemove (n : str)           (* Logging::removeAttribute *)
| SOpen (n v : str)           (* ScopedAttribute constructor *)
| SClose                      (* destructor of the innermost ScopedAttribute *)
| LNew (outer : option nat)   (* LogAttributes() / LogAttributes( &outer) *)
| LAdd (i : nat) (n v : str)
| LRemove (i : nat) (n : str)
| LRemoveLast (i : nat).

Fixpoint upd_obj (objs : list lobj) (i : nat) (f : attrs -> attrs) : list lobj :=
  match objs, i with
  | [], _ => []
  | o :: r, 0 => mklobj (f (l_attrs o)) (l_outer o) :: r
  | o :: r, S i' => o :: upd_obj r i' f
  end.

Definition astep (w : aworld) (o : aop) : aworld :=
  match o with
  | GAdd n v => mkaw (c_add (w_global w) n v) (w_scopes w) (w_objs w)
  | GRemove n => mkaw (c_remove (w_global w) n) (w_scopes w) (w_objs w)
  | SOpen n v => mkaw (c_add (w_global w) n v) (n :: w_scopes w) (w_objs w)
  | SClose =>
      match w_scopes w with
      | [] => w
      | n :: r => mkaw (c_remove (w_global w) n) r (w_objs w)
      end
  | LNew outer => mkaw (w_global w) (w_scopes w) (w_objs w ++ [mklobj [] outer])
  | LAdd i n v => mkaw (w_global w) (w_scopes w) (upd_obj (w_objs w) i (fun c => c_add c n v))
  | LRemove i n => mkaw (w_global w) (w_scopes w) (upd_obj (w_objs w) i (fun c => c_remove c n))
  | LRemoveLast i => mkaw (w_global w) (w_scopes w) (upd_obj (w_objs w) i c_remove_last)
  end.

(** the object [i] and the objects reachable through the outer pointers *)
Fixpoint chain_of (objs : list lobj) (fuel : nat) (i : nat) : chain :=
  match fuel with
  | 0 => []
  | S f =>
      match nth_error objs i with
      | None => []
      | Some o => l_attrs o :: match l_outer o with None => [] | Some j => chain_of objs f j end
      end
  end.

Definition msg_chain (w : aworld) (a : option nat) : option chain :=
  match a with
  | None => None
  | Some i => Some (chain_of (w_objs w) (S (length (w_objs w))) i)
  end.
