(** Proofs about the Creator / Format model (C16). *)
From Coq Require Import List Arith NArith ZArith Bool Lia.
Import ListNotations.
Require Import Celma.Common.Res Celma.Log.AttrModel Celma.Log.AttrProofs Celma.Log.FormatModel.

Open Scope Z_scope.

(* ------------------------------------------------------------------ *)
(** * Creator: the field list built is the declared sequence *)

(** a stream expression is a sequence of declarations: options, then the
    operation that adds the field *)
Inductive opt := PWidth (w : Z) | PLeft | PFmt (s : list N) | PSep (s : option (list N)).
Inductive fop := AConst (s : list N) | AAttr (s : list N) | AField (t : ftype).
Record decl := mkdecl { d_opts : list opt; d_fop : fop }.

Definition cop_of_opt (o : opt) : cop :=
  match o with PWidth w => OWidth w | PLeft => OLeft | PFmt s => OFmt s | PSep s => OSep s end.
Definition cop_of_fop (f : fop) : cop :=
  match f with AConst s => OConst s | AAttr s => OAttr s | AField t => OField t end.

Definition script_of_decl (d : decl) : list cop := map cop_of_opt (d_opts d) ++ [cop_of_fop (d_fop d)].
Definition script_of (ds : list decl) : list cop := flat_map script_of_decl ds.

(** what a list of options means: the last width, any [left], the last format
    string, the last separator setting *)
Definition width_of (acc : Z) (os : list opt) : Z :=
  fold_left (fun a o => match o with PWidth w => w | _ => a end) os acc.
Definition left_of (acc : bool) (os : list opt) : bool :=
  fold_left (fun a o => match o with PLeft => true | _ => a end) os acc.
Definition fmt_of (acc : list N) (os : list opt) : list N :=
  fold_left (fun a o => match o with PFmt s => s | _ => a end) os acc.
Definition sep_of (acc : list N) (os : list opt) : list N :=
  fold_left (fun a o => match o with PSep (Some s) => s | PSep None => [] | _ => a end) os acc.

(** the field a declaration declares: its own options only *)
Definition declared_field (d : decl) : field :=
  let w := width_of 0 (d_opts d) in
  let l := left_of false (d_opts d) in
  match d_fop d with
  | AConst s => mkfield FConstant s w l
  | AAttr s => mkfield FAttribute s w l
  | AField t => mkfield t (fmt_of [] (d_opts d)) w l
  end.

(** the declared sequence with the separator in effect between the fields *)
Fixpoint spec_fields (sep : list N) (nonempty : bool) (ds : list decl) : list field :=
  match ds with
  | [] => []
  | d :: r =>
      let sep' := sep_of sep (d_opts d) in
      (if negb (is_nil sep') && nonempty then [mkfield FConstant sep' 0 false] else [])
      ++ declared_field d :: spec_fields sep' true r
  end.

Definition crun (st : creator * list field) (ops : list cop) : creator * list field :=
  fold_left cstep ops st.

Lemma crun_opts os : forall sep fmt w l fs,
  crun (mkcr sep fmt w l, fs) (map cop_of_opt os) =
  (mkcr (sep_of sep os) (fmt_of fmt os) (width_of w os) (left_of l os), fs).
Proof.
  induction os as [|o os IH]; intros; [reflexivity|].
  cbn [map]. unfold crun. cbn [fold_left]. fold (crun (cstep (mkcr sep fmt w l, fs) (cop_of_opt o)) (map cop_of_opt os)).
  destruct o as [w'| |s|[s|]]; cbn [cstep cop_of_opt c_sep c_fmt c_width c_left]; rewrite IH; reflexivity.
Qed.

Lemma is_nil_app_false {A} (a b : list A) : b <> [] -> is_nil (a ++ b) = false.
Proof. destruct a; [destruct b; [congruence|reflexivity]|reflexivity]. Qed.

Lemma crun_decl d sep fs :
  crun (mkcr sep [] 0 false, fs) (script_of_decl d) =
  (mkcr (sep_of sep (d_opts d)) [] 0 false,
   fs ++ (if negb (is_nil (sep_of sep (d_opts d))) && negb (is_nil fs)
          then [mkfield FConstant (sep_of sep (d_opts d)) 0 false] else [])
      ++ [declared_field d]).
Proof.
  unfold script_of_decl, crun. rewrite fold_left_app. fold (crun (mkcr sep [] 0 false, fs) (map cop_of_opt (d_opts d))).
  rewrite crun_opts. unfold declared_field.
  destruct (d_fop d); cbn [fold_left cop_of_fop cstep]; unfold add_field; cbn [c_sep c_fmt c_width c_left];
    destruct (negb (is_nil (sep_of sep (d_opts d))) && negb (is_nil fs));
    rewrite <- ?app_assoc; reflexivity.
Qed.

Theorem creator_fields_from ds : forall sep fs,
  crun (mkcr sep [] 0 false, fs) (script_of ds) =
  (mkcr (fold_left (fun s d => sep_of s (d_opts d)) ds sep) [] 0 false,
   fs ++ spec_fields sep (negb (is_nil fs)) ds).
Proof.
  induction ds as [|d r IH]; intros sep fs.
  - cbn. rewrite app_nil_r. reflexivity.
  - cbn [script_of flat_map]. unfold crun. rewrite fold_left_app.
    fold (crun (mkcr sep [] 0 false, fs) (script_of_decl d)). rewrite crun_decl.
    fold (script_of r).
    match goal with |- fold_left cstep _ (?c, ?f) = _ => fold (crun (c, f) (script_of r)) end.
    rewrite IH. cbn [fold_left spec_fields]. f_equal.
    rewrite <- !app_assoc. f_equal.
    assert (E : negb (is_nil (fs ++ (if negb (is_nil (sep_of sep (d_opts d))) && negb (is_nil fs)
                 then [mkfield FConstant (sep_of sep (d_opts d)) 0 false] else []) ++ [declared_field d])) = true).
    { rewrite is_nil_app_false; [reflexivity|]. destruct (negb _ && negb _); discriminate. }
    rewrite E. reflexivity.
Qed.

(** a Creator on an empty definition: the fields are the declared sequence,
    separators exactly between fields, every option used once; options after
    the last field have no effect *)
Theorem creator_fields sep0 ds trailing :
  snd (crun (creator_init sep0, []) (script_of ds ++ map cop_of_opt trailing)) =
  spec_fields (match sep0 with Some s => s | None => [] end) false ds.
Proof.
  unfold crun. rewrite fold_left_app. unfold creator_init.
  fold (crun (mkcr (match sep0 with Some s => s | None => [] end) [] 0 false, []) (script_of ds)).
  rewrite creator_fields_from. cbn [app is_nil negb].
  match goal with |- snd (fold_left cstep _ (mkcr ?a ?b ?c ?d, ?f)) = _ =>
    fold (crun (mkcr a b c d, f) (map cop_of_opt trailing)) end.
  rewrite crun_opts. reflexivity.
Qed.

(* ------------------------------------------------------------------ *)
(** * Format: the text is the concatenation of the padded fields *)

(** a field's text: padded to the width on the requested side, never cut *)
Definition field_text (f : field) (s : list N) : list N :=
  let pad := Z.to_nat (f_width f - Z.of_nat (length s)) in
  if f_left f then s ++ spaces pad else spaces pad ++ s.

Definition os_clean (o : ostream) : Prop := o_width o = 0 /\ o_left o = false.

Lemma append_spec o f s :
  os_clean o -> append o f s = mkos (o_out o ++ field_text f s) 0 false.
Proof.
  intros [Hw Hl]. destruct o as [out w l]. cbn in Hw, Hl. subst w l.
  unfold append, field_text, put_str. cbn [o_out o_width o_left].
  destruct (0 <? f_width f) eqn:E; destruct (f_left f); cbn [o_out o_width o_left]; try reflexivity.
  - apply Z.ltb_ge in E. replace (Z.to_nat (f_width f - Z.of_nat (length s))) with 0%nat by lia.
    replace (Z.to_nat (0 - Z.of_nat (length s))) with 0%nat by lia. reflexivity.
  - apply Z.ltb_ge in E. replace (Z.to_nat (f_width f - Z.of_nat (length s))) with 0%nat by lia.
    replace (Z.to_nat (0 - Z.of_nat (length s))) with 0%nat by lia. reflexivity.
Qed.

Lemma spaces_length n : length (spaces n) = n.
Proof. apply repeat_length. Qed.

Theorem render_field_width f s :
  length (field_text f s) = Nat.max (Z.to_nat (f_width f)) (length s) /\
  exists pad, pad = (Z.to_nat (f_width f) - length s)%nat /\
              field_text f s = if f_left f then s ++ spaces pad else spaces pad ++ s.
Proof.
  unfold field_text. split.
  - destruct (f_left f); rewrite app_length, spaces_length; lia.
  - exists (Z.to_nat (f_width f - Z.of_nat (length s))). split; [lia|reflexivity].
Qed.

Section WithStrftime.

Variable strftime_ : list N -> N -> list N.

(** what each kind of field shows *)
Definition content (lookup : list N -> list N) (m : msg) (f : field) : list N :=
  match f_type f with
  | FConstant => f_const f
  | FDate => strftime_ (if is_nil (f_const f) then fmt_date else f_const f) (timestamp m)
  | FTime => strftime_ (if is_nil (f_const f) then fmt_time else f_const f) (timestamp m)
  | FDateTime => strftime_ (if is_nil (f_const f) then fmt_datetime else f_const f) (timestamp m)
  | FTimeMs => pad0 3 (dec_N (time_ms m))
  | FTimeUs => pad0 6 (dec_N (time_us m))
  | FPid => dec_Z (m_pid m)
  | FThreadId => hex_N (m_tid m)
  | FLineNbr => dec_Z (m_line m)
  | FFunctionName => m_func m
  | FFileName => m_file m
  | FMsgLevel => level_text (m_level m)
  | FMsgClass => class_text (m_class m)
  | FErrorNbr => dec_Z (m_err m)
  | FText => m_text m
  | FAttribute => lookup (f_const f)
  end.

Lemma format_field_spec lookup m o f :
  os_clean o ->
  format_field strftime_ lookup m o f =
  Ok (mkos (o_out o ++ field_text f (content lookup m f)) 0 false).
Proof.
  intros H. unfold format_field, content, format_datetime.
  destruct (f_type f); rewrite append_spec by assumption; reflexivity.
Qed.

Lemma format_loop_spec lookup m fs : forall o,
  os_clean o ->
  format_loop strftime_ lookup m o fs =
  Ok (mkos (o_out o ++ concat (map (fun f => field_text f (content lookup m f)) fs)) 0 false).
Proof.
  induction fs as [|f r IH]; intros o H.
  - cbn. rewrite app_nil_r. destruct H as [Hw Hl]. destruct o; cbn in *; subst. reflexivity.
  - cbn [format_loop]. rewrite format_field_spec by assumption. cbn [bind].
    rewrite IH by (split; reflexivity). cbn [o_out map concat]. rewrite <- app_assoc. reflexivity.
Qed.

(** the text a stream destination receives: the fields of the definition in
    definition order, each padded and aligned, nothing in between; attribute
    fields show the documented lookup *)
Theorem render_concat def m ma global :
  format strftime_ def m ma global =
  Ok (concat (map (fun f => field_text f (content (lookup_spec ma global) m f)) def)).
Proof.
  unfold format. rewrite format_loop_spec by (split; reflexivity). cbn [bind o_out os_init app].
  f_equal. f_equal. apply map_ext. intros f. unfold content.
  destruct (f_type f); try reflexivity. rewrite attr_lookup_correct. reflexivity.
Qed.

(** the pinned code agrees as long as no date/time expansion reaches 127
    characters and no attribute with an empty value is involved *)
Lemma format_loop_pinned_partial lookup m fs : forall o,
  (forall fmt, (length (strftime_ fmt (timestamp m)) < 127)%nat) ->
  format_loop_pinned strftime_ lookup m o fs = format_loop strftime_ lookup m o fs.
Proof.
  intros o H. revert o. induction fs as [|f r IH]; intros o; [reflexivity|].
  cbn [format_loop format_loop_pinned].
  assert (E : format_field_pinned strftime_ lookup m o f = format_field strftime_ lookup m o f).
  { unfold format_field_pinned, format_field, format_datetime_pinned, format_datetime.
    destruct (f_type f); try reflexivity;
      match goal with |- context [(127 <=? ?n)%nat] =>
        let E := fresh in destruct (127 <=? n)%nat eqn:E; [apply Nat.leb_le in E|reflexivity] end;
      match goal with Hx : (127 <= length (strftime_ ?a ?b))%nat |- _ => specialize (H a); lia end. }
  rewrite E. destruct (format_field strftime_ lookup m o f); cbn [bind]; [apply IH|reflexivity|reflexivity].
Qed.

Theorem render_pinned_partial def m ma global :
  (forall fmt, (length (strftime_ fmt (timestamp m)) < 127)%nat) ->
  (forall f, In f def -> f_type f = FAttribute ->
             Forall (fun c => c_find c (f_const f) <> Some [])
                    (match ma with Some ch => ch | None => [] end)) ->
  format_pinned strftime_ def m ma global =
  Ok (concat (map (fun f => field_text f (content (lookup_spec ma global) m f)) def)).
Proof.
  intros Ht Ha. unfold format_pinned. rewrite format_loop_pinned_partial by assumption.
  rewrite format_loop_spec by (split; reflexivity). cbn [bind o_out os_init app].
  f_equal. f_equal. apply map_ext_in. intros f Hf. unfold content.
  destruct (f_type f) eqn:E; try reflexivity.
  rewrite attr_lookup_pinned_partial; [reflexivity|]. apply Ha; assumption.
Qed.

End WithStrftime.

(** the pinned code on a date format that expands to 130 characters: the
    buffer of 128 characters is printed although strftime reported failure *)
Theorem render_pinned_refuted :
  exists strftime_ def m,
    format_pinned strftime_ def m None [] = Fault OOBRead /\
    format strftime_ def m None [] = Ok (strftime_ (f_const (hd (mkfield FDate [] 0 false) def)) (timestamp m)).
Proof.
  exists (fun fmt _ => fmt ++ repeat 120%N 128),
         [mkfield FDate [37%N; 89%N] 0 false],
         (mkmsg 1500000000 0 1 1 [] [] 1 4 4 0 []).
  split; vm_compute; reflexivity.
Qed.
