(** Proofs about the log attribute model (C16). *)
From Coq Require Import List Arith NArith Bool Lia.
Import ListNotations.
Require Import Celma.Log.AttrModel.

Lemma str_eqb_eq a b : str_eqb a b = true <-> a = b.
Proof.
  revert b. induction a as [|x a IH]; destruct b as [|y b]; cbn; split; try congruence; try discriminate.
  - intros H. apply andb_prop in H. destruct H as [H1 H2]. apply N.eqb_eq in H1. apply IH in H2. congruence.
  - intros H. inversion H; subst. rewrite N.eqb_refl. cbn. apply IH. reflexivity.
Qed.

Lemma str_eqb_refl a : str_eqb a a = true.
Proof. apply str_eqb_eq. reflexivity. Qed.

Lemma str_eqb_neq a b : a <> b -> str_eqb a b = false.
Proof. intros H. destruct (str_eqb a b) eqn:E; [apply str_eqb_eq in E; contradiction|reflexivity]. Qed.

(* ------------------------------------------------------------------ *)
(** * one container *)

Lemma c_find_add_same c n v : c_find (c_add c n v) n = Some v.
Proof. cbn. rewrite str_eqb_refl. reflexivity. Qed.

Lemma c_find_add_other c n n' v : n' <> n -> c_find (c_add c n' v) n = c_find c n.
Proof. intros H. cbn. rewrite str_eqb_neq by assumption. reflexivity. Qed.

(** the newest definition of a name wins, whatever was defined before and
    whatever other names were defined after it *)
Lemma c_find_latest later c n v :
  Forall (fun e => fst e <> n) later -> c_find (later ++ (n, v) :: c) n = Some v.
Proof.
  induction 1 as [|[k w] later Hk _ IH]; cbn.
  - rewrite str_eqb_refl. reflexivity.
  - cbn in Hk. rewrite str_eqb_neq by assumption. exact IH.
Qed.

Lemma c_remove_add c n v : c_remove (c_add c n v) n = c.
Proof. cbn. rewrite str_eqb_refl. reflexivity. Qed.

(** removing a name removes its newest entry only: the one before becomes visible again *)
Lemma c_find_remove_same later c n v :
  Forall (fun e => fst e <> n) later ->
  c_remove (later ++ (n, v) :: c) n = later ++ c.
Proof.
  induction 1 as [|[k w] later Hk _ IH]; cbn.
  - rewrite str_eqb_refl. reflexivity.
  - cbn in Hk. rewrite str_eqb_neq by assumption. f_equal. exact IH.
Qed.

Lemma c_find_remove_other c n n' : n' <> n -> c_find (c_remove c n') n = c_find c n.
Proof.
  intros H. induction c as [|[k w] c IH]; [reflexivity|]. cbn.
  destruct (str_eqb k n') eqn:E1.
  - apply str_eqb_eq in E1. subst k. rewrite (str_eqb_neq n' n) by assumption. reflexivity.
  - cbn. destruct (str_eqb k n); [reflexivity|exact IH].
Qed.

Lemma c_has_find c n : c_has c n = true <-> exists v, c_find c n = Some v.
Proof.
  unfold c_has. destruct (c_find c n); split; intros H; try discriminate; eauto.
  destruct H; discriminate.
Qed.

(* ------------------------------------------------------------------ *)
(** * message attributes before global ones *)

(** the documented search order: the message's LogAttributes object, its outer
    objects, finally the global store; in each the newest definition *)
Fixpoint first_def (cs : list attrs) (n : list N) : option (list N) :=
  match cs with
  | [] => None
  | c :: r => match c_find c n with Some v => Some v | None => first_def r n end
  end.

Definition lookup_spec (m : option chain) (global : attrs) (n : list N) : list N :=
  match first_def (match m with Some ch => ch | None => [] end ++ [global]) n with
  | Some v => v
  | None => []
  end.

Lemma chain_has_first_def ch n :
  chain_has ch n = match first_def ch n with Some _ => true | None => false end.
Proof.
  induction ch as [|c r IH]; [reflexivity|]. cbn. unfold c_has.
  destruct (c_find c n); [reflexivity|exact IH].
Qed.

Lemma chain_get_first_def ch n :
  chain_get ch n = match first_def ch n with Some v => v | None => [] end.
Proof.
  induction ch as [|c r IH]; [reflexivity|]. cbn. unfold c_has, c_get.
  destruct (c_find c n); [reflexivity|exact IH].
Qed.

Lemma first_def_app a b n :
  first_def (a ++ b) n = match first_def a n with Some v => Some v | None => first_def b n end.
Proof.
  induction a as [|c r IH]; [reflexivity|]. cbn. destruct (c_find c n); [reflexivity|exact IH].
Qed.

Theorem attr_lookup_correct m global n : attr_lookup m global n = lookup_spec m global n.
Proof.
  unfold attr_lookup, lookup_spec. destruct m as [ch|].
  - rewrite first_def_app, chain_has_first_def, chain_get_first_def. cbn.
    destruct (first_def ch n); [reflexivity|]. unfold c_get. destruct (c_find global n); reflexivity.
  - cbn. unfold c_get. destruct (c_find global n); reflexivity.
Qed.

(** a definition in the message's chain hides the global store *)
Theorem attr_msg_before_global ch global n v :
  first_def ch n = Some v -> attr_lookup (Some ch) global n = v.
Proof.
  intros H. rewrite attr_lookup_correct. unfold lookup_spec. rewrite first_def_app, H. reflexivity.
Qed.

Theorem attr_global_when_undefined ch global n :
  first_def ch n = None -> attr_lookup (Some ch) global n = c_get global n.
Proof.
  intros H. rewrite attr_lookup_correct. unfold lookup_spec. rewrite first_def_app, H. cbn.
  unfold c_get. destruct (c_find global n); reflexivity.
Qed.

(** the pinned code: right unless a definition with an empty value is involved *)
Lemma chain_get_pinned_partial ch n :
  Forall (fun c => c_find c n <> Some []) ch ->
  chain_get_pinned ch n = match first_def ch n with Some v => v | None => [] end.
Proof.
  induction 1 as [|c r Hc _ IH]; [reflexivity|]. cbn. unfold c_get.
  destruct (c_find c n) as [v|].
  - destruct v; [congruence|reflexivity].
  - cbn. exact IH.
Qed.

Theorem attr_lookup_pinned_partial m global n :
  Forall (fun c => c_find c n <> Some []) (match m with Some ch => ch | None => [] end) ->
  attr_lookup_pinned m global n = lookup_spec m global n.
Proof.
  intros H. unfold attr_lookup_pinned, lookup_spec. destruct m as [ch|].
  - rewrite chain_get_pinned_partial by assumption. rewrite first_def_app.
    destruct (first_def ch n) as [v|] eqn:E.
    + destruct v; [|reflexivity]. exfalso. clear -H E.
      induction ch as [|c r IH]; [discriminate|]. inversion H; subst. cbn in E.
      destruct (c_find c n) as [w|]; [inversion E; subst; congruence|auto].
    + cbn. unfold c_get. destruct (c_find global n); reflexivity.
  - cbn. unfold c_get. destruct (c_find global n); reflexivity.
Qed.

Theorem attr_lookup_pinned_refuted :
  exists m global n, attr_lookup_pinned m global n <> lookup_spec m global n.
Proof.
  (* message attribute n = "", global attribute n = "g" *)
  exists (Some [[([110%N], [])]]), [([110%N], [103%N])], [110%N]. vm_compute. discriminate.
Qed.

(* ------------------------------------------------------------------ *)
(** * scoped attributes *)

(** sequences of scoped attributes created and destroyed in block order *)
Inductive nested : list aop -> Prop :=
| nested_nil : nested []
| nested_scope n v inner rest :
    nested inner -> nested rest -> nested (SOpen n v :: inner ++ SClose :: rest).

Definition arun (w : aworld) (ops : list aop) : aworld := fold_left astep ops w.

Lemma arun_app w a b : arun w (a ++ b) = arun (arun w a) b.
Proof. apply fold_left_app. Qed.

Theorem attr_scope_restores ops :
  nested ops -> forall w, arun w ops = w.
Proof.
  induction 1 as [|n v inner rest _ IHi _ IHr]; intros w; [reflexivity|].
  change (arun w (SOpen n v :: inner ++ SClose :: rest))
    with (arun (astep w (SOpen n v)) (inner ++ SClose :: rest)).
  rewrite arun_app, IHi.
  change (arun (astep w (SOpen n v)) (SClose :: rest))
    with (arun (astep (astep w (SOpen n v)) SClose) rest).
  rewrite IHr. destruct w as [g s o]. cbn. rewrite str_eqb_refl. reflexivity.
Qed.

(** inside its scope the attribute is what a lookup of its name finds, also
    after further well-nested scopes have come and gone *)
Theorem attr_scope_visible w n v inner :
  nested inner ->
  c_find (w_global (arun (astep w (SOpen n v)) inner)) n = Some v.
Proof.
  intros H. rewrite attr_scope_restores by assumption. cbn. rewrite str_eqb_refl. reflexivity.
Qed.
