(** Proofs about the model of the log filters (FilterModel.v). *)
From Coq Require Import List Arith NArith Bool String Ascii Lia.
Import ListNotations.
Require Import Celma.Common.Res Celma.Common.Tactics Celma.Log.FilterOpsGen Celma.Log.FilterModel.

(* ------------------------------------------------------------------ *)
(** * What the translator has to have found in the source *)

Lemma gen_ops :
  op_max_process = OpLe /\ op_min_process = OpGe /\ op_level_process = OpEq /\ op_level_pass = OpEq.
Proof. repeat split; reflexivity. Qed.

Lemma gen_bitset : class_bitset_size = 7 /\ text2class_last = 6.
Proof. split; reflexivity. Qed.

Lemma gen_enums :
  List.length log_level_enum = 7 /\ List.length log_class_enum = 7 /\ List.length class_texts = 7 /\
  nth 0 log_level_enum EmptyString = "undefined"%string /\
  nth 0 log_class_enum EmptyString = "undefined"%string.
Proof. repeat split; reflexivity. Qed.

Lemma is_level_filter_spec : forall t, is_level_filter t = negb (ftype_eqb t TClasses).
Proof. destruct t; reflexivity. Qed.
Local Opaque is_level_filter.

(* ------------------------------------------------------------------ *)
(** * The spec: what a filter is said to accept *)

Definition filter_accepts (f : filter) (m : msg) : bool :=
  match f with
  | FMax x => fst m <=? x
  | FMin x => x <=? fst m
  | FLevel x => fst m =? x
  | FClasses b => nth (snd m) b false
  end.

Definition filter_wf (f : filter) : Prop :=
  match f with FClasses b => List.length b = class_bitset_size | _ => True end.

Lemma max_accepts : forall x l c, filter_pass (FMax x) (l, c) = Ok (l <=? x).
Proof. reflexivity. Qed.
Lemma min_accepts : forall x l c, filter_pass (FMin x) (l, c) = Ok (x <=? l).
Proof. reflexivity. Qed.
Lemma level_accepts : forall x l c, filter_pass (FLevel x) (l, c) = Ok (l =? x).
Proof. reflexivity. Qed.

Lemma filter_pass_accepts : forall f m,
  filter_wf f -> snd m < 7 -> filter_pass f m = Ok (filter_accepts f m).
Proof.
  intros [x|x|x|b] [l c] W H; try reflexivity.
  cbn in *. unfold bs_test. rewrite W.
  destruct gen_bitset as [-> _].
  destruct (Nat.ltb_spec c 7); [reflexivity|lia].
Qed.

(* ------------------------------------------------------------------ *)
(** * Bitset and class list *)

Lemma bs_set_spec : forall b i b',
  bs_set b i = Ok b' ->
  List.length b' = List.length b /\ forall j, nth j b' false = (j =? i) || nth j b false.
Proof.
  unfold bs_set. intros b i b' H.
  destruct (Nat.ltb_spec i (List.length b)) as [L|L]; [|discriminate].
  injection H as <-. split.
  - rewrite app_length. cbn [List.length]. rewrite firstn_length, skipn_length. lia.
  - intros j. destruct (Nat.eqb_spec j i) as [->|N].
    + rewrite app_nth2; rewrite firstn_length; [|lia].
      replace (i - Nat.min i (List.length b)) with 0 by lia. reflexivity.
    + cbn [orb]. destruct (Nat.lt_ge_cases j i) as [Lt|Ge].
      * rewrite app_nth1 by (rewrite firstn_length; lia).
        rewrite <- (firstn_skipn i b) at 2. rewrite app_nth1 by (rewrite firstn_length; lia). reflexivity.
      * rewrite app_nth2 by (rewrite firstn_length; lia).
        rewrite firstn_length. replace (Nat.min i (List.length b)) with i by lia.
        destruct (j - i) as [|k] eqn:E; [lia|]. cbn.
        rewrite <- (firstn_skipn (i + 1) b) at 2.
        rewrite app_nth2 by (rewrite firstn_length; lia).
        rewrite firstn_length. replace (Nat.min (i + 1) (List.length b)) with (i + 1) by lia.
        f_equal. lia.
Qed.

Lemma bs_set_ok : forall b i, i < List.length b -> exists b', bs_set b i = Ok b'.
Proof.
  intros b i H. unfold bs_set. destruct (Nat.ltb_spec i (List.length b)); [eauto|lia].
Qed.

Lemma text2class_loop_range : forall fuel i t,
  text2class_loop fuel i t = 0 \/ (i <= text2class_loop fuel i t < i + fuel).
Proof.
  induction fuel as [|f IH]; intros i t; cbn [text2class_loop]; [now left|].
  destruct (strcaseeq (class_text i) t).
  - right. lia.
  - destruct (IH (S i) t) as [->|H]; [now left|right; lia].
Qed.

Lemma text2logclass_range : forall t, text2logclass t <= 6.
Proof.
  intros t. unfold text2logclass. destruct gen_bitset as [_ ->].
  destruct (text2class_loop_range 7 0 t) as [->|H]; lia.
Qed.

Local Opaque text2logclass.

Definition names_class (toks : list string) (c : lclass) : bool :=
  existsb (fun t => text2logclass t =? c) toks.

Lemma classes_loop_ok : forall toks b,
  List.length b = 7 ->
  Forall (fun t => text2logclass t <> 0) toks ->
  exists b', classes_loop toks b = Ok b' /\ List.length b' = 7 /\
             forall j, nth j b' false = nth j b false || names_class toks j.
Proof.
  induction toks as [|t r IH]; intros b L F.
  - exists b. cbn. repeat split; auto. intros j. now rewrite orb_false_r.
  - inversion F as [|? ? Ht Fr]; subst. cbn [classes_loop].
    destruct (Nat.eqb_spec (text2logclass t) 0) as [E|_]; [contradiction|].
    pose proof (text2logclass_range t) as R.
    destruct (bs_set_ok b (text2logclass t)) as [b1 S1]; [lia|].
    rewrite S1. cbn [bind].
    destruct (bs_set_spec _ _ _ S1) as [L1 N1].
    destruct (IH b1) as [b' [C [L' N']]]; [lia|assumption|].
    exists b'. repeat split; auto.
    intros j. rewrite N', N1. unfold names_class. cbn [existsb].
    rewrite (Nat.eqb_sym j). destruct (text2logclass t =? j), (nth j b false); reflexivity.
Qed.

Lemma classes_loop_bad : forall toks b,
  List.length b = 7 ->
  Exists (fun t => text2logclass t = 0) toks ->
  classes_loop toks b = Err ERuntime.
Proof.
  induction toks as [|t r IH]; intros b L E; [inversion E|].
  cbn [classes_loop]. destruct (Nat.eqb_spec (text2logclass t) 0) as [E0|N0]; [reflexivity|].
  inversion E; subst; [contradiction|].
  pose proof (text2logclass_range t) as R.
  destruct (bs_set_ok b (text2logclass t)) as [b1 S1]; [lia|].
  rewrite S1. cbn [bind]. apply IH; [|assumption].
  destruct (bs_set_spec _ _ _ S1); lia.
Qed.

Lemma repeat_false_nth : forall n j, nth j (repeat false n) false = false.
Proof. induction n; destruct j; cbn; auto. Qed.

Lemma existsb_nth_true : forall (b : bitset) j, nth j b false = true -> existsb (fun x => x) b = true.
Proof.
  induction b as [|x b IH]; intros [|j] H; cbn in *; try discriminate.
  - now rewrite H.
  - rewrite (IH j H). apply orb_true_r.
Qed.

Lemma existsb_all_false : forall (b : bitset), (forall j, nth j b false = false) -> existsb (fun x => x) b = false.
Proof.
  induction b as [|x b IH]; intros H; [reflexivity|]. cbn.
  rewrite (H 0 : x = false). cbn. apply IH. intros j. exact (H (S j)).
Qed.

(** every list of tokens: the filter exists exactly when every token names a class
    other than "undefined" and there is at least one, and then it accepts exactly the
    classes named *)
Lemma classes_tokens_exact : forall toks,
  (Forall (fun t => text2logclass t <> 0) toks /\ toks <> [] ->
     exists b, make_classes_tokens toks = Ok (FClasses b) /\ filter_wf (FClasses b) /\
               forall l c, c < 7 -> filter_pass (FClasses b) (l, c) = Ok (names_class toks c)) /\
  (Exists (fun t => text2logclass t = 0) toks \/ toks = [] ->
     make_classes_tokens toks = Err ERuntime).
Proof.
  intros toks. unfold make_classes_tokens. destruct gen_bitset as [SZ _]. split.
  - intros [F NE].
    destruct (classes_loop_ok toks (repeat false class_bitset_size)) as [b [C [L N]]];
      [rewrite repeat_length; exact SZ|exact F|].
    rewrite C. cbn [bind].
    assert (NB : bs_none b = false).
    { destruct toks as [|t r]; [contradiction|]. inversion F; subst.
      unfold bs_none. rewrite (existsb_nth_true b (text2logclass t)); [reflexivity|].
      rewrite N, repeat_false_nth. unfold names_class. cbn. now rewrite Nat.eqb_refl. }
    rewrite NB. exists b. split; [reflexivity|]. split; [cbn; lia|].
    intros l c Hc. rewrite filter_pass_accepts; [|cbn; lia|exact Hc].
    cbn. now rewrite N, repeat_false_nth.
  - intros [E | ->].
    + rewrite classes_loop_bad; [reflexivity|rewrite repeat_length; exact SZ|exact E].
    + cbn [classes_loop bind]. unfold bs_none. rewrite existsb_all_false; [reflexivity|apply repeat_false_nth].
Qed.

Lemma make_filter_type : forall s f, make_filter s = Ok f -> filter_type f = setting_type s.
Proof.
  intros [l|l|l|cl] f H; cbn in H; try (injection H as <-; reflexivity).
  unfold make_classes, make_classes_tokens in H.
  destruct (classes_loop _ _); cbn in H; try discriminate.
  destruct (bs_none a); [discriminate|]. injection H as <-. reflexivity.
Qed.

Lemma classes_loop_length : forall toks b b', classes_loop toks b = Ok b' -> List.length b' = List.length b.
Proof.
  induction toks as [|t r IH]; intros b b' H; cbn in H; [now injection H as <-|].
  destruct (text2logclass t =? 0); [discriminate|].
  destruct (bs_set b (text2logclass t)) as [b1| |] eqn:S; cbn in H; try discriminate.
  rewrite (IH _ _ H). now destruct (bs_set_spec _ _ _ S).
Qed.

Lemma make_filter_wf : forall s f, make_filter s = Ok f -> filter_wf f.
Proof.
  intros [l|l|l|cl] f H; cbn in H; try (injection H as <-; exact I).
  unfold make_classes, make_classes_tokens in H.
  destruct (classes_loop _ _) eqn:C; cbn in H; try discriminate.
  destruct (bs_none a); [discriminate|]. injection H as <-. cbn.
  rewrite (classes_loop_length _ _ _ C). apply repeat_length.
Qed.

Lemma make_filter_no_fault : forall s f, make_filter s <> Fault f.
Proof.
  intros [l|l|l|cl] f; cbn; try discriminate.
  unfold make_classes, make_classes_tokens.
  assert (G : forall toks b, classes_loop toks b <> Fault f).
  { induction toks as [|t r IH]; intros b; cbn; [discriminate|].
    destruct (text2logclass t =? 0); [discriminate|].
    unfold bs_set. destruct (_ <? _); cbn; [apply IH|discriminate]. }
  destruct (classes_loop _ _) eqn:C; cbn; try discriminate.
  - destruct (bs_none a); discriminate.
  - intros H. injection H as ->. exact (G _ _ C).
Qed.

(* ------------------------------------------------------------------ *)
(** * Invariant of a Filters object *)

Definition types (fs : filters) : list ftype := map filter_type (fl fs).

Record FInv (fs : filters) : Prop := {
  fi_wf : Forall filter_wf (fl fs);
  fi_nodup : NoDup (types fs);
  fi_cached : forall i, cached fs = Some i ->
              exists t, nth_error (types fs) i = Some t /\ t <> TClasses }.

Lemma ftype_eqb_spec : forall a b, reflect (a = b) (ftype_eqb a b).
Proof. destruct a, b; cbn; constructor; congruence. Qed.

Lemma find_type_spec : forall t l k i,
  find_type t l k = Some i ->
  k <= i /\ nth_error (map filter_type l) (i - k) = Some t.
Proof.
  induction l as [|f r IH]; intros k i H; cbn in H; [discriminate|].
  destruct (ftype_eqb_spec (filter_type f) t) as [E|N].
  - injection H as <-. rewrite Nat.sub_diag. cbn. split; [lia|now f_equal].
  - destruct (IH _ _ H) as [L Nth]. split; [lia|].
    replace (i - k) with (S (i - S k)) by lia. exact Nth.
Qed.

Lemma find_type_none : forall t l k, find_type t l k = None -> ~ In t (map filter_type l).
Proof.
  induction l as [|f r IH]; intros k H; cbn in *; [tauto|].
  destruct (ftype_eqb_spec (filter_type f) t) as [E|N]; [discriminate|].
  intros [E|I]; [contradiction|exact (IH _ H I)].
Qed.

Lemma find_type_some : forall t l k, In t (map filter_type l) -> exists i, find_type t l k = Some i.
Proof.
  induction l as [|f r IH]; intros k H; cbn in *; [tauto|].
  destruct (ftype_eqb_spec (filter_type f) t) as [E|N]; [eauto|].
  destruct H as [E|I]; [contradiction|]. apply IH, I.
Qed.

Lemma replace_nth_length {A} : forall i (x : A) l, List.length (replace_nth i x l) = List.length l.
Proof. induction i; destruct l; cbn; auto. Qed.

Lemma replace_nth_map {A B} (g : A -> B) : forall i x l,
  map g (replace_nth i x l) = replace_nth i (g x) (map g l).
Proof. induction i; destruct l; cbn; auto. now rewrite IHi. Qed.

Lemma replace_nth_same {A} : forall i (x : A) l, nth_error l i = Some x -> replace_nth i x l = l.
Proof.
  induction i; destruct l; cbn; intros H; try discriminate; auto.
  - now injection H as ->.
  - now rewrite IHi.
Qed.

Lemma replace_nth_Forall {A} (P : A -> Prop) : forall i x l, P x -> Forall P l -> Forall P (replace_nth i x l).
Proof.
  induction i; destruct l; cbn; intros Hx F; auto; inversion F; subst; constructor; auto.
Qed.

Lemma nth_error_replace_nth {A} : forall i (x : A) l, i < List.length l -> nth_error (replace_nth i x l) i = Some x.
Proof. induction i; destruct l; cbn; intros H; try lia; auto. apply IHi. lia. Qed.

Lemma replace_nth_In {A} : forall i (x y : A) l, In y (replace_nth i x l) -> y = x \/ In y l.
Proof.
  induction i; destruct l; cbn; intros H; auto.
  - destruct H; auto.
  - destruct H as [H|H]; auto. destruct (IHi _ _ _ H); auto.
Qed.

Lemma NoDup_snoc {A} : forall (l : list A) x, NoDup l -> ~ In x l -> NoDup (l ++ [x]).
Proof.
  induction l as [|a l IH]; intros x ND NI; cbn.
  - constructor; [tauto|constructor].
  - inversion ND; subst. constructor.
    + rewrite in_app_iff. cbn. intros [I|[E|[]]]; [contradiction|]. subst. apply NI. now left.
    + apply IH; [assumption|]. intros I. apply NI. now right.
Qed.

Lemma check_set_filter_inv : forall p s fs fs',
  FInv fs -> check_set_filter p s fs = Ok fs' -> FInv fs'.
Proof.
  intros p s fs fs' [W ND C] H. unfold check_set_filter in H.
  destruct (find_type (setting_type s) (fl fs) 0) as [i|] eqn:FT.
  - destruct (find_type_spec _ _ _ _ FT) as [_ Nth]. rewrite Nat.sub_0_r in Nth.
    destruct (accept_new p) as [acc| |]; cbn in H; try discriminate.
    assert (exists l', (if acc then do f <- make_filter s; Ok (replace_nth i f (fl fs)) else Ok (fl fs)) = Ok l'
                       /\ map filter_type l' = map filter_type (fl fs) /\ Forall filter_wf l') as [l' [E [TY W']]].
    { destruct acc.
      - destruct (make_filter s) as [f| |] eqn:MF; cbn in H; try discriminate.
        exists (replace_nth i f (fl fs)). cbn. split; [reflexivity|]. split.
        + rewrite replace_nth_map, (make_filter_type _ _ MF). apply replace_nth_same, Nth.
        + apply replace_nth_Forall; [exact (make_filter_wf _ _ MF)|exact W].
      - exists (fl fs). auto. }
    rewrite E in H. cbn in H. injection H as <-.
    constructor; unfold types; cbn [fl cached]; rewrite ?TY; auto.
    intros k Hk. rewrite is_level_filter_spec in Hk.
    destruct (ftype_eqb_spec (setting_type s) TClasses) as [Ec|Nc]; cbn in Hk.
    + apply C, Hk.
    + injection Hk as <-. eauto.
  - destruct (make_filter s) as [f| |] eqn:MF; cbn in H; try discriminate.
    injection H as <-.
    constructor; unfold types; cbn [fl cached].
    + apply Forall_app. split; [exact W|]. constructor; [exact (make_filter_wf _ _ MF)|constructor].
    + rewrite map_app. cbn. rewrite (make_filter_type _ _ MF).
      apply NoDup_snoc; [exact ND|]. exact (find_type_none _ _ _ FT).
    + intros k Hk. rewrite map_app. rewrite is_level_filter_spec in Hk.
      destruct (ftype_eqb_spec (setting_type s) TClasses) as [Ec|Nc]; cbn in Hk.
      * destruct (C _ Hk) as [t [Nt Tt]]. exists t. split; [|exact Tt].
        rewrite nth_error_app1; [exact Nt|]. apply nth_error_Some. unfold types in Nt. congruence.
      * injection Hk as <-. exists (setting_type s). split; [|exact Nc].
        rewrite nth_error_app2 by (rewrite map_length; lia).
        rewrite map_length, Nat.sub_diag. cbn. now rewrite (make_filter_type _ _ MF).
Qed.

(* ------------------------------------------------------------------ *)
(** * pass, the pre-check *)

Definition pass_b (fs : filters) (m : msg) : bool := forallb (fun f => filter_accepts f m) (fl fs).

Lemma pass_list_accepts : forall l m,
  Forall filter_wf l -> snd m < 7 -> pass_list l m = Ok (forallb (fun f => filter_accepts f m) l).
Proof.
  induction l as [|f r IH]; intros m W H; [reflexivity|].
  inversion W; subst. cbn [pass_list forallb].
  rewrite filter_pass_accepts by assumption. cbn [bind].
  destruct (filter_accepts f m); [now apply IH|reflexivity].
Qed.

Lemma pass_pass_b : forall fs m, FInv fs -> snd m < 7 -> pass fs m = Ok (pass_b fs m).
Proof. intros fs m [W _ _] H. now apply pass_list_accepts. Qed.

(** the cached level filter answers like one of the filters of the list *)
Lemma process_level_member : forall fs l,
  FInv fs ->
  cached fs = None /\ process_level fs l = Ok true \/
  exists f, In f (fl fs) /\ forall c, process_level fs l = Ok (filter_accepts f (l, c)).
Proof.
  intros fs l [W ND C]. unfold process_level.
  destruct (cached fs) as [i|] eqn:Ec; [right|left; auto].
  destruct (C i eq_refl) as [t [Nt Tt]]. unfold types in Nt.
  rewrite nth_error_map in Nt.
  destruct (nth_error (fl fs) i) as [f|] eqn:Nf; [|discriminate].
  injection Nt as <-. exists f. split; [eapply nth_error_In; eauto|].
  intros c. destruct f; try reflexivity. now contradiction Tt.
Qed.

Lemma precheck_sound_inv : forall fs m,
  FInv fs -> snd m < 7 -> pass fs m = Ok true -> process_level fs (fst m) = Ok true.
Proof.
  intros fs [l c] I Hc P. cbn [fst].
  destruct (process_level_member fs l I) as [[_ H]|[f [In H]]]; [exact H|].
  rewrite (H c). f_equal.
  rewrite (pass_pass_b _ _ I Hc) in P. injection P as P.
  unfold pass_b in P. rewrite forallb_forall in P. now apply P.
Qed.

(** histories of settings on one Filters object (a refused setting leaves it alone) *)
Definition apply_setting (fs : filters) (ps : policy * setting) : filters :=
  match check_set_filter (fst ps) (snd ps) fs with Ok fs' => fs' | _ => fs end.
Definition apply_settings (fs : filters) (h : list (policy * setting)) : filters :=
  fold_left apply_setting h fs.

Lemma new_filters_inv : FInv new_filters.
Proof. constructor; cbn; [constructor|constructor|discriminate]. Qed.

Lemma apply_settings_inv : forall h fs, FInv fs -> FInv (apply_settings fs h).
Proof.
  induction h as [|[p s] h IH]; intros fs I; [exact I|]. cbn. apply IH.
  unfold apply_setting. cbn. destruct (check_set_filter p s fs) eqn:E; auto.
  eapply check_set_filter_inv; eauto.
Qed.

Lemma precheck_sound : forall h m,
  snd m < 7 ->
  pass (apply_settings new_filters h) m = Ok true ->
  process_level (apply_settings new_filters h) (fst m) = Ok true.
Proof. intros h m Hc. apply precheck_sound_inv; [apply apply_settings_inv, new_filters_inv|exact Hc]. Qed.

Lemma process_level_total : forall fs l, FInv fs -> exists b, process_level fs l = Ok b.
Proof.
  intros fs l I. destruct (process_level_member fs l I) as [[_ H]|[f [_ H]]]; [eauto|].
  exists (filter_accepts f (l, 0)). apply H.
Qed.

(* ------------------------------------------------------------------ *)
(** * Duplicate policy *)

Lemma dup_ignore : forall s fs i,
  find_type (setting_type s) (fl fs) 0 = Some i ->
  exists fs', check_set_filter PIgnore s fs = Ok fs' /\ fl fs' = fl fs.
Proof. intros s fs i H. unfold check_set_filter. rewrite H. cbn. eauto. Qed.

Lemma dup_exception : forall s fs i,
  find_type (setting_type s) (fl fs) 0 = Some i ->
  check_set_filter PException s fs = Err ERuntime.
Proof. intros s fs i H. unfold check_set_filter. rewrite H. reflexivity. Qed.

Lemma dup_replace : forall s fs i,
  find_type (setting_type s) (fl fs) 0 = Some i ->
  match make_filter s with
  | Ok f => exists fs', check_set_filter PReplace s fs = Ok fs' /\ fl fs' = replace_nth i f (fl fs)
  | Err e => check_set_filter PReplace s fs = Err e
  | Fault x => False
  end.
Proof.
  intros s fs i H. unfold check_set_filter. rewrite H. cbn [accept_new bind].
  destruct (make_filter s) eqn:E; cbn; eauto. exact (make_filter_no_fault _ _ E).
Qed.

Lemma first_setting : forall p s fs,
  find_type (setting_type s) (fl fs) 0 = None ->
  match make_filter s with
  | Ok f => exists fs', check_set_filter p s fs = Ok fs' /\ fl fs' = fl fs ++ [f]
  | Err e => check_set_filter p s fs = Err e
  | Fault x => False
  end.
Proof.
  intros p s fs H. unfold check_set_filter. rewrite H.
  destruct (make_filter s) eqn:E; cbn; eauto. exact (make_filter_no_fault _ _ E).
Qed.

(** with one filter per type: after a replacement the filters in effect are the new
    one and the old ones of the other types *)
Lemma nodup_nth_unique {A} : forall (l : list A) i j x,
  NoDup l -> nth_error l i = Some x -> nth_error l j = Some x -> i = j.
Proof.
  intros l i j x ND Hi Hj.
  assert (Li : i < List.length l) by (apply nth_error_Some; congruence).
  rewrite NoDup_nth_error in ND. apply ND; [exact Li|congruence].
Qed.

Lemma replace_nth_members : forall (l : list filter) i f g,
  NoDup (map filter_type l) -> nth_error (map filter_type l) i = Some (filter_type f) ->
  (In g (replace_nth i f l) <-> g = f \/ (In g l /\ filter_type g <> filter_type f)).
Proof.
  induction l as [|a l IH]; intros i f g ND Nth; [destruct i; discriminate|].
  cbn in ND. inversion ND as [|? ? NI ND']; subst.
  destruct i as [|i]; cbn in *.
  - injection Nth as E. split.
    + intros [<-|I]; [now left|right]. split; [now right|].
      intros E'. apply NI. rewrite E, <- E'. now apply in_map.
    + intros [->|[[->|I] N]]; [now left|congruence|now right].
  - assert (NA : filter_type a <> filter_type f).
    { intros E. apply NI. rewrite E. eapply nth_error_In; eauto. }
    rewrite (IH i f g ND' Nth). split.
    + intros [<-|[->|[I N]]]; auto.
    + intros [->|[[<-|I] N]]; auto.
Qed.

(* ------------------------------------------------------------------ *)
(** * Invariant of the world, preserved by every operation *)

Definition log_inv (ld : logdata) : Prop :=
  FInv (lfil (llog ld)) /\ Forall (fun d => FInv (dfil d)) (ldests (llog ld)).

Record WInv (w : world) : Prop := {
  wi_bits : map lbit (logs w) = seq 0 (next_bit w);
  wi_max : next_bit w <= 31;
  wi_names : NoDup (map lname (logs w));
  wi_logs : Forall log_inv (logs w);
  wi_pol : logs w <> [] -> pol w <> None }.

Lemma find_log_spec : forall name ls k i d,
  find_log name ls k = Some (i, d) ->
  k <= i /\ nth_error ls (i - k) = Some d /\ lname d = name.
Proof.
  induction ls as [|a r IH]; intros k i d H; cbn in H; [discriminate|].
  destruct (String.eqb_spec name (lname a)) as [E|N].
  - injection H as <- <-. rewrite Nat.sub_diag. auto.
  - destruct (IH _ _ _ H) as [L [Nth E]]. split; [lia|]. split; [|exact E].
    replace (i - k) with (S (i - S k)) by lia. exact Nth.
Qed.

Lemma find_log_none : forall name ls k, find_log name ls k = None -> ~ In name (map lname ls).
Proof.
  induction ls as [|a r IH]; intros k H; cbn in *; [tauto|].
  destruct (String.eqb_spec name (lname a)) as [E|N]; [discriminate|].
  intros [E|I]; [congruence|exact (IH _ H I)].
Qed.

Lemma find_dest_spec : forall name ds k j d,
  find_dest name ds k = Some (j, d) -> k <= j /\ nth_error ds (j - k) = Some d.
Proof.
  induction ds as [|a r IH]; intros k j d H; cbn in H; [discriminate|].
  destruct (String.eqb (dname a) name).
  - injection H as <- <-. rewrite Nat.sub_diag. auto.
  - destruct (IH _ _ _ H) as [L Nth]. split; [lia|].
    replace (j - k) with (S (j - S k)) by lia. exact Nth.
Qed.

Lemma replace_nth_map_same {A B} (g : A -> B) : forall i x l y,
  nth_error l i = Some y -> g x = g y -> map g (replace_nth i x l) = map g l.
Proof.
  intros i x l y N E. rewrite replace_nth_map, E. apply replace_nth_same.
  rewrite nth_error_map, N. reflexivity.
Qed.

Lemma ctor_policy_some : forall p, ctor_policy p <> None.
Proof. destruct p; discriminate. Qed.

Lemma set_log_inv : forall w i d l,
  WInv w -> nth_error (logs w) i = Some d ->
  log_inv {| lbit := lbit d; lname := lname d; llog := l |} ->
  WInv (set_log w i d l).
Proof.
  intros w i d l [B M N L P] Nth LI. unfold set_log.
  constructor; cbn [logs next_bit pol].
  - rewrite (replace_nth_map_same lbit i {| lbit := lbit d; lname := lname d; llog := l |} _ d Nth eq_refl). exact B.
  - exact M.
  - rewrite (replace_nth_map_same lname i {| lbit := lbit d; lname := lname d; llog := l |} _ d Nth eq_refl). exact N.
  - apply replace_nth_Forall; assumption.
  - intros _. apply P. intros E. rewrite E in Nth. destruct i; discriminate.
Qed.

Lemma get_log_id_idx_spec : forall ls ids k i d,
  get_log_id_idx ls ids k = Ok (Some (i, d)) ->
  k <= i /\ nth_error ls (i - k) = Some d /\ ids = id_of_bit (lbit d).
Proof.
  induction ls as [|a r IH]; intros ids k i d H; cbn [get_log_id_idx] in H; [discriminate|].
  destruct (N.testbit ids (N.of_nat (lbit a))).
  - destruct (N.eqb_spec ids (id_of_bit (lbit a))) as [E|NE]; [|discriminate].
    injection H as <- <-. rewrite Nat.sub_diag. auto.
  - destruct (IH _ _ _ _ H) as [L [Nth E]]. split; [lia|]. split; [|exact E].
    replace (i - k) with (S (i - S k)) by lia. exact Nth.
Qed.

Lemma add_dest_at_inv : forall w i d dn,
  WInv w -> nth_error (logs w) i = Some d -> WInv (fst (add_dest_at w i d dn)).
Proof.
  intros w i d dn I Nth. pose proof I as [B M N L P]. unfold add_dest_at. cbn [fst].
  assert (LI : log_inv d) by (rewrite Forall_forall in L; apply L; eapply nth_error_In; eauto).
  pose proof (set_log_inv w i d {| lfil := lfil (llog d);
      ldests := ldests (llog d) ++ [{| dname := dn; dfil := new_filters |}] |} I Nth) as [B' M' N' L' P'].
  { destruct LI as [LF LD]. split; cbn; [exact LF|].
    apply Forall_app. split; [exact LD|]. constructor; [exact new_filters_inv|constructor]. }
  constructor; cbn [logs next_bit pol]; auto. intros _. apply ctor_policy_some.
Qed.

Lemma set_at_inv : forall w i d dest s,
  WInv w -> nth_error (logs w) i = Some d -> WInv (fst (set_at w i d dest s)).
Proof.
  intros w i d dest s I Nth. pose proof I as [B M N L P]. unfold set_at.
  assert (LI : log_inv d) by (rewrite Forall_forall in L; apply L; eapply nth_error_In; eauto).
  destruct LI as [LF LD].
  destruct (pol w) as [p|]; [|exact I].
  destruct dest as [dn|].
  - destruct (find_dest dn (ldests (llog d)) 0) as [[j dd]|] eqn:FD; [|exact I].
    destruct (find_dest_spec _ _ _ _ _ FD) as [_ Nd]. rewrite Nat.sub_0_r in Nd.
    destruct (check_set_filter p s (dfil dd)) as [fs| |] eqn:C; try exact I. cbn [fst].
    apply set_log_inv; [exact I|exact Nth|]. split; cbn; [exact LF|].
    apply replace_nth_Forall; [|exact LD]. cbn.
    eapply check_set_filter_inv; [|exact C].
    rewrite Forall_forall in LD. apply LD. eapply nth_error_In; eauto.
  - destruct (check_set_filter p s (lfil (llog d))) as [fs| |] eqn:C; try exact I. cbn [fst].
    apply set_log_inv; [exact I|exact Nth|]. split; cbn; [|exact LD].
    eapply check_set_filter_inv; eauto.
Qed.

Lemma step_inv : forall w o, WInv w -> WInv (fst (step w o)).
Proof.
  intros w o I. pose proof I as [B M N L P].
  destruct o as [p|name|ln dn|tg s|ids dn|ids dest s]; cbn [step].
  - constructor; cbn; auto. discriminate.
  - unfold find_create_log. destruct (find_log name (logs w) 0) as [[i d]|] eqn:F; [exact I|].
    destruct (Nat.eqb_spec (next_bit w) 31) as [E|NE]; [exact I|].
    cbn [fst]. constructor; cbn [logs next_bit pol].
    + rewrite map_app, B, seq_S. reflexivity.
    + lia.
    + rewrite map_app. cbn. apply NoDup_snoc; [exact N|exact (find_log_none _ _ _ F)].
    + apply Forall_app. split; [exact L|]. constructor; [|constructor].
      split; cbn; [exact new_filters_inv|constructor].
    + intros _. apply ctor_policy_some.
  - destruct (find_log ln (logs w) 0) as [[i d]|] eqn:F; [|exact I].
    destruct (find_log_spec _ _ _ _ _ F) as [_ [Nth _]]. rewrite Nat.sub_0_r in Nth.
    now apply add_dest_at_inv.
  - destruct (find_log _ (logs w) 0) as [[i d]|] eqn:F; [|exact I].
    destruct (find_log_spec _ _ _ _ _ F) as [_ [Nth _]]. rewrite Nat.sub_0_r in Nth.
    now apply set_at_inv.
  - destruct (get_log_id_idx (logs w) ids 0) as [[[i d]|]| |] eqn:F; try exact I.
    destruct (get_log_id_idx_spec _ _ _ _ _ F) as [_ [Nth _]]. rewrite Nat.sub_0_r in Nth.
    now apply add_dest_at_inv.
  - destruct (get_log_id_idx (logs w) ids 0) as [[[i d]|]| |] eqn:F; try exact I.
    destruct (get_log_id_idx_spec _ _ _ _ _ F) as [_ [Nth _]]. rewrite Nat.sub_0_r in Nth.
    now apply set_at_inv.
Qed.

Lemma run_inv : forall ops w, WInv w -> WInv (fst (run w ops)).
Proof.
  induction ops as [|o r IH]; intros w I; [exact I|]. cbn [run].
  pose proof (step_inv w o I) as I1. destruct (step w o) as [w1 x]. cbn [fst] in I1.
  specialize (IH w1 I1). destruct (run w1 r) as [w2 xs]. exact IH.
Qed.

Lemma init_world_inv : WInv init_world.
Proof. constructor; cbn; try constructor; try lia; try tauto. Qed.

Lemma set_policy_inv : forall p w, WInv w -> WInv (set_policy p w).
Proof. intros p w [B M N L P]. constructor; cbn; auto. discriminate. Qed.

(** only setDuplicatePolicy changes a policy that has been set *)
Definition is_policy_op (o : op) : bool := match o with OPolicy _ => true | _ => false end.

Lemma set_at_policy : forall w i d dest s p,
  pol w = Some p -> pol (fst (set_at w i d dest s)) = Some p.
Proof.
  intros w i d dest s p H. unfold set_at. rewrite H. destruct dest as [dn|].
  - destruct (find_dest _ _ _) as [[j dd]|]; [|exact H].
    destruct (check_set_filter _ _ _); exact H.
  - destruct (check_set_filter _ _ _); exact H.
Qed.

Lemma step_policy : forall w o p,
  pol w = Some p -> is_policy_op o = false -> pol (fst (step w o)) = Some p.
Proof.
  intros w o p H NP. destruct o as [q|name|ln dn|tg s|ids dn|ids dest s]; cbn [step]; [discriminate| | | | |].
  - unfold find_create_log. destruct (find_log name (logs w) 0) as [[i d]|]; [exact H|].
    destruct (next_bit w =? 31); [exact H|]. cbn. now rewrite H.
  - destruct (find_log ln (logs w) 0) as [[i d]|]; [|exact H]. cbn. now rewrite H.
  - destruct (find_log _ (logs w) 0) as [[i d]|]; [|exact H]. now apply set_at_policy.
  - destruct (get_log_id_idx (logs w) ids 0) as [[[i d]|]| |]; try exact H. cbn. now rewrite H.
  - destruct (get_log_id_idx (logs w) ids 0) as [[[i d]|]| |]; try exact H. now apply set_at_policy.
Qed.

Lemma policy_stable : forall ops w p,
  pol w = Some p -> forallb (fun o => negb (is_policy_op o)) ops = true ->
  pol (fst (run w ops)) = Some p.
Proof.
  induction ops as [|o r IH]; intros w p H F; [exact H|]. cbn in F.
  apply andb_true_iff in F. destruct F as [Fo Fr]. apply negb_true_iff in Fo.
  cbn [run]. pose proof (step_policy w o p H Fo) as H1.
  destruct (step w o) as [w1 x]. cbn [fst] in H1.
  specialize (IH w1 p H1 Fr). destruct (run w1 r) as [w2 xs]. exact IH.
Qed.

(** the answer to a repeated setting on a log is decided by the configured policy *)
Lemma configured_policy_decides : forall w p ops ln s i d k,
  forallb (fun o => negb (is_policy_op o)) ops = true ->
  let w1 := fst (run (set_policy p w) ops) in
  find_log ln (logs w1) 0 = Some (i, d) ->
  find_type (setting_type s) (fl (lfil (llog d))) 0 = Some k ->
  match p with
  | PIgnore => exists w2, step w1 (OSet (TgLog ln) s) = (w2, ROk) /\
                 exists d2, nth_error (logs w2) i = Some d2 /\ fl (lfil (llog d2)) = fl (lfil (llog d))
  | PException => step w1 (OSet (TgLog ln) s) = (w1, RErr ERuntime)
  | PReplace =>
      match make_filter s with
      | Ok f => exists w2, step w1 (OSet (TgLog ln) s) = (w2, ROk) /\
                 exists d2, nth_error (logs w2) i = Some d2 /\
                            fl (lfil (llog d2)) = replace_nth k f (fl (lfil (llog d)))
      | Err e => step w1 (OSet (TgLog ln) s) = (w1, RErr e)
      | Fault _ => False
      end
  end.
Proof.
  intros w p ops ln s i d k NP w1 F FT.
  assert (P1 : pol w1 = Some p) by (apply policy_stable; [reflexivity|exact NP]).
  destruct (find_log_spec _ _ _ _ _ F) as [_ [Nth _]]. rewrite Nat.sub_0_r in Nth.
  assert (Li : i < List.length (logs w1)) by (apply nth_error_Some; congruence).
  cbn [step target_log target_dest]. rewrite F. unfold set_at. rewrite P1. destruct p.
  - destruct (dup_ignore _ _ _ FT) as [fs' [C E]]. rewrite C.
    eexists. split; [reflexivity|]. eexists. split; [apply nth_error_replace_nth, Li|exact E].
  - now rewrite (dup_exception _ _ _ FT).
  - pose proof (dup_replace _ _ _ FT) as R. destruct (make_filter s) as [f|e|x].
    + destruct R as [fs' [C E]]. rewrite C.
      eexists. split; [reflexivity|]. eexists. split; [apply nth_error_replace_nth, Li|exact E].
    + now rewrite R.
    + exact R.
Qed.

(* ------------------------------------------------------------------ *)
(** * Routing *)

Definition log_deliveries (ld : logdata) (m : msg) : list delivery :=
  if pass_b (lfil (llog ld)) m
  then map (fun d => (lname ld, dname d)) (List.filter (fun d => pass_b (dfil d) m) (ldests (llog ld)))
  else [].

(** the property as a list comprehension: every selected log whose filters the message
    passes, in the order of creation; within it every destination whose filters it passes *)
Definition expected_deliveries (ls : list logdata) (ids : N) (m : msg) : list delivery :=
  flat_map (fun ld => if selected ids ld then log_deliveries ld m else []) ls.

Lemma dests_handle_spec : forall ln ds m,
  Forall (fun d => FInv (dfil d)) ds -> snd m < 7 ->
  dests_handle ln ds m = Ok (map (fun d => (ln, dname d)) (List.filter (fun d => pass_b (dfil d) m) ds)).
Proof.
  induction ds as [|d r IH]; intros m F H; [reflexivity|]. inversion F; subst.
  cbn [dests_handle List.filter]. rewrite pass_pass_b by assumption. cbn [bind].
  rewrite IH by assumption. cbn [bind]. destruct (pass_b (dfil d) m); reflexivity.
Qed.

Lemma log_message_spec : forall ld m,
  log_inv ld -> snd m < 7 -> log_message ld m = Ok (log_deliveries ld m).
Proof.
  intros ld m [LF LD] H. unfold log_message, log_deliveries.
  rewrite pass_pass_b by assumption. cbn [bind].
  destruct (pass_b (lfil (llog ld)) m); [now apply dests_handle_spec|reflexivity].
Qed.

Lemma selected_single : forall b ld, selected (id_of_bit b) ld = (b =? lbit ld).
Proof.
  intros b ld. unfold selected, id_of_bit. rewrite N.shiftl_1_l, N.pow2_bits_eqb.
  destruct (Nat.eqb_spec b (lbit ld)) as [->|NE]; [apply N.eqb_refl|].
  apply N.eqb_neq. intros E. apply NE. now apply Nat2N.inj.
Qed.

Lemma expected_none : forall ls b m,
  ~ In b (map lbit ls) -> expected_deliveries ls (id_of_bit b) m = [].
Proof.
  induction ls as [|ld r IH]; intros b m NI; [reflexivity|].
  cbn [map In] in NI. cbn [expected_deliveries flat_map].
  rewrite selected_single. destruct (Nat.eqb_spec b (lbit ld)) as [E|_]; [exfalso; auto|].
  apply IH. tauto.
Qed.

Lemma log_ids_spec : forall ls ids m,
  Forall log_inv ls -> NoDup (map lbit ls) -> snd m < 7 ->
  log_ids ls ids m = Ok (expected_deliveries ls ids m).
Proof.
  induction ls as [|ld r IH]; intros ids m F ND H; [reflexivity|].
  inversion F; subst. cbn in ND. inversion ND; subst.
  cbn [log_ids expected_deliveries flat_map].
  destruct (selected ids ld) eqn:S.
  - rewrite log_message_spec by assumption. cbn [bind].
    destruct (N.eqb_spec ids (id_of_bit (lbit ld))) as [E|NE].
    + fold (expected_deliveries r ids m). rewrite E, expected_none by assumption.
      now rewrite app_nil_r.
    + rewrite IH by assumption. reflexivity.
  - now apply IH.
Qed.

Lemma seq_nodup : forall n s, NoDup (seq s n).
Proof. intros. apply seq_NoDup. Qed.

Lemma routing_exact : forall w ids m,
  WInv w -> snd m < 7 -> log_ids (logs w) ids m = Ok (expected_deliveries (logs w) ids m).
Proof.
  intros w ids m [B M N L P] H. apply log_ids_spec; auto. rewrite B. apply seq_NoDup.
Qed.

Lemma routing_by_name : forall w name m,
  WInv w -> snd m < 7 ->
  log_name (logs w) name m =
  Ok (flat_map (fun ld => if String.eqb name (lname ld) then log_deliveries ld m else []) (logs w)).
Proof.
  intros w name m [B M N L P] H. unfold log_name.
  generalize 0. revert N L. generalize (logs w). clear - H.
  induction l as [|ld r IH]; intros ND F k; [reflexivity|].
  inversion F; subst. cbn in ND. inversion ND as [|? ? NI ND']; subst. cbn [find_log flat_map].
  destruct (String.eqb_spec name (lname ld)) as [E|NE].
  - rewrite log_message_spec by assumption. f_equal.
    assert (Z : flat_map (fun ld0 => if String.eqb name (lname ld0) then log_deliveries ld0 m else []) r = []).
    { clear - NI E. induction r as [|a r IH]; [reflexivity|]. cbn in *.
      destruct (String.eqb_spec name (lname a)) as [E'|_]; [exfalso; apply NI; left; congruence|].
      apply IH. tauto. }
    now rewrite Z, app_nil_r.
  - now apply IH.
Qed.

(** a message the pre-check discards would not have been delivered anywhere *)
Lemma discard_of_sound : forall ld l c,
  log_inv ld -> c < 7 ->
  discard_of (Some ld) l = Ok true -> log_deliveries ld (l, c) = [].
Proof.
  intros ld l c [LF LD] Hc D. unfold discard_of in D. unfold log_deliveries.
  destruct (pass_b (lfil (llog ld)) (l, c)) eqn:P; [|reflexivity].
  assert (PL : process_level (lfil (llog ld)) l = Ok true).
  { apply (precheck_sound_inv _ (l, c) LF Hc). rewrite pass_pass_b by assumption. now rewrite P. }
  rewrite PL in D. discriminate.
Qed.

Lemma discard_id_sound_list : forall ls ids l c,
  Forall log_inv ls -> c < 7 ->
  discard_id ls ids l = Ok true -> log_ids ls ids (l, c) = Ok [].
Proof.
  unfold discard_id.
  induction ls as [|ld r IH]; intros ids l c F Hc D; [reflexivity|].
  inversion F; subst. cbn [get_log_id log_ids] in *.
  destruct (selected ids ld).
  - destruct (N.eqb ids (id_of_bit (lbit ld))); [|discriminate]. cbn [bind] in D.
    rewrite log_message_spec by assumption. cbn [bind].
    now rewrite (discard_of_sound ld l c) by assumption.
  - now apply IH.
Qed.

Lemma discard_id_sound : forall w ids l c,
  WInv w -> c < 7 -> discard_id (logs w) ids l = Ok true -> log_ids (logs w) ids (l, c) = Ok [].
Proof. intros w ids l c [B M N L P]. now apply discard_id_sound_list. Qed.

Lemma discard_name_sound : forall w name l c,
  WInv w -> c < 7 -> discard_name (logs w) name l = Ok true -> log_name (logs w) name (l, c) = Ok [].
Proof.
  intros w name l c [B M N L P] Hc D. unfold discard_name, get_log_name, log_name in *.
  destruct (find_log name (logs w) 0) as [[i ld]|] eqn:F; [|reflexivity].
  destruct (find_log_spec _ _ _ _ _ F) as [_ [Nth _]].
  assert (LI : log_inv ld) by (rewrite Forall_forall in L; apply L; eapply nth_error_In; eauto).
  rewrite log_message_spec by assumption. f_equal. now apply discard_of_sound.
Qed.

(** the pre-check itself never faults and only throws for an id mask naming several logs *)
Lemma discard_name_total : forall w name l, WInv w -> exists b, discard_name (logs w) name l = Ok b.
Proof.
  intros w name l [B M N L P]. unfold discard_name, get_log_name.
  destruct (find_log name (logs w) 0) as [[i ld]|] eqn:F; [|cbn; eauto].
  destruct (find_log_spec _ _ _ _ _ F) as [_ [Nth _]].
  assert (LI : log_inv ld) by (rewrite Forall_forall in L; apply L; eapply nth_error_In; eauto).
  destruct (process_level_total (lfil (llog ld)) l (proj1 LI)) as [b E].
  cbn. rewrite E. cbn. eauto.
Qed.

(* ------------------------------------------------------------------ *)
(** * Class lists as text: finite domain (7 class names), decided by computation *)

Lemma make_classes_is_classes : forall s f, make_classes s = Ok f -> exists b, f = FClasses b.
Proof.
  intros s f H. pose proof (make_filter_type (SClasses s) f H) as T.
  destruct f; try discriminate. eauto.
Qed.

Definition check_single_class (c : lclass) : bool :=
  match make_classes (class_text c) with
  | Ok f => forallb (fun c' => match filter_pass f (0, c') with
                               | Ok b => Bool.eqb b (c' =? c) | _ => false end) (seq 0 7)
  | _ => false
  end.

Lemma check_single_class_ok : forallb check_single_class (seq 1 6) = true.
Proof. vm_compute. reflexivity. Qed.

Lemma classes_parse_total : forall c,
  1 <= c <= 6 ->
  exists f, make_classes (class_text c) = Ok f /\
            forall l c', c' < 7 -> filter_pass f (l, c') = Ok (c' =? c).
Proof.
  intros c Hc. pose proof check_single_class_ok as K. rewrite forallb_forall in K.
  specialize (K c). rewrite in_seq in K. specialize (K ltac:(lia)).
  unfold check_single_class in K.
  destruct (make_classes (class_text c)) as [f| |] eqn:E; try discriminate.
  exists f. split; [reflexivity|]. intros l c' Hc'.
  destruct (make_classes_is_classes _ _ E) as [b ->].
  rewrite forallb_forall in K. specialize (K c'). rewrite in_seq in K. specialize (K ltac:(lia)).
  cbn [filter_pass snd] in *.
  destruct (bs_test b c') as [x| |]; try discriminate.
  apply eqb_prop in K. now subst.
Qed.

Lemma undefined_class_refused : make_classes (class_text 0) = Err ERuntime.
Proof. vm_compute. reflexivity. Qed.

(** every subset of the six real classes, written as the comma separated list of their
    names in enumeration order *)
Fixpoint all_masks (n : nat) : list (list bool) :=
  match n with
  | 0 => [[]]
  | S k => flat_map (fun m => [false :: m; true :: m]) (all_masks k)
  end.

Lemma all_masks_complete : forall m, In m (all_masks (List.length m)).
Proof.
  induction m as [|b m IH]; cbn; [now left|].
  apply in_flat_map. exists m. split; [exact IH|]. destruct b; cbn; auto.
Qed.

Definition mask_names (mask : list bool) : list string :=
  map snd (List.filter fst (combine mask (tl class_texts))).
Definition join_comma (l : list string) : string :=
  match l with
  | [] => EmptyString
  | a :: r => fold_left (fun acc s => String.append acc (String.append ","%string s)) r a
  end.
Definition mask_selects (mask : list bool) (c : lclass) : bool :=
  match c with 0 => false | S k => nth k mask false end.

Definition check_mask (mask : list bool) : bool :=
  let r := make_classes (join_comma (mask_names mask)) in
  if existsb (fun x => x) mask
  then match r with
       | Ok f => forallb (fun c => match filter_pass f (0, c) with
                                   | Ok b => Bool.eqb b (mask_selects mask c) | _ => false end) (seq 0 7)
       | _ => false
       end
  else match r with Err ERuntime => true | _ => false end.

Lemma check_masks_ok : forallb check_mask (all_masks 6) = true.
Proof. vm_compute. reflexivity. Qed.

Lemma classes_subsets_exact : forall mask,
  List.length mask = 6 ->
  let r := make_classes (join_comma (mask_names mask)) in
  (existsb (fun x => x) mask = true ->
     exists f, r = Ok f /\ forall l c, c < 7 -> filter_pass f (l, c) = Ok (mask_selects mask c)) /\
  (existsb (fun x => x) mask = false -> r = Err ERuntime).
Proof.
  intros mask L r. pose proof check_masks_ok as K. rewrite forallb_forall in K.
  specialize (K mask). rewrite <- L in K. specialize (K (all_masks_complete mask)).
  unfold check_mask in K. fold r in K. split; intros E; rewrite E in K.
  - destruct r as [f| |] eqn:R; try discriminate. exists f. split; [reflexivity|].
    intros l c Hc. destruct (make_classes_is_classes _ _ R) as [b ->].
    rewrite forallb_forall in K. specialize (K c). rewrite in_seq in K. specialize (K ltac:(lia)).
    cbn [filter_pass snd] in *.
    destruct (bs_test b c) as [x| |]; try discriminate.
    apply eqb_prop in K. now subst.
  - destruct r as [f|e|x]; try discriminate. destruct e; try discriminate. reflexivity.
Qed.

(** the truth table of the three level filters over the 7 x 7 domain, by computation
    (redundant with [max_accepts] etc.; kept as the finite-domain formulation) *)
Definition check_level_tables : bool :=
  forallb (fun x => forallb (fun l => forallb (fun c =>
     match filter_pass (FMax x) (l, c), filter_pass (FMin x) (l, c), filter_pass (FLevel x) (l, c) with
     | Ok a, Ok b, Ok d => Bool.eqb a (l <=? x) && Bool.eqb b (x <=? l) && Bool.eqb d (l =? x)
     | _, _, _ => false
     end) (seq 0 7)) (seq 0 7)) (seq 0 7).
Lemma check_level_tables_ok : check_level_tables = true.
Proof. vm_compute. reflexivity. Qed.


(* ------------------------------------------------------------------ *)
(** * Addressing a log by name = addressing it by its id; the guarded macros *)

Lemma NoDup_map_inj {A B} (g : A -> B) : forall (l : list A) a b,
  NoDup (map g l) -> In a l -> In b l -> g a = g b -> a = b.
Proof.
  induction l as [|x l IH]; intros a b ND Ia Ib E; [contradiction|].
  cbn in ND. inversion ND as [|? ? NI ND']; subst.
  destruct Ia as [->|Ia], Ib as [->|Ib]; auto.
  - exfalso. apply NI. rewrite E. now apply in_map.
  - exfalso. apply NI. rewrite <- E. now apply in_map.
Qed.

(** the lookup by name finds exactly the log with that name, whatever was created
    before it (names that are prefixes of each other included) *)
Lemma find_log_exact : forall name ls k ld,
  NoDup (map lname ls) -> In ld ls -> lname ld = name ->
  exists i, find_log name ls k = Some (i, ld).
Proof.
  induction ls as [|a r IH]; intros k ld ND I E; [contradiction|].
  cbn in ND. inversion ND as [|? ? NI ND']; subst. cbn [find_log].
  destruct (String.eqb_spec (lname ld) (lname a)) as [Ea|Na].
  - destruct I as [->|I]; [eauto|]. exfalso. apply NI. rewrite <- Ea. now apply in_map.
  - destruct I as [->|I]; [contradiction|]. now apply IH.
Qed.

Lemma find_log_unknown : forall name ls k,
  ~ In name (map lname ls) -> find_log name ls k = None.
Proof.
  induction ls as [|a r IH]; intros k NI; [reflexivity|]. cbn in *.
  destruct (String.eqb_spec name (lname a)) as [E|_]; [exfalso; auto|]. apply IH. tauto.
Qed.

Lemma get_log_id_single : forall ls ld,
  NoDup (map lbit ls) -> In ld ls -> get_log_id ls (id_of_bit (lbit ld)) = Ok (Some ld).
Proof.
  induction ls as [|a r IH]; intros ld ND I; [contradiction|].
  cbn in ND. inversion ND as [|? ? NI ND']; subst. cbn [get_log_id].
  rewrite selected_single. destruct (Nat.eqb_spec (lbit ld) (lbit a)) as [E|NE].
  - rewrite E, N.eqb_refl. destruct I as [->|I]; [reflexivity|].
    exfalso. apply NI. rewrite <- E. now apply in_map.
  - destruct I as [->|I]; [contradiction|]. now apply IH.
Qed.

Lemma flat_map_ext_in {A B} (f g : A -> list B) : forall l,
  (forall a, In a l -> f a = g a) -> flat_map f l = flat_map g l.
Proof.
  induction l as [|a l IH]; intros H; [reflexivity|]. cbn.
  rewrite (H a) by now left. rewrite IH; [reflexivity|]. intros b Hb. apply H. now right.
Qed.

Lemma by_name_is_by_id : forall w name ld m,
  WInv w -> snd m < 7 -> In ld (logs w) -> lname ld = name ->
  get_log_name (logs w) name = Some ld /\
  log_name (logs w) name m = log_ids (logs w) (id_of_bit (lbit ld)) m /\
  discard_name (logs w) name (fst m) = discard_id (logs w) (id_of_bit (lbit ld)) (fst m).
Proof.
  intros w name ld m I Hc In E. pose proof I as [B M N L P].
  assert (NB : NoDup (map lbit (logs w))) by (rewrite B; apply seq_NoDup).
  destruct (find_log_exact name (logs w) 0 ld N In E) as [i F].
  assert (G : get_log_name (logs w) name = Some ld) by (unfold get_log_name; now rewrite F).
  split; [exact G|]. split.
  - rewrite routing_by_name, routing_exact by assumption. f_equal.
    unfold expected_deliveries. apply flat_map_ext_in. intros a Ia.
    rewrite selected_single.
    destruct (String.eqb_spec name (lname a)) as [Ea|Na];
      destruct (Nat.eqb_spec (lbit ld) (lbit a)) as [Eb|Nb]; try reflexivity.
    + exfalso. apply Nb. f_equal. apply (NoDup_map_inj lname (logs w)); auto. congruence.
    + exfalso. apply Na. rewrite <- E. f_equal. apply (NoDup_map_inj lbit (logs w)); auto.
  - unfold discard_name, discard_id. rewrite G, get_log_id_single by assumption. reflexivity.
Qed.

Lemma unknown_name : forall w name m,
  ~ In name (map lname (logs w)) ->
  get_log_name (logs w) name = None /\ log_name (logs w) name m = Ok [] /\
  discard_name (logs w) name (fst m) = Ok true /\ macro_name (logs w) name m = Ok [].
Proof.
  intros w name m NI. pose proof (find_log_unknown name (logs w) 0 NI) as F.
  unfold macro_name, discard_name, get_log_name, log_name. rewrite F. cbn. auto.
Qed.

(** the guarded macro delivers exactly what the unguarded send delivers *)
Lemma macro_name_exact : forall w name m,
  WInv w -> snd m < 7 -> name <> EmptyString ->
  macro_name (logs w) name m = log_name (logs w) name m.
Proof.
  intros w name [l c] I Hc NE. unfold macro_name. cbn [fst snd] in *.
  destruct (discard_name_total w name l I) as [b D]. rewrite D. cbn [bind].
  destruct b.
  - symmetry. now apply discard_name_sound.
  - destruct name; [contradiction|reflexivity].
Qed.

Lemma macro_ids_exact : forall w ld m,
  WInv w -> snd m < 7 -> In ld (logs w) ->
  macro_ids (logs w) (id_of_bit (lbit ld)) m = log_ids (logs w) (id_of_bit (lbit ld)) m.
Proof.
  intros w ld [l c] I Hc In. pose proof I as [B M N L P]. cbn [fst snd] in *.
  assert (NB : NoDup (map lbit (logs w))) by (rewrite B; apply seq_NoDup).
  unfold macro_ids. cbn [fst].
  assert (LI : log_inv ld) by (rewrite Forall_forall in L; now apply L).
  destruct (process_level_total (lfil (llog ld)) l (proj1 LI)) as [b PL].
  assert (D : discard_id (logs w) (id_of_bit (lbit ld)) l = Ok (negb b)).
  { unfold discard_id. rewrite get_log_id_single by assumption. cbn. now rewrite PL. }
  rewrite D. cbn [bind]. destruct b; cbn [negb].
  - assert (Z : N.eqb (id_of_bit (lbit ld)) 0 = false).
    { apply N.eqb_neq. unfold id_of_bit. rewrite N.shiftl_1_l. apply N.pow_nonzero. discriminate. }
    now rewrite Z.
  - symmetry. apply discard_id_sound; assumption.
Qed.

Lemma macro_by_name_is_by_id : forall w name ld m,
  WInv w -> snd m < 7 -> In ld (logs w) -> lname ld = name -> name <> EmptyString ->
  macro_name (logs w) name m = macro_ids (logs w) (id_of_bit (lbit ld)) m.
Proof.
  intros w name ld m I Hc In E NE.
  rewrite macro_name_exact, macro_ids_exact by assumption.
  now destruct (by_name_is_by_id w name ld m I Hc In E) as [_ [H _]].
Qed.
