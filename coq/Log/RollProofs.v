(** Proofs about the model of the rolling log file policies (RollModel.v). *)
From Coq Require Import List Arith Bool Lia.
Import ListNotations.
Require Import Celma.Common.Res Celma.Common.Tactics Celma.Log.RollModel.

(* ------------------------------------------------------------------ *)
(** * Messages, segments, the file system they describe *)

Definition msgs := list (list byte).
(** what a sequence of messages looks like in a file *)
Definition enc (ms : msgs) : list byte := concat (map (fun t => t ++ [nl]) ms).
(** the messages of a history *)
Fixpoint writes (evs : list event) : msgs :=
  match evs with
  | [] => []
  | Write t :: r => t :: writes r
  | Restart :: r => writes r
  end.

(** segments: the messages written between two starts of a new generation,
    newest segment first *)
Definition segs := list msgs.
Definition fs_of (G : nat) (sg : segs) : fsys :=
  fun j => if j <? G then option_map enc (nth_error sg j) else None.

Definition measure (c : cfg) (s : msgs) : nat :=
  match ckind c with KCounted => length s | KMaxSize => length (enc s) end.

Definition valid (c : cfg) : Prop := 1 <= climit c /\ 1 <= cgens c.

Lemma enc_app : forall a b, enc (a ++ b) = enc a ++ enc b.
Proof. intros. unfold enc. now rewrite map_app, concat_app. Qed.

Lemma enc_single : forall t, enc [t] = t ++ [nl].
Proof. intros. unfold enc. cbn. now rewrite app_nil_r. Qed.

Lemma enc_nil_iff : forall s, enc s = [] <-> s = [].
Proof.
  intros [|t r]; split; intros H; try reflexivity; try discriminate.
  unfold enc in H. cbn in H. destruct t; discriminate.
Qed.

Lemma enc_length_app : forall s t, length (enc (s ++ [t])) = length (enc s) + length t + 1.
Proof. intros. rewrite enc_app, enc_single, !app_length. cbn. lia. Qed.

(* ------------------------------------------------------------------ *)
(** * rollFiles: closed form *)

Ltac nat_cases :=
  repeat match goal with
         | |- context [?a =? ?b] => destruct (Nat.eqb_spec a b)
         | |- context [?a <? ?b] => destruct (Nat.ltb_spec a b)
         | H : context [?a =? ?b] |- _ => destruct (Nat.eqb_spec a b)
         | H : context [?a <? ?b] |- _ => destruct (Nat.ltb_spec a b)
         end.

Lemma rename_gen_spec : forall fs d s j,
  d <> s ->
  rename_gen fs d s j =
  match fs s with
  | Some x => if j =? s then None else if j =? d then Some x else fs j
  | None => fs j
  end.
Proof.
  intros fs d s j N. unfold rename_gen, fs_set. destruct (fs s); reflexivity.
Qed.

Lemma roll_from_spec : forall k fs j,
  roll_from (S k) fs j =
  if j =? 0 then None
  else if j <? S k then fs (j - 1)
  else if j =? S k then (match fs k with Some x => Some x | None => fs (S k) end)
  else fs j.
Proof.
  induction k as [|k IH]; intros fs j.
  - cbn [roll_from]. rewrite rename_gen_spec by lia.
    destruct (fs 0) eqn:E0; nat_cases; subst; try lia; try reflexivity; try congruence.
  - change (roll_from (S (S k)) fs j) with (roll_from (S k) (rename_gen fs (S (S k)) (S k)) j).
    rewrite IH. rewrite !rename_gen_spec by lia.
    destruct (fs (S k)) eqn:E1; nat_cases; subst; try lia; try reflexivity;
      try (replace (S k - 1) with k in * by lia);
      try (replace (S (S k) - 1) with (S k) in * by lia);
      try congruence;
      try (destruct (fs k); congruence).
Qed.

(** on the file system described by non-empty segments: rolling and opening the new
    current file gives the file system of the segments with a new, empty one in front *)
Lemma reopen_fs : forall c fs sg,
  1 <= cgens c -> sg <> [] ->
  (forall j, fs j = fs_of (cgens c) sg j) ->
  forall j, fs_open true (roll_files c fs) j = fs_of (cgens c) ([] :: sg) j.
Proof.
  intros c fs sg HG NE H j. set (G := cgens c) in *.
  assert (R : forall i, roll_files c fs i = if i =? 0 then (if G =? 1 then fs 0 else None)
                                             else fs_of G ([] :: sg) i).
  { intros i. unfold roll_files. fold G.
    destruct (G - 1) as [|k] eqn:EG.
    - cbn [roll_from]. assert (G1 : G = 1) by lia. rewrite G1.
      destruct i as [|i]; [reflexivity|]. cbn [Nat.eqb]. rewrite H. unfold fs_of. rewrite G1.
      destruct (Nat.ltb_spec (S i) 1); [lia|reflexivity].
    - rewrite roll_from_spec. assert (EG2 : G = S (S k)) by lia.
      destruct i as [|i].
      + cbn [Nat.eqb]. destruct (Nat.eqb_spec G 1); [lia|reflexivity].
      + cbn [Nat.eqb]. rewrite !H. unfold fs_of.
        change (nth_error ([] :: sg) (S i)) with (nth_error sg i).
        replace (S i - 1) with i by lia. rewrite EG2.
        destruct (Nat.ltb_spec (S i) (S k)).
        * destruct (Nat.ltb_spec i (S (S k))); [|lia].
          destruct (Nat.ltb_spec (S i) (S (S k))); [reflexivity|lia].
        * destruct (Nat.eqb_spec i k) as [E|NE2].
          -- subst i.
             destruct (Nat.ltb_spec k (S (S k))); [|lia].
             destruct (Nat.ltb_spec (S k) (S (S k))); [|lia].
             destruct (nth_error sg k) eqn:E1; cbn [option_map]; [reflexivity|].
             assert (L : length sg <= k) by (apply nth_error_None; exact E1).
             assert (E2 : nth_error sg (S k) = None) by (apply nth_error_None; lia).
             now rewrite E2.
          -- destruct (Nat.ltb_spec (S i) (S (S k))); [lia|reflexivity]. }
  unfold fs_open. rewrite (R 0). cbn [Nat.eqb].
  unfold fs_set.
  assert (F0 : fs_of G ([] :: sg) 0 = Some []).
  { unfold fs_of. destruct (Nat.ltb_spec 0 G); [reflexivity|lia]. }
  destruct (Nat.eqb_spec G 1) as [E|NE1].
  - rewrite H. unfold fs_of at 1. destruct (Nat.ltb_spec 0 G); [|lia].
    destruct sg as [|s r]; [contradiction|]. cbn [nth_error option_map].
    destruct (Nat.eqb_spec j 0) as [->|NJ]; [now rewrite F0|].
    rewrite R. destruct (Nat.eqb_spec j 0); [contradiction|reflexivity].
  - destruct (Nat.eqb_spec j 0) as [->|NJ]; [now rewrite F0|].
    rewrite R. destruct (Nat.eqb_spec j 0); [contradiction|reflexivity].
Qed.

(* ------------------------------------------------------------------ *)
(** * The invariant: the generation files are the last segments *)

Record Inv (c : cfg) (st : state) (sg : segs) : Prop := {
  inv_fs : forall j, sfs st j = fs_of (cgens c) sg j;
  inv_obj : match sobj st with
            | None => sg = []
            | Some n => sg <> [] /\ n = measure c (hd [] sg)
            end }.

(** the segments after an event, given whether it started a new generation *)
Definition gstep (sg : segs) (e : event) (rolled : bool) : segs :=
  match e with
  | Write t =>
      if rolled then [t] :: sg
      else match sg with s :: r => (s ++ [t]) :: r | [] => [[t]] end
  | Restart =>
      if rolled then [] :: sg else match sg with [] => [[]] | _ => sg end
  end.

Lemma init_inv : forall c, Inv c init_state [].
Proof.
  intros c. constructor; cbn; [|reflexivity].
  intros j. unfold fs_of, empty_fs. destruct (j <? cgens c); [|reflexivity].
  now destruct j.
Qed.

Lemma fs_of_0 : forall G s r, 1 <= G -> fs_of G (s :: r) 0 = Some (enc s).
Proof. intros. unfold fs_of. destruct (Nat.ltb_spec 0 G); [reflexivity|lia]. Qed.

Lemma fs_of_hd_change : forall G s s' r j, j <> 0 -> fs_of G (s :: r) j = fs_of G (s' :: r) j.
Proof. intros. unfold fs_of. destruct j; [contradiction|reflexivity]. Qed.

(** PolicyBase::reOpenFile on a described file system *)
Lemma reopen_file_spec : forall c fs sg n,
  valid c -> sg <> [] -> (forall j, fs j = fs_of (cgens c) sg j) ->
  exists fs', reopen_file fixed c fs n = Ok (fs', 0) /\
              forall j, fs' j = fs_of (cgens c) ([] :: sg) j.
Proof.
  intros c fs sg n [VL VG] NE H. unfold reopen_file, open_reopen.
  pose proof (reopen_fs c fs sg VG NE H) as R. cbn [open_truncates].
  set (fs1 := fs_open true (roll_files c fs)) in *.
  assert (S0 : file_size fs1 = 0).
  { unfold file_size. rewrite R, fs_of_0 by exact VG. reflexivity. }
  unfold open_check. rewrite S0. cbn [Nat.eqb fixed v_counted_resets].
  destruct (ckind c).
  - exists fs1. split; [reflexivity|exact R].
  - destruct (Nat.ltb_spec 0 (climit c)); [|lia]. exists fs1. split; [reflexivity|exact R].
Qed.

Lemma measure_nil : forall c, measure c [] = 0.
Proof. intros c. unfold measure. destruct (ckind c); reflexivity. Qed.

Lemma step_inv : forall c st sg e,
  valid c -> Inv c st sg -> (sobj st = None -> e = Restart) ->
  exists st' f, step c st e = Ok (st', f) /\ Inv c st' (gstep sg e f) /\ sobj st' <> None.
Proof.
  intros c st sg e V [HF HO] HE. pose proof V as [VL VG].
  destruct e as [t|].
  - (* Write *)
    destruct (sobj st) as [n|] eqn:EO; [|specialize (HE eq_refl); discriminate].
    destruct HO as [NE Hn]. destruct sg as [|s r]; [contradiction|]. cbn [hd] in Hn.
    unfold step, step_v. rewrite EO.
    destruct (write_check c n t) eqn:WC.
    + (* fits: append to the current generation *)
      cbn [bind]. do 2 eexists. split; [reflexivity|]. split; [|discriminate].
      constructor; cbn [sfs sobj gstep].
      * intros j. unfold append0, fs_set. destruct (Nat.eqb_spec j 0) as [->|NJ].
        -- rewrite HF, !fs_of_0 by exact VG. f_equal. now rewrite enc_app, enc_single.
        -- rewrite HF. now apply fs_of_hd_change.
      * split; [discriminate|]. cbn [hd]. subst n. unfold written, measure.
        destruct (ckind c); cbn [fixed v_size_counts_nl].
        -- rewrite app_length. cbn. lia.
        -- now rewrite enc_length_app.
    + (* does not fit: roll over *)
      destruct (reopen_file_spec c (sfs st) (s :: r) n V ltac:(discriminate) HF) as [fs' [RO HF']].
      rewrite RO. cbn [bind]. do 2 eexists. split; [reflexivity|]. split; [|discriminate].
      constructor; cbn [sfs sobj gstep].
      * intros j. unfold append0, fs_set. destruct (Nat.eqb_spec j 0) as [->|NJ].
        -- rewrite HF', !fs_of_0 by exact VG. f_equal. now rewrite enc_single.
        -- rewrite HF'. now apply fs_of_hd_change.
      * split; [discriminate|]. cbn [hd]. unfold written, measure.
        destruct (ckind c); cbn [fixed v_size_counts_nl]; [reflexivity|].
        rewrite enc_single, app_length. cbn. lia.
  - (* Restart *)
    unfold step, step_v, open_first. cbn [open_truncates fixed v_first_open_truncates].
    set (sg1 := match sg with [] => [[]] | _ => sg end).
    assert (NE1 : sg1 <> []) by (unfold sg1; destruct sg; discriminate).
    assert (F1 : forall j, fs_open false (sfs st) j = fs_of (cgens c) sg1 j).
    { intros j. unfold fs_open. rewrite HF. unfold sg1. destruct sg as [|s r].
      - unfold fs_of at 1. cbn [nth_error option_map]. destruct (0 <? cgens c).
        + unfold fs_set. destruct (Nat.eqb_spec j 0) as [->|NJ].
          * now rewrite fs_of_0.
          * rewrite HF. unfold fs_of. destruct (j <? cgens c); [|reflexivity].
            destruct j; [contradiction|]. cbn. now destruct j.
        + unfold fs_set. destruct (Nat.eqb_spec j 0) as [->|NJ].
          * now rewrite fs_of_0.
          * rewrite HF. unfold fs_of. destruct (j <? cgens c); [|reflexivity].
            destruct j; [contradiction|]. cbn. now destruct j.
      - rewrite fs_of_0 by exact VG. apply HF. }
    set (fs1 := fs_open false (sfs st)) in *.
    assert (SZ : file_size fs1 = length (enc (hd [] sg1))).
    { unfold file_size. rewrite F1. destruct sg1 as [|s r]; [contradiction|].
      now rewrite fs_of_0. }
    unfold open_check. rewrite SZ.
    destruct (ckind c) eqn:EK.
    + (* Counted *)
      destruct (Nat.eqb_spec (length (enc (hd [] sg1))) 0) as [E0|N0].
      * cbn [bind]. do 2 eexists. split; [reflexivity|]. split; [|discriminate].
        change (gstep sg Restart false) with sg1. constructor; cbn [sfs sobj]; [exact F1|].
        split; [exact NE1|]. unfold measure. rewrite EK. cbn [fixed v_counted_resets].
        apply length_zero_iff_nil, enc_nil_iff in E0. now rewrite E0.
      * destruct (reopen_file_spec c fs1 sg1 0 V NE1 F1) as [fs' [RO HF']].
        rewrite RO. cbn [bind]. do 2 eexists. split; [reflexivity|]. split; [|discriminate].
        assert (sg1 = sg).
        { unfold sg1 in *. destruct sg; [exfalso; apply N0; reflexivity|reflexivity]. }
        constructor; cbn [sfs sobj gstep]; [now rewrite <- H|].
        split; [discriminate|]. cbn [hd]. now rewrite measure_nil.
    + (* MaxSize *)
      destruct (Nat.ltb_spec (length (enc (hd [] sg1))) (climit c)) as [LT|GE].
      * cbn [bind]. do 2 eexists. split; [reflexivity|]. split; [|discriminate].
        change (gstep sg Restart false) with sg1. constructor; cbn [sfs sobj]; [exact F1|].
        split; [exact NE1|]. unfold measure. now rewrite EK.
      * destruct (reopen_file_spec c fs1 sg1 (length (enc (hd [] sg1))) V NE1 F1) as [fs' [RO HF']].
        rewrite RO. cbn [bind]. do 2 eexists. split; [reflexivity|]. split; [|discriminate].
        assert (sg1 = sg).
        { unfold sg1 in *. destruct sg; [cbn in GE; lia|reflexivity]. }
        constructor; cbn [sfs sobj gstep]; [now rewrite <- H|].
        split; [discriminate|]. cbn [hd]. now rewrite measure_nil.
Qed.

(* ------------------------------------------------------------------ *)
(** * Histories *)

(** the history with the segments it produces *)
Fixpoint grun (c : cfg) (st : state) (sg : segs) (evs : list event) : option (state * segs) :=
  match evs with
  | [] => Some (st, sg)
  | e :: r =>
      match step c st e with
      | Ok (st', f) => grun c st' (gstep sg e f) r
      | _ => None
      end
  end.

Lemma final_grun : forall c evs st sg,
  final c st evs = option_map fst (grun c st sg evs).
Proof.
  induction evs as [|e r IH]; intros st sg; [reflexivity|].
  unfold final in *. cbn [final_v grun]. fold (step c st e).
  destruct (step c st e) as [[st' f]| |]; [apply IH|reflexivity|reflexivity].
Qed.

(** all messages ever written, oldest first *)
Definition all_msgs (sg : segs) : msgs := concat (rev sg).

Lemma gstep_msgs : forall sg e f,
  all_msgs (gstep sg e f) = all_msgs sg ++ writes [e].
Proof.
  intros sg e f. unfold all_msgs. destruct e as [t|]; cbn [gstep writes].
  - destruct f.
    + cbn [rev]. now rewrite concat_app.
    + destruct sg as [|s r]; [reflexivity|]. cbn [rev]. rewrite !concat_app. cbn.
      now rewrite !app_nil_r, app_assoc.
  - rewrite app_nil_r. destruct f.
    + cbn [rev]. rewrite concat_app. cbn. now rewrite app_nil_r.
    + destruct sg; reflexivity.
Qed.

Lemma writes_app : forall a b, writes (a ++ b) = writes a ++ writes b.
Proof.
  induction a as [|[t|] a IH]; intros b; cbn; [reflexivity| |apply IH]. now rewrite IH.
Qed.

Lemma grun_inv : forall c evs st sg,
  valid c -> Inv c st sg -> (sobj st = None -> exists r, evs = Restart :: r) ->
  exists st' sg', grun c st sg evs = Some (st', sg') /\ Inv c st' sg' /\
                  all_msgs sg' = all_msgs sg ++ writes evs /\
                  (evs <> [] -> sobj st' <> None).
Proof.
  induction evs as [|e r IH]; intros st sg V I HS.
  - exists st, sg. split; [reflexivity|]. split; [exact I|].
    split; [cbn [writes]; now rewrite app_nil_r|]. intros N. contradiction.
  - destruct (step_inv c st sg e V I) as [st1 [f [S1 [I1 O1]]]].
    { intros N. destruct (HS N) as [r' E]. now injection E. }
    cbn [grun]. rewrite S1.
    destruct (IH st1 (gstep sg e f) V I1) as [st2 [sg2 [G2 [I2 [M2 O2]]]]].
    { intros N. contradiction. }
    exists st2, sg2. split; [exact G2|]. split; [exact I2|]. split.
    + rewrite M2, gstep_msgs. change (e :: r) with ([e] ++ r).
      now rewrite writes_app, app_assoc.
    + intros _. destruct r; [cbn in G2; injection G2 as <- <-; exact O1|apply O2; discriminate].
Qed.

(** every history that begins with the start of the handler runs without an exception and
    ends in a state described by segments holding exactly the messages written *)
Lemma history_inv : forall c evs,
  valid c ->
  exists st sg, grun c init_state [] (Restart :: evs) = Some (st, sg) /\ Inv c st sg /\
                all_msgs sg = writes evs /\ sg <> [].
Proof.
  intros c evs V.
  destruct (grun_inv c (Restart :: evs) init_state [] V (init_inv c)) as [st [sg [G [I [M O]]]]].
  { intros _. eauto. }
  exists st, sg. split; [exact G|]. split; [exact I|]. split; [exact M|].
  specialize (O ltac:(discriminate)). destruct I as [_ HO].
  destruct (sobj st); [tauto|contradiction].
Qed.

Lemma history_final : forall c evs,
  valid c -> exists st, final c init_state (Restart :: evs) = Some st.
Proof.
  intros c evs V. destruct (history_inv c evs V) as [st [sg [G _]]].
  exists st. now rewrite (final_grun c _ init_state []), G.
Qed.

(* ------------------------------------------------------------------ *)
(** * What the files hold *)

Definition content (o : option file) : file := match o with Some x => x | None => [] end.
(** the generation files read from the oldest (highest number) to the newest *)
Definition retained (G : nat) (st : state) : list byte :=
  concat (map (fun j => content (sfs st j)) (rev (seq 0 G))).

Definition is_suffix {A} (k h : list A) : Prop := exists lost, h = lost ++ k.
Definition is_infix {A} (k h : list A) : Prop := exists a b, h = a ++ k ++ b.

Lemma map_nth_nil {A} : forall n s (d : A), map (fun j => nth j [] d) (seq s n) = repeat d n.
Proof.
  induction n as [|n IH]; intros s d; [reflexivity|]. cbn [seq map repeat]. rewrite IH.
  now destruct s.
Qed.

Lemma map_nth_seq {A} : forall n (l : list A) d,
  map (fun j => nth j l d) (seq 0 n) = firstn n l ++ repeat d (n - length l).
Proof.
  induction n as [|n IH]; intros l d; [reflexivity|].
  destruct l as [|a l].
  - rewrite map_nth_nil. reflexivity.
  - cbn [seq map firstn nth length app Nat.sub]. f_equal.
    rewrite <- seq_shift, map_map. apply IH.
Qed.

Lemma enc_concat : forall L, enc (concat L) = concat (map enc L).
Proof.
  induction L as [|a L IH]; [reflexivity|]. cbn [concat map]. now rewrite enc_app, IH.
Qed.

Lemma concat_all_nil {A} : forall L : list (list A), Forall (fun x => x = []) L -> concat L = [].
Proof. induction 1 as [|x L Hx _ IH]; [reflexivity|]. cbn. now rewrite Hx, IH. Qed.

Lemma retained_spec : forall c st sg,
  Inv c st sg -> retained (cgens c) st = enc (concat (rev (firstn (cgens c) sg))).
Proof.
  intros c st sg [HF _]. unfold retained. set (G := cgens c) in *.
  rewrite map_rev.
  assert (E : map (fun j => content (sfs st j)) (seq 0 G)
              = map enc (map (fun j => nth j sg []) (seq 0 G))).
  { rewrite map_map. apply map_ext_in. intros j Hj. apply in_seq in Hj. rewrite HF. unfold fs_of.
    destruct (Nat.ltb_spec j G); [|lia].
    destruct (nth_error sg j) eqn:E.
    - cbn. now rewrite (nth_error_nth _ _ _ E).
    - cbn. apply nth_error_None in E. now rewrite nth_overflow. }
  rewrite E, <- map_rev, <- enc_concat. f_equal.
  rewrite map_nth_seq, rev_app_distr, concat_app.
  rewrite concat_all_nil; [reflexivity|].
  apply Forall_rev, Forall_forall. intros x Hx. now apply repeat_spec in Hx.
Qed.

Lemma firstn_rev_suffix {A} : forall n (l : list (list A)),
  is_suffix (concat (rev (firstn n l))) (concat (rev l)).
Proof.
  intros n l. exists (concat (rev (skipn n l))).
  rewrite <- concat_app, <- rev_app_distr, firstn_skipn. reflexivity.
Qed.

(** the retained generations, oldest to newest, are a suffix of what was written;
    the message just written is its last element *)
Lemma roll_suffix : forall c evs st,
  valid c -> final c init_state (Restart :: evs) = Some st ->
  exists kept, is_suffix kept (writes evs) /\ retained (cgens c) st = enc kept /\
               (sfs st (cgens c - 1) = None -> kept = writes evs) /\
               (forall evs' t, evs = evs' ++ [Write t] -> exists k', kept = k' ++ [t]).
Proof.
  intros c evs st V F.
  destruct (history_inv c evs V) as [st' [sg [G [I [M NE]]]]].
  rewrite (final_grun c _ init_state []), G in F. injection F as <-.
  exists (concat (rev (firstn (cgens c) sg))). split; [|split; [|split]].
  - rewrite <- M. apply firstn_rev_suffix.
  - now apply retained_spec.
  - intros N. destruct I as [HF _]. rewrite HF in N. unfold fs_of in N.
    destruct V as [_ VG]. destruct (Nat.ltb_spec (cgens c - 1) (cgens c)); [|lia].
    destruct (nth_error sg (cgens c - 1)) eqn:E; [discriminate|].
    apply nth_error_None in E. rewrite firstn_all2 by lia. exact M.
  - intros evs' t E. subst evs.
    (* the last step was a write: the head segment ends with t *)
    assert (H : exists s r, sg = (s ++ [t]) :: r).
    { clear M NE I. revert G. generalize init_state, (@nil msgs).
      change (Restart :: evs' ++ [Write t]) with ((Restart :: evs') ++ [Write t]).
      generalize (Restart :: evs'). clear.
      induction l as [|e l IH]; intros st0 sg0 G.
      - cbn [app grun] in G. destruct (step c st0 (Write t)) as [[st1 f]| |]; try discriminate.
        injection G as _ <-. cbn [gstep]. destruct f; [exists [], sg0; reflexivity|].
        destruct sg0 as [|s r]; [exists [], []; reflexivity|eauto].
      - cbn [app grun] in G. destruct (step c st0 e) as [[st1 f]| |]; try discriminate. eauto. }
    destruct H as [s [r ->]]. destruct V as [_ VG].
    destruct (cgens c) as [|g]; [lia|]. cbn [firstn rev].
    rewrite concat_app. cbn [concat]. rewrite app_nil_r.
    exists (concat (rev (firstn g r)) ++ s). now rewrite app_assoc.
Qed.

(** every generation file consists of whole messages: a contiguous part of the history *)
Lemma roll_no_truncation : forall c evs st j x,
  valid c -> final c init_state (Restart :: evs) = Some st -> sfs st j = Some x ->
  exists ms, x = enc ms /\ is_infix ms (writes evs).
Proof.
  intros c evs st j x V F Hx.
  destruct (history_inv c evs V) as [st' [sg [G [I [M NE]]]]].
  rewrite (final_grun c _ init_state []), G in F. injection F as <-.
  destruct I as [HF _]. rewrite HF in Hx. unfold fs_of in Hx.
  destruct (j <? cgens c); [|discriminate].
  destruct (nth_error sg j) as [ms|] eqn:E; [|discriminate]. injection Hx as <-.
  exists ms. split; [reflexivity|]. rewrite <- M. unfold all_msgs.
  apply nth_error_split in E. destruct E as [l1 [l2 [-> _]]].
  rewrite rev_app_distr. cbn [rev]. rewrite !concat_app. cbn [concat]. rewrite app_nil_r.
  exists (concat (rev l2)), (concat (rev l1)). now rewrite app_assoc.
Qed.

(* ------------------------------------------------------------------ *)
(** * When a new generation is started; the limit *)

Lemma step_write_flag : forall c st s r n t st' f,
  valid c -> Inv c st (s :: r) -> sobj st = Some n ->
  step c st (Write t) = Ok (st', f) -> f = negb (write_check c n t).
Proof.
  intros c st s r n t st' f V [HF HO] EO S. unfold step, step_v in S. rewrite EO in S.
  destruct (write_check c n t).
  - cbn [bind] in S. now injection S as _ <-.
  - destruct (reopen_file_spec c (sfs st) (s :: r) n V ltac:(discriminate) HF) as [fs' [RO _]].
    rewrite RO in S. cbn [bind] in S. now injection S as _ <-.
Qed.

Lemma step_restart_flag : forall c st s r st' f,
  valid c -> Inv c st (s :: r) ->
  step c st Restart = Ok (st', f) ->
  sfs st 0 = Some (enc s) /\
  f = negb (match ckind c with
            | KCounted => length (enc s) =? 0
            | KMaxSize => length (enc s) <? climit c
            end).
Proof.
  intros c st s r st' f V [HF HO] S. pose proof V as [VL VG].
  assert (F0 : sfs st 0 = Some (enc s)) by (rewrite HF; now apply fs_of_0).
  split; [exact F0|].
  unfold step, step_v, open_first in S. cbn [open_truncates fixed v_first_open_truncates] in S.
  unfold fs_open in S. rewrite F0 in S.
  unfold open_check, file_size in S. rewrite F0 in S.
  destruct (ckind c).
  - destruct (length (enc s) =? 0).
    + cbn [bind] in S. now injection S as _ <-.
    + destruct (reopen_file_spec c (sfs st) (s :: r) 0 V ltac:(discriminate) HF) as [fs' [RO _]].
      rewrite RO in S. cbn [bind] in S. now injection S as _ <-.
  - destruct (length (enc s) <? climit c).
    + cbn [bind] in S. now injection S as _ <-.
    + destruct (reopen_file_spec c (sfs st) (s :: r) (length (enc s)) V ltac:(discriminate) HF)
        as [fs' [RO _]].
      rewrite RO in S. cbn [bind] in S. now injection S as _ <-.
Qed.

(** a state reached by a history that began with the start of the handler *)
Lemma reached_inv : forall c evs st,
  valid c -> final c init_state (Restart :: evs) = Some st ->
  exists s r n, Inv c st (s :: r) /\ sobj st = Some n /\ n = measure c s.
Proof.
  intros c evs st V F.
  destruct (history_inv c evs V) as [st' [sg [G [I [M NE]]]]].
  rewrite (final_grun c _ init_state []), G in F. injection F as <-.
  destruct sg as [|s r]; [contradiction|]. pose proof I as [_ HO].
  destruct (sobj st') as [n|] eqn:EO; [|discriminate].
  destruct HO as [_ Hn]. exists s, r, n. auto.
Qed.

(** a message starts a new generation only when it would exceed the limit of the current one *)
Lemma write_rolls_only_when_needed : forall c evs st t st',
  valid c -> final c init_state (Restart :: evs) = Some st ->
  step c st (Write t) = Ok (st', true) ->
  exists ms, sfs st 0 = Some (enc ms) /\
    match ckind c with
    | KCounted => climit c < length ms + 1
    | KMaxSize => climit c < length (enc ms) + length t + 1
    end.
Proof.
  intros c evs st t st' V F S.
  destruct (reached_inv c evs st V F) as [s [r [n [I [EO Hn]]]]].
  pose proof (step_write_flag c st s r n t st' true V I EO S) as W.
  exists s. split; [destruct I as [HF _]; rewrite HF; apply fs_of_0, V|].
  unfold write_check in W. unfold measure in Hn.
  destruct (ckind c); subst n.
  - destruct (Nat.leb_spec (length s + 1) (climit c)); [discriminate|lia].
  - destruct (Nat.ltb_spec (length (enc s) + length t) (climit c)); [discriminate|lia].
Qed.

(** ... and it does start one then (so the limit is kept) *)
Lemma write_rolls_when_needed : forall c evs st t st' f,
  valid c -> final c init_state (Restart :: evs) = Some st ->
  step c st (Write t) = Ok (st', f) ->
  exists ms, sfs st 0 = Some (enc ms) /\
    (f = false ->
     match ckind c with
     | KCounted => length ms + 1 <= climit c
     | KMaxSize => length (enc ms) + length t + 1 <= climit c
     end).
Proof.
  intros c evs st t st' f V F S.
  destruct (reached_inv c evs st V F) as [s [r [n [I [EO Hn]]]]].
  pose proof (step_write_flag c st s r n t st' f V I EO S) as W.
  exists s. split; [destruct I as [HF _]; rewrite HF; apply fs_of_0, V|].
  intros ->. unfold write_check in W. unfold measure in Hn.
  destruct (ckind c); subst n.
  - destruct (Nat.leb_spec (length s + 1) (climit c)); [lia|discriminate].
  - destruct (Nat.ltb_spec (length (enc s) + length t) (climit c)); [lia|discriminate].
Qed.

(** a restart of a size-limited log starts a new generation only when no message fits any more;
    a restart of a count-limited log starts one exactly when the current file is not empty *)
Lemma restart_rolls : forall c evs st st' f,
  valid c -> final c init_state (Restart :: evs) = Some st ->
  step c st Restart = Ok (st', f) ->
  exists ms, sfs st 0 = Some (enc ms) /\
    match ckind c with
    | KMaxSize => f = true <-> climit c <= length (enc ms)
    | KCounted => f = true <-> ms <> []
    end.
Proof.
  intros c evs st st' f V F S.
  destruct (reached_inv c evs st V F) as [s [r [n [I _]]]].
  destruct (step_restart_flag c st s r st' f V I S) as [F0 W].
  exists s. split; [exact F0|]. destruct (ckind c); subst f.
  - destruct (Nat.eqb_spec (length (enc s)) 0) as [E|N]; cbn.
    + apply length_zero_iff_nil, enc_nil_iff in E. subst s. split; [discriminate|congruence].
    + split; [|reflexivity]. intros _ E. subst s. now apply N.
  - destruct (Nat.ltb_spec (length (enc s)) (climit c)); cbn; split; intros; try lia; try discriminate; reflexivity.
Qed.

(** the limit *)
Definition fits (c : cfg) (e : event) : Prop :=
  match e with
  | Write t => ckind c = KMaxSize -> length t + 1 <= climit c
  | Restart => True
  end.
Definition LimInv (c : cfg) (sg : segs) : Prop := Forall (fun s => measure c s <= climit c) sg.

Lemma step_lim : forall c st sg e st' f,
  valid c -> Inv c st sg -> (sobj st = None -> e = Restart) -> LimInv c sg -> fits c e ->
  step c st e = Ok (st', f) -> LimInv c (gstep sg e f).
Proof.
  intros c st sg e st' f V I HE L FT S. pose proof V as [VL VG].
  assert (L0 : measure c [] <= climit c) by (rewrite measure_nil; lia).
  destruct e as [t|]; cbn [gstep].
  - destruct (sobj st) as [n|] eqn:EO; [|specialize (HE eq_refl); discriminate].
    pose proof I as [_ HO]. rewrite EO in HO. destruct HO as [NE Hn].
    destruct sg as [|s r]; [contradiction|]. cbn [hd] in Hn.
    pose proof (step_write_flag c st s r n t st' f V I EO S) as W. subst f.
    inversion L as [|? ? Ls Lr]; subst.
    unfold write_check. unfold LimInv, measure in *. cbn [fits] in FT.
    destruct (ckind c).
    + destruct (Nat.leb_spec (length s + 1) (climit c)); cbn [negb]; constructor; auto;
        rewrite ?app_length; cbn; lia.
    + specialize (FT eq_refl).
      destruct (Nat.ltb_spec (length (enc s) + length t) (climit c)); cbn [negb]; constructor; auto;
        rewrite ?enc_length_app, ?enc_single, ?app_length; cbn; lia.
  - unfold LimInv in *. destruct f; [constructor; auto|]. destruct sg; [constructor; auto|exact L].
Qed.

Lemma grun_lim : forall c evs st sg st' sg',
  valid c -> Inv c st sg -> (sobj st = None -> exists r, evs = Restart :: r) ->
  LimInv c sg -> Forall (fits c) evs ->
  grun c st sg evs = Some (st', sg') -> LimInv c sg'.
Proof.
  induction evs as [|e r IH]; intros st sg st' sg' V I HS L FT G.
  - cbn in G. now injection G as _ <-.
  - inversion FT; subst.
    destruct (step_inv c st sg e V I) as [st1 [f [S1 [I1 O1]]]].
    { intros N. destruct (HS N) as [r' E]. now injection E. }
    cbn [grun] in G. rewrite S1 in G.
    eapply (IH st1 (gstep sg e f)); eauto.
    + intros N. contradiction.
    + eapply step_lim; eauto. intros N. destruct (HS N) as [r' E]. now injection E.
Qed.

Lemma roll_limit : forall c evs st j x,
  valid c -> Forall (fits c) evs ->
  final c init_state (Restart :: evs) = Some st -> sfs st j = Some x ->
  exists ms, x = enc ms /\
    match ckind c with
    | KCounted => length ms <= climit c
    | KMaxSize => length x <= climit c
    end.
Proof.
  intros c evs st j x V FT F Hx.
  destruct (history_inv c evs V) as [st' [sg [G [I [M NE]]]]].
  assert (L : LimInv c sg).
  { eapply (grun_lim c (Restart :: evs) init_state []); eauto.
    - apply init_inv.
    - constructor.
    - constructor; [exact Logic.I|exact FT]. }
  rewrite (final_grun c _ init_state []), G in F. injection F as <-.
  destruct I as [HF _]. rewrite HF in Hx. unfold fs_of in Hx.
  destruct (j <? cgens c); [|discriminate].
  destruct (nth_error sg j) as [ms|] eqn:E; [|discriminate]. injection Hx as <-.
  exists ms. split; [reflexivity|].
  unfold LimInv in L. rewrite Forall_forall in L. specialize (L ms (nth_error_In _ _ E)).
  unfold measure in L. destruct (ckind c); exact L.
Qed.

(** no file beyond the configured number of generations *)
Lemma roll_generations : forall c evs st j,
  valid c -> final c init_state (Restart :: evs) = Some st -> cgens c <= j -> sfs st j = None.
Proof.
  intros c evs st j V F Hj.
  destruct (history_inv c evs V) as [st' [sg [G [I _]]]].
  rewrite (final_grun c _ init_state []), G in F. injection F as <-.
  destruct I as [HF _]. rewrite HF. unfold fs_of.
  destruct (Nat.ltb_spec j (cgens c)); [lia|reflexivity].
Qed.

(* ------------------------------------------------------------------ *)
(** * Count-limited files without restarts: every closed generation is full *)

Definition FullInv (c : cfg) (sg : segs) : Prop := Forall (fun s => length s = climit c) (tl sg).

Lemma grun_full : forall c ts st sg st' sg',
  valid c -> ckind c = KCounted -> Inv c st sg -> sobj st <> None ->
  LimInv c sg -> FullInv c sg ->
  grun c st sg (map Write ts) = Some (st', sg') -> FullInv c sg' /\ sg' <> [].
Proof.
  induction ts as [|t ts IH]; intros st sg st' sg' V K I O L FU G.
  - cbn in G. injection G as _ <-. split; [exact FU|].
    destruct I as [_ HO]. destruct (sobj st); [tauto|contradiction].
  - cbn [map grun] in G.
    destruct (step_inv c st sg (Write t) V I) as [st1 [f [S1 [I1 O1]]]]; [intros N; contradiction|].
    rewrite S1 in G.
    assert (FT : fits c (Write t)) by (cbn; congruence).
    pose proof (step_lim c st sg (Write t) st1 f V I ltac:(intros N; contradiction) L FT S1) as L1.
    eapply (IH st1 (gstep sg (Write t) f)); eauto.
    destruct (sobj st) as [n|] eqn:EO; [|contradiction].
    pose proof I as [_ HO]. rewrite EO in HO. destruct HO as [NE Hn].
    destruct sg as [|s r]; [contradiction|]. cbn [hd] in Hn.
    pose proof (step_write_flag c st s r n t st1 f V I EO S1) as W.
    unfold FullInv in *. cbn [gstep]. destruct f; cbn [tl] in *; [|exact FU].
    constructor; [|exact FU].
    unfold write_check in W. rewrite K in W. unfold measure in Hn. rewrite K in Hn. subst n.
    inversion L as [|? ? Ls _]; subst. unfold measure in Ls. rewrite K in Ls.
    destruct (Nat.leb_spec (length s + 1) (climit c)); [discriminate|lia].
Qed.

Lemma concat_length_ge {A} : forall (L : list (list A)) x, In x L -> length x <= length (concat L).
Proof.
  induction L as [|a L IH]; intros x H; [contradiction|].
  destruct H as [->|H]; cbn; rewrite app_length; [lia|].
  specialize (IH x H). lia.
Qed.

(** with at least two generations and no restart the retained messages include at least
    the last min( number written, limit) *)
Lemma counted_retains : forall c ts st,
  valid c -> ckind c = KCounted -> 2 <= cgens c ->
  final c init_state (Restart :: map Write ts) = Some st ->
  exists kept, is_suffix kept ts /\ retained (cgens c) st = enc kept /\
               Nat.min (length ts) (climit c) <= length kept.
Proof.
  intros c ts st V K G2 F.
  assert (W : writes (map Write ts) = ts) by (clear; induction ts as [|a l IHl]; cbn; [reflexivity|now rewrite IHl]).
  destruct (step_inv c init_state [] Restart V (init_inv c) ltac:(reflexivity)) as [st1 [f [S1 [I1 O1]]]].
  rewrite (final_grun c _ init_state []) in F. cbn [grun] in F. rewrite S1 in F.
  destruct (grun c st1 (gstep [] Restart f) (map Write ts)) as [[st2 sg]|] eqn:G; [|discriminate].
  cbn in F. injection F as <-.
  assert (L1 : LimInv c (gstep [] Restart f)).
  { unfold LimInv. destruct f; cbn; repeat constructor; rewrite measure_nil; lia. }
  assert (FU1 : FullInv c (gstep [] Restart f)).
  { unfold FullInv. destruct f; cbn; [|constructor].
    exfalso. (* the very first start never rolls *)
    unfold step, step_v, open_first in S1. cbn in S1. unfold open_check, file_size in S1. cbn in S1.
    rewrite K in S1. cbn in S1. discriminate. }
  destruct (grun_full c ts st1 _ st2 sg V K I1 O1 L1 FU1 G) as [FU NE].
  destruct (grun_inv c (map Write ts) st1 _ V I1 ltac:(intros N; contradiction))
    as [st3 [sg3 [G3 [I3 [M3 _]]]]].
  rewrite G in G3. injection G3 as <- <-.
  assert (M : all_msgs sg = ts).
  { rewrite M3, W. destruct f; reflexivity. }
  exists (concat (rev (firstn (cgens c) sg))). split; [|split].
  - rewrite <- M. apply firstn_rev_suffix.
  - now apply retained_spec.
  - destruct sg as [|s [|s2 r]]; [contradiction| |].
    + destruct (cgens c) as [|g]; [lia|]. cbn [firstn]. rewrite firstn_nil. cbn.
      rewrite app_nil_r. unfold all_msgs in M. cbn in M. rewrite app_nil_r in M. subst s. lia.
    + unfold FullInv in FU. cbn [tl] in FU. inversion FU as [|? ? Fs2 _]; subst.
      destruct (cgens c) as [|[|g]]; try lia. cbn [firstn].
      assert (In s2 (rev (s :: s2 :: firstn g r))) by (apply in_rev; rewrite rev_involutive; cbn; auto).
      pose proof (concat_length_ge _ _ H). lia.
Qed.
