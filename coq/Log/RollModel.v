(** Executable model of the rolling log file policies
    (celma::log::files::PolicyBase / Counted / MaxSize, used through files::Handler),
    mirrored function by function.  No proofs in this file.

    - the file system is restricted to the names the file name definition can
      produce: generation number -> content ([None]: no such file); generation 0 is
      the file being written
    - file contents are bytes; a message is written as its text followed by the line
      terminator ([std::endl])
    - what an open mode does to an existing file is part of the model ([fs_open])
    - the places where the pinned tree differs from the repaired one are selected by a
      [variant]: [fixed] is the code after fixes/C15-1..3, [pinned] the pinned code
      (kept for the refutation witnesses). *)
From Coq Require Import List Arith Bool.
Import ListNotations.
Require Import Celma.Common.Res.

Definition byte := nat.
Definition nl : byte := 10.
Definition file := list byte.
Definition fsys := nat -> option file.

Definition fs_set (fs : fsys) (k : nat) (v : option file) : fsys :=
  fun j => if j =? k then v else fs j.
Definition empty_fs : fsys := fun _ => None.

Inductive kind := KCounted | KMaxSize.
(** Counted( def, max_entries, max_gen) / MaxSize( def, max_file_size, max_gen) *)
Record cfg := { ckind : kind; climit : nat; cgens : nat }.

Record variant := {
  v_first_open_truncates : bool;   (* PolicyBase::open( false) opens with out|ate *)
  v_counted_resets : bool;         (* Counted::openCheck resets mNumberOfEntries *)
  v_size_counts_nl : bool }.       (* MaxSize::written adds the line terminator *)
Definition fixed : variant :=
  {| v_first_open_truncates := false; v_counted_resets := true; v_size_counts_nl := true |}.
Definition pinned : variant :=
  {| v_first_open_truncates := true; v_counted_resets := false; v_size_counts_nl := false |}.

(** a policy object exists ([Some counter]: mNumberOfEntries resp. mCurrentFilesize)
    and has generation 0 open, or not *)
Record state := { sfs : fsys; sobj : option nat }.
Definition init_state : state := {| sfs := empty_fs; sobj := None |}.

Section Variant.
Variable v : variant.

(** mFile.open( name of generation 0, mode): an existing file is emptied when the mode
    truncates, a missing file is created *)
Definition fs_open (trunc : bool) (fs : fsys) : fsys :=
  match fs 0 with
  | Some _ => if trunc then fs_set fs 0 (Some []) else fs
  | None => fs_set fs 0 (Some [])
  end.
(** the mode PolicyBase::open( from_reopen) uses: out|trunc after a roll-over,
    out|app|ate for the file found at start-up (pinned: out|ate, always truncating) *)
Definition open_truncates (from_reopen : bool) : bool :=
  if from_reopen then true else v_first_open_truncates v.

(** PolicyBase::fileSize(): tellp() of the file just opened at its end *)
Definition file_size (fs : fsys) : nat :=
  match fs 0 with Some c => length c | None => 0 end.

(** Counted::openCheck / MaxSize::openCheck: (result, counter afterwards) *)
Definition open_check (c : cfg) (fs : fsys) (cnt : nat) : bool * nat :=
  match ckind c with
  | KCounted =>
      if file_size fs =? 0 then (true, if v_counted_resets v then 0 else cnt) else (false, cnt)
  | KMaxSize => (file_size fs <? climit c, file_size fs)
  end.

(** FileOperations::rename( dest, src) -> ::rename( src, dest); errors ignored *)
Definition rename_gen (fs : fsys) (dst src : nat) : fsys :=
  match fs src with
  | Some x => fs_set (fs_set fs dst (Some x)) src None
  | None => fs
  end.
(** rollFiles: for (file_nbr = max_gen - 1; file_nbr > 0; --file_nbr)
                  rename( name( file_nbr), name( file_nbr - 1)) *)
Fixpoint roll_from (k : nat) (fs : fsys) : fsys :=
  match k with
  | 0 => fs
  | S k' => roll_from k' (rename_gen fs (S k') k')
  end.
Definition roll_files (c : cfg) (fs : fsys) : fsys := roll_from (cgens c - 1) fs.

(** PolicyBase::open( true) *)
Definition open_reopen (c : cfg) (fs : fsys) (cnt : nat) : res (fsys * nat) :=
  let fs1 := fs_open (open_truncates true) fs in
  let '(ok, c1) := open_check c fs1 cnt in
  if ok : bool then Ok (fs1, c1) else Err ERuntime.   (* "open check failed for re-opened file" *)
(** PolicyBase::reOpenFile: close, rollFiles, open( true) *)
Definition reopen_file (c : cfg) (fs : fsys) (cnt : nat) : res (fsys * nat) :=
  open_reopen c (roll_files c fs) cnt.
(** PolicyBase::open( false); the flag tells whether the generations were rolled *)
Definition open_first (c : cfg) (fs : fsys) (cnt : nat) : res (fsys * nat * bool) :=
  let fs1 := fs_open (open_truncates false) fs in
  let '(ok, c1) := open_check c fs1 cnt in
  if ok : bool then Ok (fs1, c1, false)
  else do r <- reopen_file c fs1 c1; Ok (r, true).

(** Counted::writeCheck / MaxSize::writeCheck *)
Definition write_check (c : cfg) (cnt : nat) (text : list byte) : bool :=
  match ckind c with
  | KCounted => cnt + 1 <=? climit c
  | KMaxSize => cnt + length text <? climit c
  end.
(** Counted::written / MaxSize::written *)
Definition written (c : cfg) (cnt : nat) (text : list byte) : nat :=
  match ckind c with
  | KCounted => cnt + 1
  | KMaxSize => cnt + length text + (if v_size_counts_nl v then 1 else 0)
  end.

(** mFile << text << std::endl on the open generation 0 *)
Definition append0 (fs : fsys) (bytes : list byte) : fsys :=
  fs_set fs 0 (Some (match fs 0 with Some x => x ++ bytes | None => bytes end)).

Inductive event :=
| Write (text : list byte)      (* Handler::handleMessage -> PolicyBase::writeMessage *)
| Restart.                      (* destroy the handler/policy, create them again: Handler ctor -> open() *)

(** one event; the flag: a new generation was started *)
Definition step_v (c : cfg) (st : state) (e : event) : res (state * bool) :=
  match e with
  | Restart =>
      do r <- open_first c (sfs st) 0;
      let '(fs, cnt, rolled) := r in
      Ok ({| sfs := fs; sobj := Some cnt |}, rolled)
  | Write t =>
      match sobj st with
      | None => Err ELogic        (* no handler: not a history of the property *)
      | Some cnt =>
          do r <- (if write_check c cnt t then Ok (sfs st, cnt, false)
                   else do x <- reopen_file c (sfs st) cnt; Ok (x, true));
          let '(fs, c1, rolled) := r in
          Ok ({| sfs := append0 fs (t ++ [nl]); sobj := Some (written c c1 t) |}, rolled)
      end
  end.

(** a history; the states after every event (for the dump) and the roll flags *)
Fixpoint run_v (c : cfg) (st : state) (evs : list event) : list (state * bool) * option err :=
  match evs with
  | [] => ([], None)
  | e :: r =>
      match step_v c st e with
      | Ok (st', f) => let '(l, x) := run_v c st' r in ((st', f) :: l, x)
      | Err x => ([], Some x)
      | Fault _ => ([], Some EOther)
      end
  end.

(** the state after a history ([None]: an operation threw) *)
Fixpoint final_v (c : cfg) (st : state) (evs : list event) : option state :=
  match evs with
  | [] => Some st
  | e :: r => match step_v c st e with Ok (st', _) => final_v c st' r | _ => None end
  end.

End Variant.

Definition step := step_v fixed.
Definition run := run_v fixed.
Definition step_pinned := step_v pinned.
Definition run_pinned := run_v pinned.

Definition final := final_v fixed.
Definition final_pinned := final_v pinned.

(** the generation files 0 .. n-1 *)
Definition snapshot (n : nat) (st : state) : list (option file) := map (sfs st) (seq 0 n).
