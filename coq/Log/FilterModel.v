(** Executable model of the log filters and of the routing of a log message
    (celma::log::filter::Filters, detail::LogFilter{MaxLevel,MinLevel,Level,Classes},
    detail::Log, detail::ILogDest, Logging, detail::discard_by_level), mirrored
    function by function.  No proofs in this file.

    - comparison operators, enum orders, class texts and the declared size of the
      class bitset come from the generated file FilterOpsGen.v
    - log levels / log classes are the values of the enumerators (nat)
    - a filter object is a value; the cached pointer [mpLevelFilter] is the index of
      the pointed-to element of [mFilters] (the vector holds pointers to heap
      objects, so positions and pointers correspond one to one)
    - [std::bitset::set] is range checked ([Err EOutOfRange]), [operator[]] is not
      ([Fault OOBRead])
    - the duplicate policy is process-wide: [pol] of the [world]
    - the functions with suffix [_pinned] at the end of the file mirror the code of
      the pinned tree where it differs from the repaired one. *)
From Coq Require Import List Arith NArith Bool String Ascii.
Import ListNotations.
Require Import Celma.Common.Res Celma.Log.FilterOpsGen.

Definition level := nat.
Definition lclass := nat.
(** a message as far as filters are concerned: (level, class) *)
Definition msg := (level * lclass)%type.

Definition eval_op (o : cmpop) (a b : nat) : bool :=
  match o with
  | OpLe => a <=? b | OpLt => a <? b | OpGe => b <=? a | OpGt => b <? a
  | OpEq => a =? b | OpNe => negb (a =? b)
  end.

(* ------------------------------------------------------------------ *)
(** * Strings: strcasecmp() == 0, boost::char_separator tokenizer *)

Definition lower (a : ascii) : ascii :=
  let n := nat_of_ascii a in
  if (65 <=? n) && (n <=? 90) then ascii_of_nat (n + 32) else a.

Fixpoint strcaseeq (a b : string) : bool :=
  match a, b with
  | EmptyString, EmptyString => true
  | String x a', String y b' => Ascii.eqb (lower x) (lower y) && strcaseeq a' b'
  | _, _ => false
  end.

Definition is_empty (s : string) : bool := match s with EmptyString => true | _ => false end.

(** common::Tokenizer( s, sep): boost::char_separator< char>( sep), i.e. the
    separators are dropped and empty tokens are dropped *)
Fixpoint tokenize (sep : ascii) (s cur : string) : list string :=
  match s with
  | EmptyString => if is_empty cur then [] else [cur]
  | String c r =>
      if Ascii.eqb c sep
      then (if is_empty cur then tokenize sep r EmptyString else cur :: tokenize sep r EmptyString)
      else tokenize sep r (String.append cur (String c EmptyString))
  end.

(** logClass2text( static_cast< LogClass>( i)) *)
Definition class_text (i : nat) : string := nth i class_texts (nth 0 class_texts EmptyString).

(** text2logClass: for (i = 0; i <= last; i++) if (strcasecmp( text(i), t) == 0) return i;
    return undefined *)
Fixpoint text2class_loop (fuel i : nat) (t : string) : lclass :=
  match fuel with
  | 0 => 0
  | S fuel' => if strcaseeq (class_text i) t then i else text2class_loop fuel' (S i) t
  end.
Definition text2logclass (t : string) : lclass := text2class_loop (S text2class_last) 0 t.

(* ------------------------------------------------------------------ *)
(** * std::bitset *)

Definition bitset := list bool.
Definition bs_set (b : bitset) (i : nat) : res bitset :=
  if i <? List.length b then Ok (firstn i b ++ true :: skipn (i + 1) b) else Err EOutOfRange.
Definition bs_test (b : bitset) (i : nat) : res bool :=
  if i <? List.length b then Ok (nth i b false) else Fault OOBRead.
Definition bs_none (b : bitset) : bool := negb (existsb (fun x => x) b).

(* ------------------------------------------------------------------ *)
(** * The four filter classes *)

Inductive ftype := TMax | TMin | TLevel | TClasses.
Definition ftype_name (t : ftype) : string :=
  (match t with TMax => "maxLevel" | TMin => "minLevel" | TLevel => "level" | TClasses => "classes" end)%string.
Definition ftype_eqb (a b : ftype) : bool :=
  match a, b with
  | TMax, TMax | TMin, TMin | TLevel, TLevel | TClasses, TClasses => true
  | _, _ => false
  end.
(** IFilter::isLevelFilter *)
Definition is_level_filter (t : ftype) : bool :=
  existsb (String.eqb (ftype_name t)) level_filter_types.

Inductive filter :=
| FMax (m : level) | FMin (m : level) | FLevel (m : level) | FClasses (b : bitset).
Definition filter_type (f : filter) : ftype :=
  match f with FMax _ => TMax | FMin _ => TMin | FLevel _ => TLevel | FClasses _ => TClasses end.

(** LogFilterClasses::LogFilterClasses( class_list) *)
Fixpoint classes_loop (toks : list string) (b : bitset) : res bitset :=
  match toks with
  | [] => Ok b
  | t :: r =>
      let c := text2logclass t in
      if c =? 0 then Err ERuntime            (* "log class '..' invalid" *)
      else do b' <- bs_set b c; classes_loop r b'
  end.
Definition make_classes_tokens (toks : list string) : res filter :=
  do b <- classes_loop toks (repeat false class_bitset_size);
  if bs_none b then Err ERuntime             (* "no log classes selected in filter" *)
  else Ok (FClasses b).
Definition make_classes (class_list : string) : res filter :=
  make_classes_tokens (tokenize ","%char class_list EmptyString).

(** IFilter::passFilter -> pass of the four classes *)
Definition filter_pass (f : filter) (m : msg) : res bool :=
  match f with
  | FMax x => Ok (eval_op op_max_process (fst m) x)      (* pass = processLevel( msg.getLevel()) *)
  | FMin x => Ok (eval_op op_min_process (fst m) x)
  | FLevel x => Ok (eval_op op_level_pass (fst m) x)
  | FClasses b => bs_test b (snd m)
  end.

(* ------------------------------------------------------------------ *)
(** * Filters *)

Record filters := { fl : list filter; cached : option nat }.
Definition new_filters : filters := {| fl := []; cached := None |}.

Inductive policy := PIgnore | PException | PReplace.
(** IDuplicatePolicy::acceptNew *)
Definition accept_new (p : policy) : res bool :=
  match p with PIgnore => Ok false | PReplace => Ok true | PException => Err ERuntime end.

Inductive setting :=
| SMax (l : level) | SMin (l : level) | SLevel (l : level) | SClasses (class_list : string).
Definition setting_type (s : setting) : ftype :=
  match s with SMax _ => TMax | SMin _ => TMin | SLevel _ => TLevel | SClasses _ => TClasses end.
(** new F( filter_param) *)
Definition make_filter (s : setting) : res filter :=
  match s with
  | SMax l => Ok (FMax l) | SMin l => Ok (FMin l) | SLevel l => Ok (FLevel l)
  | SClasses cl => make_classes cl
  end.

Fixpoint find_type (t : ftype) (l : list filter) (i : nat) : option nat :=
  match l with
  | [] => None
  | f :: r => if ftype_eqb (filter_type f) t then Some i else find_type t r (S i)
  end.

Fixpoint replace_nth {A} (i : nat) (x : A) (l : list A) : list A :=
  match l, i with
  | [], _ => []
  | _ :: r, 0 => x :: r
  | a :: r, S i' => a :: replace_nth i' x r
  end.

(** Filters::checkSetFilter< F, FP>( filter_type, filter_param) *)
Definition check_set_filter (p : policy) (s : setting) (fs : filters) : res filters :=
  let t := setting_type s in
  match find_type t (fl fs) 0 with
  | Some i =>
      do acc <- accept_new p;
      do l' <- (if acc : bool then do f <- make_filter s; Ok (replace_nth i f (fl fs))
                else Ok (fl fs));
      Ok {| fl := l'; cached := if is_level_filter t then Some i else cached fs |}
  | None =>
      do f <- make_filter s;
      Ok {| fl := fl fs ++ [f];
            cached := if is_level_filter t then Some (List.length (fl fs)) else cached fs |}
  end.

(** Filters::pass *)
Fixpoint pass_list (l : list filter) (m : msg) : res bool :=
  match l with
  | [] => Ok true
  | f :: r => do b <- filter_pass f m; if b : bool then pass_list r m else Ok false
  end.
Definition pass (fs : filters) (m : msg) : res bool := pass_list (fl fs) m.

(** Filters::processLevel *)
Definition process_level (fs : filters) (l : level) : res bool :=
  match cached fs with
  | None => Ok true
  | Some i =>
      match nth_error (fl fs) i with
      | None => Fault NullDeref
      | Some (FMax m) => Ok (eval_op op_max_process l m)
      | Some (FMin m) => Ok (eval_op op_min_process l m)
      | Some (FLevel m) => Ok (eval_op op_level_process l m)
      | Some (FClasses _) => Err EInvalidArgument
      end
  end.

(* ------------------------------------------------------------------ *)
(** * Logs, destinations, Logging *)

Record dest := { dname : string; dfil : filters }.
Record log := { lfil : filters; ldests : list dest }.
(** [lbit]: the log id is 1 << lbit *)
Record logdata := { lbit : nat; lname : string; llog : log }.
Record world := { pol : option policy; next_bit : nat; logs : list logdata }.

Definition init_world : world := {| pol := None; next_bit := 0; logs := [] |}.
Definition id_of_bit (b : nat) : N := N.shiftl 1 (N.of_nat b).

(** Filters::setDuplicatePolicy *)
Definition set_policy (p : policy) (w : world) : world :=
  {| pol := Some p; next_bit := next_bit w; logs := logs w |}.
(** Filters::Filters(): installs the default only when no policy was set yet *)
Definition ctor_policy (p : option policy) : option policy :=
  match p with None => Some PIgnore | Some q => Some q end.

(** the name lookups of Logging: findCreateLog( name), getLog( name) and log( name, msg)
    each walk mLogs in creation order and take the first entry whose name is EQUAL to
    the requested one ([name == it.mName] / [log_name == it.mName]): position and entry *)
Fixpoint find_log (name : string) (ls : list logdata) (i : nat) : option (nat * logdata) :=
  match ls with
  | [] => None
  | d :: r => if String.eqb name (lname d) then Some (i, d) else find_log name r (S i)
  end.
Fixpoint find_dest (name : string) (ds : list dest) (i : nat) : option (nat * dest) :=
  match ds with
  | [] => None
  | d :: r => if String.eqb (dname d) name then Some (i, d) else find_dest name r (S i)
  end.

(** Logging::findCreateLog *)
Definition find_create_log (w : world) (name : string) : res (world * N) :=
  match find_log name (logs w) 0 with
  | Some (_, d) => Ok (w, id_of_bit (lbit d))
  | None =>
      if next_bit w =? 31 then Err ERuntime
      else Ok ({| pol := ctor_policy (pol w); next_bit := S (next_bit w);
                  logs := logs w ++ [{| lbit := next_bit w; lname := name;
                                        llog := {| lfil := new_filters; ldests := [] |} |}] |},
               id_of_bit (next_bit w))
  end.

Inductive target := TgLog (l : string) | TgDest (l d : string).
Definition target_log (tg : target) : string := match tg with TgLog l => l | TgDest l _ => l end.
Definition target_dest (tg : target) : option string :=
  match tg with TgLog _ => None | TgDest _ d => Some d end.
Inductive op :=
| OPolicy (p : policy)
| ONewLog (name : string)
| OAddDest (l d : string)            (* getLog( l)->addDestination( d, new <destination>), l by name *)
| OSet (tg : target) (s : setting)   (* getLog( l)[->getDestination( d)]-><setting>, l by name *)
| OAddDestId (ids : N) (d : string)  (* the same with the log given by its id: getLog( id_t) *)
| OSetId (ids : N) (dest : option string) (s : setting).
Inductive opres := RId (n : N) | ROk | RNoLog | RErr (e : err) | RFault (f : fault).

Definition set_log (w : world) (i : nat) (d : logdata) (l : log) : world :=
  {| pol := pol w; next_bit := next_bit w;
     logs := replace_nth i {| lbit := lbit d; lname := lname d; llog := l |} (logs w) |}.

(** Logging::getLog( id_t) with the position of the log *)
Fixpoint get_log_id_idx (ls : list logdata) (ids : N) (i : nat) : res (option (nat * logdata)) :=
  match ls with
  | [] => Ok None
  | ld :: r =>
      if N.testbit ids (N.of_nat (lbit ld)) then
        (if N.eqb ids (id_of_bit (lbit ld)) then Ok (Some (i, ld)) else Err ERuntime)
      else get_log_id_idx r ids (S i)
  end.

(** <log i>->addDestination( dn, new <destination>): the new destination is a Filters object *)
Definition add_dest_at (w : world) (i : nat) (d : logdata) (dn : string) : world * opres :=
  let w' := set_log w i d {| lfil := lfil (llog d);
                             ldests := ldests (llog d) ++ [{| dname := dn; dfil := new_filters |}] |} in
  ({| pol := ctor_policy (pol w); next_bit := next_bit w'; logs := logs w' |}, ROk).

(** <log i>[->getDestination( dn)]-><setting> *)
Definition set_at (w : world) (i : nat) (d : logdata) (dest : option string) (s : setting)
  : world * opres :=
  match pol w with
  | None => (w, RFault NullDeref)
  | Some p =>
      match dest with
      | None =>
          match check_set_filter p s (lfil (llog d)) with
          | Ok fs => (set_log w i d {| lfil := fs; ldests := ldests (llog d) |}, ROk)
          | Err e => (w, RErr e) | Fault f => (w, RFault f)
          end
      | Some dn =>
          match find_dest dn (ldests (llog d)) 0 with
          | None => (w, RErr ERuntime)      (* Log::getDestination throws *)
          | Some (j, dd) =>
              match check_set_filter p s (dfil dd) with
              | Ok fs =>
                  (set_log w i d {| lfil := lfil (llog d);
                                    ldests := replace_nth j {| dname := dname dd; dfil := fs |}
                                                          (ldests (llog d)) |}, ROk)
              | Err e => (w, RErr e) | Fault f => (w, RFault f)
              end
          end
      end
  end.

Definition step (w : world) (o : op) : world * opres :=
  match o with
  | OPolicy p => (set_policy p w, ROk)
  | ONewLog name =>
      match find_create_log w name with
      | Ok (w', id) => (w', RId id) | Err e => (w, RErr e) | Fault f => (w, RFault f)
      end
  | OAddDest l dn =>
      match find_log l (logs w) 0 with
      | None => (w, RNoLog)
      | Some (i, d) => add_dest_at w i d dn
      end
  | OSet tg s =>
      match find_log (target_log tg) (logs w) 0 with
      | None => (w, RNoLog)
      | Some (i, d) => set_at w i d (target_dest tg) s
      end
  | OAddDestId ids dn =>
      match get_log_id_idx (logs w) ids 0 with
      | Ok None => (w, RNoLog)
      | Ok (Some (i, d)) => add_dest_at w i d dn
      | Err e => (w, RErr e) | Fault f => (w, RFault f)
      end
  | OSetId ids dest s =>
      match get_log_id_idx (logs w) ids 0 with
      | Ok None => (w, RNoLog)
      | Ok (Some (i, d)) => set_at w i d dest s
      | Err e => (w, RErr e) | Fault f => (w, RFault f)
      end
  end.

Fixpoint run (w : world) (ops : list op) : world * list opres :=
  match ops with
  | [] => (w, [])
  | o :: r => let '(w1, x) := step w o in let '(w2, xs) := run w1 r in (w2, x :: xs)
  end.

(** a delivery: (name of the log, name of the destination) *)
Definition delivery := (string * string)%type.

(** ILogDest::handleMessage for every destination of a log, in order *)
Fixpoint dests_handle (ln : string) (ds : list dest) (m : msg) : res (list delivery) :=
  match ds with
  | [] => Ok []
  | d :: r =>
      do b <- pass (dfil d) m;
      do y <- dests_handle ln r m;
      Ok ((if b : bool then [(ln, dname d)] else []) ++ y)
  end.
(** Log::message *)
Definition log_message (ld : logdata) (m : msg) : res (list delivery) :=
  do b <- pass (lfil (llog ld)) m;
  if b : bool then dests_handle (lname ld) (ldests (llog ld)) m else Ok [].

Definition selected (ids : N) (ld : logdata) : bool := N.testbit ids (N.of_nat (lbit ld)).

(** Logging::log( id_t logs, msg) *)
Fixpoint log_ids (ls : list logdata) (ids : N) (m : msg) : res (list delivery) :=
  match ls with
  | [] => Ok []
  | ld :: r =>
      if selected ids ld then
        do x <- log_message ld m;
        if N.eqb ids (id_of_bit (lbit ld)) then Ok x          (* only one log selected: done *)
        else do y <- log_ids r ids m; Ok (x ++ y)
      else log_ids r ids m
  end.
(** Logging::getLog( const std::string& log_name) *)
Definition get_log_name (ls : list logdata) (name : string) : option logdata :=
  match find_log name ls 0 with Some (_, ld) => Some ld | None => None end.

(** Logging::log( name, msg): its own loop over mLogs, first log with that name *)
Definition log_name (ls : list logdata) (name : string) (m : msg) : res (list delivery) :=
  match find_log name ls 0 with
  | Some (_, ld) => log_message ld m
  | None => Ok []
  end.

(** Logging::getLog( id_t) *)
Fixpoint get_log_id (ls : list logdata) (ids : N) : res (option logdata) :=
  match ls with
  | [] => Ok None
  | ld :: r =>
      if selected ids ld then
        (if N.eqb ids (id_of_bit (lbit ld)) then Ok (Some ld) else Err ERuntime)
      else get_log_id r ids
  end.
(** detail::discard_by_level *)
Definition discard_of (o : option logdata) (l : level) : res bool :=
  match o with
  | None => Ok true
  | Some ld => do b <- process_level (lfil (llog ld)) l; Ok (negb b)
  end.
Definition discard_id (ls : list logdata) (ids : N) (l : level) : res bool :=
  do o <- get_log_id ls ids; discard_of o l.
Definition discard_name (ls : list logdata) (name : string) (l : level) : res bool :=
  discard_of (get_log_name ls name) l.

(** the level-guarded macros  LOG_LEVEL( a, l) << class << text:
      if (discard_by_level( a, LogLevel::l)) { } else StreamLog( a, ...).self() << LogLevel::l ...
    StreamLog( id_t) throws for the id 0, StreamLog( name) for the empty name; its
    destructor hands the message (level l, the class streamed in) to Logging::log( a, msg) *)
Definition macro_ids (ls : list logdata) (ids : N) (m : msg) : res (list delivery) :=
  do d <- discard_id ls ids (fst m);
  if d : bool then Ok []
  else if N.eqb ids 0 then Err ERuntime else log_ids ls ids m.
Definition macro_name (ls : list logdata) (name : string) (m : msg) : res (list delivery) :=
  do d <- discard_name ls name (fst m);
  if d : bool then Ok []
  else if is_empty name then Err ERuntime else log_name ls name m.

(* ------------------------------------------------------------------ *)
(** * The pinned code where it differs (kept for the refutation witnesses) *)

(** std::bitset< operatorAction> : six bits *)
Definition make_classes_pinned (class_list : string) : res filter :=
  do b <- classes_loop (tokenize ","%char class_list EmptyString) (repeat false 6);
  if bs_none b then Err ERuntime else Ok (FClasses b).

(** Filters::Filters() of the pinned tree: setDuplicatePolicy( ignore), always *)
Definition ctor_policy_pinned (p : option policy) : option policy := Some PIgnore.

(** checkSetFilter of the pinned tree: [delete it; it = new F( param);] - when the
    constructor throws the vector keeps the deleted pointer: slot [None] *)
Definition replace_pinned (mk : res filter) (i : nat) (l : list (option filter))
  : list (option filter) * option err :=
  match mk with
  | Ok f => (replace_nth i (Some f) l, None)
  | Err e => (replace_nth i None l, Some e)
  | Fault _ => (l, None)
  end.
(** Filters::pass over a vector that may hold a deleted pointer *)
Fixpoint pass_list_pinned (l : list (option filter)) (m : msg) : res bool :=
  match l with
  | [] => Ok true
  | None :: _ => Fault BadFree                                (* use after free *)
  | Some f :: r => do b <- filter_pass f m; if b : bool then pass_list_pinned r m else Ok false
  end.
