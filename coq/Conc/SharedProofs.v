(** Non-interference over the inventory of static objects: induction over the schedule. *)
From Coq Require Import List Arith Bool String Lia.
Import ListNotations.
Require Import Celma.Conc.Interleave Celma.Conc.InterleaveFacts Celma.Conc.Shared.

Section NI.
  Variable inv : list sobj.
  Hypothesis Hinv : inv_ok inv = true.
  Variable code : tid -> list action.
  Hypothesis Hcode : code_ok inv code.
  Variable m0 : loc -> val.

  (** no action of any thread writes *)
  Lemma no_write : forall i pc m l v, nth_error (code i) pc = Some (AWrite m l v) -> False.
  Proof.
    intros i pc m l v H. pose proof (Hcode i) as C. rewrite forallb_forall in C.
    specialize (C _ (nth_error_In _ _ H)). simpl in C.
    destruct (nth_error inv l) as [o|] eqn:E; try discriminate.
    apply andb_true_iff in C. destruct C as [T M].
    unfold inv_ok in Hinv. rewrite forallb_forall in Hinv.
    specialize (Hinv _ (nth_error_In _ _ E)). rewrite T, M in Hinv. discriminate.
  Qed.

  Lemma action_cases : forall i pc a, nth_error (code i) pc = Some a ->
    (exists m l, a = ARead m l) \/ (exists k, a = ALock k) \/ (exists k, a = AUnlock k).
  Proof.
    intros i pc a H. pose proof (Hcode i) as C. rewrite forallb_forall in C.
    specialize (C _ (nth_error_In _ _ H)).
    destruct a; simpl in C; try discriminate; eauto.
    exfalso. eapply no_write; eauto.
  Qed.

  Definition NInv (s : state sl_local) : Prop :=
    (forall l, mem s l = m0 l) /\
    forall i pc ob, nth_error (thr s) i = Some (pc, ob) ->
      ob = rev (map (result0 m0) (firstn pc (code i))).

  Lemma firstn_S_nth {A} : forall (l : list A) n x, nth_error l n = Some x ->
    firstn (S n) l = firstn n l ++ [x].
  Proof.
    induction l; destruct n; simpl; intros; try discriminate.
    - inversion H; auto.
    - f_equal. apply IHl. auto.
  Qed.

  Lemma NInv_step : forall s i s', NInv s ->
    step sl_local (sl_next code) sl_cont s i = Some s' -> NInv s'.
  Proof.
    intros s i s' [Hm Ho] Hst. apply sl_step_inv in Hst.
    destruct Hst as (pc & ob & a & Hl & Ha & En & ->).
    assert (Hv : snd (effect sl_local s i a) = result0 m0 a /\
                 forall l, mem (fst (effect sl_local s i a)) l = m0 l).
    { destruct (action_cases _ _ _ Ha) as [(m & l & ->)|[(k & ->)|(k & ->)]]; simpl; auto. }
    destruct Hv as [Hv Hm']. split; auto. simpl.
    intros j pcj obj Hj. apply set_nth_cases in Hj. destruct Hj as [[-> E]|[N Hj]]; eauto.
    inversion E; subst pcj obj. rewrite (firstn_S_nth _ _ _ Ha), map_app, rev_app_distr. simpl.
    rewrite Hv. f_equal. eauto.
  Qed.

  Lemma NInv_run : forall n sched, NInv (sh_run code m0 n sched).
  Proof.
    intros. unfold sh_run. apply run_invariant with (I := NInv).
    - intros. eapply NInv_step; eauto.
    - split; auto. intros i pc ob H. simpl in H. apply nth_error_repeat in H.
      inversion H. reflexivity.
  Qed.

  (** the results a thread has obtained depend on its own code and position only - not on the
      schedule, not on the number or the code of the other threads *)
  Theorem results_schedule_independent : forall n sched i pc ob,
    nth_error (thr (sh_run code m0 n sched)) i = Some (pc, ob) ->
    ob = rev (map (result0 m0) (firstn pc (code i))).
  Proof. intros. destruct (NInv_run n sched) as [_ H0]. eauto. Qed.

  (** in particular a thread that ran to its end under any schedule holds exactly what it holds
      after any other schedule in which it ran to its end, e.g. the one where it runs alone *)
  Theorem noninterference : forall n sched sched' i l l',
    nth_error (thr (sh_run code m0 n sched)) i = Some l ->
    nth_error (thr (sh_run code m0 n sched')) i = Some l' ->
    fst l = List.length (code i) -> fst l' = List.length (code i) -> l = l'.
  Proof.
    intros n sched sched' i [pc ob] [pc' ob'] H H' E E'. simpl in *. subst pc pc'.
    rewrite (results_schedule_independent _ _ _ _ _ H), (results_schedule_independent _ _ _ _ _ H').
    reflexivity.
  Qed.

  Theorem shared_race_free : forall n sched,
    ~ race_state sl_local (sl_next code) (sh_run code m0 n sched).
  Proof.
    intros n sched (i & j & a & b & N & Pi & Pj & C).
    apply sl_pending_inv in Pi. apply sl_pending_inv in Pj.
    destruct Pi as (pi & oi & _ & Hai & _). destruct Pj as (pj & oj & _ & Haj & _).
    destruct a, b; simpl in C; try discriminate; eapply no_write; eauto.
  Qed.
End NI.

(** ** the pinned tree: the buffer of convChar2String is Mutable and on the path *)
Lemma pinned_inventory_not_ok : inv_ok pinned_tokenizer_inventory = false.
Proof. reflexivity. Qed.

Lemma pinned_code_respects_inventory : code_ok pinned_tokenizer_inventory pinned_tokenizer_code.
Proof. intros i. unfold pinned_tokenizer_code. destruct (i =? 0); reflexivity. Qed.

(** write (thread 0, ','), write (thread 1, ';'), read (thread 0): thread 0 gets ';' - alone it gets ',' *)
Lemma pinned_interference :
  nth_error (thr (sh_run pinned_tokenizer_code (fun _ => 0) 2 [0; 1; 0])) 0 = Some (2, [59; 0]) /\
  nth_error (thr (sh_run pinned_tokenizer_code (fun _ => 0) 2 [0; 0])) 0 = Some (2, [44; 0]).
Proof. split; reflexivity. Qed.

Lemma pinned_race :
  race_state sl_local (sl_next pinned_tokenizer_code) (sh_run pinned_tokenizer_code (fun _ => 0) 2 []).
Proof.
  exists 0, 1, (AWrite Plain 0 44), (AWrite Plain 0 59).
  split; [discriminate|]. split; [reflexivity|]. split; reflexivity.
Qed.
