(** Proofs about the ManagedThread protocol: any number of observers, every schedule. *)
From Coq Require Import List Arith Bool Lia.
Import ListNotations.
Require Import Celma.Conc.Interleave Celma.Conc.InterleaveFacts Celma.Conc.ManagedThread.

Lemma mt_ok_good : forall p, mt_ok p = true -> p = mt_good.
Proof.
  intros [c f b]. unfold mt_ok; simpl.
  destruct c as [|[] [|[] [|? ?]]]; try discriminate;
  destruct f; try discriminate;
  destruct b as [|[[]|] [|[[]|] [|[[]|] [|? ?]]]]; try discriminate; reflexivity.
Qed.

Notation gcode := (mt_code mt_good).
Notation gstep := (step sl_local (sl_next gcode) sl_cont).

(** value of the flag as a function of the position of the started thread *)
Definition flagval (h : nat) : val := if (1 <=? h) && (h <? 4) then 1 else 0.

Definition obs_ok (h : nat) (l : sl_local) : Prop :=
  match fst l with
  | 0 => snd l = []
  | 1 => snd l = [1] /\ 2 <= h
  | 2 => exists a, snd l = [a; 1] /\ (a = 1 \/ 3 <= h)
  | 3 => exists f a, snd l = [f; a; 1] /\ (f = 0 -> a = 1)
  | _ => False
  end.

Lemma obs_ok_mono : forall h h' l, h <= h' -> obs_ok h l -> obs_ok h' l.
Proof.
  intros h h' [o ob] Hh. unfold obs_ok; simpl.
  destruct o as [|[|[|[|o]]]]; auto.
  - intros [A B]. split; auto. lia.
  - intros (a & A & B). exists a. split; auto. destruct B; auto. right. lia.
Qed.

Definition MInv (s : state sl_local) : Prop :=
  exists c o0 h o1 os,
    thr s = (c, o0) :: (h, o1) :: os /\
    c <= 5 /\ h <= 4 /\
    live s 0 = true /\ live s 1 = (2 <=? c) /\ (forall t, 2 <= t -> live s t = (3 <=? c)) /\
    (0 < h -> 2 <= c) /\ (4 <= c -> h = 4) /\
    (1 <= c -> mem s FLAG = flagval h) /\
    mem s STARTED = (if 2 <=? h then 1 else 0) /\
    mem s FINISHED = (if 3 <=? h then 1 else 0) /\
    (c = 5 -> exists r, o0 = 0 :: r) /\
    Forall (obs_ok h) os.

Lemma MInv_init : forall g k, MInv (mt_init g k).
Proof.
  intros g k. exists 0, [], 0, [], (repeat sl_start k). simpl.
  repeat split; auto; try lia.
  - intros t Ht. destruct t as [|[|t]]; try lia. reflexivity.
  - apply Forall_forall. intros x Hx. apply repeat_spec in Hx. subst. reflexivity.
Qed.

Lemma MInv_step : forall s i s', MInv s -> gstep s i = Some s' -> MInv s'.
Proof.
  intros s i s' (c & o0 & h & o1 & os & Ht & Hc & Hh & L0 & L1 & L2 & P1 & P2 & MF & MS & MN & R5 & FO) Hst.
  apply sl_step_inv in Hst. destruct Hst as (pc & ob & a & Hl & Ha & En & ->).
  rewrite Ht in *.
  Ltac fin L0 L1 L2 MF FO :=
    repeat split; auto; try lia;
    try (rewrite L0; reflexivity); try (rewrite L1; reflexivity);
    try (let t := fresh "t" in let T := fresh "T" in
         intros t T; rewrite (L2 t T); destruct t as [|[|t]]; try lia; reflexivity);
    try (intros; unfold upd; simpl; apply MF; lia);
    try (eapply Forall_impl; [|exact FO]; let l := fresh "l" in intros l; apply obs_ok_mono; lia).
  destruct i as [|[|k]]; simpl in Hl.
  - (* the constructing thread *)
    inversion Hl; subst pc ob; clear Hl.
    destruct c as [|[|[|[|[|c]]]]]; simpl in Ha; inversion Ha; try subst a; clear Ha; simpl.
    + exists 1, (0 :: o0), h, o1, os. simpl.
      assert (h = 0) by lia. subst h. fin L0 L1 L2 MF FO.
    + exists 2, (0 :: o0), h, o1, os. simpl. fin L0 L1 L2 MF FO.
    + exists 3, (0 :: o0), h, o1, os. simpl. fin L0 L1 L2 MF FO.
    + (* join: enabled only when the started thread has finished *)
      exists 4, (0 :: o0), h, o1, os. simpl.
      unfold enabledb in En. simpl in En. rewrite L0 in En. simpl in En.
      unfold finishedb in En. rewrite Ht in En. simpl in En. unfold sl_next in En. simpl in En.
      assert (h = 4).
      { destruct h as [|[|[|[|h]]]]; simpl in En; try discriminate. lia. }
      fin L0 L1 L2 MF FO.
    + exists 5, (mem s FLAG :: o0), h, o1, os. simpl. fin L0 L1 L2 MF FO.
      exists o0. rewrite MF by lia. rewrite (P2 ltac:(lia)). reflexivity.
    + destruct c; discriminate.
  - (* the started thread *)
    inversion Hl; subst pc ob; clear Hl.
    assert (C2 : 2 <= c).
    { unfold enabledb in En. apply andb_true_iff in En. destruct En as [En _].
      rewrite L1 in En. apply Nat.leb_le in En. auto. }
    destruct h as [|[|[|[|h]]]]; simpl in Ha; inversion Ha; try subst a; clear Ha; simpl.
    + exists c, o0, 1, (0 :: o1), os. simpl. fin L0 L1 L2 MF FO.
    + exists c, o0, 2, (0 :: o1), os. simpl. fin L0 L1 L2 MF FO.
    + exists c, o0, 3, (0 :: o1), os. simpl. fin L0 L1 L2 MF FO.
    + exists c, o0, 4, (0 :: o1), os. simpl. fin L0 L1 L2 MF FO.
    + destruct h; discriminate.
  - (* an observer *)
    assert (C3 : 3 <= c).
    { unfold enabledb in En. apply andb_true_iff in En. destruct En as [En _].
      rewrite (L2 (S (S k))) in En by lia. apply Nat.leb_le in En. auto. }
    pose proof (Forall_nth_error _ _ _ _ FO Hl) as OK. unfold obs_ok in OK. simpl in OK.
    destruct pc as [|[|[|pc]]]; simpl in Ha; inversion Ha; try subst a; clear Ha; simpl.
    + (* wait until the function has started *)
      exists c, o0, h, o1, (set_nth k (1, 1 :: ob) os). simpl.
      unfold enabledb in En. apply andb_true_iff in En. destruct En as [_ En]. simpl in En.
      rewrite MS in En.
      repeat split; auto.
      apply Forall_set_nth; auto. unfold obs_ok; simpl. subst ob. split; auto.
      destruct (2 <=? h) eqn:E; [apply Nat.leb_le in E; auto|discriminate].
    + (* isActive() *)
      exists c, o0, h, o1, (set_nth k (2, mem s FLAG :: ob) os). simpl.
      repeat split; auto.
      apply Forall_set_nth; auto. unfold obs_ok; simpl. destruct OK as [-> H2].
      exists (mem s FLAG). split; auto. rewrite MF by lia. unfold flagval.
      destruct (h <? 4) eqn:E.
      * left. replace (1 <=? h) with true; auto. symmetry. apply Nat.leb_le. lia.
      * right. apply Nat.ltb_ge in E. lia.
    + (* has the function finished? *)
      exists c, o0, h, o1, (set_nth k (3, mem s FINISHED :: ob) os). simpl.
      repeat split; auto.
      apply Forall_set_nth; auto. unfold obs_ok; simpl. destruct OK as (a & -> & D).
      exists (mem s FINISHED), a. split; auto. rewrite MN. intros Z.
      destruct D as [D|D]; auto. destruct (3 <=? h) eqn:E; try discriminate.
      apply Nat.leb_gt in E. lia.
    + destruct pc; discriminate.
Qed.

Lemma MInv_run : forall g k sched, MInv (mt_run mt_good g k sched).
Proof.
  intros. unfold mt_run. apply run_invariant with (I := MInv).
  - intros. eapply MInv_step; eauto.
  - apply MInv_init.
Qed.

Section MT.
  Variable p : mt_proto.
  Hypothesis Hok : mt_ok p = true.
  Variables (g : val) (k : nat) (sched : list tid).
  Notation s := (mt_run p g k sched).

  (** whenever the user function has started and not yet finished the flag is set; and an
      observer that saw the start, then called isActive() and then found the function still
      running has obtained [true] *)
  Theorem mt_active_observed :
    (mem s STARTED = 1 -> mem s FINISHED = 0 -> mem s FLAG = 1) /\
    (forall i l, 2 <= i -> nth_error (thr s) i = Some l -> fst l = 3 ->
       exists f a, snd l = [f; a; 1] /\ (f = 0 -> a = 1)).
  Proof.
    rewrite (mt_ok_good p Hok).
    destruct (MInv_run g k sched) as
      (c & o0 & h & o1 & os & Ht & Hc & Hh & L0 & L1 & L2 & P1 & P2 & MF & MS & MN & R5 & FO).
    split.
    - rewrite MS, MN. intros A B.
      destruct (2 <=? h) eqn:E2; try discriminate. destruct (3 <=? h) eqn:E3; try discriminate.
      apply Nat.leb_le in E2. apply Nat.leb_gt in E3.
      rewrite MF by lia. assert (h = 2) by lia. subst h. reflexivity.
    - intros i l Hi Hl F3. rewrite Ht in Hl.
      destruct i as [|[|i]]; try lia. simpl in Hl.
      pose proof (Forall_nth_error _ _ _ _ FO Hl) as OK. unfold obs_ok in OK. rewrite F3 in OK. exact OK.
  Qed.

  (** once the started thread has finished the flag is clear, and isActive() called after the
      join returns [false] *)
  Theorem mt_inactive_after_join :
    (forall l1, nth_error (thr s) 1 = Some l1 -> fst l1 = 4 -> mem s FLAG = 0) /\
    (forall l0, nth_error (thr s) 0 = Some l0 -> fst l0 = 5 -> exists r, snd l0 = 0 :: r).
  Proof.
    rewrite (mt_ok_good p Hok).
    destruct (MInv_run g k sched) as
      (c & o0 & h & o1 & os & Ht & Hc & Hh & L0 & L1 & L2 & P1 & P2 & MF & MS & MN & R5 & FO).
    rewrite Ht. simpl. split.
    - intros l1 E F. inversion E; subst l1. simpl in F. subst h. rewrite MF by lia. reflexivity.
    - intros l0 E F. inversion E; subst l0. simpl in *. auto.
  Qed.

  Definition plain_access (a : action) : bool :=
    match a with ARead Plain _ => true | AWrite Plain _ _ => true | _ => false end.

  Lemma conflict_plain : forall a b, conflict a b = true -> plain_access a = true \/ plain_access b = true.
  Proof.
    intros a b. destruct a, b; simpl; try discriminate; intros H;
      apply andb_true_iff in H; destruct H as [_ H];
      repeat match goal with m : mode |- _ => destruct m end; simpl in *; auto; discriminate.
  Qed.

  Lemma plain_only_init : forall i pc a,
    nth_error (gcode i) pc = Some a -> plain_access a = true -> i = 0 /\ pc = 0.
  Proof.
    intros i pc a H P.
    destruct i as [|[|i]]; simpl in H.
    - destruct pc as [|[|[|[|[|pc]]]]]; simpl in H; inversion H; subst; simpl in P; try discriminate; auto.
      destruct pc; discriminate.
    - destruct pc as [|[|[|[|pc]]]]; simpl in H; inversion H; subst; simpl in P; try discriminate.
      destruct pc; discriminate.
    - destruct pc as [|[|[|pc]]]; simpl in H; inversion H; subst; simpl in P; try discriminate.
      destruct pc; discriminate.
  Qed.

  Theorem mt_race_free : ~ race_state sl_local (sl_next (mt_code p)) s.
  Proof.
    rewrite (mt_ok_good p Hok).
    destruct (MInv_run g k sched) as
      (c & o0 & h & o1 & os & Ht & Hc & Hh & L0 & L1 & L2 & P1 & P2 & MF & MS & MN & R5 & FO).
    assert (K : forall i j a b pc ob,
               i <> j -> nth_error (thr (mt_run mt_good g k sched)) i = Some (pc, ob) ->
               nth_error (gcode i) pc = Some a -> plain_access a = true ->
               pending sl_local (sl_next gcode) (mt_run mt_good g k sched) j = Some b -> False).
    { intros i j a b pc ob N Hi Ha Pa Pb.
      destruct (plain_only_init _ _ _ Ha Pa) as [-> ->].
      rewrite Ht in Hi. simpl in Hi. inversion Hi; subst c.
      apply sl_pending_inv in Pb. destruct Pb as (pcj & obj & _ & _ & En).
      unfold enabledb in En. apply andb_true_iff in En. destruct En as [En _].
      destruct j as [|[|j]]; try congruence.
      - rewrite L1 in En. discriminate.
      - rewrite L2 in En by lia. discriminate. }
    intros (i & j & a & b & N & Pi & Pj & C).
    destruct (conflict_plain _ _ C) as [Pa|Pb].
    - pose proof Pi as Pi'. apply sl_pending_inv in Pi'. destruct Pi' as (pc & ob & Hi & Ha & _).
      eapply K; eauto.
    - pose proof Pj as Pj'. apply sl_pending_inv in Pj'. destruct Pj' as (pc & ob & Hj & Hb & _).
      eapply (K j i b a); eauto.
  Qed.
End MT.

(** ** the pinned source (thread started before the flag is initialised): witnesses *)

(** constructor starts the thread; the thread sets the flag and enters the user function; the
    constructor initialises the flag; an observer sees the function running and isActive() = false *)
Lemma mt_pinned_inactive_while_running :
  exists sched l, nth_error (thr (mt_run mt_pinned 0 1 sched)) 2 = Some l /\ l = (3, [0; 0; 1]).
Proof. exists [0; 1; 1; 0; 0; 2; 2; 2], (3, [0; 0; 1]). split; reflexivity. Qed.

Lemma mt_pinned_race :
  race_state sl_local (sl_next (mt_code mt_pinned)) (mt_run mt_pinned 0 1 [0]).
Proof.
  exists 0, 1, (AWrite Plain FLAG 0), (AWrite Atomic FLAG 1).
  split; [discriminate|]. split; [reflexivity|]. split; reflexivity.
Qed.

(** not vacuous: a complete run with two observers under the repaired protocol *)
Lemma mt_good_complete :
  thr (mt_run mt_good 7 2 [0; 0; 1; 1; 0; 2; 2; 3; 2; 1; 3; 3; 1; 0; 0]) =
  [(5, [0; 0; 0; 0; 0]); (4, [0; 0; 0; 0]); (3, [0; 1; 1]); (3, [1; 1; 1])].
Proof. reflexivity. Qed.
