(** Lemmas about the interleaving machine used by all protocol proofs. *)
From Coq Require Import List Arith Bool Lia.
Import ListNotations.
Require Import Celma.Conc.Interleave.

Lemma set_nth_cases {A} : forall (l : list A) k x j y,
  nth_error (set_nth k x l) j = Some y ->
  (j = k /\ y = x) \/ (j <> k /\ nth_error l j = Some y).
Proof.
  intros l k x j y H. destruct (Nat.eq_dec j k) as [->|N].
  - left. split; auto.
    destruct (nth_error l k) eqn:E.
    + erewrite nth_error_set_nth_eq in H by eauto. congruence.
    + exfalso. apply nth_error_None in E.
      assert (nth_error (set_nth k x l) k = None).
      { apply nth_error_None. rewrite length_set_nth. auto. }
      congruence.
  - right. split; auto. rewrite nth_error_set_nth_ne in H; auto.
Qed.

Lemma nth_error_repeat {A} : forall n (x y : A) i, nth_error (repeat x n) i = Some y -> y = x.
Proof.
  induction n; destruct i; simpl; intros; try discriminate; try congruence; eauto.
Qed.

Lemma Forall_set_nth {A} (P : A -> Prop) : forall l k x, Forall P l -> P x -> Forall P (set_nth k x l).
Proof.
  induction l; destruct k; simpl; intros; auto; inversion H; subst; constructor; auto.
Qed.

Lemma Forall_nth_error {A} (P : A -> Prop) : forall l k x, Forall P l -> nth_error l k = Some x -> P x.
Proof.
  induction l; destruct k; simpl; intros; try discriminate; inversion H; subst; eauto. congruence.
Qed.

Lemma effect_thr {L} : forall (s : state L) i a, thr (fst (effect L s i a)) = thr s.
Proof. intros. destruct a; reflexivity. Qed.

(** a step of a straight-line thread *)
Lemma sl_step_inv : forall code (s s' : state sl_local) i,
  step sl_local (sl_next code) sl_cont s i = Some s' ->
  exists pc ob a,
    nth_error (thr s) i = Some (pc, ob) /\ nth_error (code i) pc = Some a /\
    enabledb sl_local (sl_next code) s i a = true /\
    s' = mkState (mem (fst (effect sl_local s i a))) (own (fst (effect sl_local s i a)))
                 (nctor (fst (effect sl_local s i a))) (live (fst (effect sl_local s i a)))
                 (set_nth i (S pc, snd (effect sl_local s i a) :: ob) (thr s)).
Proof.
  unfold step. intros code s s' i H.
  destruct (nth_error (thr s) i) as [[pc ob]|] eqn:E; try discriminate.
  unfold sl_next in *. simpl in H.
  destruct (nth_error (code i) pc) as [a|] eqn:Ea; try discriminate.
  destruct (enabledb sl_local _ s i a) eqn:En; try discriminate.
  exists pc, ob, a. repeat split; auto.
  pose proof (effect_thr s i a) as T.
  destruct (effect sl_local s i a) as [s1 v]. simpl in *. rewrite T in H. unfold sl_cont in H. simpl in H.
  inversion H. reflexivity.
Qed.

Lemma sl_pending_inv : forall code (s : state sl_local) i a,
  pending sl_local (sl_next code) s i = Some a ->
  exists pc ob, nth_error (thr s) i = Some (pc, ob) /\ nth_error (code i) pc = Some a /\
                enabledb sl_local (sl_next code) s i a = true.
Proof.
  unfold pending. intros code s i a H.
  destruct (nth_error (thr s) i) as [[pc ob]|] eqn:E; try discriminate.
  unfold sl_next in *. simpl in H.
  destruct (nth_error (code i) pc) as [b|] eqn:Eb; try discriminate.
  destruct (enabledb sl_local _ s i b) eqn:En; try discriminate.
  inversion H; subst. eauto.
Qed.
