(** Proofs about the singleton protocol: for every number of threads and every schedule,
    by induction over the schedule (invariants of the interleaving semantics). *)
From Coq Require Import List Arith Bool Lia.
Import ListNotations.
Require Import Celma.Conc.Interleave Celma.Conc.InterleaveFacts Celma.Conc.Singleton.

Section SG.
  Variable p : sg_proto.
  Notation st := (state sg_local).
  Notation stepp := (step sg_local (sg_next p) (sg_cont p)).
  Notation pend := (pending sg_local (sg_next p)).

  Definition lockedb (c : sg_pc) : bool :=
    match c with PSecond | PNew | PStore | PRetL | PUnlock => true | _ => false end.

  (** what a step is *)
  Lemma step_inv : forall (s s' : st) i,
    stepp s i = Some s' ->
    exists l a, nth_error (thr s) i = Some l /\ sg_next p i l = Some a /\
                enabledb sg_local (sg_next p) s i a = true /\
                s' = (let '(s1, v) := effect sg_local s i a in
                      mkState (mem s1) (own s1) (nctor s1) (live s1)
                              (set_nth i (sg_cont p i l v) (thr s1))).
  Proof.
    unfold step. intros s s' i H.
    destruct (nth_error (thr s) i) as [l|] eqn:E; try discriminate.
    destruct (sg_next p i l) as [a|] eqn:Ea; try discriminate.
    destruct (enabledb sg_local (sg_next p) s i a) eqn:En; try discriminate.
    exists l, a. repeat split; auto. destruct (effect sg_local s i a). congruence.
  Qed.

  Lemma after_create_cases : after_create p = PRetL \/ after_create p = PUnlock.
  Proof. unfold after_create. destruct (sg_ret p) as [|m []]; auto. Qed.

  (** ** mutual exclusion and reachability of the unlocked accesses (any protocol) *)
  Definition TL (s : st) (i : tid) (l : sg_local) : Prop :=
    (lockedb (pc l) = true -> own s MX = Some i) /\
    (pc l = PFirst -> sg_first p <> None) /\
    (pc l = PRet -> exists m lk, sg_ret p = RetRead m lk /\ (sg_first p <> None \/ lk = false)).

  Definition InvL (s : st) : Prop := forall i l, nth_error (thr s) i = Some l -> TL s i l.

  Lemma InvL_init : forall n, InvL (sg_init p n).
  Proof.
    intros n i l H. simpl in H. apply nth_error_repeat in H. subst l.
    unfold TL, sg_start. simpl. destruct (sg_first p); simpl; repeat split; intros; try discriminate.
  Qed.

  Lemma InvL_exclusive : forall s i j li lj,
    InvL s -> nth_error (thr s) i = Some li -> nth_error (thr s) j = Some lj ->
    lockedb (pc li) = true -> lockedb (pc lj) = true -> i = j.
  Proof.
    intros s i j li lj H Hi Hj Li Lj.
    destruct (H _ _ Hi) as [A _]. destruct (H _ _ Hj) as [B _].
    rewrite (A Li) in B. specialize (B Lj). congruence.
  Qed.

  Ltac tl_other Hs Hj :=
    let A := fresh in let B := fresh in let C := fresh in
    destruct (Hs _ _ Hj) as (A & B & C); unfold TL; simpl; repeat split; auto.

  Lemma InvL_step : forall s i s', InvL s -> stepp s i = Some s' -> InvL s'.
  Proof.
    intros s i s' Hs Hst. apply step_inv in Hst. destruct Hst as (l & a & Hl & Ha & En & ->).
    pose proof (Hs _ _ Hl) as (Lk & Fi & Rt).
    unfold sg_next in Ha. unfold InvL.
    destruct (pc l) eqn:Epc; simpl in *.
    - (* PFirst *)
      destruct (sg_first p) as [m|] eqn:Ef; [|exfalso; apply Fi; auto].
      inversion Ha; subst a; clear Ha. simpl.
      intros j lj Hj. apply set_nth_cases in Hj. destruct Hj as [[-> ->]|[Nj Hj]].
      + unfold TL, sg_cont. rewrite Epc, Ef.
        destruct (mem s PTR =? 0); simpl; [repeat split; intros; try discriminate|].
        destruct (sg_ret p) as [|m' lk]; simpl; repeat split; intros; try discriminate.
        exists m', lk. split; auto.
      + tl_other Hs Hj.
    - (* PLock *)
      inversion Ha; subst a; clear Ha. simpl in *.
      apply andb_true_iff in En. destruct En as [_ En].
      destruct (own s MX) eqn:Eo; try discriminate.
      intros j lj Hj. apply set_nth_cases in Hj. destruct Hj as [[-> ->]|[Nj Hj]].
      + unfold TL, sg_cont, after_lock. rewrite Epc.
        destruct (sg_second p); simpl; repeat split; intros; try discriminate; unfold upd; simpl; auto.
      + destruct (Hs _ _ Hj) as (A & B & C). unfold TL; simpl; repeat split; auto.
        intros Lj. specialize (A Lj). congruence.
    - (* PSecond *)
      inversion Ha; subst a; clear Ha. simpl.
      intros j lj Hj. apply set_nth_cases in Hj. destruct Hj as [[-> ->]|[Nj Hj]].
      + unfold TL, sg_cont. rewrite Epc.
        destruct (mem s PTR =? 0); simpl.
        * repeat split; intros; try discriminate. auto.
        * destruct after_create_cases as [E|E]; rewrite E; simpl; repeat split; intros; try discriminate; auto.
      + tl_other Hs Hj.
    - (* PNew *)
      inversion Ha; subst a; clear Ha. simpl.
      intros j lj Hj. apply set_nth_cases in Hj. destruct Hj as [[-> ->]|[Nj Hj]].
      + unfold TL, sg_cont. rewrite Epc. simpl. repeat split; intros; try discriminate. auto.
      + tl_other Hs Hj.
    - (* PStore *)
      inversion Ha; subst a; clear Ha. simpl.
      intros j lj Hj. apply set_nth_cases in Hj. destruct Hj as [[-> ->]|[Nj Hj]].
      + unfold TL, sg_cont. rewrite Epc. simpl.
        destruct after_create_cases as [E|E]; rewrite E; simpl; repeat split; intros; try discriminate; auto.
      + tl_other Hs Hj.
    - (* PRetL *)
      inversion Ha; subst a; clear Ha. simpl.
      intros j lj Hj. apply set_nth_cases in Hj. destruct Hj as [[-> ->]|[Nj Hj]].
      + unfold TL, sg_cont. rewrite Epc. simpl. repeat split; intros; try discriminate. auto.
      + tl_other Hs Hj.
    - (* PUnlock *)
      inversion Ha; subst a; clear Ha. simpl.
      intros j lj Hj. apply set_nth_cases in Hj. destruct Hj as [[-> ->]|[Nj Hj]].
      + unfold TL, sg_cont. rewrite Epc.
        destruct (sg_ret p) as [|m [|]] eqn:Er; simpl; repeat split; intros; try discriminate.
        exists m, false. auto.
      + destruct (Hs _ _ Hj) as (A & B & C). unfold TL; simpl; repeat split; auto.
        intros Lj. exfalso. apply Nj. eapply (InvL_exclusive s j i lj l); eauto. rewrite Epc. auto.
    - (* PRet *)
      inversion Ha; subst a; clear Ha. simpl.
      intros j lj Hj. apply set_nth_cases in Hj. destruct Hj as [[-> ->]|[Nj Hj]].
      + unfold TL, sg_cont. rewrite Epc. simpl. repeat split; intros; try discriminate.
      + tl_other Hs Hj.
    - discriminate.
  Qed.

  Lemma InvL_run : forall n sched, InvL (sg_run p n sched).
  Proof.
    intros. unfold sg_run. apply run_invariant with (I := InvL).
    - intros. eapply InvL_step; eauto.
    - apply InvL_init.
  Qed.

  Lemma pending_next : forall (s : st) i a, pend s i = Some a ->
    exists l, nth_error (thr s) i = Some l /\ sg_next p i l = Some a.
  Proof.
    unfold pending. intros s i a H. destruct (nth_error (thr s) i) as [l|]; try discriminate.
    destruct (sg_next p i l) as [b|] eqn:E; try discriminate.
    destruct (enabledb _ _ s i b); try discriminate. exists l. split; congruence.
  Qed.

  Lemma next_write : forall i l m lo v,
    sg_next p i l = Some (AWrite m lo v) -> pc l = PStore /\ m = sg_store p.
  Proof.
    unfold sg_next. intros i l m lo v H.
    destruct (pc l); try destruct (sg_first p); inversion H; auto.
  Qed.
End SG.

(** ** exactly one construction, every caller receives that object *)
Section ONCE.
  Variable p : sg_proto.
  Hypothesis Honce : sg_once_ok p = true.
  Notation st := (state sg_local).
  Notation stepp := (step sg_local (sg_next p) (sg_cont p)).

  Lemma after_lock_eq : after_lock p = PSecond.
  Proof. unfold after_lock. unfold sg_once_ok in Honce. destruct (sg_second p); auto. discriminate. Qed.

  (** per thread, in terms of the pointer value mp and the number of constructions nc *)
  Definition TO (mp : val) (nc : nat) (l : sg_local) : Prop :=
    (pc l = PNew -> mp = 0 /\ nc = 0) /\
    (pc l = PStore -> mp = 0 /\ nc = 1 /\ reg l = 1) /\
    (pc l = PRetL \/ pc l = PUnlock \/ pc l = PRet -> mp = 1 /\ reg l = 1) /\
    (forall v, res l = Some v -> v = 1 /\ mp = 1).

  Definition G (s : st) : Prop :=
    nctor s <= 1 /\ mem s PTR <= 1 /\ (mem s PTR = 1 -> nctor s = 1) /\
    (nctor s = 1 -> mem s PTR = 1 \/ exists j lj, nth_error (thr s) j = Some lj /\ pc lj = PStore).

  Definition InvO (s : st) : Prop :=
    InvL p s /\ G s /\ forall i l, nth_error (thr s) i = Some l -> TO (mem s PTR) (nctor s) l.

  Lemma TO_unlocked_nc : forall mp nc nc' l, lockedb (pc l) = false -> TO mp nc l -> TO mp nc' l.
  Proof.
    intros mp nc nc' l U (A & B & C & D). unfold TO.
    split; [intros E; rewrite E in U; discriminate|].
    split; [intros E; rewrite E in U; discriminate|].
    split; auto.
  Qed.

  Lemma TO_unlocked_store : forall nc l, lockedb (pc l) = false -> TO 0 nc l -> TO 1 nc l.
  Proof.
    intros nc l U (A & B & C & D). unfold TO.
    split; [intros E; rewrite E in U; discriminate|].
    split; [intros E; rewrite E in U; discriminate|].
    split.
    - intros E. split; auto. apply C; auto.
    - intros v E. split; auto. eapply D; eauto.
  Qed.

  Lemma witness_frame : forall (thr0 : list sg_local) i l l',
    nth_error thr0 i = Some l -> pc l <> PStore ->
    (exists j lj, nth_error thr0 j = Some lj /\ pc lj = PStore) ->
    exists j lj, nth_error (set_nth i l' thr0) j = Some lj /\ pc lj = PStore.
  Proof.
    intros thr0 i l l' Hl N (j & lj & Hj & E). exists j, lj. split; auto.
    rewrite nth_error_set_nth_ne; auto. intros ->. congruence.
  Qed.

  Lemma InvO_init : forall n, InvO (sg_init p n).
  Proof.
    intros n. split; [apply InvL_init|]. split.
    - unfold G; simpl. repeat split; auto; intros; discriminate.
    - intros i l H. simpl in H. apply nth_error_repeat in H. subst l. simpl.
      unfold TO, sg_start; simpl. destruct (sg_first p); simpl; repeat split; intros; try discriminate;
        repeat match goal with H : _ \/ _ |- _ => destruct H end; discriminate.
  Qed.

  Ltac vac := let E := fresh "E" in intros E; simpl in E; try discriminate;
              repeat (destruct E as [E|E]; try discriminate).

  Lemma frame_same : forall (s : st) i l l' o lv,
    G s -> (forall j lj, nth_error (thr s) j = Some lj -> TO (mem s PTR) (nctor s) lj) ->
    nth_error (thr s) i = Some l -> pc l <> PStore ->
    TO (mem s PTR) (nctor s) l' ->
    G (mkState (mem s) o (nctor s) lv (set_nth i l' (thr s))) /\
    forall j lj, nth_error (set_nth i l' (thr s)) j = Some lj -> TO (mem s PTR) (nctor s) lj.
  Proof.
    intros s i l l' o lv (G1 & G2 & G3 & G4) HT Hl N Tl'. split.
    - unfold G; simpl. repeat split; auto.
      intros E. destruct (G4 E) as [A|A]; auto. right. eapply witness_frame; eauto.
    - intros j lj Hj. apply set_nth_cases in Hj. destruct Hj as [[-> ->]|[Nj Hj]]; eauto.
  Qed.

  Lemma InvO_step : forall s i s', InvO s -> stepp s i = Some s' -> InvO s'.
  Proof.
    intros s i s' (HL & HG & HT) Hst.
    assert (HL' : InvL p s') by (eapply InvL_step; eauto).
    split; auto.
    apply step_inv in Hst. destruct Hst as (l & a & Hl & Ha & En & ->).
    pose proof (HT _ _ Hl) as (T1 & T2 & T3 & T4).
    pose proof (HL _ _ Hl) as (Lk & Fi & Rt).
    pose proof HG as (G1 & G2 & G3 & G4).
    unfold sg_next in Ha.
    destruct (pc l) eqn:Epc; simpl in *.
    - (* PFirst *)
      destruct (sg_first p) as [m|] eqn:Ef; [|exfalso; apply Fi; auto].
      inversion Ha; subst a; clear Ha. simpl.
      eapply frame_same; eauto; try congruence.
      unfold sg_cont. rewrite Epc, Ef.
      destruct (mem s PTR =? 0) eqn:Ez.
      + unfold TO; simpl. split; [vac|]. split; [vac|]. split; [vac|]. auto.
      + apply Nat.eqb_neq in Ez. assert (mem s PTR = 1) by lia.
        destruct (sg_ret p); unfold TO; simpl.
        * split; [vac|]. split; [vac|]. split; [vac|]. intros v E. inversion E. split; congruence.
        * split; [vac|]. split; [vac|]. split; auto.
    - (* PLock *)
      inversion Ha; subst a; clear Ha. simpl.
      eapply frame_same; eauto; try congruence.
      unfold sg_cont. rewrite Epc, after_lock_eq.
      unfold TO; simpl. split; [vac|]. split; [vac|]. split; [vac|]. auto.
    - (* PSecond *)
      inversion Ha; subst a; clear Ha. simpl.
      eapply frame_same; eauto; try congruence.
      unfold sg_cont. rewrite Epc.
      destruct (mem s PTR =? 0) eqn:Ez.
      + apply Nat.eqb_eq in Ez.
        unfold TO; simpl. split; [|split; [vac|split; [vac|auto]]].
        intros _. split; auto.
        assert (nctor s = 0 \/ nctor s = 1) as [Z|Z] by lia; auto.
        exfalso. destruct (G4 Z) as [A|(j & lj & Hj & Ej)]; [lia|].
        assert (i = j).
        { eapply (InvL_exclusive p s i j l lj); eauto; [rewrite Epc|rewrite Ej]; auto. }
        subst j. congruence.
      + apply Nat.eqb_neq in Ez. assert (mem s PTR = 1) by lia.
        destruct (after_create_cases p) as [E|E]; rewrite E; unfold TO; simpl;
          (split; [vac|]; split; [vac|]; split; auto).
    - (* PNew *)
      inversion Ha; subst a; clear Ha. simpl.
      destruct (T1 eq_refl) as [Mz Nz]. rewrite Nz.
      split.
      + unfold G; simpl. repeat split; auto; try lia.
        intros _. right. exists i, (sg_cont p i l 1). split.
        * eapply nth_error_set_nth_eq; eauto.
        * unfold sg_cont. rewrite Epc. auto.
      + intros j lj Hj. apply set_nth_cases in Hj. destruct Hj as [[-> ->]|[Nj Hj]].
        * unfold sg_cont. rewrite Epc. unfold TO; simpl.
          split; [vac|]. split; [auto|]. split; [vac|]. auto.
        * pose proof (HT _ _ Hj) as Tj. rewrite Nz in Tj.
          eapply TO_unlocked_nc; eauto.
          destruct (lockedb (pc lj)) eqn:Lj; auto. exfalso. apply Nj.
          eapply (InvL_exclusive p s j i lj l); eauto. rewrite Epc; auto.
    - (* PStore *)
      inversion Ha; subst a; clear Ha. simpl.
      destruct (T2 eq_refl) as (Mz & N1 & R1). rewrite R1.
      assert (Hm : upd (mem s) PTR 1 PTR = 1) by reflexivity.
      split.
      + unfold G; simpl. rewrite Hm. repeat split; auto.
      + rewrite Hm. intros j lj Hj. apply set_nth_cases in Hj. destruct Hj as [[-> ->]|[Nj Hj]].
        * unfold sg_cont. rewrite Epc.
          destruct (after_create_cases p) as [E|E]; rewrite E; unfold TO; simpl;
            (split; [vac|]; split; [vac|]; split; [auto|]);
            intros v Ev; split; auto; eapply T4; eauto.
        * pose proof (HT _ _ Hj) as Tj. rewrite Mz in Tj.
          eapply TO_unlocked_store; eauto.
          destruct (lockedb (pc lj)) eqn:Lj; auto. exfalso. apply Nj.
          eapply (InvL_exclusive p s j i lj l); eauto. rewrite Epc; auto.
    - (* PRetL *)
      inversion Ha; subst a; clear Ha. simpl.
      eapply frame_same; eauto; try congruence.
      unfold sg_cont. rewrite Epc.
      destruct T3 as [M1 R1]; auto.
      unfold TO; simpl. split; [vac|]. split; [vac|]. split; auto.
      intros v E. inversion E. split; congruence.
    - (* PUnlock *)
      inversion Ha; subst a; clear Ha. simpl.
      eapply frame_same; eauto; try congruence.
      unfold sg_cont. rewrite Epc.
      destruct T3 as [M1 R1]; auto.
      destruct (sg_ret p) as [|m [|]]; unfold TO; simpl;
        (split; [vac|]; split; [vac|]; split; [try vac; auto|]); auto.
      intros v E. inversion E. split; congruence.
    - (* PRet *)
      inversion Ha; subst a; clear Ha. simpl.
      eapply frame_same; eauto; try congruence.
      unfold sg_cont. rewrite Epc.
      destruct T3 as [M1 R1]; auto.
      unfold TO; simpl. split; [vac|]. split; [vac|]. split; [vac|].
      intros v E. inversion E. split; congruence.
    - discriminate.
  Qed.

  Lemma InvO_run : forall n sched, InvO (sg_run p n sched).
  Proof.
    intros. unfold sg_run. apply run_invariant with (I := InvO).
    - intros. eapply InvO_step; eauto.
    - apply InvO_init.
  Qed.

  (** a thread that has returned from instance() holds a result *)
  Definition TR (l : sg_local) : Prop :=
    (pc l = PDone -> res l <> None) /\
    (pc l = PUnlock -> (exists m, sg_ret p = RetRead m true) -> res l <> None).
  Definition InvR (s : st) : Prop := forall i l, nth_error (thr s) i = Some l -> TR l.

  Lemma InvR_step : forall s i s', InvR s -> stepp s i = Some s' -> InvR s'.
  Proof.
    intros s i s' HR Hst. apply step_inv in Hst. destruct Hst as (l & a & Hl & Ha & En & ->).
    pose proof (HR _ _ Hl) as (R1 & R2).
    assert (K : forall v, TR (sg_cont p i l v)).
    { intros v. unfold sg_cont, TR. destruct (pc l) eqn:Epc; simpl.
      - destruct (sg_first p); [destruct (v =? 0); [|destruct (sg_ret p)]|rewrite after_lock_eq];
          simpl; split; intros; try discriminate.
      - rewrite after_lock_eq; simpl; split; intros; discriminate.
      - destruct (v =? 0); simpl; [split; intros; discriminate|].
        unfold after_create. destruct (sg_ret p) as [|m [|]]; simpl; split; intros; try discriminate.
        + destruct H0 as [m' H0]. discriminate.
        + destruct H0 as [m' H0]. discriminate.
      - simpl; split; intros; discriminate.
      - unfold after_create. destruct (sg_ret p) as [|m [|]]; simpl; split; intros; try discriminate.
        + destruct H0 as [m' H0]. discriminate.
        + destruct H0 as [m' H0]. discriminate.
      - split; intros; discriminate.
      - destruct (sg_ret p) as [|m [|]] eqn:Er; simpl; split; intros; try discriminate.
        apply R2; eauto.
      - split; intros; discriminate.
      - split; auto. }
    intros j lj Hj.
    destruct (effect sg_local s i a) as [s1 v] eqn:Ee.
    assert (thr s1 = thr s) by (destruct a; inversion Ee; auto).
    simpl in Hj. rewrite H in Hj. apply set_nth_cases in Hj. destruct Hj as [[-> ->]|[Nj Hj]]; eauto.
  Qed.

  Lemma InvR_run : forall n sched, InvR (sg_run p n sched).
  Proof.
    intros. unfold sg_run. apply run_invariant with (I := InvR).
    - intros. eapply InvR_step; eauto.
    - intros i l H. simpl in H. apply nth_error_repeat in H. subst l.
      unfold TR, sg_start; simpl. destruct (sg_first p); simpl; split; intros; discriminate.
  Qed.

  (** in every state of every schedule: at most one construction has been made; every thread
      that has returned from instance() received object number 1, the pointer designates it
      and exactly one construction has been made *)
  Theorem sg_once : forall n sched,
    nctor (sg_run p n sched) <= 1 /\
    forall i l, nth_error (thr (sg_run p n sched)) i = Some l -> pc l = PDone ->
      res l = Some 1 /\ nctor (sg_run p n sched) = 1 /\ mem (sg_run p n sched) PTR = 1.
  Proof.
    intros n sched. destruct (InvO_run n sched) as (_ & (G1 & G2 & G3 & G4) & HT).
    split; auto. intros i l Hl Hd.
    destruct (InvR_run n sched _ _ Hl) as [R _]. specialize (R Hd).
    destruct (res l) as [v|] eqn:Er; [|congruence].
    destruct (HT _ _ Hl) as (_ & _ & _ & T4). destruct (T4 _ Er) as [-> M]. auto.
  Qed.

  (** ** race freedom: the only access that can coincide with the store of the pointer is the
      unlocked first check (a thread past its own critical section or past a successful first
      check sees a pointer that is never written again) *)
  Hypothesis Hrace : sg_race_ok p = true.

  Theorem sg_race_free : forall n sched, ~ race_state sg_local (sg_next p) (sg_run p n sched).
  Proof.
    intros n sched.
    assert (K : forall i j a b, i <> j ->
              pending sg_local (sg_next p) (sg_run p n sched) i = Some a ->
              pending sg_local (sg_next p) (sg_run p n sched) j = Some b ->
              (exists m lo v, a = AWrite m lo v) -> conflict a b = true -> False).
    { intros i j a b Nij Pi Pj (m & lo & v & ->) C.
      destruct (InvO_run n sched) as (HL & _ & HT).
      apply pending_next in Pi. apply pending_next in Pj.
      destruct Pi as (li & Hli & Hai). destruct Pj as (lj & Hlj & Haj).
      apply next_write in Hai. destruct Hai as [Epi ->].
      destruct (HT _ _ Hli) as (_ & T2 & _). destruct (T2 Epi) as (Mz & _).
      destruct (HT _ _ Hlj) as (_ & _ & T3 & _).
      destruct (HL _ _ Hlj) as (_ & Fj & _).
      assert (X : lockedb (pc lj) = true -> False).
      { intros Lj. apply Nij. eapply (InvL_exclusive p _ i j li lj); eauto. rewrite Epi. auto. }
      unfold sg_next in Haj. unfold sg_race_ok in Hrace. rewrite Honce in Hrace. simpl in Hrace.
      destruct (pc lj) eqn:Epj; try (apply X; reflexivity).
      - destruct (sg_first p) as [mf|] eqn:Ef; [|exfalso; apply Fj; auto].
        inversion Haj; subst b. simpl in C.
        apply andb_true_iff in Hrace. destruct Hrace as [A B].
        destruct mf, (sg_store p); simpl in *; try discriminate.
        rewrite andb_false_r in C. discriminate.
      - inversion Haj; subst b. simpl in C. discriminate.
      - destruct T3 as [M1 _]; auto. rewrite Mz in M1. discriminate.
      - discriminate. }
    intros (i & j & a & b & Nij & Pi & Pj & C).
    destruct a, b; simpl in C; try discriminate.
    - eapply (K j i); eauto. simpl. rewrite Nat.eqb_sym, orb_comm. exact C.
    - eapply (K i j); eauto.
    - eapply (K i j); eauto.
  Qed.
End ONCE.

(** ** the protocols that do not satisfy the premises: witnesses *)

(** pinned source: thread 0 has passed both checks and constructed the object, its plain store
    of the pointer is pending while thread 1 is about to make the unlocked plain first check *)
Lemma sg_pinned_race :
  race_state sg_local (sg_next sg_pinned) (sg_run sg_pinned 2 [0; 0; 0; 0]).
Proof.
  exists 0, 1, (AWrite Plain PTR 1), (ARead Plain PTR).
  split; [discriminate|]. split; [reflexivity|]. split; reflexivity.
Qed.

(** without the check under the lock two threads that both passed the first check both construct *)
Lemma sg_nosecond_twice :
  nctor (sg_run sg_nosecond 2 [0; 1; 0; 0; 0; 0; 1; 1; 1; 1]) = 2.
Proof. reflexivity. Qed.

(** the theorems are not vacuous: a complete run of three threads *)
Lemma sg_locked_complete :
  map res (thr (sg_run sg_locked 3 [0; 1; 2; 0; 0; 0; 0; 0; 1; 1; 1; 1; 2; 2; 2; 2; 2])) =
  [Some 1; Some 1; Some 1].
Proof. reflexivity. Qed.
