(** Proofs about the singleton protocol: for every number of threads and every schedule,
    by induction over the schedule (invariants of the interleaving semantics). *)
From Coq Require Import List Arith Bool Lia.
Import ListNotations.
Require Import Celma.Conc.Interleave Celma.Conc.Singleton.

Lemma set_nth_cases {A} : forall (l : list A) k x j y,
  nth_error (set_nth k x l) j = Some y ->
  (j = k /\ y = x) \/ (j <> k /\ nth_error l j = Some y).
Proof.
  intros l k x j y H. destruct (Nat.eq_dec j k) as [->|N].
  - left. split; auto.
    destruct (nth_error l k) eqn:E.
    + erewrite nth_error_set_nth_eq in H by eauto. congruence.
    + exfalso. apply nth_error_None in E.
      assert (nth_error (set_nth k x l) k = None).
      { apply nth_error_None. rewrite length_set_nth. auto. }
      congruence.
  - right. split; auto. rewrite nth_error_set_nth_ne in H; auto.
Qed.

Lemma nth_error_repeat {A} : forall n (x y : A) i, nth_error (repeat x n) i = Some y -> y = x.
Proof.
  induction n; destruct i; simpl; intros; try discriminate; try congruence; eauto.
Qed.

Section SG.
  Variable p : sg_proto.
  Notation st := (state sg_local).
  Notation stepp := (step sg_local (sg_next p) (sg_cont p)).
  Notation pend := (pending sg_local (sg_next p) (sg_cont p)).

  Definition lockedb (c : sg_pc) : bool :=
    match c with PSecond | PNew | PStore | PRetL | PUnlock => true | _ => false end.

  (** what a step is *)
  Lemma step_inv : forall (s s' : st) i,
    stepp s i = Some s' ->
    exists l a, nth_error (thr s) i = Some l /\ sg_next p i l = Some a /\
                enabledb sg_local (sg_next p) s i a = true /\
                s' = (let '(s1, v) := effect sg_local s i a in
                      mkState (mem s1) (own s1) (nctor s1) (live s1)
                              (set_nth i (sg_cont p i l v) (thr s1))).
  Proof.
    unfold step. intros s s' i H.
    destruct (nth_error (thr s) i) as [l|] eqn:E; try discriminate.
    destruct (sg_next p i l) as [a|] eqn:Ea; try discriminate.
    destruct (enabledb sg_local (sg_next p) s i a) eqn:En; try discriminate.
    exists l, a. repeat split; auto. destruct (effect sg_local s i a). congruence.
  Qed.

  Lemma after_create_cases : after_create p = PRetL \/ after_create p = PUnlock.
  Proof. unfold after_create. destruct (sg_ret p) as [|m []]; auto. Qed.

  (** ** mutual exclusion and reachability of the unlocked accesses (any protocol) *)
  Definition TL (s : st) (i : tid) (l : sg_local) : Prop :=
    (lockedb (pc l) = true -> own s MX = Some i) /\
    (pc l = PFirst -> sg_first p <> None) /\
    (pc l = PRet -> exists m lk, sg_ret p = RetRead m lk /\ (sg_first p <> None \/ lk = false)).

  Definition InvL (s : st) : Prop := forall i l, nth_error (thr s) i = Some l -> TL s i l.

  Lemma InvL_init : forall n, InvL (sg_init p n).
  Proof.
    intros n i l H. simpl in H. apply nth_error_repeat in H. subst l.
    unfold TL, sg_start. simpl. destruct (sg_first p); simpl; repeat split; intros; try discriminate.
  Qed.

  Lemma InvL_exclusive : forall s i j li lj,
    InvL s -> nth_error (thr s) i = Some li -> nth_error (thr s) j = Some lj ->
    lockedb (pc li) = true -> lockedb (pc lj) = true -> i = j.
  Proof.
    intros s i j li lj H Hi Hj Li Lj.
    destruct (H _ _ Hi) as [A _]. destruct (H _ _ Hj) as [B _].
    rewrite (A Li) in B. specialize (B Lj). congruence.
  Qed.

  Ltac tl_other Hs Hj :=
    let A := fresh in let B := fresh in let C := fresh in
    destruct (Hs _ _ Hj) as (A & B & C); unfold TL; simpl; repeat split; auto.

  Lemma InvL_step : forall s i s', InvL s -> stepp s i = Some s' -> InvL s'.
  Proof.
    intros s i s' Hs Hst. apply step_inv in Hst. destruct Hst as (l & a & Hl & Ha & En & ->).
    pose proof (Hs _ _ Hl) as (Lk & Fi & Rt).
    unfold sg_next in Ha. unfold InvL.
    destruct (pc l) eqn:Epc; simpl in *.
    - (* PFirst *)
      destruct (sg_first p) as [m|] eqn:Ef; [|exfalso; apply Fi; auto].
      inversion Ha; subst a; clear Ha. simpl.
      intros j lj Hj. apply set_nth_cases in Hj. destruct Hj as [[-> ->]|[Nj Hj]].
      + unfold TL, sg_cont. rewrite Epc, Ef.
        destruct (mem s PTR =? 0); simpl; [repeat split; intros; try discriminate|].
        destruct (sg_ret p) as [|m' lk]; simpl; repeat split; intros; try discriminate.
        exists m', lk. split; auto. left. congruence.
      + tl_other Hs Hj.
    - (* PLock *)
      inversion Ha; subst a; clear Ha. simpl in *.
      apply andb_true_iff in En. destruct En as [_ En].
      destruct (own s MX) eqn:Eo; try discriminate.
      intros j lj Hj. apply set_nth_cases in Hj. destruct Hj as [[-> ->]|[Nj Hj]].
      + unfold TL, sg_cont, after_lock. rewrite Epc.
        destruct (sg_second p); simpl; repeat split; intros; try discriminate; unfold upd; simpl; auto.
      + destruct (Hs _ _ Hj) as (A & B & C). unfold TL; simpl; repeat split; auto.
        intros Lj. specialize (A Lj). congruence.
    - (* PSecond *)
      inversion Ha; subst a; clear Ha. simpl.
      intros j lj Hj. apply set_nth_cases in Hj. destruct Hj as [[-> ->]|[Nj Hj]].
      + unfold TL, sg_cont. rewrite Epc.
        destruct (mem s PTR =? 0); simpl.
        * repeat split; intros; try discriminate. auto.
        * destruct after_create_cases as [E|E]; rewrite E; simpl; repeat split; intros; try discriminate; auto.
      + tl_other Hs Hj.
    - (* PNew *)
      inversion Ha; subst a; clear Ha. simpl.
      intros j lj Hj. apply set_nth_cases in Hj. destruct Hj as [[-> ->]|[Nj Hj]].
      + unfold TL, sg_cont. rewrite Epc. simpl. repeat split; intros; try discriminate. auto.
      + tl_other Hs Hj.
    - (* PStore *)
      inversion Ha; subst a; clear Ha. simpl.
      intros j lj Hj. apply set_nth_cases in Hj. destruct Hj as [[-> ->]|[Nj Hj]].
      + unfold TL, sg_cont. rewrite Epc. simpl.
        destruct after_create_cases as [E|E]; rewrite E; simpl; repeat split; intros; try discriminate; auto.
      + tl_other Hs Hj.
    - (* PRetL *)
      inversion Ha; subst a; clear Ha. simpl.
      intros j lj Hj. apply set_nth_cases in Hj. destruct Hj as [[-> ->]|[Nj Hj]].
      + unfold TL, sg_cont. rewrite Epc. simpl. repeat split; intros; try discriminate. auto.
      + tl_other Hs Hj.
    - (* PUnlock *)
      inversion Ha; subst a; clear Ha. simpl.
      intros j lj Hj. apply set_nth_cases in Hj. destruct Hj as [[-> ->]|[Nj Hj]].
      + unfold TL, sg_cont. rewrite Epc.
        destruct (sg_ret p) as [|m [|]] eqn:Er; simpl; repeat split; intros; try discriminate.
        exists m, false. auto.
      + destruct (Hs _ _ Hj) as (A & B & C). unfold TL; simpl; repeat split; auto.
        intros Lj. exfalso. apply Nj. eapply (InvL_exclusive s j i lj l); eauto. rewrite Epc. auto.
    - (* PRet *)
      inversion Ha; subst a; clear Ha. simpl.
      intros j lj Hj. apply set_nth_cases in Hj. destruct Hj as [[-> ->]|[Nj Hj]].
      + unfold TL, sg_cont. rewrite Epc. simpl. repeat split; intros; try discriminate.
      + tl_other Hs Hj.
    - discriminate.
  Qed.

  Lemma InvL_run : forall n sched, InvL (sg_run p n sched).
  Proof.
    intros. unfold sg_run. apply run_invariant with (I := InvL).
    - intros. eapply InvL_step; eauto.
    - apply InvL_init.
  Qed.

  (** ** race freedom *)
  Hypothesis Hrace : sg_race_ok p = true.

  Lemma pending_next : forall (s : st) i a, pend s i = Some a ->
    exists l, nth_error (thr s) i = Some l /\ sg_next p i l = Some a.
  Proof.
    unfold pending. intros s i a H. destruct (nth_error (thr s) i) as [l|]; try discriminate.
    destruct (sg_next p i l) as [b|] eqn:E; try discriminate.
    destruct (enabledb _ _ s i b); try discriminate. exists l. split; congruence.
  Qed.

  (** an access to the pointer by a thread that does not hold the mutex is atomic, and if such
      an access exists the store is atomic as well *)
  Lemma unlocked_access_atomic : forall (s : st) i l a,
    InvL s -> nth_error (thr s) i = Some l -> sg_next p i l = Some a ->
    lockedb (pc l) = false ->
    match a with
    | ARead m _ => m = Atomic /\ sg_store p = Atomic
    | AWrite _ _ _ => False
    | _ => True
    end.
  Proof.
    intros s i l a Hs Hl Ha Lk. destruct (Hs _ _ Hl) as (_ & Fi & Rt).
    unfold sg_next in Ha. unfold sg_race_ok in Hrace.
    destruct (pc l) eqn:Epc; simpl in Lk; try discriminate.
    - destruct (sg_first p) as [m|] eqn:Ef; inversion Ha; subst; auto.
      destruct (sg_ret p) as [|m' lk]; repeat (apply andb_true_iff in Hrace; destruct Hrace as [Hrace ?]);
        destruct m, (sg_store p); simpl in *; try discriminate; auto.
    - inversion Ha; subst; auto.
    - inversion Ha; subst. unfold ret_mode.
      destruct (Rt eq_refl) as (m & lk & Er & D). rewrite Er in *.
      destruct (sg_first p) as [m'|]; [|destruct D as [D|D]; [congruence|subst lk]];
        repeat (apply andb_true_iff in Hrace; destruct Hrace as [Hrace ?]);
        destruct m; destruct (sg_store p); simpl in *; try discriminate; auto.
    - inversion Ha.
  Qed.
End SG.
