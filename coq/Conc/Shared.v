(** C09: threads that use independent argument handlers, seen through the inventory of
    objects with static storage duration that translate/tr_statics.py extracts from the
    compiled library (Conc/SharedGen.v).  No proofs here.

    Shared location k = k-th object of the inventory; everything else a handler touches is
    owned by its thread (the handler object, its destinations) and is represented by the
    thread-local state.  A thread's code may be any list of actions that respects the
    classification of the inventory:
      ConstInit  const / constexpr object, initialised once (thread-safe in C++11): read only
      Guarded    used only with the lock of the same index held (lock, read, unlock)
      Mutable    read and written without synchronisation
    and touches only objects marked as lying on the set-up/evaluation path. *)
From Coq Require Import List Arith Bool String.
Import ListNotations.
Require Import Celma.Conc.Interleave.

Inductive skind := ConstInit | Guarded | Mutable.

Record sobj := mkSobj { so_name : string; so_kind : skind; so_touched : bool }.

Definition is_mutable (k : skind) : bool := match k with Mutable => true | _ => false end.
Definition is_guarded (k : skind) : bool := match k with Guarded => true | _ => false end.

(** the premise of non-interference, decided by computation on the generated inventory *)
Definition inv_ok (inv : list sobj) : bool :=
  forallb (fun o => negb (so_touched o) || negb (is_mutable (so_kind o))) inv.

Definition action_ok (inv : list sobj) (a : action) : bool :=
  match a with
  | ARead _ k => match nth_error inv k with Some o => so_touched o | None => false end
  | AWrite _ k _ =>
      match nth_error inv k with Some o => so_touched o && is_mutable (so_kind o) | None => false end
  | ALock k | AUnlock k =>
      match nth_error inv k with Some o => so_touched o && is_guarded (so_kind o) | None => false end
  | _ => false
  end.

Definition code_ok (inv : list sobj) (code : tid -> list action) : Prop :=
  forall i, forallb (action_ok inv) (code i) = true.

(** n threads, all runnable, memory m0 (the values of the constants) *)
Definition sh_init (m0 : loc -> val) (n : nat) : state sl_local :=
  mkState m0 (fun _ => None) 0 (fun _ => true) (repeat sl_start n).

Definition sh_run (code : tid -> list action) (m0 : loc -> val) (n : nat) (sched : list tid) :=
  run sl_local (sl_next code) sl_cont (sh_init m0 n) sched.

(** what an action returns when nobody ever writes *)
Definition result0 (m0 : loc -> val) (a : action) : val :=
  match a with ARead _ k => m0 k | _ => 0 end.

(** the pinned tree: the function-local buffer of Tokenizer::convChar2String, written with the
    separator of the calling thread and read back by boost::char_separator's constructor *)
Definition pinned_tokenizer_inventory : list sobj :=
  [mkSobj "celma::common::Tokenizer::convChar2String(char)::s" Mutable true].
Definition pinned_tokenizer_code (i : tid) : list action :=
  [AWrite Plain 0 (if i =? 0 then 44 else 59); ARead Plain 0].   (* ',' and ';' *)
