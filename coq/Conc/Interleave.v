(** Interleaving semantics for the concurrency properties (C20, C09).

    Threads perform atomic actions on shared locations; a schedule is any list
    of thread numbers; a scheduled thread whose next action is not enabled
    (mutex taken, thread not started yet, join of a running thread, wait on a
    value that is not there) does not move.  Memory is sequentially consistent.

    Data race (Boehm/Adve formulation for sequentially consistent executions,
    equivalent to the happens-before formulation of C++11 for such executions):
    a reachable state in which two different threads are both able to perform
    their next action, the two actions access the same location, at least one
    of them writes and at least one of them is a plain (non-atomic) access.
    Ordering by a mutex, by thread creation, by join or by waiting on an atomic
    shows up as "not both enabled".

    No proofs about particular protocols here. *)
From Coq Require Import List Arith Bool Lia.
Import ListNotations.

Definition tid := nat.
Definition loc := nat.
Definition val := nat.
Definition mutex := nat.

Inductive mode := Plain | Atomic.

Inductive action :=
| ARead (m : mode) (l : loc)            (* result: the value read *)
| AWrite (m : mode) (l : loc) (v : val)
| AWait (l : loc) (v : val)             (* spin on an atomic until it holds v *)
| ALock (x : mutex)
| AUnlock (x : mutex)
| ANew                                  (* run a constructor; result: number of this construction *)
| ASpawn (p : tid -> bool)              (* make the threads selected by p runnable *)
| AJoin (t : tid).                      (* blocks until thread t has finished *)

Definition upd {A} (f : nat -> A) (k : nat) (v : A) : nat -> A :=
  fun x => if x =? k then v else f x.

Fixpoint set_nth {A} (k : nat) (x : A) (l : list A) : list A :=
  match l, k with
  | [], _ => []
  | _ :: t, 0 => x :: t
  | h :: t, S k' => h :: set_nth k' x t
  end.

Section Machine.
  Variable L : Type.                             (* thread-local state *)
  Variable next : tid -> L -> option action.     (* None: the thread has finished *)
  Variable cont : tid -> L -> val -> L.          (* local state after the action (val: its result) *)

  Record state := mkState {
    mem : loc -> val;
    own : mutex -> option tid;
    nctor : nat;
    live : tid -> bool;
    thr : list L }.

  Definition finishedb (s : state) (t : tid) : bool :=
    match nth_error (thr s) t with
    | Some l => match next t l with None => true | Some _ => false end
    | None => true
    end.

  Definition enabledb (s : state) (i : tid) (a : action) : bool :=
    live s i &&
    match a with
    | ALock x => match own s x with None => true | Some _ => false end
    | AJoin t => finishedb s t
    | AWait l v => mem s l =? v
    | _ => true
    end.

  (** effect of an enabled action of thread i on the shared state, and its result *)
  Definition effect (s : state) (i : tid) (a : action) : state * val :=
    match a with
    | ARead _ l => (s, mem s l)
    | AWait l v => (s, v)
    | AWrite _ l v => (mkState (upd (mem s) l v) (own s) (nctor s) (live s) (thr s), 0)
    | ALock x => (mkState (mem s) (upd (own s) x (Some i)) (nctor s) (live s) (thr s), 0)
    | AUnlock x => (mkState (mem s) (upd (own s) x None) (nctor s) (live s) (thr s), 0)
    | ANew => (mkState (mem s) (own s) (S (nctor s)) (live s) (thr s), S (nctor s))
    | ASpawn p => (mkState (mem s) (own s) (nctor s) (fun t => live s t || p t) (thr s), 0)
    | AJoin _ => (s, 0)
    end.

  Definition pending (s : state) (i : tid) : option action :=
    match nth_error (thr s) i with
    | Some l => match next i l with
                | Some a => if enabledb s i a then Some a else None
                | None => None
                end
    | None => None
    end.

  Definition step (s : state) (i : tid) : option state :=
    match nth_error (thr s) i with
    | Some l =>
        match next i l with
        | Some a =>
            if enabledb s i a then
              let '(s1, v) := effect s i a in
              Some (mkState (mem s1) (own s1) (nctor s1) (live s1) (set_nth i (cont i l v) (thr s1)))
            else None
        | None => None
        end
    | None => None
    end.

  Fixpoint run (s : state) (sched : list tid) : state :=
    match sched with
    | [] => s
    | i :: r => run (match step s i with Some s' => s' | None => s end) r
    end.

  Definition is_plain (m : mode) := match m with Plain => true | Atomic => false end.

  Definition conflict (a b : action) : bool :=
    match a, b with
    | ARead m l, AWrite m' l' _ => (l =? l') && (is_plain m || is_plain m')
    | AWrite m l _, ARead m' l' => (l =? l') && (is_plain m || is_plain m')
    | AWrite m l _, AWrite m' l' _ => (l =? l') && (is_plain m || is_plain m')
    | _, _ => false
    end.

  Definition race_state (s : state) : Prop :=
    exists i j a b, i <> j /\ pending s i = Some a /\ pending s j = Some b /\ conflict a b = true.

  (** induction over the schedule *)
  Lemma run_invariant (I : state -> Prop) :
    (forall s i s', I s -> step s i = Some s' -> I s') ->
    forall sched s, I s -> I (run s sched).
  Proof.
    intros H sched. induction sched as [|i r IH]; intros s Hs; simpl; auto.
    destruct (step s i) eqn:E; auto. apply IH. eapply H; eauto.
  Qed.

  Lemma run_app : forall a b s, run s (a ++ b) = run (run s a) b.
  Proof. induction a; simpl; intros; auto. Qed.
End Machine.

Arguments mkState {L}.
Arguments mem {L}. Arguments own {L}. Arguments nctor {L}. Arguments live {L}. Arguments thr {L}.

(** list update *)
Lemma nth_error_set_nth_eq {A} : forall (l : list A) k x y,
  nth_error l k = Some y -> nth_error (set_nth k x l) k = Some x.
Proof. induction l; destruct k; simpl; intros; try discriminate; eauto. Qed.

Lemma nth_error_set_nth_ne {A} : forall (l : list A) k i x,
  i <> k -> nth_error (set_nth k x l) i = nth_error l i.
Proof.
  induction l; destruct k; destruct i; simpl; intros; auto; try congruence.
Qed.

Lemma length_set_nth {A} : forall (l : list A) k x, length (set_nth k x l) = length l.
Proof. induction l; destruct k; simpl; intros; auto. Qed.

(** straight-line threads: a fixed list of actions per thread, the local state
    is the position and the results obtained so far (latest first) *)
Definition sl_local := (nat * list val)%type.
Definition sl_next (code : tid -> list action) (i : tid) (l : sl_local) : option action :=
  nth_error (code i) (fst l).
Definition sl_cont (i : tid) (l : sl_local) (v : val) : sl_local := (S (fst l), v :: snd l).
Definition sl_start : sl_local := (0, []).
