(** Model of celma::common::Singleton<T>::instance() (src/celma/common/singleton.hpp),
    parameterised by the access protocol that translate/tr_conc.py extracts from the
    source (ConcGen.singleton_proto).  No proofs here.

    instance():   [first check, without the mutex]      sg_first  = Some mode | None
                  lock the mutex
                  [second check, with the mutex held]   sg_second = Some mode | None
                  construct the object, store pointer   sg_store  = mode
                  return *pointer                       sg_ret: through a local copy, or by
                                                        reading the pointer again with /
                                                        without the mutex held
    "mode" is Plain for std::unique_ptr<T> / T*, Atomic for std::atomic<T*>.        *)
From Coq Require Import List Arith Bool.
Import ListNotations.
Require Import Celma.Conc.Interleave.

Definition PTR : loc := 0.     (* Singleton<T>::mpObject, 0 = nullptr *)
Definition MX : mutex := 0.    (* Singleton<T>::mMutex *)

Inductive sg_return :=
| RetLocal                              (* returns what it read / created, no further access *)
| RetRead (m : mode) (locked : bool).   (* "return *mpObject": reads the pointer again; locked:
                                           the mutex taken by this call is still held *)

Record sg_proto := mkSg {
  sg_first : option mode;
  sg_second : option mode;
  sg_store : mode;
  sg_ret : sg_return }.

Inductive sg_pc := PFirst | PLock | PSecond | PNew | PStore | PRetL | PUnlock | PRet | PDone.

Record sg_local := mkSgL { pc : sg_pc; reg : val; res : option val }.

Definition after_lock (p : sg_proto) : sg_pc :=
  match sg_second p with Some _ => PSecond | None => PNew end.

Definition after_create (p : sg_proto) : sg_pc :=
  match sg_ret p with RetRead _ true => PRetL | _ => PUnlock end.

Definition ret_mode (p : sg_proto) : mode :=
  match sg_ret p with RetRead m _ => m | RetLocal => Plain end.

Definition sg_next (p : sg_proto) (_ : tid) (l : sg_local) : option action :=
  match pc l with
  | PFirst => match sg_first p with Some m => Some (ARead m PTR) | None => Some (ALock MX) end
  | PLock => Some (ALock MX)
  | PSecond => Some (ARead (match sg_second p with Some m => m | None => Plain end) PTR)
  | PNew => Some ANew
  | PStore => Some (AWrite (sg_store p) PTR (reg l))
  | PRetL => Some (ARead (ret_mode p) PTR)
  | PUnlock => Some (AUnlock MX)
  | PRet => Some (ARead (ret_mode p) PTR)
  | PDone => None
  end.

Definition sg_cont (p : sg_proto) (_ : tid) (l : sg_local) (v : val) : sg_local :=
  match pc l with
  | PFirst =>
      match sg_first p with
      | Some _ =>
          if v =? 0 then mkSgL PLock (reg l) (res l)
          else match sg_ret p with
               | RetLocal => mkSgL PDone v (Some v)
               | RetRead _ _ => mkSgL PRet v (res l)
               end
      | None => mkSgL (after_lock p) (reg l) (res l)
      end
  | PLock => mkSgL (after_lock p) (reg l) (res l)
  | PSecond => if v =? 0 then mkSgL PNew (reg l) (res l) else mkSgL (after_create p) v (res l)
  | PNew => mkSgL PStore v (res l)
  | PStore => mkSgL (after_create p) (reg l) (res l)
  | PRetL => mkSgL PUnlock (reg l) (Some v)
  | PUnlock =>
      match sg_ret p with
      | RetLocal => mkSgL PDone (reg l) (Some (reg l))
      | RetRead _ true => mkSgL PDone (reg l) (res l)
      | RetRead _ false => mkSgL PRet (reg l) (res l)
      end
  | PRet => mkSgL PDone (reg l) (Some v)
  | PDone => l
  end.

Definition sg_start (p : sg_proto) : sg_local :=
  mkSgL (match sg_first p with Some _ => PFirst | None => PLock end) 0 None.

(** n threads call instance() for the first time *)
Definition sg_init (p : sg_proto) (n : nat) : state sg_local :=
  mkState (fun _ => 0) (fun _ => None) 0 (fun _ => true) (repeat (sg_start p) n).

Definition sg_run (p : sg_proto) (n : nat) (sched : list tid) : state sg_local :=
  run sg_local (sg_next p) (sg_cont p) (sg_init p n) sched.

(** what the proofs need from the extracted protocol *)
Definition sg_once_ok (p : sg_proto) : bool :=
  match sg_second p with Some _ => true | None => false end.

Definition is_atomic (m : mode) := match m with Atomic => true | Plain => false end.

(** race freedom: given the check under the lock, the only access to the pointer that can be
    simultaneous with its store is the unlocked first check; it must then be an atomic access
    to an atomic pointer.  (A thread that reads the pointer after its own critical section, or
    after a successful first check, reads a pointer that is not written any more.) *)
Definition sg_race_ok (p : sg_proto) : bool :=
  sg_once_ok p &&
  match sg_first p with
  | None => true
  | Some m => is_atomic m && is_atomic (sg_store p)
  end.

(** the protocol of the pinned source (before the repair): double-checked locking on a plain
    std::unique_ptr, "return *mpObject" after the lock scope *)
Definition sg_pinned : sg_proto := mkSg (Some Plain) (Some Plain) Plain (RetRead Plain false).
(** the repaired source: every access with the mutex held *)
Definition sg_locked : sg_proto := mkSg None (Some Plain) Plain (RetRead Plain true).
(** double-checked locking on an atomic pointer (an admissible alternative) *)
Definition sg_atomic : sg_proto := mkSg (Some Atomic) (Some Atomic) Atomic RetLocal.
(** second check removed (a breaking change) *)
Definition sg_nosecond : sg_proto := mkSg (Some Atomic) None Atomic RetLocal.
