(** Model of celma::common::ManagedThread (src/celma/common/managed_thread.hpp), parameterised
    by what translate/tr_conc.py extracts from clang's AST (ConcGen.managed_proto):
      mt_ctor  the constructor's initialisation steps that matter, in execution order
               (initialise the activity flag / start the thread)
      mt_flag  Atomic when the flag is a std::atomic<bool>, Plain otherwise
      mt_body  what the thread does: stores to the flag and the call of the user function
    No proofs here.

    Threads: 0 constructs the object, later joins it and then calls isActive();
             1 is the thread started by the constructor;
             2.. are observers that may use the object once the constructor has returned: each
             waits until it has seen that the user function has started, calls isActive() and
             then looks whether the user function has already finished.
    The user function is represented by its first and its last action: it sets STARTED and,
    before it returns, FINISHED (both atomics of the user).  The initialisation of a
    std::atomic is not an atomic operation, hence a plain write. *)
From Coq Require Import List Arith Bool.
Import ListNotations.
Require Import Celma.Conc.Interleave.

Definition FLAG : loc := 0.
Definition STARTED : loc := 1.
Definition FINISHED : loc := 2.

Inductive ctor_step := CInitFlag | CStartThread.
Inductive body_step := BStore (b : bool) | BRun.

Record mt_proto := mkMt { mt_ctor : list ctor_step; mt_flag : mode; mt_body : list body_step }.

Definition ctor_action (c : ctor_step) : action :=
  match c with
  | CInitFlag => AWrite Plain FLAG 0
  | CStartThread => ASpawn (fun t => t =? 1)
  end.

Definition body_actions (m : mode) (b : body_step) : list action :=
  match b with
  | BStore v => [AWrite m FLAG (if v then 1 else 0)]
  | BRun => [AWrite Atomic STARTED 1; AWrite Atomic FINISHED 1]
  end.

Definition mt_code (p : mt_proto) (i : tid) : list action :=
  match i with
  | 0 => map ctor_action (mt_ctor p) ++
         [ASpawn (fun t => 2 <=? t); AJoin 1; ARead (mt_flag p) FLAG]
  | 1 => flat_map (body_actions (mt_flag p)) (mt_body p)
  | _ => [AWait STARTED 1; ARead (mt_flag p) FLAG; ARead Atomic FINISHED]
  end.

(** g: whatever the flag's storage holds before it is initialised; k observers *)
Definition mt_init (g : val) (k : nat) : state sl_local :=
  mkState (fun l => if l =? FLAG then g else 0) (fun _ => None) 0 (fun t => t =? 0)
          (repeat sl_start (2 + k)).

Definition mt_run (p : mt_proto) (g : val) (k : nat) (sched : list tid) : state sl_local :=
  run sl_local (sl_next (mt_code p)) sl_cont (mt_init g k) sched.

Definition ctor_step_eqb (a b : ctor_step) : bool :=
  match a, b with CInitFlag, CInitFlag => true | CStartThread, CStartThread => true | _, _ => false end.

Definition mt_ok (p : mt_proto) : bool :=
  match mt_ctor p, mt_flag p, mt_body p with
  | [CInitFlag; CStartThread], Atomic, [BStore true; BRun; BStore false] => true
  | _, _, _ => false
  end.

(** flag initialised before the thread is started (the repaired source) *)
Definition mt_good : mt_proto := mkMt [CInitFlag; CStartThread] Atomic [BStore true; BRun; BStore false].
(** the pinned source: the flag is a member, initialised after the std::thread base class has
    started the thread *)
Definition mt_pinned : mt_proto := mkMt [CStartThread; CInitFlag] Atomic [BStore true; BRun; BStore false].
