(** Extraction of the runnable C14 model (ExtrOcamlBasic only; nat, N, ascii and
    string stay extracted datatypes).  Run by make with the current directory coq/. *)
From Coq Require Import Extraction ExtrOcamlBasic.
Require Import Celma.Common.Res Celma.Log.FilterOpsGen Celma.Log.FilterModel.
Extraction Language OCaml.
Extraction "../ocaml/gen/c14_model.ml" init_world set_policy step log_ids log_name discard_id
  discard_name process_level macro_ids macro_name.
