(** Extraction of the runnable FixedString model and of the std::string
    specification (ExtrOcamlBasic only; nat and N stay extracted datatypes).
    Run by make with the current directory coq/. *)
From Coq Require Import Extraction ExtrOcamlBasic NArith.
Require Import Celma.Common.Res Celma.FixedStr.FsBase Celma.FixedStr.FsModel Celma.FixedStr.FsStd.
Extraction Language OCaml.
Extraction "../ocaml/gen/c10_model.ml" step pre_A cap_ok fs_init std_step cut abs cstrlen nlen N.add N.mul N.eqb NPOS.
