(** C16  Every delivered log message is rendered exactly as its format definition says.
    Only statements; every proof is [exact <lemma of Log/FormatProofs.v, Log/AttrProofs.v>].

    Model: Log/FormatModel.v (Creator, Format, the std::ostream state they touch),
    Log/AttrModel.v (attribute containers, LogAttributes chains, scoped attributes).
    The functions without suffix mirror the tree with fixes/C16-1 and C16-2
    applied; the [_pinned] copies mirror the pinned code.  Vocabulary
    (Log/FormatProofs.v, Log/AttrProofs.v):
      [script_of ds]       the stream expression of a list of declarations (options, then a field)
      [spec_fields sep nonempty ds]  the declared fields, each with its own options only, the
                           separator in effect between two fields
      [field_text f s]     s padded with blanks to the field's width on the requested side
      [content lookup m f] what a field of each kind shows for the message m
      [lookup_spec ma g n] newest definition of n in the first of: the message's LogAttributes
                           object, its outer objects, the global store; "" if there is none
      [first_def cs n]     the same over a list of containers, as an option
      [nested ops]         scoped attributes created and destroyed in block order *)
From Coq Require Import List Arith NArith ZArith.
Import ListNotations.
Require Import Celma.Common.Res Celma.Log.AttrModel Celma.Log.AttrProofs
               Celma.Log.FormatModel Celma.Log.FormatProofs.

(** * the definition builder *)

(** Any stream expression on a new Creator (with or without auto separator) over
    an empty definition: the fields are the declared sequence; width, alignment
    and format string apply to the next field only (a field declared without
    them gets width 0, right alignment, no format string); the separator in
    effect is inserted exactly between two fields; options after the last field
    are without effect. *)
Theorem C16_creator_fields :
  forall sep0 ds trailing,
    snd (crun (creator_init sep0, []) (script_of ds ++ map cop_of_opt trailing)) =
    spec_fields (match sep0 with Some s => s | None => [] end) false ds.
Proof. exact creator_fields. Qed.
Print Assumptions C16_creator_fields.

(** Continuing a definition that already has fields: they are kept, the new
    ones follow, and the builder is left without pending options. *)
Theorem C16_creator_fields_from :
  forall ds sep fs,
    crun (mkcr sep [] 0 false, fs) (script_of ds) =
    (mkcr (fold_left (fun s d => sep_of s (d_opts d)) ds sep) [] 0 false,
     fs ++ spec_fields sep (negb (is_nil fs)) ds).
Proof. exact creator_fields_from. Qed.
Print Assumptions C16_creator_fields_from.

(** * the renderer *)

(** For every definition, message, attribute state and strftime: the text is
    the concatenation, in definition order, of the fields' contents, each padded
    to its width and aligned as requested; constant text verbatim; date/time
    through the field's format string (or the default of its kind); attribute
    fields by the documented lookup.  Rendering never fails. *)
Theorem C16_render_concat :
  forall strftime_ def m ma global,
    format strftime_ def m ma global =
    Ok (concat (map (fun f => field_text f (content strftime_ (lookup_spec ma global) m f)) def)).
Proof. exact render_concat. Qed.
Print Assumptions C16_render_concat.

(** A field's text is at least as long as its width, exactly max(width, length
    of the content); the content is never cut; the blanks are on the right for
    left-aligned fields and on the left otherwise. *)
Theorem C16_render_field_width :
  forall f s,
    length (field_text f s) = Nat.max (Z.to_nat (f_width f)) (length s) /\
    exists pad, pad = (Z.to_nat (f_width f) - length s)%nat /\
                field_text f s = if f_left f then s ++ spaces pad else spaces pad ++ s.
Proof. exact render_field_width. Qed.
Print Assumptions C16_render_field_width.

(** * attributes *)

(** The most recently defined value of a name wins, whatever older definitions
    exist and whatever other names were defined later; removing the name brings
    back the definition before. *)
Theorem C16_attr_latest_wins :
  forall later c n v,
    Forall (fun e => fst e <> n) later ->
    c_find (later ++ (n, v) :: c) n = Some v /\
    c_remove (later ++ (n, v) :: c) n = later ++ c.
Proof. intros. split; [apply c_find_latest|apply c_find_remove_same]; assumption. Qed.
Print Assumptions C16_attr_latest_wins.

(** The lookup used by attribute fields is the documented search order. *)
Theorem C16_attr_lookup :
  forall m global n, attr_lookup m global n = lookup_spec m global n.
Proof. exact attr_lookup_correct. Qed.
Print Assumptions C16_attr_lookup.

(** The message's own attributes take precedence over the global ones - also
    when the value is empty; the global store is used when the message's chain
    does not define the name. *)
Theorem C16_attr_msg_before_global :
  forall ch global n,
    (forall v, first_def ch n = Some v -> attr_lookup (Some ch) global n = v) /\
    (first_def ch n = None -> attr_lookup (Some ch) global n = c_get global n).
Proof.
  intros. split; [intros v; apply attr_msg_before_global|apply attr_global_when_undefined].
Qed.
Print Assumptions C16_attr_msg_before_global.

(** Scoped attributes disappear when their scope ends: any well-nested sequence
    of scopes leaves the attribute state exactly as it found it, and inside its
    scope the attribute is the one found. *)
Theorem C16_attr_scope_restores :
  forall ops, nested ops -> forall w, arun w ops = w.
Proof. exact attr_scope_restores. Qed.
Print Assumptions C16_attr_scope_restores.

Theorem C16_attr_scope_visible :
  forall w n v inner,
    nested inner -> c_find (w_global (arun (astep w (SOpen n v)) inner)) n = Some v.
Proof. exact attr_scope_visible. Qed.
Print Assumptions C16_attr_scope_visible.

(** * the pinned code *)

(** The pinned lookup (empty string = not found) violates the search order: a
    message attribute n = "" with a global attribute n = "g" shows "g". *)
Theorem C16_attr_pinned_refuted :
  exists m global n, attr_lookup_pinned m global n <> lookup_spec m global n.
Proof. exact attr_lookup_pinned_refuted. Qed.
Print Assumptions C16_attr_pinned_refuted.

(** ... and it is right exactly outside that region. *)
Theorem C16_attr_pinned_partial :
  forall m global n,
    Forall (fun c => c_find c n <> Some []) (match m with Some ch => ch | None => [] end) ->
    attr_lookup_pinned m global n = lookup_spec m global n.
Proof. exact attr_lookup_pinned_partial. Qed.
Print Assumptions C16_attr_pinned_partial.

(** The pinned date/time formatting uses its 128 character buffer although
    strftime reported that the expansion did not fit (modelled as a fault). *)
Theorem C16_render_pinned_refuted :
  exists strftime_ def m,
    format_pinned strftime_ def m None [] = Fault OOBRead /\
    format strftime_ def m None [] =
    Ok (strftime_ (f_const (hd (mkfield FDate [] 0 false) def)) (timestamp m)).
Proof. exact render_pinned_refuted. Qed.
Print Assumptions C16_render_pinned_refuted.

Theorem C16_render_pinned_partial :
  forall strftime_ def m ma global,
    (forall fmt, (length (strftime_ fmt (timestamp m)) < 127)%nat) ->
    (forall f, In f def -> f_type f = FAttribute ->
               Forall (fun c => c_find c (f_const f) <> Some [])
                      (match ma with Some ch => ch | None => [] end)) ->
    format_pinned strftime_ def m ma global =
    Ok (concat (map (fun f => field_text f (content strftime_ (lookup_spec ma global) m f)) def)).
Proof. exact render_pinned_partial. Qed.
Print Assumptions C16_render_pinned_partial.

(** * non-vacuity *)

(** format_creator << 20 << left << filename << ":" << 6 << line_nbr on a
    message from filename.cpp, line 1234 (the example of the unit test), with
    an auto separator and an attribute field added. *)
Example C16_nonvacuous_script :
  let file := [102;105;108;101;110;97;109;101;46;99;112;112]%N in
  fst (run (fun _ _ => []) world_init
         [WC (ONew (Some [124%N])); WC (OWidth 20); WC OLeft; WC (OField FFileName);
          WC (OWidth 6); WC (OField FLineNbr); WC (OAttr [110%N]);
          WA (GAdd [110%N] [103%N]); WA (SOpen [110%N] [115%N]);
          WMsg (mkmsg 0 0 1 1 file [] 1234 4 4 0 []) None;
          WA SClose;
          WMsg (mkmsg 0 0 1 1 file [] 1234 4 4 0 []) None]) =
  [ Ok (file ++ repeat 32%N 8 ++ [124; 32; 32; 49; 50; 51; 52; 124; 115]%N);
    Ok (file ++ repeat 32%N 8 ++ [124; 32; 32; 49; 50; 51; 52; 124; 103]%N) ].
Proof. vm_compute. reflexivity. Qed.
