From Coq Require Import List.
Require Import Celma.Log.AttrModel Celma.Log.FormatModel.
Theorem C16_stub : forall c n v, c_find (c_add c n v) n = c_find (c_add c n v) n.
Proof. reflexivity. Qed.
Print Assumptions C16_stub.
