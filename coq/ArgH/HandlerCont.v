(** The two hand-written models of vector destinations agree: assign() of
    ArgH/Handler.v (kinds DVecInt / DVecStr, used by C01-C04, C07, C08) is
    assign_container of ArgH/Cont.v (kinds KVec / KVecStr, used by C06) under
    the obvious translation of the options.  So the C06 theorems about the
    content of containers speak about the same function as the C01 theorems
    about typed storage. *)
From Coq Require Import List NArith ZArith Bool Arith Lia.
Import ListNotations.
Require Import Celma.Common.Res Celma.ArgH.Key Celma.ArgH.Table Celma.ArgH.Lex Celma.ArgH.Handler Celma.ArgH.Cont.

(** the options of a container argument without position formats *)
Definition copts_of (d : argdef) : copts :=
  {| o_sep := a_sep d; o_clear := a_clear d; o_sort := a_sort d; o_uniq := a_uniq d; o_dup_err := a_uniq_err d;
     o_multi := a_multi d; o_checks := a_checks d; o_ftab := [a_fmts d]; o_card := a_card d |}.

Lemma copts_fmts d : o_fmts (copts_of d) = a_fmts d.
Proof. reflexivity. Qed.

Lemma copts_no_pos d idx s : fmt_pos (copts_of d) idx s = s.
Proof. unfold fmt_pos, copts_of. cbn [o_ftab length]. destruct (Nat.ltb_spec (idx + 1) 1); [lia|reflexivity]. Qed.

Definition lift_ints (r : res (Z * list Z)) : res (Z * cont) :=
  match r with Ok (c, l) => Ok (c, CInts l) | Err e => Err e | Fault f => Fault f end.
Definition lift_strs (r : res (Z * list str)) : res (Z * cont) :=
  match r with Ok (c, l) => Ok (c, CStrs l) | Err e => Err e | Fault f => Fault f end.

Lemma tokens_int_agree d : forall toks first cnt0 acc,
  assign_tokens (step KVec (copts_of d)) (copts_of d) toks first cnt0 (CInts acc)
  = lift_ints (assign_tokens_int d toks first cnt0 acc).
Proof.
  induction toks as [|t r IH]; intros first cnt0 acc; cbn [assign_tokens assign_tokens_int lift_ints]; [reflexivity|].
  change (o_card (copts_of d)) with (a_card d).
  destruct (if first then Ok cnt0 else card_got (a_card d) cnt0) as [c1|?|?]; cbn [bind lift_ints]; auto.
  change (step KVec (copts_of d) t (CInts acc)) with (do l' <- step_ints KVec (copts_of d) t acc; Ok (CInts l')).
  unfold step_ints, pos_fmt_ints. rewrite copts_no_pos, copts_fmts.
  change (o_checks (copts_of d)) with (a_checks d). change (o_uniq (copts_of d)) with (a_uniq d).
  change (o_dup_err (copts_of d)) with (a_uniq_err d).
  destruct (run_checks (a_checks d) t) as [[]|?|?]; cbn [bind lift_ints]; auto.
  destruct (lex_int (apply_fmts (a_fmts d) t)) as [v|?|?]; cbn [bind lift_ints]; auto.
  destruct (a_uniq d && z_in v acc).
  - destruct (a_uniq_err d); cbn [bind lift_ints]; auto.
  - cbn [bind place]. apply IH.
Qed.

Lemma tokens_str_agree d : forall toks first cnt0 acc,
  assign_tokens (step KVecStr (copts_of d)) (copts_of d) toks first cnt0 (CStrs acc)
  = lift_strs (assign_tokens_str d toks first cnt0 acc).
Proof.
  induction toks as [|t r IH]; intros first cnt0 acc; cbn [assign_tokens assign_tokens_str lift_strs]; [reflexivity|].
  change (o_card (copts_of d)) with (a_card d).
  destruct (if first then Ok cnt0 else card_got (a_card d) cnt0) as [c1|?|?]; cbn [bind lift_strs]; auto.
  change (step KVecStr (copts_of d) t (CStrs acc)) with (do l' <- step_strs (copts_of d) t acc; Ok (CStrs l')).
  unfold step_strs. rewrite copts_no_pos, copts_fmts.
  change (o_checks (copts_of d)) with (a_checks d). change (o_uniq (copts_of d)) with (a_uniq d).
  change (o_dup_err (copts_of d)) with (a_uniq_err d).
  destruct (run_checks (a_checks d) t) as [[]|?|?]; cbn [bind lift_strs]; auto.
  destruct (a_uniq d && str_in (apply_fmts (a_fmts d) t) acc).
  - destruct (a_uniq_err d); cbn [bind lift_strs]; auto.
  - cbn [bind]. apply IH.
Qed.

(** vector<int>: the value stored, the clear flag and the cardinality counter
    after one value string are the same in both models *)
Theorem vec_int_models_agree d a v l :
  a_kind d = DVecInt -> val a = VInts l ->
  match assign d a v, assign_container (step KVec (copts_of d)) (copts_of d)
                        {| c_val := CInts l; c_clearp := clearp a; c_cnt := cnt a |} v with
  | Ok a', Ok st' => c_val st' = CInts (match val a' with VInts l' => l' | _ => [] end) /\
                     (exists l', val a' = VInts l') /\ c_clearp st' = clearp a' /\ c_cnt st' = cnt a'
  | Err e1, Err e2 => e1 = e2
  | Fault f1, Fault f2 => f1 = f2
  | _, _ => False
  end.
Proof.
  intros Hk Hv. unfold assign, assign_container. rewrite Hk, Hv. cbn [c_val c_clearp c_cnt].
  change (o_sep (copts_of d)) with (a_sep d). change (o_sort (copts_of d)) with (a_sort d).
  assert (E : pre_use (if clearp a then clear_cont (CInts l) else CInts l) = CInts (if clearp a then [] else l))
    by (destruct (clearp a); reflexivity).
  rewrite E, tokens_int_agree.
  destruct (assign_tokens_int d (tokens (a_sep d) v) true (cnt a) (if clearp a then [] else l)) as [[c1 l1]|?|?];
    cbn [lift_ints bind snd fst val clearp cnt c_val c_clearp c_cnt]; auto.
  destruct (a_sort d); cbn [sort_cont]; repeat split; eauto.
Qed.

Theorem vec_str_models_agree d a v l :
  a_kind d = DVecStr -> val a = VStrs l ->
  match assign d a v, assign_container (step KVecStr (copts_of d)) (copts_of d)
                        {| c_val := CStrs l; c_clearp := clearp a; c_cnt := cnt a |} v with
  | Ok a', Ok st' => c_val st' = CStrs (match val a' with VStrs l' => l' | _ => [] end) /\
                     (exists l', val a' = VStrs l') /\ c_clearp st' = clearp a' /\ c_cnt st' = cnt a'
  | Err e1, Err e2 => e1 = e2
  | Fault f1, Fault f2 => f1 = f2
  | _, _ => False
  end.
Proof.
  intros Hk Hv. unfold assign, assign_container. rewrite Hk, Hv. cbn [c_val c_clearp c_cnt].
  change (o_sep (copts_of d)) with (a_sep d). change (o_sort (copts_of d)) with (a_sort d).
  assert (E : pre_use (if clearp a then clear_cont (CStrs l) else CStrs l) = CStrs (if clearp a then [] else l))
    by (destruct (clearp a); reflexivity).
  rewrite E, tokens_str_agree.
  destruct (assign_tokens_str d (tokens (a_sep d) v) true (cnt a) (if clearp a then [] else l)) as [[c1 l1]|?|?];
    cbn [lift_strs bind snd fst val clearp cnt c_val c_clearp c_cnt]; auto.
  destruct (a_sort d); cbn [sort_cont]; repeat split; eauto.
Qed.
