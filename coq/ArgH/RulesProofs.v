(** C02, grammar form: a command line that is accepted has obeyed every rule,
    stated declaratively on the abstract line (the list of uses).
    Soundness of [fold_uses] + end-of-line checks w.r.t. [rules]; combined
    with the C01 simulation theorem it covers every legal spelling. *)
From Coq Require Import List NArith ZArith Bool Arith Lia.
Import ListNotations.
Require Import Celma.Common.Res Celma.Common.ListX Celma.Common.Tactics
               Celma.ArgH.Key Celma.ArgH.Table Celma.ArgH.TableProofs
               Celma.ArgH.Lex Celma.ArgH.Handler Celma.ArgH.HandlerProofs
               Celma.ArgH.Spell Celma.ArgH.SpellProofs Celma.ArgH.UseProofs.

Definition ukey (c : cfg) (u : use) : key := a_key (argdef_of c (use_index u)).

(** every requires / excludes specification of the configuration names its
    argument in one way: two specifications that compare equal are the same *)
Definition spec_keys (c : cfg) : list key := flat_map (fun d => a_excl d ++ a_req d) (args c).
Definition specs_canonical (c : cfg) : Prop :=
  forall k1 k2, In k1 (spec_keys c) -> In k2 (spec_keys c) -> key_eq k1 k2 = true -> k1 = k2.

(* ------------------------------------------------------------------ *)
(** * The pending container *)

Lemma pend_add_incl p k s e : In e p -> In e (pend_add p k s).
Proof.
  intros H. unfold pend_add. destruct (find _ p) as [[k0 ek0]|]; [destruct (ckind_eqb k0 k)|]; auto;
    apply in_or_app; left; exact H.
Qed.

Lemma pend_add_keys p k s e : In e (pend_add p k s) -> In e p \/ e = (k, s).
Proof.
  unfold pend_add. destruct (find _ p) as [[k0 ek0]|]; [destruct (ckind_eqb k0 k)|]; auto;
    intros H; apply in_app_or in H; destruct H as [H|[H|[]]]; auto.
Qed.

(** all stored keys are specification keys of the configuration *)
Definition pend_specs (c : cfg) (p : list (ckind * key)) : Prop := Forall (fun e => In (snd e) (spec_keys c)) p.

Lemma spec_keys_excl c i k : i < length (args c) -> In k (a_excl (argdef_of c i)) -> In k (spec_keys c).
Proof.
  intros Hi Hk. unfold spec_keys. apply in_flat_map. exists (argdef_of c i). split.
  - unfold argdef_of. apply nth_In. exact Hi.
  - apply in_or_app. left. exact Hk.
Qed.

Lemma spec_keys_req c i k : i < length (args c) -> In k (a_req (argdef_of c i)) -> In k (spec_keys c).
Proof.
  intros Hi Hk. unfold spec_keys. apply in_flat_map. exists (argdef_of c i). split.
  - unfold argdef_of. apply nth_In. exact Hi.
  - apply in_or_app. right. exact Hk.
Qed.

(** with canonical specifications [pend_add] stores the specification itself
    (or it is already there with the same kind) *)
Lemma pend_add_canonical c p k s :
  specs_canonical c -> pend_specs c p -> In s (spec_keys c) -> In (k, s) (pend_add p k s).
Proof.
  intros Hc Hp Hs. unfold pend_add.
  destruct (find (fun e => key_eq (snd e) s) p) as [[k0 ek0]|] eqn:F.
  - apply find_some in F. destruct F as [Hin He]. cbn in He.
    assert (ek0 = s).
    { apply Hc; auto. unfold pend_specs in Hp. rewrite Forall_forall in Hp. apply (Hp _ Hin). }
    subst ek0. destruct (ckind_eqb k0 k) eqn:E.
    + destruct k0, k; try discriminate; exact Hin.
    + apply in_or_app. right. left. reflexivity.
  - apply in_or_app. right. left. reflexivity.
Qed.

Lemma pend_add_specs c p k s : pend_specs c p -> In s (spec_keys c) -> pend_specs c (pend_add p k s).
Proof.
  intros Hp Hs. unfold pend_specs in *. rewrite Forall_forall in *. intros e He.
  apply pend_add_keys in He. destruct He as [He| ->]; auto.
Qed.

Lemma fold_pend_add_incl k ks : forall p e, In e p -> In e (fold_left (fun acc x => pend_add acc k x) ks p).
Proof. induction ks as [|x r IH]; intros p e H; cbn; auto. apply IH. apply pend_add_incl. exact H. Qed.

Lemma fold_pend_add_specs c k ks : forall p,
  pend_specs c p -> (forall x, In x ks -> In x (spec_keys c)) ->
  pend_specs c (fold_left (fun acc x => pend_add acc k x) ks p).
Proof.
  induction ks as [|x r IH]; intros p Hp Hk; cbn; auto.
  apply IH; [apply (pend_add_specs c); auto; apply Hk; left; reflexivity|intros y Hy; apply Hk; right; exact Hy].
Qed.

Lemma fold_pend_add_has c k ks : forall p,
  specs_canonical c -> pend_specs c p -> (forall x, In x ks -> In x (spec_keys c)) ->
  forall x, In x ks -> In (k, x) (fold_left (fun acc y => pend_add acc k y) ks p).
Proof.
  induction ks as [|y r IH]; intros p Hc Hp Hk x Hx; [destruct Hx|].
  cbn [fold_left]. destruct Hx as [->|Hx].
  - apply fold_pend_add_incl. apply (pend_add_canonical c); auto. apply Hk. left. reflexivity.
  - apply IH; auto.
    + apply (pend_add_specs c); auto. apply Hk. left. reflexivity.
    + intros z Hz. apply Hk. right. exact Hz.
Qed.

(** activateConstraints of argument [i]: afterwards every exclusion and every
    requirement of [i] is in the container *)
Lemma activate_has c i p :
  specs_canonical c -> pend_specs c p -> i < length (args c) ->
  let d := argdef_of c i in
  pend_specs c (activate d p) /\
  (forall e, In e p -> In e (activate d p)) /\
  (forall k, In k (a_excl d) -> In (KExcluded, k) (activate d p)) /\
  (forall k, In k (a_req d) -> In (KRequired, k) (activate d p)).
Proof.
  intros Hc Hp Hi d. unfold activate.
  assert (He : forall x, In x (a_excl d) -> In x (spec_keys c)) by (intros; eapply spec_keys_excl; eauto).
  assert (Hr : forall x, In x (a_req d) -> In x (spec_keys c)) by (intros; eapply spec_keys_req; eauto).
  set (p1 := fold_left (fun acc k => pend_add acc KExcluded k) (a_excl d) p).
  assert (Hp1 : pend_specs c p1) by (apply fold_pend_add_specs; auto).
  splits.
  - apply fold_pend_add_specs; auto.
  - intros e H. apply fold_pend_add_incl. apply fold_pend_add_incl. exact H.
  - intros k Hk. apply fold_pend_add_incl. apply (fold_pend_add_has c KExcluded (a_excl d) p Hc Hp He k Hk).
  - intros k Hk. apply (fold_pend_add_has c KRequired (a_req d) p1 Hc Hp1 Hr k Hk).
Qed.

(** argumentIdentified: what survives and what it proves *)
Lemma pend_identified_spec p k p' :
  pend_identified p k = Ok p' ->
  (forall ek, In (KExcluded, ek) p -> key_eq ek k = false) /\
  (forall e, In e p' -> In e p) /\
  (forall ek, In (KExcluded, ek) p -> In (KExcluded, ek) p') /\
  (forall ek, In (KRequired, ek) p -> key_eq ek k = false -> In (KRequired, ek) p') /\
  (forall ek, In (KRequired, ek) p' -> key_eq ek k = false).
Proof.
  revert p'. induction p as [|[ck ek0] r IH]; intros p' H; cbn in H.
  - inversion H; subst. splits; intros; try contradiction.
  - destruct (key_eq ek0 k) eqn:E.
    + destruct ck; [|discriminate].
      destruct (IH _ H) as (A & B & C & D & F). splits.
      * intros ek [Hin|Hin]; [inversion Hin|]; auto.
      * intros e He. right. auto.
      * intros ek [Hin|Hin]; [inversion Hin|]; auto.
      * intros ek [Hin|Hin] Hne; [inversion Hin; subst; congruence|]; auto.
      * exact F.
    + destruct (pend_identified r k) as [r'|?|?] eqn:Er; cbn [bind] in H; try discriminate.
      inversion H; subst. destruct (IH _ eq_refl) as (A & B & C & D & F). splits.
      * intros ek [Hin|Hin]; [inversion Hin; subst; exact E|]; auto.
      * intros e [He|He]; [left; exact He|right; auto].
      * intros ek [Hin|Hin]; [left; exact Hin|right; auto].
      * intros ek [Hin|Hin] Hne; [left; exact Hin|right; auto].
      * intros ek [Hin|Hin]; [inversion Hin; subst; exact E|]; auto.
Qed.

(* ------------------------------------------------------------------ *)
(** * One use, seen from outside *)

Lemma use_step_inv c s ic u s' :
  fixed_notify c = true ->
  use_step c s ic u = Ok s' ->
  let d := argdef_of c (use_index u) in
  let a := nth (use_index u) (arts s) dummy_art in
  exists p1 g1 n1 a',
    pend_identified (pend s) (a_key d) = Ok p1 /\
    gcs_exec (gcons c) (gsts s) (a_key d) = Ok g1 /\
    a_depr d = false /\
    (if ic then @Ok Z (cnt a) else card_got (a_card d) (cnt a)) = Ok n1 /\
    assign d {| hasval := hasval a; cnt := n1; clearp := clearp a; val := val a; v2set := v2set a |}
           (match u with UFlag _ => [] | UVal _ v => v end) = Ok a' /\
    s' = {| arts := upd (arts s) (use_index u) a'; pend := activate d p1; gsts := g1;
            last := Some (use_index u); inv := false |}.
Proof.
  intros Hf H. cbn zeta.
  assert (G : handle_identified c (with_last s (Some (use_index u))) (use_index u)
                (a_key (argdef_of c (use_index u))) ic (match u with UFlag _ => [] | UVal _ v => v end) = Ok s')
    by (destruct u; exact H).
  clear H. unfold handle_identified, with_last, argdef_of in *. cbn [arts pend gsts last inv] in G.
  rewrite Hf in G.
  destruct (pend_identified (pend s) _) as [p1|?|?] eqn:E1; cbn [bind] in G; try discriminate.
  destruct (gcs_exec (gcons c) (gsts s) _) as [g1|?|?] eqn:E2; cbn [bind] in G; try discriminate.
  destruct (assign_value c _ (use_index u) ic _) as [s2|?|?] eqn:E in G; cbn [bind] in G; try discriminate.
  unfold assign_value in E. cbn [arts pend gsts last inv] in E.
  destruct (a_depr (nth (use_index u) (args c) dummy_def)) eqn:Ed; try discriminate.
  destruct (if ic then Ok (cnt (nth (use_index u) (arts s) dummy_art)) else _) as [n1|?|?] eqn:E3 in E;
    cbn [bind] in E; try discriminate.
  destruct (inv s) eqn:Ei; try discriminate.
  destruct (assign _ _ _) as [a'|?|?] eqn:E4 in E; cbn [bind] in E; try discriminate.
  inversion E; subst s2. inversion G; subst s'. cbn [arts pend gsts].
  exists p1, g1, n1, a'. splits; auto.
Qed.

(** histories *)
Lemma snoc_decomp {T} (hist : list T) u pre j post :
  hist ++ [u] = pre ++ j :: post ->
  (post = [] /\ j = u /\ pre = hist) \/ (exists post0, post = post0 ++ [u] /\ hist = pre ++ j :: post0).
Proof.
  revert hist. induction pre as [|x pre IH]; intros hist H.
  - destruct hist as [|h hr]; cbn in H.
    + inversion H; subst. left. auto.
    + inversion H; subst. right. exists hr. auto.
  - destruct hist as [|h hr]; cbn in H.
    + inversion H as [[Hx Hn]]. destruct pre; discriminate.
    + inversion H as [[Hx Hn]]. subst x. destruct (IH hr Hn) as [(E1 & E2 & E3)|(p0 & E1 & E2)].
      * left. subst. auto.
      * right. exists p0. subst. auto.
Qed.

Definition excl_rule (c : cfg) (us : list use) : Prop :=
  forall pre j mid u post k,
    us = pre ++ j :: mid ++ u :: post -> In k (a_excl (argdef_of c (use_index j))) ->
    key_eq k (ukey c u) = false.

Definition req_state (c : cfg) (hist : list use) (p : list (ckind * key)) : Prop :=
  forall pre j post k,
    hist = pre ++ j :: post -> In k (a_req (argdef_of c (use_index j))) ->
    In (KRequired, k) p \/ exists u, In u post /\ key_eq k (ukey c u) = true.

Definition excl_state (c : cfg) (hist : list use) (p : list (ckind * key)) : Prop :=
  forall j k, In j hist -> In k (a_excl (argdef_of c (use_index j))) -> In (KExcluded, k) p.

Definition known (c : cfg) (us : list use) : Prop := Forall (fun u => use_index u < length (args c)) us.

(** the constraint container along a history *)
Lemma pend_step c hist s ic u s' :
  fixed_notify c = true -> specs_canonical c ->
  use_index u < length (args c) ->
  pend_specs c (pend s) -> excl_state c hist (pend s) -> req_state c hist (pend s) -> excl_rule c hist ->
  use_step c s ic u = Ok s' ->
  pend_specs c (pend s') /\ excl_state c (hist ++ [u]) (pend s') /\ req_state c (hist ++ [u]) (pend s') /\
  excl_rule c (hist ++ [u]).
Proof.
  intros Hf Hc Hi Hsp Hex Hrq Hru H.
  destruct (use_step_inv c s ic u s' Hf H) as (p1 & g1 & n1 & a' & E1 & _ & _ & _ & _ & ->).
  cbn [pend].
  destruct (pend_identified_spec _ _ _ E1) as (A & B & C & D & F).
  assert (Hsp1 : pend_specs c p1).
  { unfold pend_specs in *. rewrite Forall_forall in *. intros e He. apply Hsp. apply B. exact He. }
  destruct (activate_has c (use_index u) p1 Hc Hsp1 Hi) as (S1 & S2 & S3 & S4).
  splits.
  - exact S1.
  - intros j k Hj Hk. apply in_app_or in Hj. destruct Hj as [Hj|[<-|[]]].
    + apply S2. apply C. eapply Hex; eauto.
    + apply S3. exact Hk.
  - intros pre j post k Hd Hk. destruct (snoc_decomp _ _ _ _ _ Hd) as [(-> & -> & ->)|(post0 & -> & Hh)].
    + left. apply S4. exact Hk.
    + destruct (Hrq _ _ _ _ Hh Hk) as [Hp|(u0 & Hu0 & He0)].
      * destruct (key_eq k (a_key (argdef_of c (use_index u)))) eqn:E.
        -- right. exists u. split; [apply in_or_app; right; left; reflexivity|exact E].
        -- left. apply S2. apply D; auto.
      * right. exists u0. split; [apply in_or_app; left; exact Hu0|exact He0].
  - intros pre j mid u0 post k Hd Hk.
    assert (Hd' : hist ++ [u] = (pre ++ j :: mid) ++ u0 :: post) by (rewrite Hd, <- app_assoc; reflexivity).
    destruct (snoc_decomp _ _ _ _ _ Hd') as [(-> & -> & Hh)|(post0 & -> & Hh)].
    + apply A. eapply Hex; [|exact Hk]. rewrite <- Hh. apply in_or_app. right. left. reflexivity.
    + eapply (Hru pre j mid u0 post0 k); [rewrite Hh, <- app_assoc; reflexivity|exact Hk].
Qed.

Lemma fold_uses_pend c ic us : forall hist s s',
  fixed_notify c = true -> specs_canonical c -> known c us ->
  pend_specs c (pend s) -> excl_state c hist (pend s) -> req_state c hist (pend s) -> excl_rule c hist ->
  fold_uses c s ic us = Ok s' ->
  pend_specs c (pend s') /\ excl_state c (hist ++ us) (pend s') /\ req_state c (hist ++ us) (pend s') /\
  excl_rule c (hist ++ us).
Proof.
  induction us as [|u r IH]; intros hist s s' Hf Hc Hk Hsp Hex Hrq Hru H; cbn [fold_uses] in H.
  - inversion H; subst. rewrite app_nil_r. auto.
  - destruct (use_step c s ic u) as [s1|?|?] eqn:E; cbn [bind] in H; try discriminate.
    inversion Hk as [|? ? Hi Hkr]; subst.
    destruct (pend_step c hist s ic u s1 Hf Hc Hi Hsp Hex Hrq Hru E) as (A & B & C & D).
    replace (hist ++ u :: r) with ((hist ++ [u]) ++ r) by (rewrite <- app_assoc; reflexivity).
    apply (IH (hist ++ [u]) s1 s'); auto.
Qed.

(** Soundness of exclusions and requirements: an accepted line never uses an
    argument after one that excludes it, and every argument required by a used
    argument is used after it. *)
Theorem requires_excludes_sound c inits ic us s' :
  fixed_notify c = true -> specs_canonical c -> known c us ->
  fold_uses c (init_state c inits) ic us = Ok s' -> pend_check_required (pend s') = Ok tt ->
  excl_rule c us /\
  (forall pre j post k, us = pre ++ j :: post -> In k (a_req (argdef_of c (use_index j))) ->
     exists u, In u post /\ key_eq k (ukey c u) = true).
Proof.
  intros Hf Hc Hk H Hreq.
  destruct (fold_uses_pend c ic us [] (init_state c inits) s' Hf Hc Hk) as (A & B & C & D); auto.
  - constructor.
  - intros j k [].
  - intros pre j post k Hd. destruct pre; discriminate.
  - intros pre j mid u post k Hd. destruct pre; discriminate.
  - cbn [app] in *. split; [exact D|].
    intros pre j post k Hd Hkk. destruct (C pre j post k Hd Hkk) as [Hp|Hu]; [|exact Hu].
    apply pend_check_required_ok in Hreq. rewrite Forall_forall in Hreq.
    exfalso. apply (Hreq _ Hp). reflexivity.
Qed.

(* ------------------------------------------------------------------ *)
(** * Mandatory arguments, values, cardinality *)

Lemma fold_uses_length c ic us : forall s s', fold_uses c s ic us = Ok s' -> length (arts s') = length (arts s).
Proof.
  induction us as [|u r IH]; intros s s' H; cbn [fold_uses] in H.
  - inversion H; reflexivity.
  - destruct (use_step c s ic u) as [s1|?|?] eqn:E; cbn [bind] in H; try discriminate.
    rewrite (IH _ _ H). eapply use_step_length; eauto.
Qed.

(** a destination that holds a value at the end was used or held one before *)
Lemma fold_uses_hasval c ic us s s' i :
  fold_uses c s ic us = Ok s' -> hasval (nth i (arts s') dummy_art) = true ->
  In i (map use_index us) \/ hasval (nth i (arts s) dummy_art) = true.
Proof.
  intros H Hv. destruct (in_dec Nat.eq_dec i (map use_index us)) as [Hin|Hnin]; [left; exact Hin|].
  right. rewrite <- (fold_uses_frame c ic us s s' i H Hnin). exact Hv.
Qed.

Definition value_ok (c : cfg) (u : use) : Prop :=
  match u with
  | UFlag _ => True
  | UVal i v =>
      let d := argdef_of c i in
      match a_kind d with
      | DInt | DOptInt => run_checks (a_checks d) v = Ok tt /\ exists z, lex_int (apply_fmts (a_fmts d) v) = Ok z
      | DStr => run_checks (a_checks d) v = Ok tt
      | _ => True
      end
  end.

Lemma fold_uses_values c ic us : forall s s',
  Forall (fun u => use_index u < length (arts s)) us ->
  fold_uses c s ic us = Ok s' -> Forall (value_ok c) us.
Proof.
  induction us as [|u r IH]; intros s s' Hk H; [constructor|].
  cbn [fold_uses] in H. destruct (use_step c s ic u) as [s1|?|?] eqn:E; cbn [bind] in H; try discriminate.
  inversion Hk as [|? ? Hi Hr]; subst. constructor.
  - destruct u as [i|i v]; [exact I|]. cbn [use_index] in Hi.
    pose proof (use_step_stores_scalar c s ic i v s1 E Hi) as Hs. cbn zeta in Hs. unfold value_ok. cbn zeta.
    destruct (a_kind (argdef_of c i)); auto.
    + destruct Hs as (z & A & B & _). eauto.
    + destruct Hs as (A & _). exact A.
    + destruct Hs as (z & A & B & _). eauto.
  - apply (IH s1 s'); auto. rewrite (use_step_length c s ic u s1 E). exact Hr.
Qed.

Definition card_upper (cd : card) : option Z :=
  match cd with
  | CardNone => None
  | CardMax m => if Z.eqb m (-1) then None else Some m
  | CardExact m => Some m
  | CardRange _ hi => if Z.eqb hi (-1) then None else Some hi
  end.

Lemma card_got_upper cd n n' m : card_got cd n = Ok n' -> card_upper cd = Some m -> (n' = n + 1 /\ n' <= m)%Z.
Proof.
  destruct cd as [|x|x|lo hi]; cbn; intros H Hm; try discriminate.
  - destruct (Z.eqb x (-1)); [discriminate|]. inversion Hm; subst.
    destruct (Z.ltb_spec m (n + 1)); [discriminate|]. inversion H; subst. lia.
  - inversion Hm; subst. destruct (Z.ltb_spec m (n + 1)); [discriminate|]. inversion H; subst. lia.
  - destruct (Z.eqb hi (-1)); [discriminate|]. inversion Hm; subst.
    destruct (Z.ltb_spec m (n + 1)); [discriminate|]. inversion H; subst. lia.
Qed.

Lemma card_got_mono cd n n' : card_got cd n = Ok n' -> (n <= n')%Z.
Proof.
  destruct cd as [|x|x|lo hi]; cbn; intros H.
  - inversion H; lia.
  - destruct (Z.eqb x (-1)); [inversion H; lia|]. destruct (Z.ltb x (n + 1)); [discriminate|]. inversion H; lia.
  - destruct (Z.ltb x (n + 1)); [discriminate|]. inversion H; lia.
  - destruct (Z.eqb hi (-1)); [inversion H; lia|]. destruct (Z.ltb hi (n + 1)); [discriminate|]. inversion H; lia.
Qed.

Lemma assign_tokens_int_cnt d : forall toks first cnt0 acc c1 l,
  assign_tokens_int d toks first cnt0 acc = Ok (c1, l) ->
  (cnt0 <= c1)%Z /\ (forall m, card_upper (a_card d) = Some m -> (cnt0 <= m)%Z -> (c1 <= m)%Z).
Proof.
  induction toks as [|t r IH]; intros first cnt0 acc c1 l H; cbn [assign_tokens_int] in H.
  - inversion H; subst. split; [lia|auto].
  - destruct (if first then Ok cnt0 else card_got (a_card d) cnt0) as [c2|?|?] eqn:E; cbn [bind] in H; try discriminate.
    destruct (run_checks _ t) as [[]|?|?]; cbn [bind] in H; try discriminate.
    destruct (lex_int _) as [v|?|?]; cbn [bind] in H; try discriminate.
    assert (Hc2 : (cnt0 <= c2)%Z /\ (forall m, card_upper (a_card d) = Some m -> (cnt0 <= m)%Z -> (c2 <= m)%Z)).
    { destruct first; [inversion E; subst; split; [lia|auto]|].
      split; [eapply card_got_mono; eauto|]. intros m Hm _. destruct (card_got_upper _ _ _ _ E Hm). lia. }
    destruct Hc2 as [M1 M2].
    destruct (a_uniq d && z_in v acc).
    + destruct (a_uniq_err d); [discriminate|]. destruct (IH _ _ _ _ _ H) as [N1 N2]. split; [lia|].
      intros m Hm H0. apply N2; auto.
    + destruct (IH _ _ _ _ _ H) as [N1 N2]. split; [lia|]. intros m Hm H0. apply N2; auto.
Qed.

Lemma assign_tokens_str_cnt d : forall toks first cnt0 acc c1 l,
  assign_tokens_str d toks first cnt0 acc = Ok (c1, l) ->
  (cnt0 <= c1)%Z /\ (forall m, card_upper (a_card d) = Some m -> (cnt0 <= m)%Z -> (c1 <= m)%Z).
Proof.
  induction toks as [|t r IH]; intros first cnt0 acc c1 l H; cbn [assign_tokens_str] in H.
  - inversion H; subst. split; [lia|auto].
  - destruct (if first then Ok cnt0 else card_got (a_card d) cnt0) as [c2|?|?] eqn:E; cbn [bind] in H; try discriminate.
    destruct (run_checks _ t) as [[]|?|?]; cbn [bind] in H; try discriminate.
    assert (Hc2 : (cnt0 <= c2)%Z /\ (forall m, card_upper (a_card d) = Some m -> (cnt0 <= m)%Z -> (c2 <= m)%Z)).
    { destruct first; [inversion E; subst; split; [lia|auto]|].
      split; [eapply card_got_mono; eauto|]. intros m Hm _. destruct (card_got_upper _ _ _ _ E Hm). lia. }
    destruct Hc2 as [M1 M2].
    destruct (a_uniq d && str_in _ acc).
    + destruct (a_uniq_err d); [discriminate|]. destruct (IH _ _ _ _ _ H) as [N1 N2]. split; [lia|].
      intros m Hm H0. apply N2; auto.
    + destruct (IH _ _ _ _ _ H) as [N1 N2]. split; [lia|]. intros m Hm H0. apply N2; auto.
Qed.

Lemma assign_cnt d a v a' :
  assign d a v = Ok a' ->
  (cnt a <= cnt a')%Z /\ (forall m, card_upper (a_card d) = Some m -> (cnt a <= m)%Z -> (cnt a' <= m)%Z).
Proof.
  unfold assign. intros H. destruct (a_kind d).
  - inversion H; subst; cbn. split; [lia|auto].
  - destruct (run_checks _ v) as [[]|?|?]; cbn [bind] in H; try discriminate.
    destruct (lex_int _) as [z|?|?]; cbn [bind] in H; try discriminate. inversion H; subst; cbn. split; [lia|auto].
  - destruct (run_checks _ v) as [[]|?|?]; cbn [bind] in H; try discriminate. inversion H; subst; cbn. split; [lia|auto].
  - destruct (run_checks _ v) as [[]|?|?]; cbn [bind] in H; try discriminate.
    destruct (lex_int _) as [z|?|?]; cbn [bind] in H; try discriminate. inversion H; subst; cbn. split; [lia|auto].
  - destruct (assign_tokens_int _ _ _ _ _) as [[c1 l]|?|?] eqn:E; cbn [bind] in H; try discriminate.
    inversion H; subst; cbn. eapply assign_tokens_int_cnt; eauto.
  - destruct (assign_tokens_str _ _ _ _ _) as [[c1 l]|?|?] eqn:E; cbn [bind] in H; try discriminate.
    inversion H; subst; cbn. eapply assign_tokens_str_cnt; eauto.
  - destruct (match val a with VLevel z b => (z, b) | _ => (0%Z, false) end) as [z set].
    destruct v as [|x r].
    + destruct (set && negb (a_mix d)); [discriminate|].
      destruct (run_checks_num _ _) as [[]|?|?]; cbn [bind] in H; try discriminate.
      inversion H; subst; cbn. split; [lia|auto].
    + destruct (negb (a_mix d) && hasval a); [discriminate|].
      destruct (run_checks _ _) as [[]|?|?]; cbn [bind] in H; try discriminate.
      destruct (lex_int _) as [n|?|?]; cbn [bind] in H; try discriminate.
      inversion H; subst; cbn. split; [lia|auto].
Qed.

Definition count_uses (i : nat) (us : list use) : nat := length (filter (fun u => Nat.eqb (use_index u) i) us).

Definition card_state (c : cfg) (hist : list use) (as_ : list art) : Prop :=
  forall i m, i < length as_ -> card_upper (a_card (argdef_of c i)) = Some m ->
    (Z.of_nat (count_uses i hist) <= cnt (nth i as_ dummy_art))%Z /\
    (0 < count_uses i hist -> (cnt (nth i as_ dummy_art) <= m)%Z).

Lemma count_uses_snoc i hist u :
  count_uses i (hist ++ [u]) = count_uses i hist + (if Nat.eqb (use_index u) i then 1 else 0).
Proof.
  unfold count_uses. rewrite filter_app, app_length. cbn [filter]. destruct (Nat.eqb (use_index u) i); cbn; lia.
Qed.

Lemma card_step c hist s u s' :
  fixed_notify c = true -> use_index u < length (arts s) ->
  card_state c hist (arts s) -> use_step c s false u = Ok s' -> card_state c (hist ++ [u]) (arts s').
Proof.
  intros Hf Hi Hcs H.
  destruct (use_step_inv c s false u s' Hf H) as (p1 & g1 & n1 & a' & _ & _ & _ & E3 & E4 & ->).
  cbn [arts]. intros i m Hil Hm.
  assert (Hlen : length (upd (arts s) (use_index u) a') = length (arts s)).
  { unfold upd. destruct (Nat.ltb_spec (use_index u) (length (arts s))); [|reflexivity].
    rewrite app_length, firstn_length. cbn [length]. rewrite skipn_length. lia. }
  rewrite Hlen in Hil. rewrite count_uses_snoc.
  destruct (Nat.eqb_spec (use_index u) i) as [<-|Hne].
  - rewrite upd_nth_same by exact Hi.
    destruct (Hcs (use_index u) m Hi Hm) as [C1 C2].
    destruct (assign_cnt _ _ _ _ E4) as [A1 A2]. cbn [cnt] in A1, A2.
    destruct (card_got_upper _ _ _ _ E3 Hm) as [G1 G2].
    split; [lia|]. intros _. apply A2; auto.
  - rewrite upd_nth_other by exact Hne. destruct (Hcs i m Hil Hm) as [C1 C2]. split; [lia|].
    intros H0. apply C2. lia.
Qed.

(** no argument is used more often than its cardinality allows *)
Theorem cardinality_sound c inits us s' :
  fixed_notify c = true -> Forall (fun u => use_index u < length (arts (init_state c inits))) us ->
  fold_uses c (init_state c inits) false us = Ok s' ->
  forall i m, i < length (arts (init_state c inits)) ->
    card_upper (a_card (argdef_of c i)) = Some m -> 0 < count_uses i us -> (Z.of_nat (count_uses i us) <= m)%Z.
Proof.
  intros Hf Hk H.
  assert (G : forall us hist s s', Forall (fun u => use_index u < length (arts s)) us ->
            card_state c hist (arts s) -> fold_uses c s false us = Ok s' ->
            card_state c (hist ++ us) (arts s') /\ length (arts s') = length (arts s)).
  { clear. intros us. induction us as [|u r IH]; intros hist s s' Hk Hcs H; cbn [fold_uses] in H.
    - inversion H; subst. rewrite app_nil_r. auto.
    - destruct (use_step c s false u) as [s1|?|?] eqn:E; cbn [bind] in H; try discriminate.
      inversion Hk as [|? ? Hi Hr]; subst.
      assert (Hf : fixed_notify c = true \/ fixed_notify c = false) by (destruct (fixed_notify c); auto).
      replace (hist ++ u :: r) with ((hist ++ [u]) ++ r) by (rewrite <- app_assoc; reflexivity).
      pose proof (use_step_length c s false u s1 E) as Hl.
      destruct Hf as [Hf|Hf].
      + destruct (IH (hist ++ [u]) s1 s') as [A B]; auto.
        * rewrite Hl. exact Hr.
        * eapply card_step; eauto.
        * split; [exact A|lia].
      + (* the notification flag plays no role for the counters *)
        destruct (IH (hist ++ [u]) s1 s') as [A B]; auto.
        * rewrite Hl. exact Hr.
        * clear IH H. unfold use_step in E.
          assert (E' : exists k, handle_identified c (with_last s (Some (use_index u))) (use_index u) k false
                         (match u with UFlag _ => [] | UVal _ v => v end) = Ok s1) by (destruct u; eauto).
          destruct E' as (k & E'). unfold handle_identified, with_last in E'. cbn [arts pend gsts last inv] in E'.
          destruct (pend_identified _ _) as [p1|?|?]; cbn [bind] in E'; try discriminate.
          destruct (gcs_exec _ _ _) as [g1|?|?]; cbn [bind] in E'; try discriminate.
          destruct (assign_value c _ (use_index u) false _) as [s2|?|?] eqn:Ea in E'; cbn [bind] in E'; try discriminate.
          unfold assign_value in Ea. cbn [arts pend gsts last inv] in Ea.
          destruct (a_depr _); try discriminate.
          destruct (card_got _ _) as [n1|?|?] eqn:E3 in Ea; cbn [bind] in Ea; try discriminate.
          destruct (inv s); try discriminate.
          destruct (assign _ _ _) as [a'|?|?] eqn:E4 in Ea; cbn [bind] in Ea; try discriminate.
          inversion Ea; subst s2. inversion E'; subst s1. cbn [arts].
          intros i m Hil Hm.
          assert (Hlen : length (upd (arts s) (use_index u) a') = length (arts s)).
          { unfold upd. destruct (Nat.ltb_spec (use_index u) (length (arts s))); [|reflexivity].
            rewrite app_length, firstn_length. cbn [length]. rewrite skipn_length. lia. }
          rewrite Hlen in Hil. rewrite count_uses_snoc.
          destruct (Nat.eqb_spec (use_index u) i) as [<-|Hne].
          -- rewrite upd_nth_same by exact Hi.
             destruct (Hcs (use_index u) m Hi Hm) as [C1 C2].
             destruct (assign_cnt _ _ _ _ E4) as [A1 A2]. cbn [cnt] in A1, A2.
             destruct (card_got_upper _ _ _ _ E3 Hm) as [G1 G2].
             split; [lia|]. intros _. apply A2; auto.
          -- rewrite upd_nth_other by exact Hne. destruct (Hcs i m Hil Hm) as [C1 C2]. split; [lia|].
             intros H0. apply C2. lia.
        * split; [exact A|lia]. }
  destruct (G us [] (init_state c inits) s' Hk) as [A B]; auto.
  - intros i m Hi Hm. unfold count_uses. cbn. split; [|lia].
    unfold init_state. cbn [arts]. 
    assert (Hc0 : forall l n, cnt (nth n (map (fun p => init_art (fst p) (snd p)) l) dummy_art) = 0%Z).
    { induction l as [|x r IHl]; intros [|n]; cbn; auto. }
    rewrite Hc0. lia.
  - intros i m Hi Hm Hpos. cbn [app] in A. destruct (A i m ltac:(rewrite B; exact Hi) Hm) as [C1 C2].
    specialize (C2 Hpos). lia.
Qed.

(* ------------------------------------------------------------------ *)
(** * Handler constraints all_of / any_of / one_of *)

Definition in_list (c : cfg) (ks : list key) (u : use) : bool := in_keys ks (ukey c u).

Definition gc_step (c : cfg) (ks : list key) (r : list key) (u : use) : list key :=
  if in_list c ks u then remove_first_key r (ukey c u) else r.

Definition gc_track (c : cfg) (hist : list use) (g : gcon) (s : gst) : Prop :=
  match g, s with
  | GCAll ks, GSAll rem => rem = fold_left (gc_step c ks) hist ks
  | GCAny ks, GSUsed b | GCOne ks, GSUsed b =>
      b = existsb (in_list c ks) hist /\ length (filter (in_list c ks) hist) <= 1
  | GCDiffer _, _ | GCDisjoint _ _, _ => True
  | _, _ => False
  end.

(** the declarative rules *)
Definition gc_rule (c : cfg) (us : list use) (g : gcon) : Prop :=
  match g with
  | GCAll ks => forall k, In k ks -> exists u, In u us /\ key_eq k (ukey c u) = true
  | GCAny ks => length (filter (in_list c ks) us) <= 1
  | GCOne ks => length (filter (in_list c ks) us) = 1
  | _ => True
  end.

Lemma existsb_false_filter {T} (f : T -> bool) l : existsb f l = false -> filter f l = [].
Proof.
  induction l as [|x r IH]; cbn; auto. destruct (f x); cbn; [discriminate|]. exact IH.
Qed.

Lemma gc_exec_track c hist g s u s' :
  gc_track c hist g s -> gc_exec g s (ukey c u) = Ok s' -> gc_track c (hist ++ [u]) g s'.
Proof.
  unfold gc_track, gc_exec. destruct g as [ks|ks|ks|ixs|i j]; destruct s as [rem|b]; intros Ht H; try contradiction;
    try (inversion H; subst; exact I).
  - rewrite fold_left_app. cbn [fold_left]. unfold gc_step at 1. unfold in_list. rewrite <- Ht.
    destruct (in_keys ks (ukey c u)); inversion H; reflexivity.
  - destruct Ht as [Hb Hc]. rewrite existsb_app, filter_app, app_length. cbn [existsb filter]. unfold in_list at 2 4.
    destruct (in_keys ks (ukey c u)) eqn:E.
    + destruct b; [discriminate|]. inversion H; subst. symmetry in Hb.
      rewrite (existsb_false_filter _ _ Hb). rewrite Hb. cbn. split; [reflexivity|lia].
    + inversion H; subst. cbn. rewrite orb_false_r, Nat.add_0_r. auto.
  - destruct Ht as [Hb Hc]. rewrite existsb_app, filter_app, app_length. cbn [existsb filter]. unfold in_list at 2 4.
    destruct (in_keys ks (ukey c u)) eqn:E.
    + destruct b; [discriminate|]. inversion H; subst. symmetry in Hb.
      rewrite (existsb_false_filter _ _ Hb). rewrite Hb. cbn. split; [reflexivity|lia].
    + inversion H; subst. cbn. rewrite orb_false_r, Nat.add_0_r. auto.
Qed.

Lemma gcs_exec_track c hist u : forall gs ss ss',
  Forall2 (gc_track c hist) gs ss -> gcs_exec gs ss (ukey c u) = Ok ss' ->
  Forall2 (gc_track c (hist ++ [u])) gs ss'.
Proof.
  induction gs as [|g gr IH]; intros ss ss' Ht H; inversion Ht; subst; cbn [gcs_exec] in H.
  - inversion H; constructor.
  - destruct (gc_exec g y (ukey c u)) as [s1|?|?] eqn:E; cbn [bind] in H; try discriminate.
    destruct (gcs_exec gr l' (ukey c u)) as [r1|?|?] eqn:Er; cbn [bind] in H; try discriminate.
    inversion H; subst. constructor; [eapply gc_exec_track; eauto|eapply IH; eauto].
Qed.

Lemma remove_first_key_cases r q k : In k r -> In k (remove_first_key r q) \/ key_eq k q = true.
Proof.
  induction r as [|x r IH]; intros H; [destruct H|]. cbn. destruct (key_eq x q) eqn:E.
  - destruct H as [->|H]; auto.
  - destruct H as [->|H]; [left; left; reflexivity|]. destruct (IH H); auto. left. right. assumption.
Qed.

Lemma all_of_complete c ks hist : forall rem,
  fold_left (gc_step c ks) hist rem = [] ->
  forall k, In k rem -> exists u, In u hist /\ key_eq k (ukey c u) = true.
Proof.
  induction hist as [|u r IH]; intros rem H k Hk; cbn [fold_left] in H.
  - subst. destruct Hk.
  - assert (Hc : In k (gc_step c ks rem u) \/ key_eq k (ukey c u) = true).
    { unfold gc_step. destruct (in_list c ks u); [apply remove_first_key_cases; exact Hk|left; exact Hk]. }
    destruct Hc as [Hc|Hc].
    + destruct (IH _ H k Hc) as (u0 & Hu & He). exists u0. split; [right; exact Hu|exact He].
    + exists u. split; [left; reflexivity|exact Hc].
Qed.

Lemma gc_track_rule c us g s : gc_track c us g s -> gc_satisfied [] g s \/ True -> 
  (match g, s with
   | GCAll _, GSAll rem => rem = [] -> gc_rule c us g
   | GCOne _, GSUsed b => b = true -> gc_rule c us g
   | _, _ => gc_rule c us g
   end).
Proof.
  intros Ht _. unfold gc_track in Ht. destruct g as [ks|ks|ks|ixs|i j]; destruct s as [rem|b]; try contradiction;
    cbn [gc_rule]; auto.
  - intros ->. intros k Hk. symmetry in Ht. eapply all_of_complete; eauto.
  - destruct Ht; auto.
  - destruct Ht as [Hb Hc]. intros ->. 
    destruct (filter (in_list c ks) us) as [|x [|y r]] eqn:F; cbn in *; try lia.
    exfalso. assert (existsb (in_list c ks) us = false).
    { clear Hb Hc. induction us as [|u r IH]; cbn in *; auto. destruct (in_list c ks u); [discriminate|]. auto. }
    congruence.
Qed.

Lemma Forall2_len {A B} (R : A -> B -> Prop) l1 l2 : Forall2 R l1 l2 -> length l1 = length l2.
Proof. induction 1; cbn; auto. Qed.

Lemma gc_track_init c gs : Forall2 (gc_track c []) gs (map gc_init gs).
Proof. induction gs as [|g gr IH]; cbn; constructor; auto. destruct g; cbn; auto. Qed.

Lemma gc_rules_final c us as_ : forall gs ss,
  Forall2 (gc_track c us) gs ss -> Forall2 (gc_satisfied as_) gs ss -> Forall (gc_rule c us) gs.
Proof.
  induction gs as [|g gr IH]; intros ss Ht Hs; [constructor|].
  inversion Ht; subst. inversion Hs; subst. constructor; [|eapply IH; eauto].
  pose proof (gc_track_rule c us g y H1 (or_intror I)) as R.
  destruct g as [ks|ks|ks|ixs|i j]; destruct y as [rem|b]; cbn in *; auto; try contradiction.
Qed.

(** every all_of, any_of and one_of constraint of the configuration is met by an accepted line *)
Theorem handler_constraints_sound c inits ic us s' :
  fixed_notify c = true ->
  fold_uses c (init_state c inits) ic us = Ok s' ->
  gcs_end (arts s') (gcons c) (gsts s') = Ok tt ->
  Forall (gc_rule c us) (gcons c).
Proof.
  intros Hf H Hend.
  assert (G : forall us hist s s', Forall2 (gc_track c hist) (gcons c) (gsts s) ->
            fold_uses c s ic us = Ok s' -> Forall2 (gc_track c (hist ++ us)) (gcons c) (gsts s')).
  { clear H Hend. intros us0. induction us0 as [|u r IH]; intros hist s s0 Ht H; cbn [fold_uses] in H.
    - inversion H; subst. rewrite app_nil_r. exact Ht.
    - destruct (use_step c s ic u) as [s1|?|?] eqn:E; cbn [bind] in H; try discriminate.
      destruct (use_step_inv c s ic u s1 Hf E) as (p1 & g1 & n1 & a' & _ & E2 & _ & _ & _ & ->).
      replace (hist ++ u :: r) with ((hist ++ [u]) ++ r) by (rewrite <- app_assoc; reflexivity).
      eapply IH; [|exact H]. cbn [gsts]. eapply gcs_exec_track; eauto. }
  pose proof (G us [] (init_state c inits) s' (gc_track_init c (gcons c)) H) as Ht. cbn [app] in Ht.
  pose proof (gcs_end_ok _ _ _ Hend) as Hs.
  assert (Hl : length (gcons c) = length (gsts s')) by (eapply Forall2_len; eauto).
  rewrite <- Hl, firstn_all in Hs. rewrite Hl, firstn_all in Hs.
  eapply gc_rules_final; eauto.
Qed.

(* ------------------------------------------------------------------ *)
(** * All rules together, for every legal spelling *)

Lemma find_arg_scan_in {A} abbr (t : @table A) k : forall part amb a,
  find_arg_scan abbr t k part amb = Ok (Some a) -> In a (map snd t) \/ part = Some a.
Proof.
  induction t as [|[k' x] r IH]; intros part amb a H; cbn in H.
  - destruct amb; [discriminate|]. inversion H; auto.
  - destruct (key_eq k' k); [inversion H; left; left; reflexivity|].
    destruct (abbr && key_starts_with k' k).
    + destruct part as [p|].
      * destruct (IH _ _ _ H) as [Hin|Hp]; [left; right; exact Hin|right; exact Hp].
      * destruct (IH _ _ _ H) as [Hin|Hp]; [left; right; exact Hin|inversion Hp; left; left; reflexivity].
    + destruct (IH _ _ _ H) as [Hin|Hp]; [left; right; exact Hin|right; exact Hp].
Qed.

Lemma index_table_range ds : forall n i, In i (map snd (index_table ds n)) -> n <= i < n + length ds.
Proof.
  induction ds as [|d r IH]; intros n i H; cbn in H; [destruct H|].
  destruct H as [<-|H]; [cbn; lia|]. apply IH in H. cbn. lia.
Qed.

Lemma lookup_range c k i : lookup c k = Ok (Some i) -> i < length (args c).
Proof.
  unfold lookup, find_arg. intros H. apply find_arg_scan_in in H. destruct H as [H|H]; [|discriminate].
  apply index_table_range in H. lia.
Qed.

Lemma spell_known c us ws : spell c us ws -> known c us.
Proof.
  unfold known.
  assert (Hfl : forall fs, flags_ok c fs -> Forall (fun u => use_index u < length (args c)) (map (fun p => UFlag (fst p)) fs)).
  { intros fs H. induction H as [|[i ch] r [[_ Hl] _] _ IH]; cbn; constructor; auto. eapply lookup_range; eauto. }
  induction 1 as [|i w us ws Hl _ _ IH|i w v us ws Hl _ _ IH|i w v us ws Hl _ _ _ IH
                  |fs us ws _ Hf _ IH|fs i ch v us ws Hf Hs _ _ _ IH|fs i ch v us ws Hf Hs _ _ _ IH].
  - constructor.
  - constructor; auto. destruct Hl as (_ & _ & k & _ & Hk). eapply lookup_range; eauto.
  - constructor; auto. destruct Hl as (_ & _ & k & _ & Hk). eapply lookup_range; eauto.
  - constructor; auto. destruct Hl as (_ & _ & k & _ & Hk). eapply lookup_range; eauto.
  - apply Forall_app. split; auto.
  - apply Forall_app. split; auto. constructor; auto. destruct Hs as [_ Hk]. eapply lookup_range; eauto.
  - apply Forall_app. split; auto. constructor; auto. destruct Hs as [_ Hk]. eapply lookup_range; eauto.
Qed.

Lemma check_mandatory_card_nth ds : forall as_ i,
  check_mandatory_card ds as_ = Ok tt -> i < length ds -> i < length as_ ->
  a_mand (nth i ds dummy_def) = true -> hasval (nth i as_ dummy_art) = true.
Proof.
  induction ds as [|d dr IH]; intros [|a ar] i H Hi Hj Hm; cbn in *; try lia.
  destruct (a_mand d && negb (hasval a)) eqn:E; [discriminate|].
  destruct (card_end (a_card d) (cnt a)) as [[]|?|?]; cbn [bind] in H; try discriminate.
  destruct i as [|i].
  - rewrite Hm in E. cbn in E. destruct (hasval a); [reflexivity|discriminate].
  - apply IH; auto; lia.
Qed.

Lemma init_state_length c inits : length inits = length (args c) -> length (arts (init_state c inits)) = length (args c).
Proof. intros H. unfold init_state. cbn [arts]. rewrite map_length, combine_length. lia. Qed.

(** The rules an accepted command line has obeyed, on the abstract line. *)
Record rules (c : cfg) (inits : list value) (us : list use) (final : hstate) : Prop := {
  r_known : known c us;
  r_mandatory : forall i, i < length (args c) -> a_mand (argdef_of c i) = true ->
      In i (map use_index us) \/ hasval (nth i (arts (init_state c inits)) dummy_art) = true;
  r_values : Forall (value_ok c) us;
  r_cardinality : forall i m, i < length (args c) -> card_upper (a_card (argdef_of c i)) = Some m ->
      0 < count_uses i us -> (Z.of_nat (count_uses i us) <= m)%Z;
  r_not_after_excluder : excl_rule c us;
  r_required_present : forall pre j post k, us = pre ++ j :: post ->
      In k (a_req (argdef_of c (use_index j))) -> exists u, In u post /\ key_eq k (ukey c u) = true;
  r_handler_constraints : Forall (gc_rule c us) (gcons c);
  r_value_constraints : Forall2 (gc_satisfied (arts final)) (gcons c) (gsts final)
}.

Theorem accepted_obeys_rules c inits us ws s' :
  fixed_notify c = true -> specs_canonical c -> length inits = length (args c) ->
  spell c us ws -> eval_arguments c inits [] None ws = Ok s' -> rules c inits us s'.
Proof.
  intros Hf Hc Hl Hsp He.
  unfold eval_arguments in He. cbn [eval_lines bind] in He.
  rewrite (eval_words_spelled c Hf false us ws _ Hsp) in He.
  destruct (fold_uses c (init_state c inits) false us) as [s3|?|?] eqn:Ef; cbn [bind] in He; try discriminate.
  destruct (final_checks c s3) as [[]|?|?] eqn:Efc; cbn [bind] in He; try discriminate.
  inversion He; subst s3. clear He.
  pose proof (spell_known c us ws Hsp) as Hk.
  pose proof (init_state_length c inits Hl) as Hal.
  unfold final_checks in Efc.
  destruct (check_mandatory_card (args c) (arts s')) as [[]|?|?] eqn:E1; cbn [bind] in Efc; try discriminate.
  destruct (pend_check_required (pend s')) as [[]|?|?] eqn:E2; cbn [bind] in Efc; try discriminate.
  assert (Hk' : Forall (fun u => use_index u < length (arts (init_state c inits))) us)
    by (rewrite Hal; exact Hk).
  pose proof (fold_uses_length c false us _ _ Ef) as Hlen.
  destruct (requires_excludes_sound c inits false us s' Hf Hc Hk Ef E2) as [Rex Rreq].
  constructor.
  - exact Hk.
  - intros i Hi Hm. eapply fold_uses_hasval; [exact Ef|].
    eapply check_mandatory_card_nth; eauto. rewrite Hlen, Hal. exact Hi.
  - eapply fold_uses_values; eauto.
  - intros i m Hi Hm Hpos. eapply cardinality_sound; eauto. rewrite Hal. exact Hi.
  - exact Rex.
  - exact Rreq.
  - eapply handler_constraints_sound; eauto.
  - pose proof (gcs_end_ok _ _ _ Efc) as Hs.
    assert (Hgl : length (gcons c) = length (gsts s')).
    { pose proof (handler_constraints_sound c inits false us s' Hf Ef Efc) as _.
      clear - Ef Hf. 
      assert (G : forall us s s', length (gsts s) = length (gcons c) -> fold_uses c s false us = Ok s' ->
                 length (gsts s') = length (gcons c)).
      { intros us0. induction us0 as [|u r IH]; intros s s0 Hl H; cbn [fold_uses] in H.
        - inversion H; subst; exact Hl.
        - destruct (use_step c s false u) as [s1|?|?] eqn:E; cbn [bind] in H; try discriminate.
          destruct (use_step_inv c s false u s1 Hf E) as (p1 & g1 & n1 & a' & _ & E2 & _ & _ & _ & ->).
          eapply IH; [|exact H]. cbn [gsts].
          clear - E2 Hl. revert E2 Hl. generalize (gsts s). generalize g1. 
          induction (gcons c) as [|g gr IHg]; intros g0 ss E2 Hl; destruct ss as [|x xr]; cbn in *; try discriminate.
          + inversion E2; reflexivity.
          + destruct (gc_exec g x _) as [x'|?|?]; cbn [bind] in E2; try discriminate.
            destruct (gcs_exec gr xr _) as [r'|?|?] eqn:Er; cbn [bind] in E2; try discriminate.
            inversion E2; subst. cbn. f_equal. eapply IHg; eauto. }
      symmetry. eapply G; [|exact Ef]. unfold init_state. cbn [gsts]. apply map_length. }
    rewrite <- Hgl, firstn_all in Hs. rewrite Hgl, firstn_all in Hs. exact Hs.
Qed.
