(** Sub-group arguments: nothing on the command line is skipped (after the
    repair), the pinned behaviour is refuted, the extended loop is the loop of
    Handler.v when no sub-group argument is defined, and it is total. *)
From Coq Require Import List NArith ZArith Bool Arith Lia.
Import ListNotations.
Require Import Celma.Common.Res Celma.Common.ListX Celma.Common.Tactics
               Celma.ArgH.Key Celma.ArgH.Table Celma.ArgH.TableProofs Celma.ArgH.Lex Celma.ArgH.Handler
               Celma.ArgH.SafeProofs Celma.ArgH.SubGroup.

(* ------------------------------------------------------------------ *)
(** * What the sub-group handler leaves for the main handler *)

(** [sub_take] stops at the end of the words or in front of the first element
    the sub-group handler does not know: the iterator it returns delivers
    exactly that element next, so the main handler evaluates it. *)
Lemma sub_take_stops cs : forall fuel s ai s' ai',
  sub_take fuel cs s ai = Ok (s', ai') ->
  next false ai' = Ok None \/
  exists e it_e s0 i1, next false ai' = Ok (Some (e, it_e)) /\ eval_single cs s0 false e it_e = Ok (AUnknown, s', i1).
Proof.
  induction fuel as [|f IH]; intros s ai s' ai' H; cbn [sub_take] in H; [discriminate|].
  destruct (next false ai) as [[[e it_e]|]|?|?] eqn:En; cbn [bind] in H; try discriminate.
  - destruct (eval_single cs s false e it_e) as [[[a s1] i1]|?|?] eqn:Ee; cbn [bind] in H; try discriminate.
    destruct a.
    + apply (IH _ _ _ _ H).
    + inversion H; subst. right. exists e, it_e, s, i1. split; assumption.
  - inversion H; subst. left. exact En.
Qed.

(** nothing consumed: the main handler goes on with the element behind the
    sub-group key *)
Lemma sub_take_nothing cs f s cur e it_e s1 i1 :
  next false cur = Ok (Some (e, it_e)) -> eval_single cs s false e it_e = Ok (AUnknown, s1, i1) ->
  sub_take (S f) cs s cur = Ok (s1, cur).
Proof. intros Hn He. cbn [sub_take]. rewrite Hn. cbn [bind]. rewrite He. reflexivity. Qed.

(* ------------------------------------------------------------------ *)
(** * Without sub-group arguments nothing changes *)

Section NoSubs.
Variable c : sgcfg.
Hypothesis Hno : sg_subs c = [].

Lemma sub_lookup_none k : sub_lookup c k = Ok None.
Proof. unfold sub_lookup, sub_table. rewrite Hno. reflexivity. Qed.

Lemma step_sg_conservative pinned st ic e cur :
  step_sg pinned c st ic e cur = lift_main st (eval_single (sg_main c) (sm st) ic e cur).
Proof.
  destruct e as [ch|w|v|ch]; cbn [step_sg]; try reflexivity.
  - unfold step_key_sg. rewrite sub_lookup_none. reflexivity.
  - unfold eval_single at 1. destruct (parse_key w) as [k|?|?] eqn:Ep; cbn [bind lift_main]; try reflexivity.
    unfold step_key_sg. rewrite sub_lookup_none. cbn [bind]. unfold eval_single. rewrite Ep. reflexivity.
Qed.

Lemma loop_sg_conservative pinned ic : forall fuel st cur,
  loop_sg pinned c fuel st ic cur =
  do m <- iterate fuel (sg_main c) (sm st) ic cur; Ok {| sm := m; ss := ss st; scnt := scnt st; scal := scal st |}.
Proof.
  induction fuel as [|f IH]; intros st [[e i0]|]; cbn [loop_sg iterate bind]; try reflexivity;
    try (destruct st; reflexivity).
  rewrite step_sg_conservative. unfold lift_main.
    destruct (eval_single (sg_main c) (sm st) ic e i0) as [[[a m1] i1]|?|?]; cbn [bind]; auto.
    destruct a; auto. destruct (next false i1) as [nx|?|?]; cbn [bind]; auto.
    rewrite (IH {| sm := m1; ss := ss st; scnt := scnt st; scal := scal st |} nx). reflexivity.
Qed.

End NoSubs.

(* ------------------------------------------------------------------ *)
(** * Totality: never a read outside a word, never out of fuel *)

Lemma msize_le_words i : msize i <= msize_it i.
Proof. unfold msize, msize_it. lia. Qed.

Lemma sub_take_ok cs : forall fuel s ai,
  it_ok ai -> msize ai < fuel ->
  match sub_take fuel cs s ai with
  | Fault _ => False
  | Ok (_, ai') => it_ok ai' /\ msize ai' <= msize ai
  | Err _ => True
  end.
Proof.
  induction fuel as [|f IH]; intros s ai Hok Hm; [lia|]. cbn [sub_take].
  pose proof (next_ok false ai Hok) as Hn.
  destruct (next false ai) as [[[e it_e]|]|?|?]; cbn [bind step_ok] in *; auto.
  destruct Hn as [Hok1 Hm1].
  pose proof (eval_single_ok cs s false e it_e Hok1) as He.
  destruct (eval_single cs s false e it_e) as [[[a s1] i1]|?|?]; cbn [bind single_ok] in *; auto.
  destruct He as [Hok2 Hm2]. destruct a.
  - specialize (IH s1 i1 Hok2 ltac:(lia)).
    destruct (sub_take f cs s1 i1) as [[s2 ai2]|?|?]; auto. destruct IH. split; auto. lia.
  - split; auto.
Qed.

Definition single_ok_sg (i0 : it) (r : res (ares * sgstate * it)) : Prop :=
  match r with
  | Fault _ => False
  | Ok (_, _, i1) => it_ok i1 /\ msize i1 <= msize i0
  | Err _ => True
  end.

Lemma lift_main_ok st cur r : single_ok cur r -> single_ok_sg cur (lift_main st r).
Proof. unfold lift_main. destruct r as [[[a m1] i1]|?|?]; cbn; auto. Qed.

Lemma find_arg_scan_nofault' {A} abbr (t : @table A) k : nofault (find_arg abbr t k).
Proof. unfold find_arg. apply find_arg_scan_nofault. Qed.

Lemma sub_use_ok c st ic j cur : it_ok cur ->
  match sub_use false c st ic j cur with
  | Fault _ => False
  | Ok (_, ai) => it_ok ai /\ msize ai <= msize cur
  | Err _ => True
  end.
Proof.
  intros Hok. unfold sub_use.
  pose proof (pend_identified_nofault (pend (sm st)) (fst (nth j (sg_subs c) (POSKEY, cfg_nil)))) as H1.
  destruct (pend_identified _ _); cbn [bind nofault] in *; auto.
  match goal with |- context [gcs_exec ?g ?s ?k] => pose proof (gcs_exec_nofault g s k) as H2; destruct (gcs_exec g s k) end;
    cbn [bind nofault] in *; auto.
  destruct ic; cbn [bind].
  - destruct (inv (sm st)); auto.
    pose proof (sub_take_ok (snd (nth j (sg_subs c) (POSKEY, cfg_nil))) (S (msize_it cur))
                  (nth j (ss st) st_nil) cur Hok ltac:(pose proof (msize_le_words cur); lia)) as H3.
    destruct (sub_take _ _ _ cur) as [[s1 ai]|?|?]; cbn [bind] in *; auto.
  - pose proof (card_got_nofault (snd (sub_rule c j)) (nth j (scnt st) 0%Z)) as Hc.
    destruct (card_got _ _); cbn [bind nofault] in *; auto.
    destruct (inv (sm st)); auto.
    pose proof (sub_take_ok (snd (nth j (sg_subs c) (POSKEY, cfg_nil))) (S (msize_it cur))
                  (nth j (ss st) st_nil) cur Hok ltac:(pose proof (msize_le_words cur); lia)) as H3.
    destruct (sub_take _ _ _ cur) as [[s1 ai]|?|?]; cbn [bind] in *; auto.
Qed.

Lemma step_sg_ok c st ic e cur : it_ok cur -> single_ok_sg cur (step_sg false c st ic e cur).
Proof.
  intros Hok.
  assert (Hk : forall k, single_ok_sg cur (step_key_sg false c st ic k e cur)).
  { intros k. unfold step_key_sg, sub_lookup.
    pose proof (find_arg_scan_nofault' (abbr (sg_main c)) (sub_table c) k) as Hl.
    destruct (find_arg (abbr (sg_main c)) (sub_table c) k) as [[j|]|?|?]; cbn [bind nofault single_ok_sg] in *; auto.
    - pose proof (sub_use_ok c st ic j cur Hok) as Hu.
      destruct (sub_use false c st ic j cur) as [[st1 ai]|?|?]; cbn [bind single_ok_sg fst snd] in *; auto.
    - apply lift_main_ok. apply eval_single_ok. exact Hok. }
  destruct e as [ch|w|v|ch]; cbn [step_sg].
  - apply Hk.
  - pose proof (parse_key_nofault w) as Hp. destruct (parse_key w); cbn [bind single_ok_sg nofault] in *; auto.
  - apply lift_main_ok. apply eval_single_ok. exact Hok.
  - apply lift_main_ok. apply eval_single_ok. exact Hok.
Qed.

Lemma loop_sg_nofault c ic : forall fuel st e i0,
  it_ok i0 -> msize i0 < fuel -> nofault (loop_sg false c fuel st ic (Some (e, i0))).
Proof.
  induction fuel as [|f IH]; intros st e i0 Hok Hm; [lia|].
  cbn [loop_sg]. pose proof (step_sg_ok c st ic e i0 Hok) as Hs.
  destruct (step_sg false c st ic e i0) as [[[a st1] i1]|?|?]; cbn [bind single_ok_sg nofault] in *; auto.
  destruct Hs as [Hok1 Hm1]. destruct a; cbn [nofault]; auto.
  pose proof (next_ok false i1 Hok1) as Hn.
  destruct (next false i1) as [[[e2 i2]|]|?|?]; cbn [bind step_ok nofault] in *; auto.
  - destruct Hn. apply IH; auto. lia.
  - destruct f; cbn; auto.
Qed.

Lemma check_sub_rules_nofault : forall rules cnts cals, nofault (check_sub_rules rules cnts cals).
Proof.
  induction rules as [|[m cd] rr IH]; intros [|n nr] [|b br]; cbn [check_sub_rules nofault]; auto.
  destruct (m && negb b); cbn [nofault]; auto.
  apply bind_nofault; [apply card_end_nofault|intros; apply IH].
Qed.

Lemma final_checks_sg_nofault c st : nofault (final_checks_sg c st).
Proof.
  pose proof (final_checks_nofault (sg_main c) (sm st)) as H. unfold final_checks in H. unfold final_checks_sg.
  destruct (check_mandatory_card (args (sg_main c)) (arts (sm st))); cbn [bind nofault] in *; auto.
  apply bind_nofault; [apply check_sub_rules_nofault|intros _ _; exact H].
Qed.

Theorem eval_sg_nofault c inits sub_inits argv : nofault (eval_sg false c inits sub_inits argv).
Proof.
  unfold eval_sg, words_sg.
  apply bind_nofault; [|intros st _; apply bind_nofault; [apply final_checks_sg_nofault|intros; cbn; auto]].
  pose proof (first_ok argv) as Hf.
  destruct (first argv) as [[[e i0]|]|?|?]; cbn [bind step_ok nofault] in *; auto.
  destruct Hf. apply loop_sg_nofault; auto.
Qed.

(* ------------------------------------------------------------------ *)
(** * The pinned behaviour: an unknown argument behind the sub-group key was skipped *)

Definition sgx_flag (k : key) : argdef :=
  {| a_key := k; a_kind := DBool; a_vmode := VMNone; a_mand := false; a_multi := false; a_sep := 44%N;
     a_clear := false; a_sort := false; a_uniq := false; a_uniq_err := false; a_checks := []; a_fmts := [];
     a_card := CardMax 1; a_excl := []; a_req := []; a_depr := false; a_mix := false |}.
Definition sgx_cfg : sgcfg :=
  {| sg_main := {| args := [sgx_flag (key_of_char 118%N)]; gcons := []; abbr := true; fixed_notify := true |};
     sg_subs := [(key_of_char 111%N,
                  {| args := [sgx_flag (key_of_char 113%N)]; gcons := []; abbr := true; fixed_notify := true |})];
     sg_rules := [(false, CardNone)] |}.
Definition argv_o_x : list str := [[45; 111]; [45; 120]]%N.          (* -o -x : -x is unknown to everybody *)
Definition argv_o_x_v : list str := [[45; 111]; [45; 120]; [45; 118]]%N.

Lemma pinned_subgroup_refuted :
  is_ok (eval_sg true sgx_cfg [VBool false] [[VBool false]] argv_o_x) = true /\
  eval_sg false sgx_cfg [VBool false] [[VBool false]] argv_o_x = Err EInvalidArgument /\
  (exists st, eval_sg true sgx_cfg [VBool false] [[VBool false]] argv_o_x_v = Ok st /\
              map val (arts (sm st)) = [VBool true]) /\
  eval_sg false sgx_cfg [VBool false] [[VBool false]] argv_o_x_v = Err EInvalidArgument.
Proof.
  split; [vm_compute; reflexivity|]. split; [vm_compute; reflexivity|].
  split; [eexists; split; vm_compute; reflexivity|vm_compute; reflexivity].
Qed.

(* ------------------------------------------------------------------ *)
(** * One key, one argument - plain or sub-group *)

Lemma key_free_spec ks k : key_free ks k = true <->
  Forall (fun k' => key_eq k' k = false /\ key_mismatch k' k = false) ks.
Proof.
  unfold key_free. rewrite forallb_forall, Forall_forall. split; intros H x Hx; specialize (H x Hx).
  - apply andb_true_iff in H. destruct H as [H1 H2]. apply negb_true_iff in H1, H2. auto.
  - destruct H as [-> ->]. reflexivity.
Qed.

Lemma keys_distinct_pair : forall ks k1 k2 l1 l2 l3,
  keys_distinct ks = true -> ks = l1 ++ k1 :: l2 ++ k2 :: l3 ->
  key_eq k1 k2 = false /\ key_mismatch k1 k2 = false.
Proof.
  intros ks k1 k2 l1. revert ks. induction l1 as [|x l1 IH]; intros ks l2 l3 H ->; cbn [app keys_distinct] in H;
    apply andb_true_iff in H; destruct H as [Hf Hd].
  - apply key_free_spec in Hf. rewrite Forall_forall in Hf.
    specialize (Hf k2 ltac:(apply in_or_app; right; left; reflexivity)).
    rewrite key_eq_sym, key_mismatch_sym. exact Hf.
  - eapply IH; eauto.
Qed.

(** with accepted definitions no word of the command line is the exact key
    of a plain argument and of a sub-group argument at the same time *)
Theorem sg_exact_key_one_argument c d ks cs k :
  sg_keys_ok c = true ->
  In d (args (sg_main c)) -> In (ks, cs) (sg_subs c) ->
  ((exists ch, ch <> 0%N /\ k = key_of_char ch) \/ (exists w, w <> [] /\ k = {| kc := 0%N; kw := w |})) ->
  key_eq (a_key d) k = true -> key_eq ks k = true -> False.
Proof.
  unfold sg_keys_ok. intros Hok Hd Hs Hk E1 E2.
  apply in_split in Hd. destruct Hd as (a1 & a2 & Ha).
  apply in_split in Hs. destruct Hs as (s1 & s2 & Hsb).
  assert (Hp : key_eq (a_key d) ks = false /\ key_mismatch (a_key d) ks = false).
  { eapply (keys_distinct_pair _ (a_key d) ks (map a_key a1) (map a_key a2 ++ map fst s1) (map fst s2) Hok).
    rewrite Ha, Hsb, !map_app. cbn [map fst]. repeat rewrite <- app_assoc. cbn [app]. repeat rewrite <- app_assoc. reflexivity. }
  destruct (single_key_unique (a_key d) ks k Hk E1 E2) as [H|H]; destruct Hp; congruence.
Qed.

(** ... and the two kinds of definition may come in any order: the test is symmetric *)
Lemma key_free_sym_pair k1 k2 : key_free [k1] k2 = key_free [k2] k1.
Proof. unfold key_free. cbn [forallb]. rewrite key_eq_sym, key_mismatch_sym. reflexivity. Qed.

Example sg_keys_ok_example : sg_keys_ok sgx_cfg = true.
Proof. vm_compute. reflexivity. Qed.
Example sg_keys_taken_example :
  sg_keys_ok {| sg_main := {| args := [sgx_flag {| kc := 111%N; kw := [111; 117; 116]%N |}]; gcons := []; abbr := true;
                             fixed_notify := true |};
                sg_subs := [(key_of_char 111%N, cfg_nil)]; sg_rules := [] |} = false.
Proof. vm_compute. reflexivity. Qed.

(* ------------------------------------------------------------------ *)
(** * The rules on the sub-group arguments themselves *)

Lemma check_sub_rules_spec : forall rules cnts cals,
  check_sub_rules rules cnts cals = Ok tt ->
  forall j m cd, nth_error rules j = Some (m, cd) -> j < length cnts -> j < length cals ->
    (m = true -> nth j cals false = true) /\ card_end cd (nth j cnts 0%Z) = Ok tt.
Proof.
  induction rules as [|[m0 cd0] rr IH]; intros cnts cals H j m cd Hj Hl1 Hl2; [destruct j; discriminate|].
  destruct cnts as [|n nr]; [cbn in Hl1; lia|]. destruct cals as [|b br]; [cbn in Hl2; lia|].
  cbn [check_sub_rules] in H. destruct (m0 && negb b) eqn:Em; [discriminate|].
  destruct (card_end cd0 n) as [[]|?|?] eqn:Ec; cbn [bind] in H; try discriminate.
  destruct j as [|j]; cbn [nth_error nth] in *.
  - inversion Hj; subst. split; [|exact Ec]. intros ->. cbn [andb] in Em. destruct b; [reflexivity|discriminate].
  - cbn [length] in Hl1, Hl2. eapply IH; eauto; lia.
Qed.

(** a normal return of the evaluation: every mandatory sub-group argument was
    used and the number of uses of each satisfies its cardinality *)
Theorem eval_sg_obeys_sub_rules pinned c inits sub_inits argv st :
  eval_sg pinned c inits sub_inits argv = Ok st ->
  forall j m cd, nth_error (sg_rules c) j = Some (m, cd) -> j < length (scnt st) -> j < length (scal st) ->
    (m = true -> nth j (scal st) false = true) /\ card_end cd (nth j (scnt st) 0%Z) = Ok tt.
Proof.
  unfold eval_sg. intros H.
  destruct (words_sg pinned c (init_sg c inits sub_inits) false argv) as [st1|?|?]; cbn [bind] in H; try discriminate.
  unfold final_checks_sg in H.
  destruct (check_mandatory_card _ _) as [[]|?|?]; cbn [bind] in H; try discriminate.
  destruct (check_sub_rules (sg_rules c) (scnt st1) (scal st1)) as [[]|?|?] eqn:Er; cbn [bind] in H; try discriminate.
  destruct (pend_check_required _) as [[]|?|?]; cbn [bind] in H; try discriminate.
  destruct (gcs_end _ _ _) as [[]|?|?]; cbn [bind] in H; try discriminate.
  inversion H; subst. apply check_sub_rules_spec. exact Er.
Qed.

(** non-vacuity: a mandatory sub-group argument that is not used is refused, used it is accepted *)
Definition sgx_cfg_mand : sgcfg :=
  {| sg_main := sg_main sgx_cfg; sg_subs := sg_subs sgx_cfg; sg_rules := [(true, CardMax 1)] |}.
Example sub_rule_examples :
  eval_sg false sgx_cfg_mand [VBool false] [[VBool false]] [[45; 118]]%N = Err ERuntime /\
  is_ok (eval_sg false sgx_cfg_mand [VBool false] [[VBool false]] [[45; 111]; [45; 113]]%N) = true /\
  eval_sg false sgx_cfg_mand [VBool false] [[VBool false]] [[45; 111]; [45; 111]]%N = Err ERuntime.
Proof. repeat split; vm_compute; reflexivity. Qed.
