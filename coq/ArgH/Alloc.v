(** The two places of the argument evaluation that size a buffer by hand:
    the program-name copies of Handler::readEvalFileArguments /
    checkReadEnvVarArgs and the pointer array of appl::ArgString2Array.
    Sizes as in the source, writes bounds-checked.  No proofs here. *)
From Coq Require Import List NArith Arith.
Import ListNotations.
Require Import Celma.Common.Res Celma.ArgH.Key.

(** new char[ n]; strcpy( copy, arg0) writes strlen + 1 bytes.
    [pinned = true]: n = strlen( arg0) (before "fix: program name copy ...") *)
Definition copy_progname (pinned : bool) (arg0 : str) : res unit :=
  let n := if pinned then length arg0 else length arg0 + 1 in
  if length arg0 + 1 <=? n then Ok tt else Fault OOBWrite.

(** ArgString2Array: new char*[ size + 2] (with program name) resp. [ size + 1];
    copyArguments writes argv[ argc] for argc = first .. first + size - 1 and
    the terminating nullptr at first + size *)
Definition arg_array (with_progname : bool) (nwords : nat) : res nat :=
  let slots := if with_progname then nwords + 2 else nwords + 1 in
  let first := if with_progname then 1 else 0 in
  if first + nwords <? slots then Ok (first + nwords) else Fault OOBWrite.
