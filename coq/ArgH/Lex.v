(** The argument list iterator: mirror of ArgListIterator<T,E>
    (src/celma/prog_args/detail/arg_list_iterator.hpp): constructor,
    operator++, determineNextArg (with the recursion after "--"),
    remArgStrAsVal.  The iterator state keeps the words from the current
    argument index on ([rest]) and the character position in the first of them.
    Every character read is bounds-checked ([rdc]); reading behind the
    terminating NUL is [Fault OOBRead].  No proofs here. *)
From Coq Require Import List NArith Bool Arith.
Import ListNotations.
Require Import Celma.Common.Res Celma.ArgH.Key.

Definition EQSIGN : N := 61%N.
Definition LPAR : N := 40%N.
Definition RPAR : N := 41%N.
Definition BANG : N := 33%N.

Inductive elem :=
| EChar (c : N)        (* single character argument *)
| EStr (s : str)       (* long argument *)
| EVal (v : str)       (* value *)
| ECtl (c : N).        (* control character ( ) ! *)

Record it := { rest : list str; cpos : nat; nextval : bool; dashed : bool }.

(** argv[i][p] : p may be the index of the terminating NUL, not more *)
Definition rdc (w : str) (p : nat) : res N :=
  if p <=? length w then Ok (nth p w 0%N) else Fault OOBRead.

(** &argv[i][p] used as a C string *)
Definition cstr_at (w : str) (p : nat) : res str :=
  if p <=? length w then Ok (skipn p w) else Fault OOBRead.

Definition is_ctrl (c : N) : bool := ceq c LPAR || ceq c RPAR || ceq c BANG.

Definition mk (r : list str) (p : nat) (nv d : bool) : it :=
  {| rest := r; cpos := p; nextval := nv; dashed := d |}.

(** determineNextArg at position [p] of the word [w] (= first of the remaining
    words); [after_dd] is the call of operator++ made after a "--" word *)
Definition determine (after_dd : res (option (elem * it))) (w : str) (ws : list str) (p : nat) (d : bool)
  : res (option (elem * it)) :=
  do c <- rdc w p;
  if ceq c DASH then
    if Nat.eqb (p + 1) (length w) then after_dd
    else
      do name <- cstr_at w (p + 1);
      match index_of EQSIGN name with
      | None => Ok (Some (EStr name, mk ws 0 false d))
      | Some e => Ok (Some (EStr (firstn e name), mk (w :: ws) (p + e + 2) true d))
      end
  else if Nat.eqb (length w) (p + 1) then Ok (Some (EChar c, mk ws 0 false d))
  else Ok (Some (EChar c, mk (w :: ws) (p + 1) false d)).

(** operator++ ; [rem] = remArgStrAsVal() was called on this copy.
    Structural on the remaining words (the recursion after "--" continues
    with the following word). [None] = the end iterator. *)
Fixpoint next_words (ws0 : list str) (cp : nat) (nv d rem : bool) {struct ws0}
  : res (option (elem * it)) :=
  match ws0 with
  | [] => Ok None
  | w :: ws =>
      if nv || (rem && negb (Nat.eqb cp 0)) then
        do v <- cstr_at w cp; Ok (Some (EVal v, mk ws 0 false d))
      else
        let dd := next_words ws 0 false true false in
        if Nat.eqb cp 0 then
          do c0 <- rdc w 0;
          if Nat.eqb (length w) 1 && is_ctrl c0 then Ok (Some (ECtl c0, mk ws 0 false d))
          else if negb (ceq c0 DASH) || d then Ok (Some (EVal w, mk ws 0 false d))
          else if Nat.eqb (length w) 1 then Err EArgument
          else determine dd w ws 1 d
        else determine dd w ws cp d
  end.

Definition next (rem : bool) (s : it) : res (option (elem * it)) :=
  next_words (rest s) (cpos s) (nextval s) (dashed s) rem.

(** the constructor: [words] = argv[1..argc-1]; no control-character test and
    no accept-dashed test for the very first word *)
Definition first (words : list str) : res (option (elem * it)) :=
  match words with
  | [] => Ok None
  | w :: ws =>
      do c0 <- rdc w 0;
      if ceq c0 DASH then
        if Nat.eqb (length w) 1 then Err EArgument
        else determine (next_words ws 0 false true false) w ws 1 false
      else Ok (Some (EVal w, mk ws 0 false false))
  end.
