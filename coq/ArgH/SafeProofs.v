(** C04: the argument list iterator never reads outside a word, and the
    evaluation of any argument vector terminates with a normal return or an
    exception - the model never reaches [Fault]. *)
From Coq Require Import List NArith ZArith Bool Arith Lia.
Import ListNotations.
Require Import Celma.Common.Res Celma.Common.Tactics Celma.ArgH.Key Celma.ArgH.Table Celma.ArgH.TableProofs
               Celma.ArgH.Lex Celma.ArgH.Handler Celma.ArgH.Split Celma.ArgH.Sources Celma.ArgH.Alloc.

Definition nofault {A} (r : res A) : Prop := match r with Fault _ => False | _ => True end.

Lemma bind_nofault {A B} (r : res A) (k : A -> res B) :
  nofault r -> (forall a, r = Ok a -> nofault (k a)) -> nofault (bind r k).
Proof. destruct r; cbn; auto. Qed.

(* ------------------------------------------------------------------ *)
(** * The iterator *)

(** position invariant: inside the current word; after "--name=" the position
    may be that of the terminating NUL (empty value) *)
Definition it_ok (i : it) : Prop :=
  match rest i with
  | [] => True
  | w :: _ => if nextval i then cpos i <= length w else (cpos i = 0 \/ cpos i < length w)
  end.

Definition msize (i : it) : nat := words_size (rest i) - cpos i.

Definition step_ok (before : nat) (r : res (option (elem * it))) : Prop :=
  match r with
  | Fault _ => False
  | Ok (Some (_, i')) => it_ok i' /\ msize i' < before
  | _ => True
  end.

Lemma index_of_lt c : forall s e, index_of c s = Some e -> e < length s.
Proof.
  induction s as [|x r IH]; intros e H; cbn in H; [discriminate|].
  destruct (ceq x c); [inversion H; cbn; lia|].
  destruct (index_of c r) as [e'|]; [|discriminate]. inversion H; subst. cbn.
  specialize (IH e' eq_refl). lia.
Qed.

Lemma words_size_cons w ws : words_size (w :: ws) = S (length w) + words_size ws.
Proof. reflexivity. Qed.

Lemma it_ok_between ws d : it_ok (mk ws 0 false d).
Proof. unfold it_ok, mk. cbn. destruct ws; auto. Qed.

Lemma msize_between ws d : msize (mk ws 0 false d) = words_size ws.
Proof. unfold msize, mk. cbn [rest cpos]. lia. Qed.

Lemma determine_ok dd w ws p d before :
  p < length w -> S (length w) + words_size ws - p <= before ->
  step_ok (words_size ws) dd ->
  step_ok before (determine dd w ws p d).
Proof.
  intros Hp Hb Hdd. unfold determine, rdc.
  destruct (Nat.leb_spec p (length w)); [|lia]. cbn [bind].
  destruct (ceq (nth p w 0%N) DASH).
  - destruct (Nat.eqb_spec (p + 1) (length w)).
    + unfold step_ok in *. destruct dd as [[[e0 i']|]|?|?]; auto. destruct Hdd. split; auto. lia.
    + unfold cstr_at. destruct (Nat.leb_spec (p + 1) (length w)); [|lia]. cbn [bind].
      destruct (index_of EQSIGN (skipn (p + 1) w)) as [e|] eqn:E.
      * apply index_of_lt in E. rewrite skipn_length in E.
        unfold step_ok, it_ok, msize, mk. cbn [rest cpos nextval]. rewrite words_size_cons. split; lia.
      * unfold step_ok. rewrite msize_between. split; [apply it_ok_between|lia].
  - destruct (Nat.eqb_spec (length w) (p + 1)).
    + unfold step_ok. rewrite msize_between. split; [apply it_ok_between|lia].
    + unfold step_ok, it_ok, msize, mk. cbn [rest cpos nextval]. rewrite words_size_cons. split; [right|]; lia.
Qed.

(** operator++ from any state that satisfies the invariant: never a read
    outside a word, the invariant is kept, and the remaining input shrinks *)
Lemma next_words_ok : forall ws cp nv d rem,
  it_ok (mk ws cp nv d) -> step_ok (msize (mk ws cp nv d)) (next_words ws cp nv d rem).
Proof.
  induction ws as [|w ws IH]; intros cp nv d rem Hok; [cbn; auto|].
  unfold it_ok, mk in Hok. cbn [rest cpos nextval] in Hok.
  unfold msize, mk. cbn [rest cpos]. rewrite words_size_cons. cbn [next_words].
  assert (Hdd : step_ok (words_size ws) (next_words ws 0 false true false)).
  { specialize (IH 0 false true false (it_ok_between ws true)). rewrite msize_between in IH. exact IH. }
  destruct (nv || rem && negb (Nat.eqb cp 0)) eqn:E1.
  - assert (Hcp : cp <= length w).
    { destruct nv; [exact Hok|]. cbn in E1. apply andb_true_iff in E1. destruct E1 as [_ E1].
      apply negb_true_iff, Nat.eqb_neq in E1. destruct Hok; lia. }
    unfold cstr_at. destruct (Nat.leb_spec cp (length w)); [|lia]. cbn [bind].
    unfold step_ok. rewrite msize_between. split; [apply it_ok_between|lia].
  - assert (Hnv : nv = false) by (destruct nv; [discriminate|reflexivity]). subst nv.
    destruct (Nat.eqb_spec cp 0) as [H0|H0].
    + subst cp. unfold rdc. cbn [Nat.leb bind].
      destruct (Nat.eqb (length w) 1 && is_ctrl (nth 0 w 0%N)).
      { unfold step_ok. rewrite msize_between. split; [apply it_ok_between|lia]. }
      destruct (negb (ceq (nth 0 w 0%N) DASH) || d) eqn:E2.
      { unfold step_ok. rewrite msize_between. split; [apply it_ok_between|lia]. }
      destruct (Nat.eqb_spec (length w) 1); [cbn; auto|].
      assert (Hl : 2 <= length w).
      { apply orb_false_iff in E2. destruct E2 as [E2 _]. apply negb_false_iff, ceq_true in E2.
        destruct w as [|x [|y r]]; cbn in *; try lia. discriminate. }
      apply determine_ok; auto; lia.
    + destruct Hok as [Hok|Hok]; [lia|]. apply determine_ok; auto; lia.
Qed.

Lemma next_ok rem i : it_ok i -> step_ok (msize i) (next rem i).
Proof. intros H. unfold next. destruct i as [r p nv d]. apply (next_words_ok r p nv d rem H). Qed.

Lemma first_ok words : step_ok (words_size words) (first words).
Proof.
  unfold first. destruct words as [|w ws]; [cbn; auto|].
  unfold rdc. cbn [Nat.leb bind]. rewrite words_size_cons.
  destruct (ceq (nth 0 w 0%N) DASH) eqn:E.
  - destruct (Nat.eqb_spec (length w) 1); [cbn; auto|].
    assert (Hl : 2 <= length w).
    { apply ceq_true in E. destruct w as [|x [|y r]]; cbn in *; try lia. discriminate. }
    apply determine_ok; auto; try lia.
    pose proof (next_words_ok ws 0 false true false (it_ok_between ws true)) as H.
    rewrite msize_between in H. exact H.
  - unfold step_ok. rewrite msize_between. split; [apply it_ok_between|lia].
Qed.

(* ------------------------------------------------------------------ *)
(** * The handler never faults by itself *)

Ltac nofault_ifs :=
  repeat match goal with
  | |- nofault (if ?b then _ else _) => destruct b
  | |- nofault (Ok _) => exact I
  | |- nofault (Err _) => exact I
  end.

Lemma remove_dashes_nofault s : nofault (remove_dashes s).
Proof. unfold remove_dashes. nofault_ifs. Qed.

Lemma parse_key_nofault s : nofault (parse_key s).
Proof.
  unfold parse_key. destruct s as [|x r]; [exact I|].
  destruct (str_eqb (x :: r) [COMMA]); [exact I|].
  destruct (mem SPACE (x :: r)); [exact I|].
  destruct (index_of COMMA (x :: r)) as [p|].
  - destruct (index_of COMMA (skipn (p + 1) (x :: r))); [exact I|].
    apply bind_nofault; [apply remove_dashes_nofault|intros sb _].
    apply bind_nofault; [apply remove_dashes_nofault|intros se _].
    nofault_ifs.
  - nofault_ifs.
Qed.

Lemma find_arg_scan_nofault {A} abbr (t : @table A) k : forall part amb, nofault (find_arg_scan abbr t k part amb).
Proof.
  induction t as [|[k' a] r IH]; intros part amb; cbn.
  - destruct amb; cbn; auto.
  - destruct (key_eq k' k); cbn; auto. destruct (abbr && key_starts_with k' k); auto. destruct part; auto.
Qed.

Lemma lookup_nofault c k : nofault (lookup c k).
Proof. unfold lookup, find_arg. apply find_arg_scan_nofault. Qed.

Lemma lex_int_nofault s : nofault (lex_int s).
Proof. unfold lex_int. destruct (parse_int s); cbn; auto. Qed.

Lemma run_check_nofault c s : nofault (run_check c s).
Proof.
  destruct c; cbn; try (destruct (lex_int s) eqn:E; cbn; auto;
    [repeat match goal with |- context [if ?b then _ else _] => destruct b; cbn; auto end
    |pose proof (lex_int_nofault s) as H; rewrite E in H; exact H]).
  all: match goal with |- context [if ?b then _ else _] => destruct b; cbn; auto end.
Qed.

Lemma run_checks_nofault cs s : nofault (run_checks cs s).
Proof.
  induction cs as [|c r IH]; cbn; auto. apply bind_nofault; [apply run_check_nofault|intros; exact IH].
Qed.

Lemma card_got_nofault c n : nofault (card_got c n).
Proof. destruct c; cbn; auto; repeat match goal with |- context [if ?b then _ else _] => destruct b; cbn; auto end. Qed.

Lemma card_end_nofault c n : nofault (card_end c n).
Proof. destruct c; cbn; auto; repeat match goal with |- context [if ?b then _ else _] => destruct b; cbn; auto end. Qed.

Lemma assign_tokens_int_nofault d : forall toks first cnt0 acc, nofault (assign_tokens_int d toks first cnt0 acc).
Proof.
  induction toks as [|t r IH]; intros first cnt0 acc; cbn [assign_tokens_int]; [cbn; auto|].
  apply bind_nofault; [destruct first; [cbn; auto|apply card_got_nofault]|intros c1 _].
  apply bind_nofault; [apply run_checks_nofault|intros _ _].
  apply bind_nofault; [apply lex_int_nofault|intros v _].
  destruct (a_uniq d && z_in v acc); [destruct (a_uniq_err d); [cbn; auto|apply IH]|apply IH].
Qed.

Lemma assign_tokens_str_nofault d : forall toks first cnt0 acc, nofault (assign_tokens_str d toks first cnt0 acc).
Proof.
  induction toks as [|t r IH]; intros first cnt0 acc; cbn [assign_tokens_str]; [cbn; auto|].
  apply bind_nofault; [destruct first; [cbn; auto|apply card_got_nofault]|intros c1 _].
  apply bind_nofault; [apply run_checks_nofault|intros _ _].
  destruct (a_uniq d && str_in _ acc); [destruct (a_uniq_err d); [cbn; auto|apply IH]|apply IH].
Qed.

Lemma assign_nofault d a v : nofault (assign d a v).
Proof.
  unfold assign. destruct (a_kind d); cbn [nofault]; auto.
  - apply bind_nofault; [apply run_checks_nofault|intros _ _].
    apply bind_nofault; [apply lex_int_nofault|intros; cbn; auto].
  - apply bind_nofault; [apply run_checks_nofault|intros; cbn; auto].
  - apply bind_nofault; [apply run_checks_nofault|intros _ _].
    apply bind_nofault; [apply lex_int_nofault|intros; cbn; auto].
  - apply bind_nofault; [apply assign_tokens_int_nofault|intros [c1 l] _; cbn; auto].
  - apply bind_nofault; [apply assign_tokens_str_nofault|intros [c1 l] _; cbn; auto].
  - destruct (match val a with VLevel z b => (z, b) | _ => (0%Z, false) end) as [z set].
    destruct v as [|x r].
    + destruct (set && negb (a_mix d)); [exact I|].
      apply bind_nofault; [|intros; cbn; auto].
      generalize (z + 1)%Z. intros n. induction (a_checks d) as [|c cr IH]; cbn; auto.
      apply bind_nofault; [|intros; exact IH].
      destruct c; cbn; auto; repeat match goal with |- context [if ?b then _ else _] => destruct b; cbn; auto end.
    + destruct (negb (a_mix d) && hasval a); [exact I|].
      apply bind_nofault; [apply run_checks_nofault|intros _ _].
      apply bind_nofault; [apply lex_int_nofault|intros; cbn; auto].
Qed.

Lemma pend_identified_nofault p k : nofault (pend_identified p k).
Proof.
  induction p as [|[ck ek] r IH]; cbn; auto.
  destruct (key_eq ek k); [destruct ck; cbn; auto|].
  apply bind_nofault; [exact IH|intros; cbn; auto].
Qed.

Lemma gcs_exec_nofault gs : forall ss k, nofault (gcs_exec gs ss k).
Proof.
  induction gs as [|g gr IH]; intros [|s sr] k; cbn; auto.
  apply bind_nofault.
  - destruct g, s; cbn; auto; repeat match goal with |- context [if ?b then _ else _] => destruct b; cbn; auto end.
  - intros s' _. apply bind_nofault; [apply IH|intros; cbn; auto].
Qed.

Lemma assign_value_nofault c s i ic v : nofault (assign_value c s i ic v).
Proof.
  unfold assign_value. destruct (a_depr _); cbn [nofault]; auto.
  apply bind_nofault; [destruct ic; [cbn; auto|apply card_got_nofault]|intros n1 _].
  destruct (inv s); cbn [nofault]; auto.
  apply bind_nofault; [apply assign_nofault|intros; cbn; auto].
Qed.

Lemma handle_identified_nofault c s i k ic v : nofault (handle_identified c s i k ic v).
Proof.
  unfold handle_identified.
  apply bind_nofault; [apply pend_identified_nofault|intros p1 _].
  apply bind_nofault; [apply gcs_exec_nofault|intros g1 _].
  apply bind_nofault; [apply assign_value_nofault|intros; cbn; auto].
Qed.

(** one element: no fault, and the iterator handed back satisfies the
    invariant and is not behind the one handed in *)
Definition single_ok (i0 : it) (r : res (ares * hstate * it)) : Prop :=
  match r with
  | Fault _ => False
  | Ok (_, _, i1) => it_ok i1 /\ msize i1 <= msize i0
  | Err _ => True
  end.

Lemma process_arg_ok c s ic k cur : it_ok cur -> single_ok cur (process_arg c s ic k cur).
Proof.
  intros Hok. unfold process_arg.
  pose proof (lookup_nofault c k) as Hl. destruct (lookup c k) as [[i|]|?|?]; cbn [bind single_ok] in *; auto.
  destruct (a_vmode (nth i (args c) dummy_def)) eqn:Ev.
  - pose proof (handle_identified_nofault c
      {| arts := arts s; pend := pend s; gsts := gsts s; last := Some i; inv := inv s |} i k ic []) as Hh.
    destruct (handle_identified _ _ _ _ _ _); cbn [bind single_ok] in *; auto.
  - pose proof (next_ok false cur Hok) as Hn.
    destruct (next false cur) as [[[e i2]|]|?|?]; cbn [bind step_ok] in *; auto.
    + destruct e; match goal with |- context [handle_identified ?c ?s ?i ?k ?ic ?v] =>
        pose proof (handle_identified_nofault c s i k ic v) as Hh;
        destruct (handle_identified c s i k ic v) end; cbn [bind single_ok] in *; auto; destruct Hn; split; auto; lia.
    + match goal with |- context [handle_identified ?c ?s ?i ?k ?ic ?v] =>
        pose proof (handle_identified_nofault c s i k ic v) as Hh;
        destruct (handle_identified c s i k ic v) end; cbn [bind single_ok] in *; auto.
  - pose proof (next_ok true cur Hok) as Hn.
    destruct (next true cur) as [[[e i2]|]|?|?]; cbn [bind step_ok] in *; auto.
    destruct e; cbn [single_ok]; auto.
    match goal with |- context [handle_identified ?c ?s ?i ?k ?ic ?v] =>
        pose proof (handle_identified_nofault c s i k ic v) as Hh;
        destruct (handle_identified c s i k ic v) end; cbn [bind single_ok] in *; auto. destruct Hn; split; auto; lia.
Qed.

Lemma eval_single_ok c s ic e cur : it_ok cur -> single_ok cur (eval_single c s ic e cur).
Proof.
  intros Hok. unfold eval_single. destruct e as [ch|w|v|ch].
  - apply process_arg_ok. exact Hok.
  - pose proof (parse_key_nofault w) as Hp. destruct (parse_key w); cbn [bind single_ok] in *; auto.
    apply process_arg_ok. exact Hok.
  - assert (Hpos : single_ok cur
        (do r <- lookup c POSKEY;
         match r with
         | Some j => do s2 <- handle_identified c s j POSKEY ic v; Ok (AConsumed, s2, cur)
         | None => Ok (AUnknown, s, cur)
         end)).
    { pose proof (lookup_nofault c POSKEY) as Hl.
      destruct (lookup c POSKEY) as [[j|]|?|?]; cbn [bind single_ok] in *; auto.
      pose proof (handle_identified_nofault c s j POSKEY ic v) as Hh.
      destruct (handle_identified c s j POSKEY ic v); cbn [bind single_ok] in *; auto. }
    destruct (last s) as [i|]; [|exact Hpos].
    destruct (a_multi (nth i (args c) dummy_def)); [|exact Hpos].
    pose proof (assign_value_nofault c s i ic v) as Ha.
    destruct (assign_value c s i ic v); cbn [bind single_ok] in *; auto.
  - destruct (ceq ch BANG); cbn [single_ok]; auto.
Qed.

(** the handler loop: with fuel above the remaining input it never runs dry *)
Lemma iterate_nofault c ic : forall fuel s e i0,
  it_ok i0 -> msize i0 < fuel -> nofault (iterate fuel c s ic (Some (e, i0))).
Proof.
  induction fuel as [|f IH]; intros s e i0 Hok Hm; [lia|].
  cbn [iterate]. pose proof (eval_single_ok c s ic e i0 Hok) as Hs.
  destruct (eval_single c s ic e i0) as [[[a s1] i1]|?|?]; cbn [bind single_ok nofault] in *; auto.
  destruct Hs as [Hok1 Hm1]. destruct a; cbn [nofault]; auto.
  pose proof (next_ok false i1 Hok1) as Hn.
  destruct (next false i1) as [[[e2 i2]|]|?|?]; cbn [bind step_ok nofault] in *; auto.
  - destruct Hn. apply IH; auto. lia.
  - destruct f; cbn; auto.
Qed.

Lemma eval_words_nofault c s ic words : nofault (eval_words c s ic words).
Proof.
  unfold eval_words. pose proof (first_ok words) as Hf.
  destruct (first words) as [[[e i0]|]|?|?]; cbn [bind step_ok nofault] in *; auto.
  destruct Hf. apply iterate_nofault; auto.
Qed.

Lemma eval_lines_nofault c : forall lines s, nofault (eval_lines c s lines).
Proof.
  induction lines as [|l r IH]; intros s; cbn; auto.
  apply bind_nofault; [apply eval_words_nofault|intros; apply IH].
Qed.

Lemma final_checks_nofault c s : nofault (final_checks c s).
Proof.
  unfold final_checks.
  apply bind_nofault.
  - generalize (arts s). induction (args c) as [|d dr IH]; intros [|a ar]; cbn; auto.
    destruct (a_mand d && negb (hasval a)); cbn; auto.
    apply bind_nofault; [apply card_end_nofault|intros; apply IH].
  - intros _ _. apply bind_nofault.
    + unfold pend_check_required. destruct (existsb _ _); cbn; auto.
    + intros _ _. generalize (gsts s). induction (gcons c) as [|g gr IH]; intros [|x xr]; cbn; auto.
      apply bind_nofault; [|intros; apply IH].
      destruct g, x; cbn; auto; try (destruct remaining; cbn; auto); try (destruct used; cbn; auto);
        match goal with |- nofault (if ?b then _ else _) => destruct b; cbn; auto end.
Qed.

(** Evaluation of ANY argument vector, with any argument file lines and any
    environment words, for any configuration: a normal return or an exception,
    never an access outside a word, never an endless loop. *)
Theorem eval_arguments_nofault c inits lines env argv : nofault (eval_arguments c inits lines env argv).
Proof.
  unfold eval_arguments.
  apply bind_nofault; [apply eval_lines_nofault|intros s1 _].
  apply bind_nofault; [destruct env; [apply eval_words_nofault|cbn; auto]|intros s2 _].
  apply bind_nofault; [apply eval_words_nofault|intros s3 _].
  apply bind_nofault; [apply final_checks_nofault|intros; cbn; auto].
Qed.

Theorem eval_sources_nofault c inits file env argv : nofault (eval_sources c inits file env argv).
Proof. unfold eval_sources. apply eval_arguments_nofault. Qed.

(* ------------------------------------------------------------------ *)
(** * Hand-sized buffers *)

Lemma copy_progname_spec arg0 : copy_progname false arg0 = Ok tt /\ copy_progname true arg0 = Fault OOBWrite.
Proof.
  unfold copy_progname. split.
  - destruct (Nat.leb_spec (length arg0 + 1) (length arg0 + 1)); [reflexivity|lia].
  - destruct (Nat.leb_spec (length arg0 + 1) (length arg0)); [lia|reflexivity].
Qed.

Lemma arg_array_nofault wp n : nofault (arg_array wp n).
Proof.
  unfold arg_array. destruct wp.
  - destruct (Nat.ltb_spec (1 + n) (n + 2)); [exact I|lia].
  - destruct (Nat.ltb_spec (0 + n) (n + 1)); [exact I|lia].
Qed.
