(** The argument table: mirror of Storage<T,E>::addArgument
    (src/celma/prog_args/detail/storage.hpp) and ArgumentContainer::findArg
    (src/library/prog_args/detail/argument_container.cpp).  No proofs here. *)
From Coq Require Import List NArith Bool Arith.
Import ListNotations.
Require Import Celma.Common.Res Celma.ArgH.Key.

Section Table.
Context {A : Type}.

Definition table := list (key * A).

(** Storage::addArgument (duplicates not allowed): scan in order, first
    offending entry decides; then push_back *)
Fixpoint add_scan (t : table) (k : key) : res unit :=
  match t with
  | [] => Ok tt
  | (k', _) :: r =>
      if key_eq k' k then Err EInvalidArgument
      else if key_mismatch k' k then Err EInvalidArgument
      else add_scan r k
  end.

Definition add_argument (t : table) (k : key) (a : A) : res table :=
  do _ <- add_scan t k; Ok (t ++ [(k, a)]).

(** ArgumentContainer::findArg as in the pinned source: one pass; an exact
    match returns at once; a second prefix match throws at once *)
Fixpoint find_arg_pinned (abbr : bool) (t : table) (k : key) (part : option A) : res (option A) :=
  match t with
  | [] => Ok part
  | (k', a) :: r =>
      if key_eq k' k then Ok (Some a)
      else if abbr && key_starts_with k' k then
        match part with
        | None => find_arg_pinned abbr r k (Some a)
        | Some _ => Err ERuntime
        end
      else find_arg_pinned abbr r k part
  end.

(** findArg after the repair (fix: finish the scan before judging prefixes):
    an exact match anywhere in the table wins; ambiguity is reported only when
    no exact match exists *)
Fixpoint find_arg_scan (abbr : bool) (t : table) (k : key) (part : option A) (amb : bool)
  : res (option A) :=
  match t with
  | [] => if amb then Err ERuntime else Ok part
  | (k', a) :: r =>
      if key_eq k' k then Ok (Some a)
      else if abbr && key_starts_with k' k then
        match part with
        | None => find_arg_scan abbr r k (Some a) amb
        | Some _ => find_arg_scan abbr r k part true
        end
      else find_arg_scan abbr r k part amb
  end.

Definition find_arg (abbr : bool) (t : table) (k : key) : res (option A) :=
  find_arg_scan abbr t k None false.

End Table.
