(** C08: a handler whose arguments and constraints fall into two independent
    blocks evaluates a line of uses exactly as the two blocks evaluate their
    own parts of it.  (Step towards "group = ONE handler owning all
    arguments": GroupsMerge.v.)

    merge2 c1 c2 owns the arguments of c1 followed by those of c2.  The
    constraint container of the merged handler is an interleaving (Shuffle) of
    the containers of the blocks. *)
From Coq Require Import List NArith ZArith Bool Arith Lia.
Import ListNotations.
Require Import Celma.Common.Res Celma.Common.ListX Celma.Common.Tactics
               Celma.ArgH.Key Celma.ArgH.Table Celma.ArgH.TableProofs Celma.ArgH.Lex Celma.ArgH.Handler
               Celma.ArgH.HandlerProofs Celma.ArgH.Spell Celma.ArgH.UseProofs Celma.ArgH.RulesProofs.

(* ------------------------------------------------------------------ *)
(** * Interleavings *)

Inductive Shuffle {A : Type} : list A -> list A -> list A -> Prop :=
| sh_nil : Shuffle [] [] []
| sh_l : forall x l1 l2 l, Shuffle l1 l2 l -> Shuffle (x :: l1) l2 (x :: l)
| sh_r : forall x l1 l2 l, Shuffle l1 l2 l -> Shuffle l1 (x :: l2) (x :: l).

Lemma shuffle_nil_l {A} (l : list A) : Shuffle [] l l.
Proof. induction l; constructor; auto. Qed.

Lemma shuffle_nil_r {A} (l : list A) : Shuffle l [] l.
Proof. induction l; constructor; auto. Qed.

Lemma shuffle_sym {A} (l1 l2 l : list A) : Shuffle l1 l2 l -> Shuffle l2 l1 l.
Proof. induction 1; constructor; auto. Qed.

Lemma shuffle_app_l {A} (x : A) l1 l2 l : Shuffle l1 l2 l -> Shuffle (l1 ++ [x]) l2 (l ++ [x]).
Proof. induction 1; cbn [app]; try (constructor; assumption). apply sh_l. constructor. Qed.

Lemma shuffle_find {A} (f : A -> bool) l1 l2 l :
  Shuffle l1 l2 l -> (forall e, In e l2 -> f e = false) -> find f l = find f l1.
Proof.
  induction 1 as [|x l1 l2 l H IH|x l1 l2 l H IH]; intros Hn; cbn [find]; auto.
  - rewrite IH by assumption. reflexivity.
  - rewrite (Hn x) by (left; reflexivity). apply IH. intros e He. apply Hn. right. exact He.
Qed.

Lemma shuffle_existsb {A} (f : A -> bool) l1 l2 l :
  Shuffle l1 l2 l -> existsb f l = existsb f l1 || existsb f l2.
Proof.
  induction 1 as [|x l1 l2 l H IH|x l1 l2 l H IH]; cbn [existsb]; auto; rewrite IH.
  - rewrite orb_assoc. reflexivity.
  - destruct (f x), (existsb f l1); reflexivity.
Qed.

Lemma shuffle_in {A} (e : A) l1 l2 l : Shuffle l1 l2 l -> In e l -> In e l1 \/ In e l2.
Proof.
  induction 1 as [|x l1 l2 l H IH|x l1 l2 l H IH]; cbn [In]; intros Hi; auto.
  - destruct Hi as [->|Hi]; [left; left; reflexivity|]. destruct (IH Hi); auto.
  - destruct Hi as [->|Hi]; [right; left; reflexivity|]. destruct (IH Hi); auto.
Qed.

(* ------------------------------------------------------------------ *)
(** * The pending container over an interleaving *)

Definition nomatch (p : list (ckind * key)) (k : key) : Prop := forall e, In e p -> key_eq (snd e) k = false.

Lemma pend_identified_shuffle_ok p1 p2 p k : Shuffle p1 p2 p -> nomatch p2 k ->
  forall p1', pend_identified p1 k = Ok p1' -> exists p', pend_identified p k = Ok p' /\ Shuffle p1' p2 p'.
Proof.
  induction 1 as [|[ck ek] l1 l2 l H IH|[ck ek] l1 l2 l H IH]; intros Hn p1' H1; cbn [pend_identified] in *.
  - inversion H1; subst. exists []. split; [reflexivity|constructor].
  - destruct (key_eq ek k).
    + destruct ck; [apply IH; assumption|discriminate].
    + destruct (pend_identified l1 k) as [r1|?|?] eqn:E; cbn [bind] in H1; try discriminate.
      inversion H1; subst. destruct (IH Hn r1 eq_refl) as (p' & Hp & Hs). rewrite Hp. cbn [bind].
      eexists. split; [reflexivity|]. constructor. exact Hs.
  - pose proof (Hn (ck, ek) (or_introl eq_refl)) as Hx. cbn [snd] in Hx. rewrite Hx.
    destruct (IH (fun e He => Hn e (or_intror He)) p1' H1) as (p' & Hp & Hs). rewrite Hp. cbn [bind].
    eexists. split; [reflexivity|]. constructor. exact Hs.
Qed.

Lemma pend_identified_shuffle_err p1 p2 p k : Shuffle p1 p2 p -> nomatch p2 k ->
  forall e, pend_identified p1 k = Err e -> pend_identified p k = Err e.
Proof.
  induction 1 as [|[ck ek] l1 l2 l H IH|[ck ek] l1 l2 l H IH]; intros Hn e H1; cbn [pend_identified] in *.
  - discriminate.
  - destruct (key_eq ek k).
    + destruct ck; [apply IH; assumption|exact H1].
    + destruct (pend_identified l1 k) as [r1|?|?] eqn:E; cbn [bind] in H1; try discriminate.
      inversion H1; subst. rewrite (IH Hn _ eq_refl). reflexivity.
  - pose proof (Hn (ck, ek) (or_introl eq_refl)) as Hx. cbn [snd] in Hx. rewrite Hx.
    rewrite (IH (fun e0 He => Hn e0 (or_intror He)) e H1). reflexivity.
Qed.

Lemma pend_identified_nofault p k : forall f, pend_identified p k <> Fault f.
Proof.
  induction p as [|[ck ek] r IH]; intros f; cbn [pend_identified]; [discriminate|].
  destruct (key_eq ek k); [destruct ck; [apply IH|discriminate]|].
  destruct (pend_identified r k) as [?|?|f0] eqn:E; cbn [bind]; try discriminate. exfalso. apply (IH f0). reflexivity.
Qed.

Lemma pend_add_shuffle p1 p2 p ck s : Shuffle p1 p2 p -> nomatch p2 s ->
  Shuffle (pend_add p1 ck s) p2 (pend_add p ck s).
Proof.
  intros Hs Hn. unfold pend_add. rewrite (shuffle_find (fun e => key_eq (snd e) s) p1 p2 p Hs Hn).
  destruct (find _ p1) as [[k0 e0]|]; [destruct (ckind_eqb k0 ck)|]; auto; apply shuffle_app_l; exact Hs.
Qed.

Lemma fold_pend_add_shuffle p2 ck ks : forall p1 p,
  Shuffle p1 p2 p -> (forall s, In s ks -> nomatch p2 s) ->
  Shuffle (fold_left (fun acc k => pend_add acc ck k) ks p1) p2 (fold_left (fun acc k => pend_add acc ck k) ks p).
Proof.
  induction ks as [|s r IH]; intros p1 p Hs Hn; cbn [fold_left]; auto.
  apply IH; [apply pend_add_shuffle; auto; apply Hn; left; reflexivity|].
  intros s' Hs'. apply Hn. right. exact Hs'.
Qed.

Lemma activate_shuffle d p1 p2 p :
  Shuffle p1 p2 p -> (forall s, In s (a_excl d ++ a_req d) -> nomatch p2 s) ->
  Shuffle (activate d p1) p2 (activate d p).
Proof.
  intros Hs Hn. unfold activate. apply fold_pend_add_shuffle.
  - apply fold_pend_add_shuffle; auto. intros s Hi. apply Hn. apply in_or_app. left. exact Hi.
  - intros s Hi. apply Hn. apply in_or_app. right. exact Hi.
Qed.

Lemma pend_identified_specs c p k p' : pend_specs c p -> pend_identified p k = Ok p' -> pend_specs c p'.
Proof.
  intros Hp H. destruct (pend_identified_spec p k p' H) as (_ & Hin & _).
  unfold pend_specs in *. rewrite Forall_forall in *. intros e He. apply Hp. apply Hin. exact He.
Qed.

Lemma activate_specs c i p : pend_specs c p -> i < length (args c) -> pend_specs c (activate (argdef_of c i) p).
Proof.
  intros Hp Hi. unfold activate. apply fold_pend_add_specs.
  - apply fold_pend_add_specs; auto. intros x Hx. eapply spec_keys_excl; eauto.
  - intros x Hx. eapply spec_keys_req; eauto.
Qed.

(* ------------------------------------------------------------------ *)
(** * Handler constraints over concatenated lists *)

Lemma gcs_exec_app g1 : forall t1 g2 t2 k, length t1 = length g1 ->
  gcs_exec (g1 ++ g2) (t1 ++ t2) k = do r1 <- gcs_exec g1 t1 k; do r2 <- gcs_exec g2 t2 k; Ok (r1 ++ r2).
Proof.
  induction g1 as [|g gr IH]; intros [|t tr] g2 t2 k Hl; cbn [length] in Hl; try discriminate.
  - cbn [app gcs_exec bind]. destruct (gcs_exec g2 t2 k); reflexivity.
  - cbn [app gcs_exec]. destruct (gc_exec g t k) as [t'|?|?]; cbn [bind]; auto.
    rewrite (IH tr g2 t2 k) by lia.
    destruct (gcs_exec gr tr k) as [r1|?|?]; cbn [bind]; auto.
    destruct (gcs_exec g2 t2 k); reflexivity.
Qed.

Definition gcon_keys (g : gcon) : list key :=
  match g with GCAll ks | GCAny ks | GCOne ks => ks | _ => [] end.

Lemma gc_exec_other g t k : in_keys (gcon_keys g) k = false -> gc_exec g t k = Ok t.
Proof.
  intros H. destruct g, t; cbn [gc_exec gcon_keys] in *; try reflexivity; rewrite H; reflexivity.
Qed.

Lemma gcs_exec_other gs : forall ts k, length ts = length gs ->
  (forall g, In g gs -> in_keys (gcon_keys g) k = false) -> gcs_exec gs ts k = Ok ts.
Proof.
  induction gs as [|g gr IH]; intros [|t tr] k Hl Hn; cbn [length] in Hl; try discriminate; [reflexivity|].
  cbn [gcs_exec]. rewrite (gc_exec_other g t k) by (apply Hn; left; reflexivity). cbn [bind].
  rewrite (IH tr k) by (try lia; intros g' Hg; apply Hn; right; exact Hg). reflexivity.
Qed.

Lemma gcs_exec_length gs : forall ts k r, gcs_exec gs ts k = Ok r -> length ts = length gs -> length r = length gs.
Proof.
  induction gs as [|g gr IH]; intros [|t tr] k r H Hl; cbn [length] in Hl; try discriminate; cbn [gcs_exec] in H.
  - inversion H; reflexivity.
  - destruct (gc_exec g t k); cbn [bind] in H; try discriminate.
    destruct (gcs_exec gr tr k) as [r1|?|?] eqn:E; cbn [bind] in H; try discriminate.
    inversion H; subst. cbn [length]. rewrite (IH tr k r1 E) by lia. reflexivity.
Qed.

(** no value constraints (differ / disjoint): their end conditions address the
    arguments by position *)
Definition key_con (g : gcon) : bool := match g with GCAll _ | GCAny _ | GCOne _ => true | _ => false end.

Lemma gc_end_arts as1 as2 g t : key_con g = true -> gc_end as1 g t = gc_end as2 g t.
Proof. destruct g; cbn; try discriminate; reflexivity. Qed.

Lemma gcs_end_arts as1 as2 gs : forall ts, forallb key_con gs = true -> gcs_end as1 gs ts = gcs_end as2 gs ts.
Proof.
  induction gs as [|g gr IH]; intros [|t tr] H; try reflexivity. cbn [forallb] in H. apply andb_prop in H.
  destruct H as (Hg & Hr). cbn [gcs_end]. rewrite (gc_end_arts as1 as2 g t Hg), (IH tr Hr). reflexivity.
Qed.

Lemma gcs_end_app as_ g1 : forall t1 g2 t2, length t1 = length g1 ->
  gcs_end as_ (g1 ++ g2) (t1 ++ t2) = do _ <- gcs_end as_ g1 t1; gcs_end as_ g2 t2.
Proof.
  induction g1 as [|g gr IH]; intros [|t tr] g2 t2 Hl; cbn [length] in Hl; try discriminate; [reflexivity|].
  cbn [app gcs_end]. destruct (gc_end as_ g t) as [[]|?|?]; cbn [bind]; auto; try (apply IH; lia).
Qed.

Lemma check_mandatory_card_app d1 : forall a1 d2 a2, length a1 = length d1 ->
  check_mandatory_card (d1 ++ d2) (a1 ++ a2) = do _ <- check_mandatory_card d1 a1; check_mandatory_card d2 a2.
Proof.
  induction d1 as [|d dr IH]; intros [|a ar] d2 a2 Hl; cbn [length] in Hl; try discriminate; [reflexivity|].
  cbn [app check_mandatory_card]. destruct (a_mand d && negb (hasval a)); [reflexivity|].
  destruct (card_end (a_card d) (cnt a)) as [[]|?|?]; cbn [bind]; auto; try (apply IH; lia).
Qed.

(* ------------------------------------------------------------------ *)
(** * List surgery at an offset *)

Lemma upd_app_l {A} (l1 l2 : list A) i x : i < length l1 -> upd (l1 ++ l2) i x = upd l1 i x ++ l2.
Proof.
  intros H. unfold upd. rewrite app_length.
  destruct (Nat.ltb_spec i (length l1 + length l2)); [|lia]. destruct (Nat.ltb_spec i (length l1)); [|lia].
  rewrite firstn_app, skipn_app. replace (i - length l1) with 0 by lia. replace (S i - length l1) with 0 by lia.
  cbn [firstn skipn]. rewrite app_nil_r, <- app_assoc. reflexivity.
Qed.

Lemma upd_app_r {A} (l1 l2 : list A) j x : upd (l1 ++ l2) (length l1 + j) x = l1 ++ upd l2 j x.
Proof.
  unfold upd. rewrite app_length.
  destruct (Nat.ltb_spec j (length l2)); destruct (Nat.ltb_spec (length l1 + j) (length l1 + length l2)); try lia;
    [|reflexivity].
  rewrite firstn_app, skipn_app. rewrite firstn_all2 by lia. rewrite skipn_all2 by lia.
  replace (length l1 + j - length l1) with j by lia. replace (S (length l1 + j) - length l1) with (S j) by lia.
  cbn [app]. rewrite <- app_assoc. reflexivity.
Qed.

Lemma upd_length {A} (l : list A) i x : length (upd l i x) = length l.
Proof.
  unfold upd. destruct (Nat.ltb_spec i (length l)); [|reflexivity].
  rewrite app_length, firstn_length. cbn [length]. rewrite skipn_length. lia.
Qed.

(* ------------------------------------------------------------------ *)
(** * Two blocks *)

Definition merge2 (c1 c2 : cfg) : cfg :=
  {| args := args c1 ++ args c2; gcons := gcons c1 ++ gcons c2; abbr := abbr c1; fixed_notify := true |}.

Definition arg_keys (c : cfg) : list key := map a_key (args c).
Definition all_spec_keys (c : cfg) : list key := spec_keys c ++ flat_map gcon_keys (gcons c).

(** [c2] does not refer to [c1]: no specification key of c2 (requires /
    excludes lists, handler constraint lists) designates an argument of c1 or
    coincides with a specification key of c1 *)
Definition apart (c1 c2 : cfg) : Prop :=
  (forall k2 k1, In k2 (all_spec_keys c2) -> In k1 (arg_keys c1) -> key_eq k2 k1 = false) /\
  (forall k2 k1, In k2 (spec_keys c2) -> In k1 (spec_keys c1) -> key_eq k2 k1 = false).

Definition separate (c1 c2 : cfg) : Prop := apart c1 c2 /\ apart c2 c1.

(** the merged state is made of the two block states *)
Record joined (c1 c2 : cfg) (s s1 s2 : hstate) : Prop := {
  j_arts : arts s = arts s1 ++ arts s2;
  j_len1 : length (arts s1) = length (args c1);
  j_len2 : length (arts s2) = length (args c2);
  j_gsts : gsts s = gsts s1 ++ gsts s2;
  j_glen1 : length (gsts s1) = length (gcons c1);
  j_glen2 : length (gsts s2) = length (gcons c2);
  j_pend : Shuffle (pend s1) (pend s2) (pend s);
  j_sp1 : pend_specs c1 (pend s1);
  j_sp2 : pend_specs c2 (pend s2);
  j_inv : inv s = false /\ inv s1 = false /\ inv s2 = false
}.

(** the outcome of a block determines the outcome of the merged handler *)
Definition follows (P : hstate -> hstate -> Prop) (r1 r : res hstate) : Prop :=
  match r1 with
  | Ok a => exists b, r = Ok b /\ P b a
  | Err e => r = Err e
  | Fault f => r = Fault f
  end.

Lemma nomatch_specs c2 p2 k :
  pend_specs c2 p2 -> (forall k2, In k2 (spec_keys c2) -> key_eq k2 k = false) -> nomatch p2 k.
Proof.
  intros Hp Hk e He. apply Hk. unfold pend_specs in Hp. rewrite Forall_forall in Hp. apply Hp. exact He.
Qed.

Lemma in_keys_false ks k : (forall x, In x ks -> key_eq x k = false) -> in_keys ks k = false.
Proof.
  intros H. unfold in_keys. apply not_true_iff_false. intros E. apply existsb_exists in E.
  destruct E as (x & Hx & Hk). rewrite (H x Hx) in Hk. discriminate.
Qed.

Section Blocks.
Variables c1 c2 : cfg.
Hypothesis Hsep : separate c1 c2.
Let c := merge2 c1 c2.
Let n1 := length (args c1).

Lemma argdef_l i : i < n1 -> nth i (args c) dummy_def = nth i (args c1) dummy_def.
Proof. intros H. unfold c, merge2. cbn [args]. apply app_nth1. exact H. Qed.

Lemma argdef_r j : nth (n1 + j) (args c) dummy_def = nth j (args c2) dummy_def.
Proof. unfold c, merge2, n1. cbn [args]. rewrite app_nth2_plus. reflexivity. Qed.

(** one identified argument of block 1 *)
Lemma handle_identified_l s s1 s2 i k ic v :
  joined c1 c2 s s1 s2 -> i < n1 ->
  follows (fun t t1 => joined c1 c2 t t1 s2)
          (handle_identified c1 s1 i (a_key (nth i (args c1) dummy_def)) ic v)
          (handle_identified c s i k ic v).
Proof.
  intros J Hi. destruct Hsep as ((A1 & A2) & (B1 & B2)).
  destruct J as [Ja Jl1 Jl2 Jg Jgl1 Jgl2 Jp Js1 Js2 (I0 & I1 & I2)].
  set (d := nth i (args c1) dummy_def).
  assert (Hd : In (a_key d) (arg_keys c1)) by (unfold arg_keys; apply in_map; apply nth_In; exact Hi).
  assert (Hnm : nomatch (pend s2) (a_key d)).
  { apply (nomatch_specs c2); auto. intros k2 H2. apply A1; auto. unfold all_spec_keys. apply in_or_app. left. exact H2. }
  assert (Ek : (if fixed_notify c1 then a_key d else a_key d) = a_key d) by (destruct (fixed_notify c1); reflexivity).
  unfold handle_identified, c, merge2. cbn [fixed_notify args gcons]. rewrite (app_nth1 _ _ _ Hi). fold d. rewrite Ek.
  destruct (pend_identified (pend s1) (a_key d)) as [p1'|e|f] eqn:Ep; cbn [bind follows].
  2: { rewrite (pend_identified_shuffle_err _ _ _ _ Jp Hnm _ Ep). reflexivity. }
  2: { exfalso. eapply pend_identified_nofault; eauto. }
  destruct (pend_identified_shuffle_ok _ _ _ _ Jp Hnm _ Ep) as (p' & Hp' & Hsh). rewrite Hp'. cbn [bind].
  assert (Hg2 : gcs_exec (gcons c2) (gsts s2) (a_key d) = Ok (gsts s2)).
  { apply gcs_exec_other; auto. intros g Hg. apply in_keys_false. intros x Hx. apply A1; auto.
    unfold all_spec_keys. apply in_or_app. right. apply in_flat_map. exists g. auto. }
  rewrite Jg, (gcs_exec_app _ _ _ _ _ Jgl1), Hg2.
  destruct (gcs_exec (gcons c1) (gsts s1) (a_key d)) as [g1'|e|f] eqn:Eg; cbn [bind follows]; auto.
  unfold assign_value. cbn [arts pend gsts last inv args]. rewrite (app_nth1 _ _ _ Hi). fold d.
  rewrite Ja, app_nth1 by lia.
  destruct (a_depr d); cbn [bind follows]; auto.
  rewrite I0, I1.
  destruct (if ic then _ else _) as [m1|e|f]; cbn [bind follows]; auto.
  destruct (assign d _ v) as [a'|e|f]; cbn [bind follows]; auto.
  eexists. split; [reflexivity|].
  constructor; cbn [arts pend gsts last inv]; auto.
  - rewrite upd_app_l by lia. reflexivity.
  - rewrite upd_length. exact Jl1.
  - eapply gcs_exec_length; eauto.
  - apply activate_shuffle; auto. intros sk Hsk. apply (nomatch_specs c2); auto. intros k2 H2. apply A2; auto.
    unfold spec_keys. apply in_flat_map. exists d. split; [apply nth_In; exact Hi|exact Hsk].
  - apply (activate_specs c1 i); [eapply pend_identified_specs; eauto|exact Hi].
Qed.

(** one identified argument of block 2 *)
Lemma handle_identified_r s s1 s2 j k ic v :
  joined c1 c2 s s1 s2 -> j < length (args c2) ->
  follows (fun t t2 => joined c1 c2 t s1 t2)
          (handle_identified c2 s2 j (a_key (nth j (args c2) dummy_def)) ic v)
          (handle_identified c s (n1 + j) k ic v).
Proof.
  intros J Hj. destruct Hsep as ((A1 & A2) & (B1 & B2)).
  destruct J as [Ja Jl1 Jl2 Jg Jgl1 Jgl2 Jp Js1 Js2 (I0 & I1 & I2)].
  set (d := nth j (args c2) dummy_def).
  assert (Hd : In (a_key d) (arg_keys c2)) by (unfold arg_keys; apply in_map; apply nth_In; exact Hj).
  assert (Hnm : nomatch (pend s1) (a_key d)).
  { apply (nomatch_specs c1); auto. intros k2 H2. apply B1; auto. unfold all_spec_keys. apply in_or_app. left. exact H2. }
  assert (Ek : (if fixed_notify c2 then a_key d else a_key d) = a_key d) by (destruct (fixed_notify c2); reflexivity).
  apply shuffle_sym in Jp.
  unfold handle_identified, c, merge2, n1. cbn [fixed_notify args gcons]. rewrite app_nth2_plus. fold d. rewrite Ek.
  destruct (pend_identified (pend s2) (a_key d)) as [p2'|e|f] eqn:Ep; cbn [bind follows].
  2: { rewrite (pend_identified_shuffle_err _ _ _ _ Jp Hnm _ Ep). reflexivity. }
  2: { exfalso. eapply pend_identified_nofault; eauto. }
  destruct (pend_identified_shuffle_ok _ _ _ _ Jp Hnm _ Ep) as (p' & Hp' & Hsh). rewrite Hp'. cbn [bind].
  assert (Hg1 : gcs_exec (gcons c1) (gsts s1) (a_key d) = Ok (gsts s1)).
  { apply gcs_exec_other; auto. intros g Hg. apply in_keys_false. intros x Hx. apply B1; auto.
    unfold all_spec_keys. apply in_or_app. right. apply in_flat_map. exists g. auto. }
  rewrite Jg, (gcs_exec_app _ _ _ _ _ Jgl1), Hg1. cbn [bind].
  destruct (gcs_exec (gcons c2) (gsts s2) (a_key d)) as [g2'|e|f] eqn:Eg; cbn [bind follows]; auto.
  unfold assign_value. cbn [arts pend gsts last inv args]. rewrite app_nth2_plus. fold d.
  rewrite Ja, <- Jl1, app_nth2_plus.
  destruct (a_depr d); cbn [bind follows]; auto.
  rewrite I0, I2.
  destruct (if ic then _ else _) as [m1|e|f]; cbn [bind follows]; auto.
  destruct (assign d _ v) as [a'|e|f]; cbn [bind follows]; auto.
  eexists. split; [reflexivity|].
  constructor; cbn [arts pend gsts last inv]; auto.
  - rewrite upd_app_r. reflexivity.
  - rewrite upd_length. exact Jl2.
  - eapply gcs_exec_length; eauto.
  - apply shuffle_sym. apply activate_shuffle; auto. intros sk Hsk. apply (nomatch_specs c1); auto.
    intros k2 H2. apply B2; auto.
    unfold spec_keys. apply in_flat_map. exists d. split; [apply nth_In; exact Hj|exact Hsk].
  - apply (activate_specs c2 j); [eapply pend_identified_specs; eauto|exact Hj].
Qed.

Lemma joined_with_last s s1 s2 l l1 l2 :
  joined c1 c2 s s1 s2 -> joined c1 c2 (with_last s l) (with_last s1 l1) (with_last s2 l2).
Proof. intros []. constructor; cbn [with_last arts pend gsts inv]; auto. Qed.

Lemma follows_weaken (P Q : hstate -> hstate -> Prop) r1 r :
  (forall a b, P a b -> Q a b) -> follows P r1 r -> follows Q r1 r.
Proof. intros H. destruct r1; cbn [follows]; auto. intros (b & Hb & Hp). eauto. Qed.

Lemma joined_last_any s s1 s2 t1 : joined c1 c2 s s1 s2 -> arts t1 = arts s1 -> pend t1 = pend s1 ->
  gsts t1 = gsts s1 -> inv t1 = inv s1 -> joined c1 c2 s t1 s2.
Proof. intros [] Ha Hp Hg Hi. constructor; rewrite ?Ha, ?Hp, ?Hg, ?Hi; auto. Qed.

Definition n2 := length (args c2).

(** one use of an argument of block 1 *)
Lemma use_step_l s s1 s2 ic u :
  joined c1 c2 s s1 s2 -> use_index u < n1 ->
  follows (fun t t1 => joined c1 c2 t t1 s2) (use_step c1 s1 ic u) (use_step c s ic u).
Proof.
  intros J Hi.
  assert (J' : forall l, joined c1 c2 (with_last s l) (with_last s1 l) s2).
  { intros l. replace s2 with (with_last s2 (last s2)) at 1 by (destruct s2; reflexivity).
    apply joined_with_last. exact J. }
  destruct u as [i|i v]; cbn [use_step use_index] in *; unfold argdef_of;
    apply (handle_identified_l _ _ _ _ _ _ _ (J' (Some i)) Hi).
Qed.

Definition shift (u : use) : use :=
  match u with UFlag i => UFlag (i - n1) | UVal i v => UVal (i - n1) v end.

(** one use of an argument of block 2 *)
Lemma use_step_r s s1 s2 ic u :
  joined c1 c2 s s1 s2 -> n1 <= use_index u -> use_index u < n1 + n2 ->
  follows (fun t t2 => joined c1 c2 t s1 t2) (use_step c2 s2 ic (shift u)) (use_step c s ic u).
Proof.
  intros J Hlo Hhi.
  assert (J' : forall l l2, joined c1 c2 (with_last s l) s1 (with_last s2 l2)).
  { intros l l2. replace s1 with (with_last s1 (last s1)) at 1 by (destruct s1; reflexivity).
    apply joined_with_last. exact J. }
  destruct u as [i|i v]; cbn [use_step use_index shift] in *; unfold argdef_of, n2 in *.
  - assert (Ei : i = n1 + (i - n1)) by lia. set (j := i - n1) in *. clearbody j. subst i.
    apply (handle_identified_r _ _ _ _ _ _ _ (J' (Some (n1 + j)) (Some j))). lia.
  - assert (Ei : i = n1 + (i - n1)) by lia. set (j := i - n1) in *. clearbody j. subst i.
    apply (handle_identified_r _ _ _ _ _ _ _ (J' (Some (n1 + j)) (Some j))). lia.
Qed.

Definition in1 (u : use) : bool := use_index u <? n1.
Definition part1 (us : list use) : list use := filter in1 us.
Definition part2 (us : list use) : list use := map shift (filter (fun u => negb (in1 u)) us).

(** a line of uses: the merged handler accepts it exactly when both blocks
    accept their parts, and then the states correspond *)
Theorem fold_merge ic : forall us s s1 s2,
  joined c1 c2 s s1 s2 -> Forall (fun u => use_index u < n1 + n2) us ->
  (forall s', fold_uses c s ic us = Ok s' ->
     exists s1' s2', fold_uses c1 s1 ic (part1 us) = Ok s1' /\ fold_uses c2 s2 ic (part2 us) = Ok s2' /\
                     joined c1 c2 s' s1' s2') /\
  (forall s1' s2', fold_uses c1 s1 ic (part1 us) = Ok s1' -> fold_uses c2 s2 ic (part2 us) = Ok s2' ->
     exists s', fold_uses c s ic us = Ok s' /\ joined c1 c2 s' s1' s2').
Proof.
  induction us as [|u r IH]; intros s s1 s2 J Hr.
  - cbn. split.
    + intros s' H. inversion H; subst. eauto.
    + intros s1' s2' H1 H2. inversion H1; inversion H2; subst. eauto.
  - inversion Hr as [|? ? Hu Hr']; subst. unfold part1, part2. cbn [filter]. fold (part1 r). fold (part2 r).
    destruct (in1 u) eqn:E; cbn [negb map fold_uses].
    + fold (part2 r). apply Nat.ltb_lt in E. pose proof (use_step_l s s1 s2 ic u J E) as F.
      destruct (use_step c1 s1 ic u) as [t1|e|f]; cbn [follows] in F.
      * destruct F as (t & Ht & Jt). rewrite Ht. cbn [bind]. apply (IH t t1 s2 Jt Hr').
      * rewrite F. cbn [bind]. split; [discriminate|intros; discriminate].
      * rewrite F. cbn [bind]. split; [discriminate|intros; discriminate].
    + fold (part1 r). apply Nat.ltb_ge in E. pose proof (use_step_r s s1 s2 ic u J E Hu) as F.
      change (map shift (u :: filter (fun u0 => negb (in1 u0)) r)) with (shift u :: part2 r). cbn [fold_uses].
      destruct (use_step c2 s2 ic (shift u)) as [t2|e|f]; cbn [follows] in F.
      * destruct F as (t & Ht & Jt). rewrite Ht. cbn [bind]. apply (IH t s1 t2 Jt Hr').
      * rewrite F. cbn [bind]. split; [discriminate|intros; discriminate].
      * rewrite F. cbn [bind]. split; [discriminate|intros; discriminate].
Qed.

(** the end-of-line checks *)
Lemma is_ok_bind_unit (a : res unit) (b : res unit) : is_ok (do _ <- a; b) = is_ok a && is_ok b.
Proof. destruct a as [[]|?|?]; reflexivity. Qed.

Lemma final_checks_merge s s1 s2 :
  joined c1 c2 s s1 s2 -> forallb key_con (gcons c1) = true -> forallb key_con (gcons c2) = true ->
  is_ok (final_checks c s) = is_ok (final_checks c1 s1) && is_ok (final_checks c2 s2).
Proof.
  intros [Ja Jl1 Jl2 Jg Jgl1 Jgl2 Jp Js1 Js2 _] K1 K2. unfold final_checks, c, merge2. cbn [args gcons].
  rewrite !is_ok_bind_unit. rewrite Ja, Jg.
  rewrite (check_mandatory_card_app _ _ _ _ Jl1), (gcs_end_app _ _ _ _ _ Jgl1), !is_ok_bind_unit.
  rewrite (gcs_end_arts (arts s1 ++ arts s2) (arts s1) (gcons c1) (gsts s1) K1).
  rewrite (gcs_end_arts (arts s1 ++ arts s2) (arts s2) (gcons c2) (gsts s2) K2).
  unfold pend_check_required. rewrite (shuffle_existsb _ _ _ _ Jp).
  destruct (is_ok (check_mandatory_card (args c1) (arts s1))), (is_ok (check_mandatory_card (args c2) (arts s2))),
    (existsb _ (pend s1)), (existsb _ (pend s2)), (is_ok (gcs_end (arts s1) (gcons c1) (gsts s1))),
    (is_ok (gcs_end (arts s2) (gcons c2) (gsts s2))); reflexivity.
Qed.

Lemma joined_init i1 i2 :
  length i1 = length (args c1) -> length i2 = length (args c2) ->
  joined c1 c2 (init_state c (i1 ++ i2)) (init_state c1 i1) (init_state c2 i2).
Proof.
  intros H1 H2. unfold init_state, c, merge2. cbn [args gcons].
  assert (Hc : combine (args c1 ++ args c2) (i1 ++ i2) = combine (args c1) i1 ++ combine (args c2) i2).
  { clear - H1. revert i1 H1. induction (args c1) as [|d dr IH]; intros [|x xr] H; cbn in *; try discriminate; auto.
    rewrite IH by lia. reflexivity. }
  constructor; cbn [arts pend gsts inv].
  - rewrite Hc, map_app. reflexivity.
  - rewrite map_length, combine_length. lia.
  - rewrite map_length, combine_length. lia.
  - apply map_app.
  - apply map_length.
  - apply map_length.
  - constructor.
  - constructor.
  - constructor.
  - auto.
Qed.

End Blocks.
