(** C06: the key-value destinations std::multimap, std::unordered_map and
    std::unordered_multimap (TypedArg< KeyValueContainerAdapter< T>>::assign
    with the addValue() of the four adapters, ArgH/Cont.v [step_kv] /
    [kv_add]).  std::map and std::unordered_map share [map_add] and the
    theorems of ContProofs2.v ([map_kind]); here: what unique data means on all
    four kinds, and what the multi-maps hold without it. *)
From Coq Require Import List NArith ZArith Bool Arith Permutation Sorted Lia.
Import ListNotations.
Require Import Celma.Common.Res Celma.Common.ListX Celma.ArgH.Key Celma.ArgH.Handler Celma.ArgH.Cont
  Celma.ArgH.ContProofs Celma.ArgH.ContProofs2.

(* ------------------------------------------------------------------ *)
(** * The entries of one key *)

Definition has_key (key : str) (e : str * Z) : bool := str_eqb (fst e) key.

(** all pairs with that key, in the order of the container *)
Definition entries (key : str) (l : list (str * Z)) : list (str * Z) := filter (has_key key) l.

Lemma str_eqb_refl a : str_eqb a a = true.
Proof. apply str_eqb_eq. reflexivity. Qed.

Lemma str_eqb_sym a b : str_eqb a b = str_eqb b a.
Proof.
  destruct (str_eqb a b) eqn:E1, (str_eqb b a) eqn:E2; auto.
  - apply str_eqb_eq in E1. subst. rewrite str_eqb_refl in E2. discriminate.
  - apply str_eqb_eq in E2. subst. rewrite str_eqb_refl in E1. discriminate.
Qed.

Lemma map_has_entries key l : map_has key l = negb (is_nil (entries key l)).
Proof.
  unfold map_has, entries, has_key. induction l as [|e r IH]; simpl; auto.
  destruct (str_eqb (fst e) key); simpl; auto.
Qed.

Lemma map_has_false_entries key l : map_has key l = false <-> entries key l = [].
Proof. rewrite map_has_entries. destruct (entries key l); simpl; split; auto; discriminate. Qed.

Lemma entries_app key l1 l2 : entries key (l1 ++ l2) = entries key l1 ++ entries key l2.
Proof. apply filter_app. Qed.

Lemma entries_keys key l : Forall (fun e => fst e = key) (entries key l).
Proof.
  unfold entries. apply Forall_forall. intros e He. apply filter_In in He. destruct He as [_ He].
  apply str_eqb_eq in He. exact He.
Qed.

Lemma filter_perm {A} (f : A -> bool) l l' : Permutation l l' -> Permutation (filter f l) (filter f l').
Proof.
  induction 1; simpl; auto.
  - destruct (f x); auto.
  - destruct (f x), (f y); auto. apply perm_swap.
  - eapply perm_trans; eauto.
Qed.

(** insertion into a list: the entries of the other keys are untouched *)
Lemma filter_insert_other {A} (lt : A -> A -> bool) (f : A -> bool) x l :
  f x = false -> filter f (insert_sorted lt x l) = filter f l.
Proof.
  intros Hx. induction l as [|y r IH]; simpl.
  - rewrite Hx. reflexivity.
  - destruct (lt x y); simpl; [rewrite Hx; reflexivity|]. rewrite IH. reflexivity.
Qed.

Lemma filter_insert_new {A} (lt : A -> A -> bool) (f : A -> bool) x l :
  f x = true -> filter f l = [] -> filter f (insert_sorted lt x l) = [x].
Proof.
  intros Hx Hn.
  assert (P : Permutation (filter f (insert_sorted lt x l)) (x :: filter f l)).
  { eapply perm_trans; [apply filter_perm, insert_sorted_perm|]. simpl. rewrite Hx. auto. }
  rewrite Hn in P. apply Permutation_sym, Permutation_length_1_inv in P. exact P.
Qed.

(* ------------------------------------------------------------------ *)
(** * addValue() of the four adapters *)

Lemma map_add_other k v l key : str_eqb k key = false -> entries key (map_add k v l) = entries key l.
Proof.
  intros Hk. induction l as [|[k' v'] r IH]; simpl.
  - unfold has_key. simpl. rewrite Hk. reflexivity.
  - destruct (str_ltb k k'); [simpl; unfold has_key at 1; simpl; rewrite Hk; reflexivity|].
    destruct (str_eqb k k'); [reflexivity|]. simpl. rewrite IH. reflexivity.
Qed.

Lemma map_add_new k v l : entries k l = [] -> entries k (map_add k v l) = [(k, v)].
Proof.
  induction l as [|[k' v'] r IH]; simpl; intros Hn.
  - unfold has_key. simpl. rewrite str_eqb_refl. reflexivity.
  - unfold has_key in Hn at 1. simpl in Hn. rewrite (str_eqb_sym k' k) in Hn.
    destruct (str_eqb k k') eqn:E; [discriminate Hn|].
    destruct (str_ltb k k').
    + simpl. unfold has_key at 1 2. simpl. rewrite str_eqb_refl, (str_eqb_sym k' k), E. fold (entries k r).
      rewrite Hn. reflexivity.
    + simpl. unfold has_key at 1. simpl. rewrite (str_eqb_sym k' k), E. apply IH. exact Hn.
Qed.

Lemma mmap_add_other k v l key : str_eqb k key = false -> entries key (mmap_add k v l) = entries key l.
Proof. intros Hk. apply filter_insert_other. exact Hk. Qed.

Lemma mmap_add_new k v l : entries k l = [] -> entries k (mmap_add k v l) = [(k, v)].
Proof. intros Hn. apply filter_insert_new; auto. unfold has_key. simpl. apply str_eqb_refl. Qed.

Lemma ummap_add_other k v l key : str_eqb k key = false -> entries key (ummap_add k v l) = entries key l.
Proof. intros Hk. apply filter_insert_other. exact Hk. Qed.

Lemma ummap_add_new k v l : entries k l = [] -> entries k (ummap_add k v l) = [(k, v)].
Proof. intros Hn. apply filter_insert_new; auto. unfold has_key. simpl. apply str_eqb_refl. Qed.

Lemma kv_add_other kd k v l key : str_eqb k key = false -> entries key (kv_add kd k v l) = entries key l.
Proof. destruct kd; simpl; auto using map_add_other, mmap_add_other, ummap_add_other. Qed.

Lemma kv_add_new kd k v l : entries k l = [] -> entries k (kv_add kd k v l) = [(k, v)].
Proof. destruct kd; simpl; auto using map_add_new, mmap_add_new, ummap_add_new. Qed.

(** multimap: ascending keys (equal keys allowed) *)
Definition ksorted (l : list (str * Z)) : Prop := StronglySorted (le_of key_ltb) l.
(** the canonical order of the unordered multimap: ascending (key, value) *)
Definition psorted (l : list (str * Z)) : Prop := StronglySorted (le_of pair_ltb) l.

Lemma key_lt_irrefl : forall a, key_ltb a a = false.
Proof. intros a. unfold key_ltb. apply str_lt_irrefl. Qed.

Lemma key_lt_le_trans : forall x y z, key_ltb x y = true -> key_ltb z y = false -> key_ltb z x = false.
Proof. unfold key_ltb. intros x y z. apply str_lt_le_trans. Qed.

Lemma pair_lt_irrefl : forall a, pair_ltb a a = false.
Proof.
  intros [k v]. unfold pair_ltb. simpl. rewrite str_lt_irrefl, Z.ltb_irrefl, andb_false_r. reflexivity.
Qed.

Lemma pair_lt_le_trans : forall x y z, pair_ltb x y = true -> pair_ltb z y = false -> pair_ltb z x = false.
Proof.
  intros [kx vx] [ky vy] [kz vz]. unfold pair_ltb. simpl. intros H1 H2.
  apply orb_false_iff in H2. destruct H2 as [H2 H3].
  apply orb_true_iff in H1. apply orb_false_iff. destruct H1 as [H1|H1].
  - split; [eapply str_lt_le_trans; eauto|].
    destruct (str_eqb kz kx) eqn:E; auto. apply str_eqb_eq in E. subst kz. congruence.
  - apply andb_true_iff in H1. destruct H1 as [H1 H4]. apply str_eqb_eq in H1. subst ky.
    split; auto. destruct (str_eqb kz kx) eqn:E; auto. simpl in *.
    apply Z.ltb_lt in H4. apply Z.ltb_ge in H3. apply Z.ltb_ge. lia.
Qed.

Lemma mmap_add_sorted k v l : ksorted l -> ksorted (mmap_add k v l).
Proof. apply insert_sorted_sorted; [apply key_lt_irrefl|apply key_lt_le_trans]. Qed.

Lemma ummap_add_sorted k v l : psorted l -> psorted (ummap_add k v l).
Proof. apply insert_sorted_sorted; [apply pair_lt_irrefl|apply pair_lt_le_trans]. Qed.

(** std::multimap::insert puts the pair behind the entries of its key *)
Lemma entries_cons key e l :
  entries key (e :: l) = if str_eqb (fst e) key then e :: entries key l else entries key l.
Proof. reflexivity. Qed.

Lemma mmap_add_same k v l : ksorted l -> entries k (mmap_add k v l) = entries k l ++ [(k, v)].
Proof.
  unfold mmap_add. induction l as [|[k' v'] r IH]; intros S.
  - simpl. unfold has_key. simpl. rewrite str_eqb_refl. reflexivity.
  - inversion S as [|? ? Sr Fr]; subst.
    assert (Hins : insert_sorted key_ltb (k, v) ((k', v') :: r) =
                   if str_ltb k k' then (k, v) :: (k', v') :: r
                   else (k', v') :: insert_sorted key_ltb (k, v) r) by reflexivity.
    rewrite Hins. clear Hins. destruct (str_ltb k k') eqn:E.
    + (* every key of the list is greater: no entry of k *)
      assert (Hn : entries k ((k', v') :: r) = []).
      { destruct (entries k ((k', v') :: r)) as [|e es] eqn:Ee; auto. exfalso.
        assert (He : In e ((k', v') :: r) /\ has_key k e = true).
        { apply filter_In. unfold entries in Ee. rewrite Ee. simpl. auto. }
        destruct He as [Hi Hk]. apply str_eqb_eq in Hk.
        assert (Hle : str_ltb (fst e) k' = false).
        { destruct Hi as [<-|Hi]; [apply str_lt_irrefl|].
          rewrite Forall_forall in Fr. apply (Fr _ Hi). }
        rewrite Hk in Hle. congruence. }
      rewrite (entries_cons k (k, v)). simpl fst. rewrite str_eqb_refl, Hn. reflexivity.
    + rewrite !(entries_cons k (k', v')). simpl fst. rewrite (IH Sr).
      destruct (str_eqb k' k); reflexivity.
Qed.

(* ------------------------------------------------------------------ *)
(** * Unique data on a key-value destination *)

(** what the destination holds for a key after the uses with unique data set:
    a key that was stored before keeps exactly its earlier entries (none of the
    pairs given for it is stored); otherwise the FIRST element with that key is
    stored and no other; otherwise the key is absent *)
Definition uq_entry_spec (start : list (str * Z)) (ts : list str) (key : str) (got : list (str * Z)) : Prop :=
  match entries key start with
  | _ :: _ => got = entries key start
  | [] => match first_tok key ts with
          | Some t0 => exists z, lex_int (tok_val t0) = Ok z /\ got = [(key, z)]
          | None => got = []
          end
  end.

Section Unique.
Variable add : str -> Z -> list (str * Z) -> list (str * Z).
Hypothesis add_other : forall k v l key, str_eqb k key = false -> entries key (add k v l) = entries key l.
Hypothesis add_new : forall k v l, entries k l = [] -> entries k (add k v l) = [(k, v)].

Lemma uq_step s0 o ts t l c' :
  o_uniq o = true ->
  (forall key, uq_entry_spec s0 ts key (entries key l)) ->
  step_kv add o t l = Ok c' ->
  exists l', c' = CMap l' /\ forall key, uq_entry_spec s0 (ts ++ [t]) key (entries key l').
Proof.
  intros Hu Hi Hst. apply step_kv_spec in Hst.
  destruct Hst as [_ [_ [_ [[_ [Hh [_ ->]]]|[Hor [z [Hz ->]]]]]]].
  - (* the key is stored: the element is dropped *)
    exists l. split; auto. intros key. specialize (Hi key).
    unfold uq_entry_spec, first_tok in *. rewrite find_app.
    destruct (entries key s0); auto.
    destruct (find (fun t0 => str_eqb (tok_key t0) key) ts); auto. simpl.
    destruct (str_eqb (tok_key t) key) eqn:Ek; auto.
    apply str_eqb_eq in Ek. subst key. apply map_has_false_entries in Hi. congruence.
  - assert (Hh : map_has (tok_key t) l = false) by (destruct Hor; [congruence|auto]).
    apply map_has_false_entries in Hh.
    exists (add (tok_key t) z l). split; auto. intros key.
    destruct (str_eqb (tok_key t) key) eqn:Ek.
    + apply str_eqb_eq in Ek. subst key. rewrite add_new by auto.
      specialize (Hi (tok_key t)). unfold uq_entry_spec, first_tok in *. rewrite Hh in Hi. rewrite find_app.
      destruct (entries (tok_key t) s0); [|discriminate Hi].
      destruct (find (fun t0 => str_eqb (tok_key t0) (tok_key t)) ts).
      * destruct Hi as [z0 [_ Hc]]. discriminate Hc.
      * simpl. rewrite str_eqb_refl. eauto.
    + rewrite add_other by auto. specialize (Hi key).
      unfold uq_entry_spec, first_tok in *. rewrite find_app.
      destruct (entries key s0); auto.
      destruct (find (fun t0 => str_eqb (tok_key t0) key) ts); auto. simpl. rewrite Ek. auto.
Qed.

Lemma refuse_step s0 o ts t l c' :
  o_uniq o = true -> o_dup_err o = true ->
  NoDup (map tok_key ts) -> Forall (fun t0 => entries (tok_key t0) s0 = []) ts ->
  (forall key, In key (map tok_key ts) \/ entries key s0 <> [] -> map_has key l = true) ->
  step_kv add o t l = Ok c' ->
  exists l', c' = CMap l' /\
    NoDup (map tok_key (ts ++ [t])) /\ Forall (fun t0 => entries (tok_key t0) s0 = []) (ts ++ [t]) /\
    (forall key, In key (map tok_key (ts ++ [t])) \/ entries key s0 <> [] -> map_has key l' = true).
Proof.
  intros Hu Hd Hn Hf Hc Hst. apply step_kv_spec in Hst.
  destruct Hst as [_ [_ [_ [[_ [_ [Hd' _]]]|[Hor [z [Hz ->]]]]]]]; [congruence|].
  assert (Hh : map_has (tok_key t) l = false) by (destruct Hor; [congruence|auto]).
  exists (add (tok_key t) z l). split; auto. split; [|split].
  - rewrite map_app. simpl. eapply Permutation_NoDup; [apply Permutation_cons_append|]. constructor; auto.
    intros Hin. rewrite Hc in Hh by auto. discriminate Hh.
  - apply Forall_app. split; auto. constructor; auto.
    destruct (entries (tok_key t) s0) eqn:Es; auto. exfalso.
    rewrite Hc in Hh; [discriminate Hh|]. right. rewrite Es. discriminate.
  - intros key Hk. rewrite map_has_entries.
    destruct (str_eqb (tok_key t) key) eqn:Ek.
    + apply str_eqb_eq in Ek. subst key. rewrite add_new; [reflexivity|].
      apply map_has_false_entries. exact Hh.
    + rewrite add_other by auto. rewrite <- map_has_entries. apply Hc.
      destruct Hk as [Hk|Hk]; auto. left. rewrite map_app in Hk. apply in_app_iff in Hk.
      destruct Hk as [Hk|[Hk|[]]]; auto. apply str_eqb_neq in Ek. congruence.
Qed.
End Unique.

(** unique data (silently dropping or refusing) on std::map, std::multimap,
    std::unordered_map, std::unordered_multimap: for every key the destination
    holds what [uq_entry_spec] says - whatever insert() of the container would
    have done with a key that is stored already *)
Theorem cont_kv_unique p k o st u rest st' l0 :
  kv_kind k = true -> o_uniq o = true ->
  c_val st = CMap l0 ->
  run_uses_gen (step_gen p k o) o st (u :: rest) = Ok st' ->
  exists l, c_val st' = CMap l /\
    forall key, uq_entry_spec (start_map st l0) (all_tokens o (u :: rest)) key (entries key l).
Proof.
  intros Hkv Hu Hv H.
  set (s0 := start_map st l0) in *.
  apply (run_uses_hist (step_gen p k o) o
          (fun ts c => exists l, c = CMap l /\ forall key, uq_entry_spec s0 ts key (entries key l))) in H; auto.
  - intros ts t c c' [l [-> Hi]] Hst. rewrite (step_kv_kind p k) in Hst by auto.
    eapply uq_step; eauto using kv_add_other, kv_add_new.
  - intros ts c [l [-> Hr]]. rewrite norm_map. eauto.
  - intros ts c [l [-> Hr]]. simpl. eauto.
  - rewrite (start_cont_map st l0 Hv). exists s0. split; auto.
    intros key. unfold uq_entry_spec. simpl. destruct (entries key s0); auto.
Qed.

(** ... hence no two of the pairs given are stored under one key, and no pair
    given is stored under a key that was there before *)
Corollary cont_kv_unique_one_per_key p k o st u rest st' l0 :
  kv_kind k = true -> o_uniq o = true ->
  c_val st = CMap l0 ->
  run_uses_gen (step_gen p k o) o st (u :: rest) = Ok st' ->
  exists l, c_val st' = CMap l /\
    forall key, (entries key (start_map st l0) <> [] -> entries key l = entries key (start_map st l0)) /\
                (entries key (start_map st l0) = [] -> length (entries key l) <= 1).
Proof.
  intros Hkv Hu Hv H. destruct (cont_kv_unique p k o st u rest st' l0 Hkv Hu Hv H) as [l [Hc Hs]].
  exists l. split; auto. intros key. specialize (Hs key). unfold uq_entry_spec in Hs.
  destruct (entries key (start_map st l0)) eqn:Es.
  - split; [congruence|]. intros _.
    destruct (first_tok key (all_tokens o (u :: rest))).
    + destruct Hs as [z [_ ->]]. simpl. lia.
    + rewrite Hs. simpl. lia.
  - split; auto. discriminate.
Qed.

(** "duplicates are errors": the uses are accepted only if the keys given are
    pairwise different and none of them was stored before *)
Theorem cont_kv_unique_refuse p k o st u rest st' l0 :
  kv_kind k = true -> o_uniq o = true -> o_dup_err o = true ->
  c_val st = CMap l0 ->
  run_uses_gen (step_gen p k o) o st (u :: rest) = Ok st' ->
  NoDup (map tok_key (all_tokens o (u :: rest))) /\
  Forall (fun t => entries (tok_key t) (start_map st l0) = []) (all_tokens o (u :: rest)).
Proof.
  intros Hkv Hu Hd Hv H.
  set (s0 := start_map st l0) in *.
  apply (run_uses_hist (step_gen p k o) o
          (fun ts c => exists l, c = CMap l /\ NoDup (map tok_key ts) /\
             Forall (fun t0 => entries (tok_key t0) s0 = []) ts /\
             (forall key, In key (map tok_key ts) \/ entries key s0 <> [] -> map_has key l = true))) in H; auto.
  - destruct H as [l [_ [Hn [Hf _]]]]. auto.
  - intros ts t c c' [l [-> [Hn [Hf Hc]]]] Hst. rewrite (step_kv_kind p k) in Hst by auto.
    eapply refuse_step; eauto using kv_add_other, kv_add_new.
  - intros ts c [l [-> Hr]]. rewrite norm_map. eauto.
  - intros ts c [l [-> Hr]]. simpl. eauto.
  - rewrite (start_cont_map st l0 Hv). exists s0. split; auto. simpl. split; [constructor|]. split; [constructor|].
    intros key [[]|Hk]. rewrite map_has_entries. destruct (entries key s0); [congruence|reflexivity].
Qed.

(* ------------------------------------------------------------------ *)
(** * The multi-maps without unique data: every pair given is stored *)

(** the pair that a list element "key,value" denotes *)
Definition tok_pair (t : str) (e : str * Z) : Prop := fst e = tok_key t /\ lex_int (tok_val t) = Ok (snd e).

(** std::multimap: keys ascending; under every key first the entries that were
    there before, then the pairs given for it, in the order given *)
Theorem cont_multimap_content p o st u rest st' l0 :
  o_uniq o = false ->
  c_val st = CMap l0 -> ksorted (start_map st l0) ->
  run_uses_gen (step_gen p KMMap o) o st (u :: rest) = Ok st' ->
  exists l ps, c_val st' = CMap l /\ Forall2 tok_pair (all_tokens o (u :: rest)) ps /\
    ksorted l /\ Permutation l (start_map st l0 ++ ps) /\
    forall key, entries key l = entries key (start_map st l0) ++ entries key ps.
Proof.
  intros Hu Hv Hs H.
  set (s0 := start_map st l0) in *.
  apply (run_uses_hist (step_gen p KMMap o) o
          (fun ts c => exists l ps, c = CMap l /\ Forall2 tok_pair ts ps /\ ksorted l /\
             Permutation l (s0 ++ ps) /\ forall key, entries key l = entries key s0 ++ entries key ps)) in H; auto.
  - intros ts t c c' [l [ps [-> [Hf [Hk [Hp He]]]]]] Hst.
    change (step_gen p KMMap o t (CMap l)) with (step_kv mmap_add o t l) in Hst.
    apply step_kv_spec in Hst.
    destruct Hst as [_ [_ [_ [[Hu' _]|[_ [z [Hz ->]]]]]]]; [congruence|].
    exists (mmap_add (tok_key t) z l), (ps ++ [(tok_key t, z)]). split; auto. split; [|split; [|split]].
    + apply Forall2_app; auto. constructor; [split; auto|constructor].
    + apply mmap_add_sorted; auto.
    + eapply perm_trans; [apply insert_sorted_perm|]. rewrite app_assoc.
      eapply perm_trans; [|apply Permutation_cons_append]. auto.
    + intros key. rewrite entries_app, app_assoc, <- He.
      destruct (str_eqb (tok_key t) key) eqn:Ek.
      * apply str_eqb_eq in Ek. subst key. rewrite mmap_add_same by auto.
        simpl. unfold has_key. simpl. rewrite str_eqb_refl. reflexivity.
      * rewrite mmap_add_other by auto. simpl. unfold has_key. simpl. rewrite Ek, app_nil_r. reflexivity.
  - intros ts c [l [ps [-> Hr]]]. rewrite norm_map. eauto.
  - intros ts c [l [ps [-> Hr]]]. simpl. eauto.
  - rewrite (start_cont_map st l0 Hv). exists s0, []. rewrite app_nil_r. repeat split; auto.
    intros key. simpl. rewrite app_nil_r. reflexivity.
Qed.

(** std::unordered_multimap: exactly the earlier entries and all pairs given
    (as printed: ascending by key and value) *)
Theorem cont_unordered_multimap_content p o st u rest st' l0 :
  o_uniq o = false ->
  c_val st = CMap l0 -> psorted (start_map st l0) ->
  run_uses_gen (step_gen p KUMMap o) o st (u :: rest) = Ok st' ->
  exists l ps, c_val st' = CMap l /\ Forall2 tok_pair (all_tokens o (u :: rest)) ps /\
    psorted l /\ Permutation l (start_map st l0 ++ ps).
Proof.
  intros Hu Hv Hs H.
  set (s0 := start_map st l0) in *.
  apply (run_uses_hist (step_gen p KUMMap o) o
          (fun ts c => exists l ps, c = CMap l /\ Forall2 tok_pair ts ps /\ psorted l /\
             Permutation l (s0 ++ ps))) in H; auto.
  - intros ts t c c' [l [ps [-> [Hf [Hk Hp]]]]] Hst.
    change (step_gen p KUMMap o t (CMap l)) with (step_kv ummap_add o t l) in Hst.
    apply step_kv_spec in Hst.
    destruct Hst as [_ [_ [_ [[Hu' _]|[_ [z [Hz ->]]]]]]]; [congruence|].
    exists (ummap_add (tok_key t) z l), (ps ++ [(tok_key t, z)]). split; auto. split; [|split].
    + apply Forall2_app; auto. constructor; [split; auto|constructor].
    + apply ummap_add_sorted; auto.
    + eapply perm_trans; [apply insert_sorted_perm|]. rewrite app_assoc.
      eapply perm_trans; [|apply Permutation_cons_append]. auto.
  - intros ts c [l [ps [-> Hr]]]. rewrite norm_map. eauto.
  - intros ts c [l [ps [-> Hr]]]. simpl. eauto.
  - rewrite (start_cont_map st l0 Hv). exists s0, []. rewrite app_nil_r. repeat split; auto.
Qed.

(** clear-before-assign on a multimap: the earlier content is gone after the
    first use and only then - the result holds the pairs given, all of them *)
Corollary cont_multimap_clear p o before u rest st' :
  o_uniq o = false -> o_clear o = true ->
  run_uses_gen (step_gen p KMMap o) o (init_state o (CMap before)) (u :: rest) = Ok st' ->
  exists l ps, c_val st' = CMap l /\ Forall2 tok_pair (all_tokens o (u :: rest)) ps /\
    ksorted l /\ Permutation l ps /\ forall key, entries key l = entries key ps.
Proof.
  intros Hu Hc H.
  assert (Hs : start_map (init_state o (CMap before)) before = []).
  { unfold start_map, init_state. simpl. rewrite Hc. reflexivity. }
  apply (cont_multimap_content p o (init_state o (CMap before)) u rest st' before Hu) in H.
  - rewrite Hs in H. exact H.
  - reflexivity.
  - rewrite Hs. constructor.
Qed.

(** the sorted lists of the initial contents *)
Lemma init_map_mmap_sorted l : ksorted (init_map KMMap l).
Proof.
  unfold init_map. assert (G : forall acc, ksorted acc ->
    ksorted (fold_left (fun acc e => kv_add KMMap (fst e) (snd e) acc) l acc)).
  { induction l as [|e r IH]; simpl; auto. intros acc Ha. apply IH. apply mmap_add_sorted. exact Ha. }
  apply G. constructor.
Qed.

Lemma init_map_ummap_sorted l : psorted (init_map KUMMap l).
Proof.
  unfold init_map. assert (G : forall acc, psorted acc ->
    psorted (fold_left (fun acc e => kv_add KUMMap (fst e) (snd e) acc) l acc)).
  { induction l as [|e r IH]; simpl; auto. intros acc Ha. apply IH. apply ummap_add_sorted. exact Ha. }
  apply G. constructor.
Qed.

Lemma init_map_keys_sorted k l : map_kind k -> keys_sorted (init_map k l).
Proof.
  intros Hk. unfold init_map. assert (G : forall acc, keys_sorted acc ->
    keys_sorted (fold_left (fun acc e => kv_add k (fst e) (snd e) acc) l acc)).
  { induction l as [|e r IH]; simpl; auto. intros acc Ha. apply IH.
    destruct Hk as [->| ->]; simpl; apply map_add_sorted; exact Ha. }
  apply G. constructor.
Qed.
