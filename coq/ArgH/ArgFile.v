(** The argument that names an argument file on the command line
    (Handler::addArgumentFile + readArgumentFile): a callable argument with a
    value; its call evaluates the lines of the named file IN THE MIDDLE of the
    handling of the argument (after the notifications and the cardinality
    step, before the constraints of the argument are activated), with the read
    mode "file" (values may be overridden later), and then the evaluation of
    the enclosing source continues in its own mode.

    The element loop of Handler.v is extended here, not changed: [loop_af]
    intercepts the key of the argument-file argument and calls [eval_single]
    for everything else ([loop_af_conservative]).  No proofs in this file
    apart from that one-line-per-case conservativity lemma. *)
From Coq Require Import List NArith ZArith Bool Arith.
Import ListNotations.
Require Import Celma.Common.Res Celma.ArgH.Key Celma.ArgH.Table Celma.ArgH.Lex Celma.ArgH.Handler
               Celma.ArgH.Spell Celma.ArgH.Split Celma.ArgH.Sources.

Record afile := {
  af_idx : nat;                                   (* index of the argument-file argument in [args c] *)
  af_files : list (str * str)                     (* file name -> content *)
}.

Fixpoint af_content (fs : list (str * str)) (name : str) : option str :=
  match fs with
  | [] => None
  | (n, t) :: r => if str_eqb n name then Some t else af_content r name
  end.

(** handleIdentifiedArg + assignValue up to the call of assign() *)
Definition af_before (c : cfg) (s : hstate) (i : nat) (ic : bool) : res hstate :=
  let d := nth i (args c) dummy_def in
  do p1 <- pend_identified (pend s) (a_key d);
  do g1 <- gcs_exec (gcons c) (gsts s) (a_key d);
  if a_depr d then Err ERuntime else
  let a := nth i (arts s) dummy_art in
  do n1 <- (if ic then Ok (cnt a) else card_got (a_card d) (cnt a));
  if inv s then Err ERuntime else
  Ok {| arts := upd (arts s) i {| hasval := hasval a; cnt := n1; clearp := clearp a; val := val a; v2set := v2set a |};
        pend := p1; gsts := g1; last := Some i; inv := inv s |}.

(** ... and after it: the callable was called, the constraints of the
    argument are activated *)
Definition af_after (c : cfg) (s : hstate) (i : nat) : hstate :=
  let d := nth i (args c) dummy_def in
  let a := nth i (arts s) dummy_art in
  {| arts := upd (arts s) i {| hasval := true; cnt := cnt a; clearp := clearp a; val := val a; v2set := v2set a |};
     pend := activate d (pend s); gsts := gsts s; last := last s; inv := false |}.

Section Loop.
Variable c : cfg.
Variable af : afile.
(** how a named file is evaluated from a state (defined below by recursion on
    the nesting depth) *)
Variable sub : hstate -> str -> res hstate.

Definition af_use (s : hstate) (ic : bool) (name : str) : res hstate :=
  do s2 <- af_before c s (af_idx af) ic;
  do s3 <- sub s2 name;
  Ok (af_after c s3 (af_idx af)).

Definition is_af (r : option nat) : bool :=
  match r with Some i => Nat.eqb i (af_idx af) | None => false end.

Definition step_key (s : hstate) (ic : bool) (k : key) (e : elem) (cur : it) : res (ares * hstate * it) :=
  do r <- lookup c k;
  if is_af r then
    do nx <- next true cur;
    match nx with
    | Some (EVal v, it2) => do s1 <- af_use s ic v; Ok (AConsumed, s1, it2)
    | _ => Err EArgument
    end
  else eval_single c s ic e cur.

Definition step_af (s : hstate) (ic : bool) (e : elem) (cur : it) : res (ares * hstate * it) :=
  match e with
  | EChar ch => step_key s ic (key_of_char ch) e cur
  | EStr w => do k <- parse_key w; step_key s ic k e cur
  | _ => eval_single c s ic e cur
  end.

Fixpoint loop_af (fuel : nat) (s : hstate) (ic : bool) (cur : option (elem * it)) : res hstate :=
  match cur with
  | None => Ok s
  | Some (e, i0) =>
      match fuel with
      | O => Fault Fuel
      | S f =>
          do r <- step_af s ic e i0;
          let '(a, s1, i1) := r in
          match a with
          | AUnknown => Err EInvalidArgument
          | AConsumed => do nx <- next false i1; loop_af f s1 ic nx
          end
      end
  end.

Definition words_af (s : hstate) (ic : bool) (ws : list str) : res hstate :=
  do f <- first ws; loop_af (S (words_size ws)) s ic f.

Fixpoint lines_af (s : hstate) (lines : list (list str)) : res hstate :=
  match lines with
  | [] => Ok s
  | l :: r => do s1 <- words_af s true l; lines_af s1 r
  end.

End Loop.

(** readArgumentFile( name, reportMissing = true) with [depth] further levels
    of nesting allowed: a missing file is an error; more than 10 argument
    files open at the same time are refused (after the repair "an argument
    file that names itself no longer ends in a stack overflow"; the pinned
    code recursed until the stack was exhausted) *)
Fixpoint read_file (c : cfg) (af : afile) (depth : nat) (s : hstate) (name : str) : res hstate :=
  match depth with
  | O => Err ERuntime
  | S d =>
      match af_content (af_files af) name with
      | None => Err ERuntime
      | Some t => lines_af c af (read_file c af d) s (file_arg_lines t)
      end
  end.

Definition DEPTH : nat := 10.

(** Handler::evalArguments with an argument-file argument: program argument
    file, environment variable, command line *)
Definition eval_arguments_af (c : cfg) (af : afile) (inits : list value) (file_lines : list (list str))
    (env_words : option (list str)) (argv : list str) : res hstate :=
  let sub := read_file c af DEPTH in
  let s0 := init_state c inits in
  (* the program's own argument file is the first level of nesting *)
  do s1 <- lines_af c af (read_file c af (DEPTH - 1)) s0 file_lines;
  do s2 <- (match env_words with Some ws => words_af c af sub s1 true ws | None => Ok s1 end);
  do s3 <- words_af c af sub s2 false argv;
  do _ <- final_checks c s3;
  Ok s3.

Definition eval_sources_af (c : cfg) (af : afile) (inits : list value) (file : option str) (env : option str)
    (argv : list str) : res hstate :=
  eval_arguments_af c af inits
    (match file with Some f => file_arg_lines f | None => [] end)
    (match env with Some e => (match e with [] => None | _ => Some (split e) end) | None => None end)
    argv.
