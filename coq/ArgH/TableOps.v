(** Definitions and look-ups in any interleaving on one handler: a program may
    ask for an argument (Handler::getArgHandler, argumentExists, an evaluation)
    before all arguments are defined.  A look-up is a function of the table as
    it stands - ArgumentContainer::findArg has no memory.  No proofs here. *)
From Coq Require Import List NArith Bool Arith.
Import ListNotations.
Require Import Celma.Common.Res Celma.ArgH.Key Celma.ArgH.Table.

Section Ops.
Context {A : Type}.

Inductive top :=
| TDef (k : key) (a : A) (tolerated : bool)   (* addArgument; [tolerated]: the caller catches a refusal *)
| TProbe (k : key).                            (* a look-up *)

(** None: a definition was refused and not survived.  Otherwise the answers to
    the look-ups in order and the table at the end. *)
Fixpoint run_ops (abbr : bool) (t : @table A) (ops : list top) : option (list (res (option A)) * @table A) :=
  match ops with
  | [] => Some ([], t)
  | TDef k a tol :: r =>
      match add_argument t k a with
      | Ok t' => run_ops abbr t' r
      | _ => if tol then run_ops abbr t r else None
      end
  | TProbe k :: r =>
      match run_ops abbr t r with
      | Some (ps, t') => Some (find_arg abbr t k :: ps, t')
      | None => None
      end
  end.

Definition is_def (o : top) : bool := match o with TDef _ _ _ => true | TProbe _ => false end.
Definition defs_of (ops : list top) : list top := filter is_def ops.
Definition probes_in (ops : list top) : nat := length (filter (fun o => negb (is_def o)) ops).

End Ops.
