(** Specification side of C01/C03: abstract command lines (lists of uses), the
    legal surface spellings of a line, and the spelling-free semantics
    [fold_uses].  No proofs here. *)
From Coq Require Import List NArith ZArith Bool Arith.
Import ListNotations.
Require Import Celma.Common.Res Celma.ArgH.Key Celma.ArgH.Table Celma.ArgH.Lex Celma.ArgH.Handler.

(** one use of an argument (by index in the configuration) *)
Inductive use :=
| UFlag (i : nat)               (* an argument that takes no value *)
| UVal (i : nat) (v : str).     (* an argument with its value text *)

Definition with_last (s : hstate) (l : option nat) : hstate :=
  {| arts := arts s; pend := pend s; gsts := gsts s; last := l; inv := inv s |}.

Definition argdef_of (c : cfg) (i : nat) : argdef := nth i (args c) dummy_def.

(** what one use does, independent of how it was spelled *)
Definition use_step (c : cfg) (s : hstate) (ic : bool) (u : use) : res hstate :=
  match u with
  | UFlag i => handle_identified c (with_last s (Some i)) i (a_key (argdef_of c i)) ic []
  | UVal i v => handle_identified c (with_last s (Some i)) i (a_key (argdef_of c i)) ic v
  end.

Fixpoint fold_uses (c : cfg) (s : hstate) (ic : bool) (us : list use) : res hstate :=
  match us with
  | [] => Ok s
  | u :: r => do s1 <- use_step c s ic u; fold_uses c s1 ic r
  end.

(** a word that can follow "--" to designate argument [i]: the long key or any
    abbreviation the table resolves to [i] (C05 says which those are) *)
Definition long_name (c : cfg) (i : nat) (w : str) : Prop :=
  w <> [] /\ index_of EQSIGN w = None /\
  exists k, parse_key w = Ok k /\ lookup c k = Ok (Some i).

(** a character that designates argument [i] behind a single dash *)
Definition short_name (c : cfg) (i : nat) (ch : N) : Prop :=
  ch <> DASH /\ lookup c (key_of_char ch) = Ok (Some i).

(** a value that may stand as a word of its own *)
Definition sep_value (v : str) : Prop :=
  match v with
  | [] => True
  | x :: r => x <> DASH /\ ~ (r = [] /\ is_ctrl x = true)
  end.

Definition takes_none (c : cfg) (i : nat) : Prop := a_vmode (argdef_of c i) = VMNone.
Definition takes_required (c : cfg) (i : nat) : Prop := a_vmode (argdef_of c i) = VMRequired.
Definition takes_optional (c : cfg) (i : nat) : Prop := a_vmode (argdef_of c i) = VMOptional.

(** flags grouped behind one dash: list of (argument index, key character) *)
Definition flags_ok (c : cfg) (fs : list (nat * N)) : Prop :=
  Forall (fun p => short_name c (fst p) (snd p) /\ takes_none c (fst p)) fs.

Inductive spell (c : cfg) : list use -> list str -> Prop :=
| sp_nil : spell c [] []
| sp_long_flag : forall i w us ws,
    long_name c i w -> takes_none c i -> spell c us ws ->
    spell c (UFlag i :: us) ((DASH :: DASH :: w) :: ws)
| sp_long_eq : forall i w v us ws,
    long_name c i w -> takes_required c i -> spell c us ws ->
    spell c (UVal i v :: us) ((DASH :: DASH :: w ++ EQSIGN :: v) :: ws)
| sp_long_sep : forall i w v us ws,
    long_name c i w -> takes_required c i -> sep_value v -> spell c us ws ->
    spell c (UVal i v :: us) ((DASH :: DASH :: w) :: v :: ws)
| sp_flags : forall fs us ws,
    fs <> [] -> flags_ok c fs -> spell c us ws ->
    spell c (map (fun p => UFlag (fst p)) fs ++ us) ((DASH :: map snd fs) :: ws)
| sp_glued : forall fs i ch v us ws,
    flags_ok c fs -> short_name c i ch -> takes_required c i -> v <> [] -> spell c us ws ->
    spell c (map (fun p => UFlag (fst p)) fs ++ UVal i v :: us) ((DASH :: map snd fs ++ ch :: v) :: ws)
| sp_short_sep : forall fs i ch v us ws,
    flags_ok c fs -> short_name c i ch -> takes_required c i -> sep_value v -> spell c us ws ->
    spell c (map (fun p => UFlag (fst p)) fs ++ UVal i v :: us) ((DASH :: map snd fs ++ [ch]) :: v :: ws).
