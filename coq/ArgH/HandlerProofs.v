(** Proofs about the argument handler model: the rules an accepted command
    line has passed (C02). *)
From Coq Require Import List NArith ZArith Bool Arith Lia.
Import ListNotations.
Require Import Celma.Common.Res Celma.Common.Tactics Celma.ArgH.Key Celma.ArgH.Table Celma.ArgH.TableProofs
               Celma.ArgH.Lex Celma.ArgH.Handler.

(* ------------------------------------------------------------------ *)
(** * End-of-line checks *)

Lemma check_mandatory_card_ok ds : forall as_,
  check_mandatory_card ds as_ = Ok tt ->
  Forall2 (fun d a => (a_mand d = true -> hasval a = true) /\ card_end (a_card d) (cnt a) = Ok tt)
          (firstn (length as_) ds) (firstn (length ds) as_).
Proof.
  induction ds as [|d dr IH]; intros [|a ar] H; cbn in *; try constructor.
  - destruct (a_mand d && negb (hasval a)) eqn:E; [discriminate|].
    destruct (card_end (a_card d) (cnt a)) as [[]|e|f] eqn:E2; cbn in H; try discriminate.
    split; auto. intros Hm. rewrite Hm in E. cbn in E. destruct (hasval a); auto; discriminate.
  - destruct (a_mand d && negb (hasval a)); [discriminate|].
    destruct (card_end (a_card d) (cnt a)) as [[]|e|f]; cbn in H; try discriminate. apply IH. exact H.
Qed.

Lemma pend_check_required_ok p :
  pend_check_required p = Ok tt -> Forall (fun e => fst e <> KRequired) p.
Proof.
  unfold pend_check_required. destruct (existsb _ p) eqn:E; [discriminate|]. intros _.
  apply Forall_forall. intros [k ky] Hin Hk. cbn in Hk. subst.
  assert (existsb (fun e : ckind * key => ckind_eqb (fst e) KRequired) p = true).
  { apply existsb_exists. exists (KRequired, ky). split; auto. }
  congruence.
Qed.

Definition gc_satisfied (as_ : list art) (g : gcon) (s : gst) : Prop :=
  match g, s with
  | GCAll _, GSAll rem => rem = []
  | GCOne _, GSUsed u => u = true
  | GCDiffer ixs, _ => differ_clash as_ ixs = false
  | GCDisjoint i j, _ =>
      hasval (nth i as_ dummy_art) && hasval (nth j as_ dummy_art)
      && val_intersect (val (nth i as_ dummy_art)) (val (nth j as_ dummy_art)) = false
  | _, _ => True
  end.

Lemma gc_end_ok as_ g s : gc_end as_ g s = Ok tt -> gc_satisfied as_ g s.
Proof.
  unfold gc_end, gc_satisfied. destruct g as [ks|ks|ks|ixs|i j]; intros H.
  - destruct s as [rem|u]; auto. destruct rem; [reflexivity|discriminate].
  - destruct s; auto.
  - destruct s as [rem|u]; auto. destruct u; [reflexivity|discriminate].
  - destruct (differ_clash as_ ixs); [destruct s; discriminate|reflexivity].
  - unfold dummy_art. match goal with |- ?b = false => destruct b; [destruct s; discriminate|reflexivity] end.
Qed.

Lemma gcs_end_ok as_ gs : forall ss, gcs_end as_ gs ss = Ok tt ->
  Forall2 (gc_satisfied as_) (firstn (length ss) gs) (firstn (length gs) ss).
Proof.
  induction gs as [|g gr IH]; intros [|s sr] H; cbn in *; try constructor.
  - apply gc_end_ok. destruct (gc_end as_ g s) as [[]|e|f]; [reflexivity|discriminate|discriminate].
  - destruct (gc_end as_ g s) as [[]|e|f]; cbn in H; try discriminate. apply IH. exact H.
Qed.

(** An accepted command line has passed every end-of-line rule: each mandatory
    argument holds a value, no cardinality is short of its minimum, no
    "requires" is still pending, every all-of list is used up and every one-of
    list was used. *)
Lemma final_checks_ok c s :
  final_checks c s = Ok tt ->
  Forall2 (fun d a => (a_mand d = true -> hasval a = true) /\ card_end (a_card d) (cnt a) = Ok tt)
          (firstn (length (arts s)) (args c)) (firstn (length (args c)) (arts s)) /\
  Forall (fun e => fst e <> KRequired) (pend s) /\
  Forall2 (gc_satisfied (arts s)) (firstn (length (gsts s)) (gcons c)) (firstn (length (gcons c)) (gsts s)).
Proof.
  unfold final_checks. intros H.
  destruct (check_mandatory_card (args c) (arts s)) as [[]|e|f] eqn:E1; cbn in H; try discriminate.
  destruct (pend_check_required (pend s)) as [[]|e|f] eqn:E2; cbn in H; try discriminate.
  splits.
  - apply check_mandatory_card_ok. exact E1.
  - apply pend_check_required_ok. exact E2.
  - apply gcs_end_ok. exact H.
Qed.

Lemma eval_arguments_final c inits fl env argv s :
  eval_arguments c inits fl env argv = Ok s -> final_checks c s = Ok tt.
Proof.
  unfold eval_arguments. intros H.
  repeat match type of H with
  | bind ?r _ = Ok _ => let E := fresh "E" in destruct r eqn:E; cbn [bind] in H; try discriminate
  end.
  inversion H; subst.
  match goal with E : final_checks _ _ = Ok ?u |- _ => destruct u; exact E end.
Qed.

(* ------------------------------------------------------------------ *)
(** * Single steps *)

(** a key that designates no argument ends the evaluation with an exception *)
Lemma unknown_key_rejected c s ic k cur fuel :
  lookup c k = Ok None ->
  (forall e, e = EChar (kc k) /\ kw k = [] \/ True) ->
  forall e, eval_single c s ic e cur = (do r <- process_arg c s ic k cur; Ok r) ->
  iterate (S fuel) c s ic (Some (e, cur)) = Err EInvalidArgument.
Proof.
  intros Hl _ e He. cbn [iterate]. rewrite He. unfold process_arg. rewrite Hl. cbn. reflexivity.
Qed.

Lemma process_unknown c s ic k cur :
  lookup c k = Ok None -> exists s', process_arg c s ic k cur = Ok (AUnknown, s', cur).
Proof. intros H. unfold process_arg. rewrite H. cbn. eauto. Qed.

(** an argument that needs a value and is not followed by one is refused *)
Lemma missing_value_rejected c s ic k cur i :
  lookup c k = Ok (Some i) ->
  a_vmode (nth i (args c) dummy_def) = VMRequired ->
  (forall v it2, next true cur <> Ok (Some (EVal v, it2))) ->
  (exists e, process_arg c s ic k cur = Err e) \/ (exists f, process_arg c s ic k cur = Fault f).
Proof.
  intros Hl Hm Hn. unfold process_arg. rewrite Hl. cbn [bind]. rewrite Hm.
  destruct (next true cur) as [[[[c0|s0|v|c0] it2]|]|e|f] eqn:E; cbn [bind]; eauto.
  exfalso. eapply Hn. reflexivity.
Qed.

(** a stored value has passed every check and converted to the destination type *)
Lemma assign_scalar_checked d a v a' :
  assign d a v = Ok a' ->
  match a_kind d with
  | DInt | DOptInt => run_checks (a_checks d) v = Ok tt /\ exists z, lex_int (apply_fmts (a_fmts d) v) = Ok z /\
                      (val a' = VInt z \/ val a' = VOpt (Some z))
  | DStr => run_checks (a_checks d) v = Ok tt /\ val a' = VStr (apply_fmts (a_fmts d) v)
  | _ => True
  end.
Proof.
  unfold assign. destruct (a_kind d); auto; intros H.
  - destruct (run_checks (a_checks d) v) as [[]|e|f]; cbn in H; try discriminate.
    destruct (lex_int (apply_fmts (a_fmts d) v)) as [z|e|f]; cbn in H; try discriminate.
    inversion H; subst. cbn. eauto.
  - destruct (run_checks (a_checks d) v) as [[]|e|f]; cbn in H; try discriminate.
    inversion H; subst. cbn. auto.
  - destruct (run_checks (a_checks d) v) as [[]|e|f]; cbn in H; try discriminate.
    destruct (lex_int (apply_fmts (a_fmts d) v)) as [z|e|f]; cbn in H; try discriminate.
    inversion H; subst. cbn. eauto.
Qed.

(** the checks mean what their names say (inclusive lower, exclusive upper) *)
Lemma check_lower_inclusive z s v : lex_int s = Ok v -> (run_check (CLower z) s = Ok tt <-> (z <= v)%Z).
Proof. intros H. cbn. rewrite H. cbn. destruct (Z.ltb_spec v z); split; intros; try discriminate; auto; lia. Qed.

Lemma check_upper_exclusive z s v : lex_int s = Ok v -> (run_check (CUpper z) s = Ok tt <-> (v < z)%Z).
Proof. intros H. cbn. rewrite H. cbn. destruct (Z.leb_spec z v); split; intros; try discriminate; auto; lia. Qed.

Lemma check_range_half_open lo hi s v :
  lex_int s = Ok v -> (run_check (CRange lo hi) s = Ok tt <-> (lo <= v < hi)%Z).
Proof.
  intros H. cbn. rewrite H. cbn. destruct (Z.ltb_spec v lo); [split; intros; try discriminate; lia|].
  destruct (Z.leb_spec hi v); split; intros; try discriminate; auto; lia.
Qed.

(** cardinality: the counter never exceeds the maximum *)
Lemma card_got_bound c n n' :
  card_got c n = Ok n' ->
  match c with
  | CardNone => n' = n
  | CardMax m => m = (-1)%Z /\ n' = n \/ (n' = n + 1 /\ n' <= m)%Z
  | CardExact m => (n' = n + 1 /\ n' <= m)%Z
  | CardRange _ hi => (n' = n + 1 /\ (hi = -1 \/ n' <= hi))%Z
  end.
Proof.
  destruct c as [|m|m|lo hi]; cbn; intros H.
  - inversion H; auto.
  - destruct (Z.eqb_spec m (-1)); [inversion H; auto|].
    destruct (Z.ltb_spec m (n + 1)); [discriminate|]. inversion H; subst. right. lia.
  - destruct (Z.ltb_spec m (n + 1)); [discriminate|]. inversion H; subst. lia.
  - destruct (Z.eqb_spec hi (-1)); [inversion H; subst; lia|].
    destruct (Z.ltb_spec hi (n + 1)); [discriminate|]. inversion H; subst. lia.
Qed.

(** the pinned tree: a minimum with an unlimited maximum (cardinality_range( 2, -1)) was never enforced - one value
    passed the end-of-line check; repaired ("fix: CardinalityRange counts ...") *)
Lemma pinned_range_minimum_refuted :
  (do n1 <- card_got_pinned (CardRange 2 (-1)) 0; card_end (CardRange 2 (-1)) n1) = Ok tt /\
  (do n1 <- card_got (CardRange 2 (-1)) 0; card_end (CardRange 2 (-1)) n1) = Err ERuntime /\
  (do n1 <- card_got (CardRange 2 (-1)) 0; do n2 <- card_got (CardRange 2 (-1)) n1; card_end (CardRange 2 (-1)) n2) = Ok tt.
Proof. repeat split. Qed.

(** an argument that is excluded by an argument used earlier is refused,
    whatever spelling is used for it *)
Lemma pend_identified_excluded p k ek :
  In (KExcluded, ek) p -> key_eq ek k = true -> pend_identified p k = Err ERuntime.
Proof.
  induction p as [|[ck ek'] r IH]; intros Hin He; [destruct Hin|].
  cbn. destruct Hin as [Hin|Hin].
  - inversion Hin; subst. rewrite He. reflexivity.
  - destruct (key_eq ek' k).
    + destruct ck; auto.
    + rewrite IH by assumption. reflexivity.
Qed.

Lemma excluded_rejected c s i ckey ic v ek :
  fixed_notify c = true ->
  In (KExcluded, ek) (pend s) -> key_eq ek (a_key (nth i (args c) dummy_def)) = true ->
  handle_identified c s i ckey ic v = Err ERuntime.
Proof.
  intros Hf Hin He. unfold handle_identified. rewrite Hf.
  rewrite (pend_identified_excluded _ _ _ Hin He). reflexivity.
Qed.

Lemma key_eq_refl k : key_eq k k = true.
Proof.
  unfold key_eq. destruct (has_c k), (has_w k); cbn; auto using ceq_refl, str_eqb_refl.
Qed.

(** using an argument records its exclusions (and requirements) *)
Lemma pend_add_has p k search :
  exists ek, In (k, ek) (pend_add p k search) /\ key_eq ek search = true.
Proof.
  unfold pend_add. destruct (find (fun e => key_eq (snd e) search) p) as [[k0 ek0]|] eqn:F.
  - destruct (ckind_eqb k0 k) eqn:E.
    + apply find_some in F. destruct F as [Hin He]. cbn in He. exists ek0. split; auto.
      destruct k0, k; try discriminate; auto.
    + exists search. split; [apply in_or_app; right; left; reflexivity|apply key_eq_refl].
  - exists search. split; [apply in_or_app; right; left; reflexivity|apply key_eq_refl].
Qed.

(** with the pinned notification (key as spelled), an exclusion named by the
    short key is not seen when the long key is typed: witness -l --right *)
Definition k_l : key := {| kc := 108%N; kw := [108; 101; 102; 116]%N |}.
Definition k_r : key := {| kc := 114%N; kw := [114; 105; 103; 104; 116]%N |}.
Definition flag (k : key) (excl : list key) : argdef :=
  {| a_key := k; a_kind := DBool; a_vmode := VMNone; a_mand := false; a_multi := false; a_sep := 44%N;
     a_clear := false; a_sort := false; a_uniq := false; a_uniq_err := false; a_checks := []; a_fmts := [];
     a_card := CardMax 1; a_excl := excl; a_req := []; a_depr := false; a_mix := false |}.
Definition cfg_lr (fixed : bool) : cfg :=
  {| args := [flag k_l [key_of_char 114%N]; flag k_r []]; gcons := []; abbr := true; fixed_notify := fixed |}.
Definition argv_l_right : list str := [[45; 108]; [45; 45; 114; 105; 103; 104; 116]]%N.

Lemma pinned_notify_accepts_excluded :
  is_ok (eval_arguments (cfg_lr false) [VBool false; VBool false] [] None argv_l_right) = true /\
  eval_arguments (cfg_lr true) [VBool false; VBool false] [] None argv_l_right = Err ERuntime.
Proof. split; vm_compute; reflexivity. Qed.
