(** Proofs about argument groups (C08). *)
From Coq Require Import List NArith ZArith Bool Arith Lia.
Import ListNotations.
Require Import Celma.Common.Res Celma.Common.Tactics Celma.ArgH.Key Celma.ArgH.Table Celma.ArgH.TableProofs
               Celma.ArgH.Lex Celma.ArgH.Handler Celma.ArgH.HandlerProofs Celma.ArgH.Groups.

(** every member handler has passed its complete end-of-line checks *)
Lemma group_final_ok cs : forall ss,
  group_final false cs ss = Ok tt ->
  Forall2 (fun c s => final_checks c s = Ok tt) (firstn (length ss) cs) (firstn (length cs) ss).
Proof.
  induction cs as [|c cr IH]; intros [|s sr] H; cbn in *; try constructor.
  - destruct (final_checks c s) as [[]|e|f]; [reflexivity|discriminate|discriminate].
  - destruct (final_checks c s) as [[]|e|f]; cbn in H; try discriminate. apply IH. exact H.
Qed.

Lemma eval_group_final pinned cs initss argv ss :
  eval_group pinned false cs initss argv = Ok ss -> group_final false cs ss = Ok tt.
Proof.
  unfold eval_group. destruct cs as [|c cr]; [discriminate|]. intros H.
  repeat match type of H with
  | bind ?r _ = Ok _ => let E := fresh "E" in destruct r eqn:E; cbn [bind] in H; try discriminate
  end.
  inversion H; subst.
  match goal with E : group_final _ _ _ = Ok ?u |- _ => destruct u; exact E end.
Qed.

(** a member that answers "unknown" has not touched its destinations, its
    pending constraints or its handler constraints *)
Lemma process_arg_unknown c s ic k cur s' cur' :
  process_arg c s ic k cur = Ok (AUnknown, s', cur') ->
  arts s' = arts s /\ pend s' = pend s /\ gsts s' = gsts s /\ cur' = cur.
Proof.
  unfold process_arg. intros H.
  destruct (lookup c k) as [[i|]|e|f]; cbn [bind] in H; try discriminate.
  - destruct (a_vmode (nth i (args c) dummy_def)).
    + destruct (handle_identified _ _ _ _ _ _); cbn [bind] in H; discriminate.
    + destruct (next _ cur) as [[[[?|?|?|?] ?]|]|?|?]; cbn [bind] in H; try discriminate;
        destruct (handle_identified _ _ _ _ _ _); cbn [bind] in H; discriminate.
    + destruct (next _ cur) as [[[[?|?|?|?] ?]|]|?|?]; cbn [bind] in H; try discriminate;
        destruct (handle_identified _ _ _ _ _ _); cbn [bind] in H; discriminate.
  - inversion H; subst. cbn. auto.
Qed.

Lemma eval_single_unknown c s ic e cur s' cur' :
  eval_single c s ic e cur = Ok (AUnknown, s', cur') ->
  arts s' = arts s /\ pend s' = pend s /\ gsts s' = gsts s /\ cur' = cur.
Proof.
  unfold eval_single. intros H. destruct e as [ch|w|v|ch].
  - eapply process_arg_unknown; eauto.
  - destruct (parse_key w) as [k|?|?]; cbn [bind] in H; try discriminate.
    eapply process_arg_unknown; eauto.
  - destruct (last s) as [i|].
    + destruct (a_multi (nth i (args c) dummy_def)).
      * destruct (assign_value _ _ _ _ _); cbn [bind] in H; discriminate.
      * destruct (lookup c POSKEY) as [[j|]|?|?]; cbn [bind] in H; try discriminate.
        -- destruct (handle_identified _ _ _ _ _ _); cbn [bind] in H; discriminate.
        -- inversion H; subst; auto.
    + destruct (lookup c POSKEY) as [[j|]|?|?]; cbn [bind] in H; try discriminate.
      * destruct (handle_identified _ _ _ _ _ _); cbn [bind] in H; discriminate.
      * inversion H; subst; auto.
  - destruct (ceq ch BANG); inversion H; subst; auto.
Qed.

Lemma map_arts_forget l : map arts (map forget_last l) = map arts l.
Proof. induction l as [|x r IH]; cbn; [reflexivity|]. rewrite IH. reflexivity. Qed.

(** Each element is handled by exactly the first member that knows it: the
    destinations of all other members are untouched. *)
Lemma offer_first_owner e cur : is_value e = false -> forall pre c post spre s spost s1 i1,
  length pre = length spre ->
  Forall2 (fun ci si => exists si', eval_single ci si false e cur = Ok (AUnknown, si', cur)) pre spre ->
  eval_single c s false e cur = Ok (AConsumed, s1, i1) ->
  exists ss', offer false (pre ++ c :: post) (spre ++ s :: spost) e cur = Ok (AConsumed, ss', i1) /\
              map arts ss' = map arts (spre ++ s1 :: spost) /\
              map pend ss' = map pend (spre ++ s1 :: spost) /\
              map gsts ss' = map gsts (spre ++ s1 :: spost).
Proof.
  intros Hv. unfold offer. rewrite Hv. cbn [andb].
  induction pre as [|c0 pre IH]; intros c post spre s spost s1 i1 Hlen Hun Hc.
  - destruct spre; [|discriminate]. cbn [app offer_sel]. rewrite Hc. cbn [bind].
    eexists. split; [reflexivity|]. rewrite Hv. cbn [orb map]; splits; auto;
      rewrite ?map_arts_forget; f_equal; clear; induction spost as [|x r IH]; cbn; auto; rewrite IH; reflexivity.
  - destruct spre as [|s0 spre]; [discriminate|]. inversion Hun as [|? ? ? ? (s0' & H0) Hr]; subst.
    cbn [app offer_sel]. rewrite H0. cbn [bind].
    destruct (IH c post spre s spost s1 i1 ltac:(cbn in Hlen; lia) Hr Hc) as (ss' & Ho & Ha & Hp & Hg).
    rewrite Ho. cbn [bind]. eexists. split; [reflexivity|].
    destruct (eval_single_unknown _ _ _ _ _ _ _ H0) as (A1 & A2 & A3 & _).
    rewrite Hv. cbn [orb map forget_last arts pend gsts]; rewrite ?A1, ?A2, ?A3, ?Ha, ?Hp, ?Hg; auto.
Qed.

(** when every member answers "unknown" the group evaluation ends with an exception *)
Lemma offer_all_unknown e cur : is_value e = false -> forall cs ss,
  Forall2 (fun ci si => exists si', eval_single ci si false e cur = Ok (AUnknown, si', cur)) cs ss ->
  exists ss', offer false cs ss e cur = Ok (AUnknown, ss', cur).
Proof.
  intros Hv. unfold offer. rewrite Hv. cbn [andb].
  induction cs as [|c cr IH]; intros ss H; inversion H as [|? ? ? ? (s' & H0) Hr]; subst; cbn [offer_sel].
  - eauto.
  - rewrite H0. cbn [bind]. destruct (IH _ Hr) as (ss' & Ho). rewrite Ho. cbn [bind]. eauto.
Qed.

(** defining a key in a member: refused when the key conflicts with a key of
    any member (crossCheckArguments tests [==] and [mismatch] against every
    other member) - the members' tables together behave as one table *)
Lemma add_scan_app {A} (t1 t2 : @table A) k :
  add_scan (t1 ++ t2) k = Ok tt <-> add_scan t1 k = Ok tt /\ add_scan t2 k = Ok tt.
Proof.
  rewrite !add_scan_ok. rewrite Forall_app. tauto.
Qed.

(* ------------------------------------------------------------------ *)
(** * The pinned group evaluation violates the property *)

Definition gflag (k : key) (req : list key) : argdef :=
  {| a_key := k; a_kind := DBool; a_vmode := VMNone; a_mand := false; a_multi := false; a_sep := 44%N;
     a_clear := false; a_sort := false; a_uniq := false; a_uniq_err := false; a_checks := []; a_fmts := [];
     a_card := CardMax 1; a_excl := []; a_req := req; a_depr := false; a_mix := false |}.
Definition gvec (k : key) : argdef :=
  {| a_key := k; a_kind := DVecInt; a_vmode := VMRequired; a_mand := false; a_multi := true; a_sep := 44%N;
     a_clear := false; a_sort := false; a_uniq := false; a_uniq_err := false; a_checks := []; a_fmts := [];
     a_card := CardNone; a_excl := []; a_req := []; a_depr := false; a_mix := false |}.
Definition mk_cfg (ds : list argdef) (gs : list gcon) : cfg :=
  {| args := ds; gcons := gs; abbr := true; fixed_notify := true |}.

(** member a: -l requires -r; member b: -x.  Line: -l -x *)
Definition grp1 : list cfg :=
  [mk_cfg [gflag (key_of_char 108%N) [key_of_char 114%N]; gflag (key_of_char 114%N) []] [];
   mk_cfg [gflag (key_of_char 120%N) []] []].
Definition grp1_inits := [[VBool false; VBool false]; [VBool false]].
Definition argv_l_x : list str := [[45; 108]; [45; 120]]%N.

(** member a: one_of(l;m); member b: -x.  Line: -x *)
Definition grp2 : list cfg :=
  [mk_cfg [gflag (key_of_char 108%N) []; gflag (key_of_char 109%N) []]
          [GCOne [key_of_char 108%N; key_of_char 109%N]];
   mk_cfg [gflag (key_of_char 120%N) []] []].
Definition argv_x : list str := [[45; 120]]%N.

(** member b: -x; member a: multi-value -l.  Line: -l 1 -x 2 *)
Definition grp3 : list cfg :=
  [mk_cfg [gflag (key_of_char 120%N) []] []; mk_cfg [gvec (key_of_char 108%N)] []].
Definition grp3_inits := [[VBool false]; [VInts []]].
Definition argv_l1x2 : list str := [[45; 108]; [49]; [45; 120]; [50]]%N.

(** member a: positional string; member b: multi-value -l.  Line: -l 1 2 *)
Definition gpos : argdef :=
  {| a_key := POSKEY; a_kind := DStr; a_vmode := VMRequired; a_mand := false; a_multi := false; a_sep := 44%N;
     a_clear := false; a_sort := false; a_uniq := false; a_uniq_err := false; a_checks := []; a_fmts := [];
     a_card := CardMax 1; a_excl := []; a_req := []; a_depr := false; a_mix := false |}.
Definition grp5 : list cfg := [mk_cfg [gpos] []; mk_cfg [gvec (key_of_char 108%N)] []].
Definition grp5_inits := [[VStr []]; [VInts []]].
Definition argv_l12 : list str := [[45; 108]; [49]; [50]]%N.

(** the free value 2 follows the multi-value argument -l: a single handler
    appends it to -l; with the members asked in creation order it became the
    positional argument of the first member *)
Lemma group_free_value_order :
  (exists ss, eval_group false false grp5 grp5_inits argv_l12 = Ok ss /\
              map (fun s => map val (arts s)) ss = [[VStr []]; [VInts [1; 2]%Z]]) /\
  (exists ss, eval_group true false grp5 grp5_inits argv_l12 = Ok ss /\
              map (fun s => map val (arts s)) ss = [[VStr [50%N]]; [VInts [1%Z]]]).
Proof. split; eexists; split; vm_compute; reflexivity. Qed.

Lemma pinned_group_refuted :
  is_ok (eval_group false true grp1 grp1_inits argv_l_x) = true /\
  eval_group false false grp1 grp1_inits argv_l_x = Err ERuntime /\
  is_ok (eval_group false true grp2 grp1_inits argv_x) = true /\
  eval_group false false grp2 grp1_inits argv_x = Err ERuntime /\
  is_ok (eval_group true false grp3 grp3_inits argv_l1x2) = true /\
  eval_group false false grp3 grp3_inits argv_l1x2 = Err ERuntime.
Proof. splits; vm_compute; reflexivity. Qed.

(** Known finding (not repaired): abbreviations are resolved per member in
    member order.  Members [--output] and [--out]: the word --out, the exact
    key of the second member, is taken by the first one. *)
Definition w_output : str := [111; 117; 116; 112; 117; 116]%N.
Definition w_out : str := [111; 117; 116]%N.
Definition grp4 : list cfg :=
  [mk_cfg [gflag {| kc := 0%N; kw := w_output |} []] []; mk_cfg [gflag {| kc := 0%N; kw := w_out |} []] []].
Definition grp4_inits := [[VBool false]; [VBool false]].
Definition argv_out : list str := [[45; 45] ++ w_out]%N.
Definition merged4 : cfg := mk_cfg [gflag {| kc := 0%N; kw := w_output |} []; gflag {| kc := 0%N; kw := w_out |} []] [].

Lemma group_abbrev_refuted :
  (exists ss, eval_group false false grp4 grp4_inits argv_out = Ok ss /\
              map (fun s => map val (arts s)) ss = [[VBool true]; [VBool false]]) /\
  (exists s, eval_arguments merged4 [VBool false; VBool false] [] None argv_out = Ok s /\
             map val (arts s) = [VBool false; VBool true]).
Proof. split; eexists; split; vm_compute; reflexivity. Qed.
