(** Proofs about keys and the argument table (C05). *)
From Coq Require Import List NArith Bool Arith Lia Permutation.
Import ListNotations.
Require Import Celma.Common.Res Celma.Common.Tactics Celma.ArgH.Key Celma.ArgH.Table.

(* ------------------------------------------------------------------ *)
(** * Characters and strings *)

Lemma ceq_true a b : ceq a b = true <-> a = b.
Proof. unfold ceq. apply N.eqb_eq. Qed.

Lemma ceq_refl a : ceq a a = true.
Proof. apply ceq_true. reflexivity. Qed.

Lemma ceq_sym a b : ceq a b = ceq b a.
Proof. unfold ceq. apply N.eqb_sym. Qed.

Lemma str_eqb_true a : forall b, str_eqb a b = true <-> a = b.
Proof.
  induction a as [|x a IH]; intros [|y b]; cbn; split; intros H; try discriminate; auto.
  - apply andb_true_iff in H. destruct H as [H1 H2]. apply ceq_true in H1. apply IH in H2. congruence.
  - inversion H; subst. rewrite ceq_refl. cbn. apply IH. reflexivity.
Qed.

Lemma str_eqb_refl a : str_eqb a a = true.
Proof. apply str_eqb_true. reflexivity. Qed.

Lemma str_eqb_sym a : forall b, str_eqb a b = str_eqb b a.
Proof.
  induction a as [|x a IH]; intros [|y b]; cbn; auto. rewrite ceq_sym, IH. reflexivity.
Qed.

(* ------------------------------------------------------------------ *)
(** * Keys *)

Lemma key_eq_sym a b : key_eq a b = key_eq b a.
Proof.
  unfold key_eq. rewrite (andb_comm (has_c a)), (andb_comm (has_w a)).
  rewrite (ceq_sym (kc a)), (str_eqb_sym (kw a)).
  destruct (has_c a), (has_c b), (has_w a), (has_w b); reflexivity.
Qed.

Lemma key_mismatch_sym a b : key_mismatch a b = key_mismatch b a.
Proof.
  unfold key_mismatch. rewrite (ceq_sym (kc a)), (str_eqb_sym (kw a)).
  destruct (has_c a), (has_c b), (has_w a), (has_w b); reflexivity.
Qed.

(** a key that designates something: it has a short or a long component *)
Definition key_wf (k : key) : Prop := has_c k = true \/ has_w k = true.

(** two keys are in conflict when they share the short or the long component *)
Definition same_short (a b : key) : Prop := has_c a = true /\ has_c b = true /\ kc a = kc b.
Definition same_long (a b : key) : Prop := has_w a = true /\ has_w b = true /\ kw a = kw b.

(** what Storage::addArgument tests ([==] or [mismatch]) is exactly: the short
    key or the long key is already taken (this also covers a short/long pair
    that contradicts an existing pair) *)
Lemma key_conflict_iff a b :
  key_wf a -> key_wf b ->
  (key_eq a b = true \/ key_mismatch a b = true) <-> (same_short a b \/ same_long a b).
Proof.
  intros Ha Hb. unfold same_short, same_long. split.
  - intros [H|H].
    + unfold key_eq in H.
      destruct (has_c a) eqn:Ca, (has_c b) eqn:Cb; cbn in H;
        try (left; splits; auto; apply ceq_true; exact H);
        destruct (has_w a) eqn:Wa, (has_w b) eqn:Wb; cbn in H; try discriminate;
        try (right; splits; auto; apply str_eqb_true; exact H).
      all: destruct Ha as [Ha|Ha]; destruct Hb as [Hb|Hb]; congruence.
    + unfold key_mismatch in H.
      destruct (has_c a) eqn:Ca, (has_c b) eqn:Cb, (has_w a) eqn:Wa, (has_w b) eqn:Wb;
        cbn in H; try discriminate.
      destruct (ceq (kc a) (kc b)) eqn:E1.
      * left. splits; auto. apply ceq_true. exact E1.
      * destruct (str_eqb (kw a) (kw b)) eqn:E2; cbn in H; try discriminate.
        right. splits; auto. apply str_eqb_true. exact E2.
  - intros [(Ca & Cb & E)|(Wa & Wb & E)].
    + left. unfold key_eq. rewrite Ca, Cb. cbn. apply ceq_true. exact E.
    + unfold key_eq, key_mismatch. rewrite Wa, Wb.
      assert (Es : str_eqb (kw a) (kw b) = true) by (apply str_eqb_true; exact E).
      rewrite Es. destruct (has_c a), (has_c b); cbn; auto.
      destruct (ceq (kc a) (kc b)); cbn; auto.
Qed.

(** the keys a user can type: a short key alone or a long key alone *)
Definition short_key_of (k : key) : key := {| kc := kc k; kw := [] |}.
Definition long_key_of (k : key) : key := {| kc := 0%N; kw := kw k |}.

Lemma has_c_short k : has_c (short_key_of k) = has_c k.
Proof. reflexivity. Qed.

Lemma eq_short_key ka c :
  c <> 0%N -> key_eq ka (key_of_char c) = true <-> (has_c ka = true /\ kc ka = c).
Proof.
  intros Hc. destruct ka as [c0 w0]. unfold key_eq, key_of_char, has_c, has_w. cbn [kc kw].
  assert (E : ceq c 0 = false) by (apply not_true_iff_false; rewrite ceq_true; exact Hc).
  rewrite E. cbn [negb]. rewrite !andb_true_r.
  destruct (ceq c0 0) eqn:E0; cbn [negb andb].
  - destruct w0; cbn; split; try discriminate; intros [? _]; discriminate.
  - rewrite ceq_true. split; [auto|tauto].
Qed.

Lemma eq_long_key ka w :
  w <> [] -> key_eq ka {| kc := 0%N; kw := w |} = true <-> (has_w ka = true /\ kw ka = w).
Proof.
  intros Hw. destruct ka as [c0 w0]. unfold key_eq, has_c, has_w. cbn [kc kw].
  rewrite ceq_refl. cbn [negb]. rewrite andb_false_r.
  destruct w as [|x w]; [congruence|].
  destruct w0 as [|y w0]; cbn [andb].
  - rewrite !andb_false_r. split; [discriminate|intros [? _]; discriminate].
  - rewrite str_eqb_true. split; [auto|tauto].
Qed.

(** Two different table entries cannot both answer to the same typed key. *)
Lemma single_key_unique k1 k2 k :
  ((exists c, c <> 0%N /\ k = key_of_char c) \/ (exists w, w <> [] /\ k = {| kc := 0%N; kw := w |})) ->
  key_eq k1 k = true -> key_eq k2 k = true ->
  key_eq k1 k2 = true \/ key_mismatch k1 k2 = true.
Proof.
  intros [(c & Hc & ->)|(w & Hw & ->)] H1 H2.
  - apply eq_short_key in H1; auto. apply eq_short_key in H2; auto.
    destruct H1 as [C1 E1], H2 as [C2 E2]. left. unfold key_eq. rewrite C1, C2. cbn.
    apply ceq_true. congruence.
  - apply eq_long_key in H1; auto. apply eq_long_key in H2; auto.
    destruct H1 as [W1 E1], H2 as [W2 E2]. unfold key_eq, key_mismatch. rewrite W1, W2.
    destruct (has_c k1 && has_c k2) eqn:CC; cbn.
    + destruct (ceq (kc k1) (kc k2)) eqn:E; [left; reflexivity|right].
      replace (str_eqb (kw k1) (kw k2)) with true by (symmetry; apply str_eqb_true; congruence).
      reflexivity.
    + left. apply str_eqb_true. congruence.
Qed.

(* ------------------------------------------------------------------ *)
(** * The table *)

Section T.
Context {A : Type}.
Notation table := (@table A).

(** no two entries share a short key or a long key (in the sense of
    [key_conflict_iff]) *)
Definition ok_pair (x y : key * A) : Prop :=
  key_eq (fst x) (fst y) = false /\ key_mismatch (fst x) (fst y) = false.

Definition table_ok (t : table) : Prop := ForallOrdPairs ok_pair t.

Lemma ok_pair_sym x y : ok_pair x y -> ok_pair y x.
Proof. unfold ok_pair. rewrite key_eq_sym, key_mismatch_sym. auto. Qed.

Lemma add_scan_ok (t : table) k :
  add_scan t k = Ok tt <-> Forall (fun e : key * A => key_eq (fst e) k = false /\ key_mismatch (fst e) k = false) t.
Proof.
  induction t as [|[k' a'] r IH]; cbn.
  - split; auto.
  - destruct (key_eq k' k) eqn:E1; [split; [discriminate|intros H; inversion H; cbn in *; intuition congruence]|].
    destruct (key_mismatch k' k) eqn:E2; [split; [discriminate|intros H; inversion H; cbn in *; intuition congruence]|].
    rewrite IH. split; intros H.
    + constructor; auto.
    + inversion H; auto.
Qed.

Lemma add_scan_err (t : table) k : add_scan t k = Ok tt \/ add_scan t k = Err EInvalidArgument.
Proof.
  induction t as [|[k' a'] r IH]; cbn; auto.
  destruct (key_eq k' k); auto. destruct (key_mismatch k' k); auto.
Qed.

Lemma FOP_snoc (R : key * A -> key * A -> Prop) t y :
  ForallOrdPairs R (t ++ [y]) <-> ForallOrdPairs R t /\ Forall (fun x => R x y) t.
Proof.
  induction t as [|x t IH]; cbn.
  - split; [intros _; split; constructor|intros _; constructor; constructor].
  - split.
    + intros H. inversion H as [|? ? Hx Ht]; subst. apply IH in Ht. destruct Ht as [Ht Hy].
      apply Forall_app in Hx. destruct Hx as [Hx Hxy]. inversion Hxy; subst.
      split; constructor; auto.
    + intros [H Hy]. inversion H as [|? ? Hx Ht]; subst. inversion Hy; subst.
      constructor.
      * apply Forall_app. split; auto.
      * apply IH. split; auto.
Qed.

(** Defining an argument: accepted exactly when no existing entry conflicts,
    and then the table stays conflict-free. *)
Lemma add_argument_spec (t : table) k a :
  table_ok t ->
  (exists t', add_argument t k a = Ok t' /\ t' = t ++ [(k, a)] /\ table_ok t' /\
     Forall (fun e => ok_pair e (k, a)) t)
  \/ (add_argument t k a = Err EInvalidArgument /\
      exists e, In e t /\ (key_eq (fst e) k = true \/ key_mismatch (fst e) k = true)).
Proof.
  intros Hok. unfold add_argument.
  destruct (add_scan_err t k) as [H|H]; rewrite H; cbn.
  - left. apply add_scan_ok in H. eexists. splits; try reflexivity.
    + apply FOP_snoc. split; auto.
    + exact H.
  - right. split; auto.
    assert (Hn : ~ Forall (fun e : key * A => key_eq (fst e) k = false /\ key_mismatch (fst e) k = false) t).
    { intros HF. apply add_scan_ok in HF. congruence. }
    apply neg_Forall_Exists_neg in Hn.
    + apply Exists_exists in Hn. destruct Hn as (e & He & Hne). exists e. split; auto.
      destruct (key_eq (fst e) k); [left; reflexivity|].
      destruct (key_mismatch (fst e) k); [right; reflexivity|]. exfalso. apply Hne. split; reflexivity.
    + intros e. destruct (key_eq (fst e) k); destruct (key_mismatch (fst e) k); auto;
        right; intros [? ?]; discriminate.
Qed.

(** building a table from a list of definitions *)
Fixpoint build (t : table) (defs : list (key * A)) : res table :=
  match defs with
  | [] => Ok t
  | (k, a) :: r => do t' <- add_argument t k a; build t' r
  end.

Lemma build_ok defs : forall t t', table_ok t -> build t defs = Ok t' -> table_ok t' /\ t' = t ++ defs.
Proof.
  induction defs as [|[k a] r IH]; intros t t' Hok H; cbn in H.
  - inversion H; subst. rewrite app_nil_r. auto.
  - destruct (add_argument_spec t k a Hok) as [(t1 & H1 & -> & Hok1 & _)|(H1 & _)]; rewrite H1 in H; cbn in H.
    + apply IH in H; auto. destruct H as [H ->]. rewrite <- app_assoc in *. cbn [app] in *. auto.
    + discriminate.
Qed.

Lemma table_ok_perm (t t' : table) : Permutation t t' -> table_ok t -> table_ok t'.
Proof.
  unfold table_ok. induction 1 as [|x l l' HP IH|x y l|l l' l'' _ IH1 _ IH2]; intros H; auto.
  - inversion H; subst. constructor; auto. eapply Permutation_Forall; eauto.
  - inversion H as [|? ? Hy Hr]; subst. inversion Hr as [|? ? Hx Hl]; subst. inversion Hy; subst.
    constructor; [constructor; auto using ok_pair_sym|constructor; auto].
Qed.

Lemma table_ok_in t x y r :
  table_ok ((fst x, snd x) :: r) -> t = (fst x, snd x) :: r -> In y r -> ok_pair x y.
Proof.
  intros H -> Hy. inversion H as [|? ? Hx _]; subst. rewrite Forall_forall in Hx.
  specialize (Hx y Hy). destruct x; exact Hx.
Qed.

Definition typed_key (k : key) : Prop :=
  (exists c, c <> 0%N /\ k = key_of_char c) \/ (exists w, w <> [] /\ k = {| kc := 0%N; kw := w |}).

(** An exact key selects its own argument wherever it stands in the table,
    whatever else matches as a prefix before it. *)
Lemma find_exact abbr (t : table) : forall k ka a part amb,
  table_ok t -> typed_key k -> In (ka, a) t -> key_eq ka k = true ->
  find_arg_scan abbr t k part amb = Ok (Some a).
Proof.
  induction t as [|[k' a'] r IH]; intros k ka a part amb Hok Hk Hin Heq; [destruct Hin|].
  cbn [find_arg_scan].
  assert (Hr : table_ok r) by (inversion Hok; auto).
  destruct (key_eq k' k) eqn:E.
  - destruct Hin as [Hin|Hin]; [inversion Hin; reflexivity|].
    exfalso. inversion Hok as [|? ? Hx _]; subst. rewrite Forall_forall in Hx.
    destruct (Hx _ Hin) as [H1 H2]. cbn in H1, H2.
    destruct (single_key_unique k' ka k Hk E Heq); congruence.
  - destruct Hin as [Hin|Hin]; [inversion Hin; congruence|].
    destruct (abbr && key_starts_with k' k); [destruct part|]; eapply IH; eauto.
Qed.

(** what the scan does when no entry matches exactly *)
Fixpoint decide (part : option A) (amb : bool) (ms : list A) : res (option A) :=
  match ms with
  | [] => if amb then Err ERuntime else Ok part
  | x :: r => match part with None => decide (Some x) amb r | Some _ => decide part true r end
  end.

Lemma find_no_exact abbr (t : table) : forall k part amb,
  Forall (fun e : key * A => key_eq (fst e) k = false) t ->
  find_arg_scan abbr t k part amb
  = decide part amb (map snd (filter (fun e : key * A => abbr && key_starts_with (fst e) k) t)).
Proof.
  induction t as [|[k' a'] r IH]; intros k part amb H; [reflexivity|].
  inversion H as [|? ? H1 H2]; subst. cbn in H1. cbn [find_arg_scan filter fst]. rewrite H1.
  destruct (abbr && key_starts_with k' k); cbn [map snd decide].
  - destruct part; apply IH; auto.
  - apply IH; auto.
Qed.

Lemma decide_amb p ms : decide (Some p) true ms = Err ERuntime.
Proof. revert p. induction ms as [|y r IH]; intros p; cbn; auto. Qed.

Lemma decide_start ms :
  decide None false ms =
  match ms with [] => Ok None | [x] => Ok (Some x) | _ :: _ :: _ => Err ERuntime end.
Proof.
  destruct ms as [|x [|y r]]; cbn; auto. apply decide_amb.
Qed.

(** A key that is no exact key of any argument: with abbreviations enabled it
    selects an argument iff exactly one long key starts with it, is rejected as
    ambiguous when several do, and is unknown otherwise; with abbreviations
    disabled it is always unknown. *)
Lemma find_prefix abbr (t : table) k :
  Forall (fun e : key * A => key_eq (fst e) k = false) t ->
  find_arg abbr t k =
  match map snd (filter (fun e : key * A => abbr && key_starts_with (fst e) k) t) with
  | [] => Ok None
  | [x] => Ok (Some x)
  | _ :: _ :: _ => Err ERuntime
  end.
Proof. intros H. unfold find_arg. rewrite find_no_exact by exact H. apply decide_start. Qed.

Lemma find_abbr_disabled (t : table) k :
  Forall (fun e : key * A => key_eq (fst e) k = false) t -> find_arg false t k = Ok None.
Proof.
  intros H. rewrite find_prefix by exact H. cbn [andb].
  assert (E : filter (fun _ : key * A => false) t = []) by (clear H; induction t; cbn; auto).
  rewrite E. reflexivity.
Qed.

(** Order independence, in the words of the property. *)
Theorem find_exact_order_independent abbr defs t t' k ka a :
  build [] defs = Ok t -> Permutation t t' ->
  typed_key k -> In (ka, a) t -> key_eq ka k = true ->
  find_arg abbr t' k = Ok (Some a).
Proof.
  intros Hb HP Hk Hin Heq.
  destruct (build_ok defs [] t ltac:(constructor) Hb) as [Hok _].
  unfold find_arg. eapply find_exact; eauto.
  - eapply table_ok_perm; eauto.
  - eapply Permutation_in; eauto.
Qed.

(** the number of prefix matches does not depend on the order either *)
Lemma filter_perm (f : key * A -> bool) t t' : Permutation t t' -> Permutation (filter f t) (filter f t').
Proof.
  induction 1 as [|x l l' HP IH|x y l|l l' l'' _ IH1 _ IH2]; cbn; auto.
  - destruct (f x); auto.
  - destruct (f x), (f y); auto. apply perm_swap.
  - eapply perm_trans; eauto.
Qed.

Theorem find_prefix_order_independent abbr (t t' : table) k :
  Permutation t t' ->
  Forall (fun e : key * A => key_eq (fst e) k = false) t ->
  match find_arg abbr t k, find_arg abbr t' k with
  | Ok None, Ok None => True
  | Ok (Some a), Ok (Some a') => a = a'
  | Err e, Err e' => e = e'
  | _, _ => False
  end.
Proof.
  intros HP Hne.
  assert (Hne' : Forall (fun e : key * A => key_eq (fst e) k = false) t')
    by (eapply Permutation_Forall; eauto).
  rewrite !find_prefix by assumption.
  pose proof (filter_perm (fun e : key * A => abbr && key_starts_with (fst e) k) t t' HP) as HF.
  apply (Permutation_map snd) in HF.
  destruct (map snd (filter _ t)) as [|x [|y r]] eqn:E1.
  - apply Permutation_nil in HF. rewrite HF. exact I.
  - apply Permutation_length_1_inv in HF. rewrite HF. reflexivity.
  - pose proof (Permutation_length HF) as HL. cbn in HL.
    destruct (map snd (filter _ t')) as [|x' [|y' r']]; cbn in HL; try discriminate. reflexivity.
Qed.

End T.

(** The pinned findArg (before the repair) is order dependent: the exact key
    --input is found when defined first and rejected as ambiguous when defined
    after two keys it is a prefix of. *)
Definition s_input : str := [105; 110; 112; 117; 116]%N.
Definition s_input_file : str := s_input ++ [45; 102; 105; 108; 101]%N.
Definition s_input_dir : str := s_input ++ [45; 100; 105; 114]%N.
Definition lk (w : str) : key := {| kc := 0%N; kw := w |}.

Lemma find_arg_pinned_order_dependent :
  let t1 := [(lk s_input, 1); (lk s_input_file, 2); (lk s_input_dir, 3)] in
  let t2 := [(lk s_input_file, 2); (lk s_input_dir, 3); (lk s_input, 1)] in
  Permutation t1 t2 /\ table_ok t1 /\
  find_arg_pinned true t1 (lk s_input) None = Ok (Some 1) /\
  find_arg_pinned true t2 (lk s_input) None = Err ERuntime /\
  find_arg true t2 (lk s_input) = Ok (Some 1).
Proof.
  cbn zeta. splits; try reflexivity.
  - apply Permutation_cons_append with (l := [_; _]).
  - repeat constructor.
Qed.
