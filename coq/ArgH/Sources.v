(** Argument sources: argument file, environment variable, command line
    (Handler::readArgumentFile, checkReadEnvVarArgs, evalArguments).  The file
    content and the environment string are split with the splitString model
    (ArgH/Split.v).  No proofs here. *)
From Coq Require Import List NArith Bool.
Import ListNotations.
Require Import Celma.Common.Res Celma.ArgH.Key Celma.ArgH.Lex Celma.ArgH.Handler Celma.ArgH.Split.

Definition NL : N := 10%N.
Definition HASH : N := 35%N.

(** std::getline in a loop `while (std::getline(f, line))` (after the repair):
    every '\n' ends a line; a non-empty remainder without newline is a line too *)
Fixpoint lines_of (s : str) (cur : str) : list str :=
  match s with
  | [] => match cur with [] => [] | _ => [rev cur] end
  | c :: r => if ceq c NL then rev cur :: lines_of r [] else lines_of r (c :: cur)
  end.

(** the pinned loop `while (!std::getline(f, line).eof())`: a last line that
    has no newline is dropped *)
Fixpoint lines_of_pinned (s : str) (cur : str) : list str :=
  match s with
  | [] => []
  | c :: r => if ceq c NL then rev cur :: lines_of_pinned r [] else lines_of_pinned r (c :: cur)
  end.

Definition is_arg_line (l : str) : bool :=
  match l with [] => false | c :: _ => negb (ceq c HASH) end.

Definition file_arg_lines (content : str) : list (list str) :=
  map split (filter is_arg_line (lines_of content [])).

Definition file_arg_lines_pinned (content : str) : list (list str) :=
  map split (filter is_arg_line (lines_of_pinned content [])).

(** evalArguments with the sources given as raw text *)
Definition eval_sources (c : cfg) (inits : list value) (file : option str) (env : option str)
    (argv : list str) : res hstate :=
  eval_arguments c inits
    (match file with Some f => file_arg_lines f | None => [] end)
    (match env with Some e => (match e with [] => None | _ => Some (split e) end) | None => None end)
    argv.

(** evalArgumentString( handler, line) *)
Definition eval_string (c : cfg) (inits : list value) (line : str) : res hstate :=
  eval_arguments c inits [] None (split line).
