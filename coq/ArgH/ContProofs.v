(** C06: specification ([fold_spec]) and proofs about ArgH/Cont.v. *)
From Coq Require Import List NArith ZArith Bool Arith Permutation Sorted Lia Morphisms RelationClasses.
Import ListNotations.
Require Import Celma.Common.Res Celma.Common.ListX Celma.ArgH.Key Celma.ArgH.Handler Celma.ArgH.Cont.

(* ------------------------------------------------------------------ *)
(** * The specification: the destination as a function of the flat token sequence *)

Section Spec.
Variable stp : str -> cont -> res cont.
Variable o : copts.

(** every element in order: counted, then checked / formatted / converted /
    de-duplicated / placed by [stp] *)
Fixpoint fold_tokens (toks : list str) (cnt : Z) (c : cont) : res (Z * cont) :=
  match toks with
  | [] => Ok (cnt, c)
  | t :: r => do n <- card_got (o_card o) cnt; do c' <- stp t c; fold_tokens r n c'
  end.

Definition norm (c : cont) : cont := if o_sort o then sort_cont c else c.

(** [used]: the argument was used at least once.  Earlier content is discarded
    once (before the first element), the elements follow in order, the result is
    sorted if so configured. *)
Definition fold_spec (st : cst) (used : bool) (toks : list str) : res cst :=
  if used then
    let c0 := pre_use (if c_clearp st then clear_cont (c_val st) else c_val st) in
    do r <- fold_tokens toks (c_cnt st) c0;
    Ok {| c_val := norm (snd r); c_clearp := false; c_cnt := fst r |}
  else Ok st.
End Spec.

Definition all_tokens (o : copts) (uses : list str) : list str := concat (map (tokens (o_sep o)) uses).

(** a use without any element still counts for the cardinality; without a
    cardinality (the default of every container but the tuple) it is invisible *)
Definition card_cut_ok (o : copts) (uses : list str) : Prop :=
  o_card o = CardNone \/ Forall (fun u => tokens (o_sep o) u <> []) uses.

Definition ints_kind (k : kind) : bool :=
  match k with
  | KVec | KDeque | KList | KQueue | KFwd | KStack | KSet | KMSet | KUSet | KUMSet | KPrio => true
  | _ => false
  end.

(* ------------------------------------------------------------------ *)
(** * Small tools *)

Definition res_rel {A} (R : A -> A -> Prop) (x y : res A) : Prop :=
  match x, y with
  | Ok a, Ok b => R a b
  | Err e, Err e' => e = e'
  | Fault f, Fault f' => f = f'
  | _, _ => False
  end.

Lemma res_rel_eq {A} (x y : res A) : res_rel eq x y -> x = y.
Proof. destruct x, y; simpl; intros; subst; auto; contradiction. Qed.

Lemma res_rel_refl {A} (R : A -> A -> Prop) (x : res A) : (forall a, R a a) -> res_rel R x x.
Proof. destruct x; simpl; auto. Qed.

Ltac inv_bind H :=
  match type of H with
  | bind ?r _ = Ok _ =>
      let a := fresh "a" in let E := fresh "E" in
      destruct r as [a| |] eqn:E; simpl in H; [|discriminate H|discriminate H]
  end.

Lemma z_in_In v l : z_in v l = true <-> In v l.
Proof.
  unfold z_in. rewrite existsb_exists. split.
  - intros [x [Hx He]]. apply Z.eqb_eq in He. subst. auto.
  - intros H. exists v. split; auto. apply Z.eqb_refl.
Qed.

Lemma z_in_perm v l l' : Permutation l l' -> z_in v l = z_in v l'.
Proof.
  intros P. destruct (z_in v l) eqn:E1, (z_in v l') eqn:E2; auto.
  - apply z_in_In in E1. eapply Permutation_in in E1; eauto. apply z_in_In in E1. congruence.
  - apply z_in_In in E2. eapply Permutation_in in E2; [|apply Permutation_sym; eauto].
    apply z_in_In in E2. congruence.
Qed.

(* ------------------------------------------------------------------ *)
(** * Sorting *)

Lemma insert_sorted_perm {A} (lt : A -> A -> bool) x l : Permutation (insert_sorted lt x l) (x :: l).
Proof.
  induction l as [|y r IH]; simpl; auto.
  destruct (lt x y); auto.
  eapply perm_trans; [apply perm_skip; apply IH|apply perm_swap].
Qed.

Lemma fold_insert_perm {A} (lt : A -> A -> bool) l acc :
  Permutation (fold_left (fun a x => insert_sorted lt x a) l acc) (l ++ acc).
Proof.
  revert acc. induction l as [|x l IH]; intros acc; simpl; auto.
  eapply perm_trans; [apply IH|].
  eapply perm_trans; [apply Permutation_app_head; apply insert_sorted_perm|].
  apply Permutation_sym, Permutation_middle.
Qed.

Lemma sort_by_perm {A} (lt : A -> A -> bool) l : Permutation (sort_by lt l) l.
Proof. unfold sort_by. eapply perm_trans; [apply fold_insert_perm|]. rewrite app_nil_r. auto. Qed.

(** an order given by a boolean "less than" that is irreflexive, transitive
    in the mixed form needed for insertion, and total (antisymmetric "not less") *)
Section Order.
Context {A : Type}.
Variable lt : A -> A -> bool.
Definition le_of (a b : A) : Prop := lt b a = false.
Hypothesis lt_irrefl : forall a, lt a a = false.
Hypothesis lt_le_trans : forall x y z, lt x y = true -> lt z y = false -> lt z x = false.
Hypothesis le_antisym : forall a b, lt a b = false -> lt b a = false -> a = b.

Lemma insert_sorted_sorted x l :
  StronglySorted le_of l -> StronglySorted le_of (insert_sorted lt x l).
Proof.
  induction l as [|y r IH]; intros S; simpl.
  - constructor; auto.
  - inversion S as [|? ? Sr Fr]; subst.
    destruct (lt x y) eqn:E.
    + constructor; auto. constructor.
      * unfold le_of. eapply lt_le_trans; eauto.
      * eapply Forall_impl; [|apply Fr]. intros z Hz. unfold le_of in *. eapply lt_le_trans; eauto.
    + constructor; auto.
      eapply Permutation_Forall; [apply Permutation_sym, insert_sorted_perm|].
      constructor; auto.
Qed.

Lemma fold_insert_sorted l acc :
  StronglySorted le_of acc -> StronglySorted le_of (fold_left (fun a x => insert_sorted lt x a) l acc).
Proof. revert acc. induction l; intros; simpl; auto. apply IHl. apply insert_sorted_sorted; auto. Qed.

Lemma sort_by_sorted l : StronglySorted le_of (sort_by lt l).
Proof. unfold sort_by. apply fold_insert_sorted. constructor. Qed.

Lemma sorted_perm_unique l1 : forall l2,
  StronglySorted le_of l1 -> StronglySorted le_of l2 -> Permutation l1 l2 -> l1 = l2.
Proof.
  induction l1 as [|a r1 IH]; intros l2 S1 S2 P.
  - apply Permutation_nil in P. auto.
  - destruct l2 as [|b r2]; [apply Permutation_sym, Permutation_nil in P; discriminate|].
    inversion S1 as [|? ? S1r F1]; subst. inversion S2 as [|? ? S2r F2]; subst.
    assert (Hab : a = b).
    { assert (In a (b :: r2)) as Ia by (eapply Permutation_in; eauto; simpl; auto).
      assert (In b (a :: r1)) as Ib by (eapply Permutation_in; [apply Permutation_sym; eauto|simpl; auto]).
      rewrite Forall_forall in F1, F2.
      destruct Ia as [->|Ia]; auto. destruct Ib as [->|Ib]; auto.
      specialize (F2 _ Ia). specialize (F1 _ Ib). unfold le_of in *. apply le_antisym; auto. }
    subst. f_equal. apply IH; auto. eapply Permutation_cons_inv; eauto.
Qed.

Lemma sort_by_perm_eq l l' : Permutation l l' -> sort_by lt l = sort_by lt l'.
Proof.
  intros P. apply sorted_perm_unique; try apply sort_by_sorted.
  eapply perm_trans; [apply sort_by_perm|]. eapply perm_trans; [apply P|]. apply Permutation_sym, sort_by_perm.
Qed.
End Order.

Lemma Z_lt_irrefl : forall a, Z.ltb a a = false.
Proof. intros. apply Z.ltb_irrefl. Qed.
Lemma Z_lt_le_trans : forall x y z, Z.ltb x y = true -> Z.ltb z y = false -> Z.ltb z x = false.
Proof. intros x y z H1 H2. apply Z.ltb_lt in H1. apply Z.ltb_ge in H2. apply Z.ltb_ge. lia. Qed.
Lemma Z_le_antisym : forall a b, Z.ltb a b = false -> Z.ltb b a = false -> a = b.
Proof. intros a b H1 H2. apply Z.ltb_ge in H1. apply Z.ltb_ge in H2. lia. Qed.

Lemma sort_by_Z_perm_eq l l' : Permutation l l' -> sort_by Z.ltb l = sort_by Z.ltb l'.
Proof. apply sort_by_perm_eq; [apply Z_lt_irrefl|apply Z_lt_le_trans|apply Z_le_antisym]. Qed.

Lemma sort_by_Z_sorted l : StronglySorted Z.le (sort_by Z.ltb l).
Proof.
  pose proof (sort_by_sorted Z.ltb Z_lt_irrefl Z_lt_le_trans l) as S.
  induction S; constructor; auto.
  eapply Forall_impl; [|eauto]. intros b Hb. unfold le_of in Hb. apply Z.ltb_ge in Hb. auto.
Qed.

Lemma str_lt_irrefl : forall a, str_ltb a a = false.
Proof.
  induction a as [|x a IH]; simpl; auto.
  rewrite N.ltb_irrefl, IH. simpl. apply andb_false_r.
Qed.

Lemma str_ltb_cons x a y b :
  str_ltb (x :: a) (y :: b) = true <-> (x < y)%N \/ (x = y /\ str_ltb a b = true).
Proof.
  simpl. unfold ceq. rewrite orb_true_iff, andb_true_iff, N.ltb_lt, N.eqb_eq. tauto.
Qed.

Lemma str_ltb_cons_false x a y b :
  str_ltb (x :: a) (y :: b) = false <-> (y <= x)%N /\ (x = y -> str_ltb a b = false).
Proof.
  simpl. unfold ceq. rewrite orb_false_iff, andb_false_iff, N.ltb_ge, N.eqb_neq. split.
  - intros [H1 [H2|H2]]; split; auto; intros; congruence.
  - intros [H1 H2]; split; auto. destruct (N.eq_dec x y); auto.
Qed.

Lemma str_lt_le_trans : forall x y z, str_ltb x y = true -> str_ltb z y = false -> str_ltb z x = false.
Proof.
  induction x as [|xh xt IH]; intros y z H1 H2.
  - destruct z; reflexivity.
  - destruct y as [|yh yt]; [discriminate H1|].
    destruct z as [|zh zt]; [discriminate H2|].
    apply str_ltb_cons in H1. apply str_ltb_cons_false in H2. apply str_ltb_cons_false.
    destruct H2 as [H2 H3]. destruct H1 as [H1|[H1 H4]].
    + split; [lia|]. intros; lia.
    + subst yh. split; auto. intros ->. eapply IH; eauto.
Qed.

Lemma str_le_antisym : forall a b, str_ltb a b = false -> str_ltb b a = false -> a = b.
Proof.
  induction a as [|x a IH]; intros b H1 H2.
  - destruct b; auto. discriminate H1.
  - destruct b as [|y b]; [discriminate H2|].
    apply str_ltb_cons_false in H1. apply str_ltb_cons_false in H2.
    destruct H1 as [H1 H3], H2 as [H2 H4].
    assert (x = y) by lia. subst. f_equal. apply IH; auto.
Qed.

Lemma sort_by_str_perm_eq l l' : Permutation l l' -> sort_by str_ltb l = sort_by str_ltb l'.
Proof. apply sort_by_perm_eq; [apply str_lt_irrefl|apply str_lt_le_trans|apply str_le_antisym]. Qed.

(* ------------------------------------------------------------------ *)
(** * The generic refinement: uses = fold over the concatenated tokens *)

Lemma pre_use_idem c : pre_use (pre_use c) = pre_use c.
Proof. destruct c; simpl; auto. destruct size; simpl; auto. Qed.

Lemma pre_use_sort c : pre_use c = c -> pre_use (sort_cont c) = sort_cont c.
Proof. destruct c; simpl; auto. Qed.

Section Refine.
Variable stp : str -> cont -> res cont.
Variable o : copts.
Variable eqv : cont -> cont -> Prop.
Hypothesis eqv_refl : forall c, eqv c c.
Hypothesis eqv_trans : forall a b c, eqv a b -> eqv b c -> eqv a c.
Hypothesis H_step : forall t c c', eqv c c' -> res_rel eqv (stp t c) (stp t c').
Hypothesis H_norm_self : forall c, eqv (norm o c) c.
Hypothesis H_norm_eqv : forall c c', eqv c c' -> norm o c = norm o c'.
Hypothesis H_pre : forall t c c', pre_use c = c -> stp t c = Ok c' -> pre_use c' = c'.

Lemma pre_use_norm c : pre_use c = c -> pre_use (norm o c) = norm o c.
Proof. unfold norm. destruct (o_sort o); auto. apply pre_use_sort. Qed.

Lemma assign_tokens_fold toks : forall n c,
  assign_tokens stp o toks false n c = fold_tokens stp o toks n c.
Proof. induction toks as [|t r IH]; intros; simpl; auto. destruct (card_got (o_card o) n); simpl; auto.
  destruct (stp t c); simpl; auto. Qed.

Lemma fold_tokens_app t1 : forall t2 n c,
  fold_tokens stp o (t1 ++ t2) n c = do r <- fold_tokens stp o t1 n c; fold_tokens stp o t2 (fst r) (snd r).
Proof.
  induction t1 as [|t r IH]; intros; simpl; auto.
  destruct (card_got (o_card o) n); simpl; auto. destruct (stp t c); simpl; auto.
Qed.

Definition pair_rel (a b : Z * cont) : Prop := fst a = fst b /\ eqv (snd a) (snd b).

Lemma fold_tokens_eqv toks : forall n c c',
  eqv c c' -> res_rel pair_rel (fold_tokens stp o toks n c) (fold_tokens stp o toks n c').
Proof.
  induction toks as [|t r IH]; intros n c c' E; simpl.
  - split; auto.
  - destruct (card_got (o_card o) n); simpl; auto.
    pose proof (H_step t c c' E) as Hs.
    destruct (stp t c), (stp t c'); simpl in *; try contradiction; auto.
Qed.

Lemma fold_tokens_pre toks : forall n c n' c',
  pre_use c = c -> fold_tokens stp o toks n c = Ok (n', c') -> pre_use c' = c'.
Proof.
  induction toks as [|t r IH]; intros n c n' c' P H; simpl in H.
  - inversion H; subst; auto.
  - inv_bind H. inv_bind H. eapply IH; [|apply H]. eapply H_pre; eauto.
Qed.

(** one use, seen from a state whose clear flag is spent *)
Lemma use_value_fold st u :
  c_clearp st = false -> pre_use (c_val st) = c_val st ->
  (o_card o = CardNone \/ tokens (o_sep o) u <> []) ->
  use_value stp o st u =
  do r <- fold_tokens stp o (tokens (o_sep o) u) (c_cnt st) (c_val st);
  Ok {| c_val := norm o (snd r); c_clearp := false; c_cnt := fst r |}.
Proof.
  intros Hc Hp Hk. unfold use_value, assign_container. simpl. rewrite Hc, Hp.
  destruct (tokens (o_sep o) u) as [|t r] eqn:Et.
  - destruct Hk as [Hk|Hk]; [|congruence]. rewrite Hk. simpl. reflexivity.
  - simpl. destruct (card_got (o_card o) (c_cnt st)); simpl; auto.
    destruct (stp t (c_val st)); simpl; auto. rewrite assign_tokens_fold. reflexivity.
Qed.

Lemma run_tail uses : forall st c,
  uses <> [] -> c_clearp st = false -> pre_use (c_val st) = c_val st -> eqv (c_val st) c ->
  card_cut_ok o uses ->
  run_uses_gen stp o st uses =
  do r <- fold_tokens stp o (all_tokens o uses) (c_cnt st) c;
  Ok {| c_val := norm o (snd r); c_clearp := false; c_cnt := fst r |}.
Proof.
  induction uses as [|u rest IH]; intros st c Hne Hc Hp He Hk; [congruence|].
  assert (Hku : o_card o = CardNone \/ tokens (o_sep o) u <> []).
  { destruct Hk as [Hk|Hk]; auto. inversion Hk; auto. }
  assert (Hkr : card_cut_ok o rest).
  { destruct Hk as [Hk|Hk]; [left; auto|right; inversion Hk; auto]. }
  simpl. rewrite use_value_fold; auto.
  unfold all_tokens. simpl. rewrite fold_tokens_app.
  pose proof (fold_tokens_eqv (tokens (o_sep o) u) (c_cnt st) _ _ He) as Hr.
  destruct (fold_tokens stp o (tokens (o_sep o) u) (c_cnt st) (c_val st)) as [[n1 c1]| |] eqn:E1;
    destruct (fold_tokens stp o (tokens (o_sep o) u) (c_cnt st) c) as [[n1' c1']| |] eqn:E2;
    simpl in Hr; try contradiction; try (subst; reflexivity).
  destruct Hr as [Hn Hv]. simpl in Hn, Hv. subst n1'. simpl.
  destruct rest as [|u2 rest'].
  - simpl. rewrite (H_norm_eqv _ _ Hv). reflexivity.
  - change (concat (map (tokens (o_sep o)) (u2 :: rest'))) with (all_tokens o (u2 :: rest')).
    apply (IH {| c_val := norm o c1; c_clearp := false; c_cnt := n1 |} c1'); auto; try discriminate.
    + simpl. apply pre_use_norm. eapply fold_tokens_pre; eauto.
    + simpl. eapply eqv_trans; [apply H_norm_self|]. auto.
Qed.

Theorem run_uses_fold st uses :
  card_cut_ok o uses ->
  run_uses_gen stp o st uses = fold_spec stp o st (negb (is_nil uses)) (all_tokens o uses).
Proof.
  intros Hk. destruct uses as [|u rest]; [reflexivity|].
  unfold fold_spec. simpl negb. cbv iota.
  set (c0 := pre_use (if c_clearp st then clear_cont (c_val st) else c_val st)).
  set (st0 := {| c_val := c0; c_clearp := false; c_cnt := c_cnt st |}).
  assert (Hc0 : pre_use c0 = c0) by (unfold c0; apply pre_use_idem).
  assert (Hsame : run_uses_gen stp o st (u :: rest) = run_uses_gen stp o st0 (u :: rest)).
  { simpl. unfold use_value, assign_container. simpl. fold c0. rewrite Hc0. reflexivity. }
  rewrite Hsame. apply (run_tail (u :: rest) st0 c0); auto; try discriminate.
Qed.
End Refine.

(* ------------------------------------------------------------------ *)
(** * Facts about one element step *)

Ltac step_inv_all :=
  repeat match goal with
  | H : bind ?r _ = Ok _ |- _ => inv_bind H
  | H : (if ?b then _ else _) = Ok _ |- _ => let E := fresh "E" in destruct b eqn:E
  | H : (let '(_, _) := ?p in _) = Ok _ |- _ => let E := fresh "E" in destruct p eqn:E
  | H : match ?n with _ => _ end = Ok _ |- _ => let E := fresh "E" in destruct n eqn:E
  | H : Err _ = Ok _ |- _ => discriminate H
  | H : Fault _ = Ok _ |- _ => discriminate H
  | H : Ok _ = Ok _ |- _ => inversion H; subst; clear H
  end.
Ltac step_inv H := step_inv_all.

Ltac step_unfold H :=
  unfold step, step_pinned, step_gen in H;
  unfold step_arr, step_strs, step_tuple, step_bits, step_vb, step_map, step_ints in H.

(** every kind: an element that is stored passed all checks *)
Lemma step_gen_checks p k o t c c' : step_gen p k o t c = Ok c' -> run_checks (o_checks o) t = Ok tt.
Proof.
  intros H. destruct k, c; step_unfold H; simpl in H; try discriminate H;
    step_inv H; try (match goal with u : unit |- _ => destruct u end); auto.
Qed.

Lemma vb_size_pre size l : pre_use (CVBool size l) = CVBool size l -> size <> 0%N.
Proof. destruct size; simpl; intros H; [discriminate H|discriminate]. Qed.

Lemma pre_use_vb size l : size <> 0%N -> pre_use (CVBool size l) = CVBool size l.
Proof. destruct size; simpl; congruence. Qed.

Lemma step_gen_pre p k o t c c' : pre_use c = c -> step_gen p k o t c = Ok c' -> pre_use c' = c'.
Proof.
  intros P H. destruct k, c; step_unfold H; simpl in H; try discriminate H;
    step_inv H; try reflexivity.
  apply vb_size_pre in P.
  destruct p; unfold vb_store, vb_store_pinned.
  - assert (Hs : (if (size <=? a0)%N then (a0 + a0 / 2)%N else size) <> 0%N).
    { destruct (N.leb_spec size a0); auto. pose proof (N.le_add_r a0 (a0 / 2)). lia. }
    destruct (N.ltb a0 _); apply pre_use_vb; auto.
  - apply pre_use_vb. destruct (N.leb_spec size a0); auto. lia.
Qed.

(* ------------------------------------------------------------------ *)
(** * Content up to the order of the elements (what sorting forgets) *)

Definition cperm (c c' : cont) : Prop :=
  match c, c' with
  | CInts l, CInts l' => Permutation l l'
  | CArr l i, CArr l' i' => i = i' /\ Permutation (firstn i l) (firstn i l') /\ skipn i l = skipn i l'
  | CStrs l, CStrs l' => Permutation l l'
  | _, _ => c = c'
  end.

Lemma cperm_refl c : cperm c c.
Proof. destruct c; simpl; auto. Qed.

Lemma cperm_trans a b c : cperm a b -> cperm b c -> cperm a c.
Proof.
  destruct a, b; simpl; intros H1; try discriminate H1; try (inversion H1; subst; auto; fail);
    destruct c; simpl; intros H2; try discriminate H2; try (inversion H2; subst; auto; fail).
  - eapply perm_trans; eauto.
  - destruct H1 as [-> [P1 S1]], H2 as [-> [P2 S2]]. repeat split; [eapply perm_trans; eauto|congruence].
  - eapply perm_trans; eauto.
Qed.

Lemma str_in_In v l : str_in v l = true <-> exists x, In x l /\ str_eqb x v = true.
Proof.
  induction l as [|y r IH]; simpl.
  - split; [discriminate|intros [x [[] _]]].
  - rewrite orb_true_iff, IH. split.
    + intros [H|[x [Hx He]]]; [exists y; auto|exists x; auto].
    + intros [x [[->|Hx] He]]; [left; auto|right; exists x; auto].
Qed.

Lemma str_in_perm v l l' : Permutation l l' -> str_in v l = str_in v l'.
Proof.
  intros P. destruct (str_in v l) eqn:E1, (str_in v l') eqn:E2; auto.
  - apply str_in_In in E1. destruct E1 as [x [Hx He]]. eapply Permutation_in in Hx; eauto.
    assert (str_in v l' = true) by (apply str_in_In; eauto). congruence.
  - apply str_in_In in E2. destruct E2 as [x [Hx He]].
    eapply Permutation_in in Hx; [|apply Permutation_sym; eauto].
    assert (str_in v l = true) by (apply str_in_In; eauto). congruence.
Qed.

Lemma place_perm k v l l' : sortable k = true -> Permutation l l' -> Permutation (place k v l) (place k v l').
Proof.
  intros S P. destruct k; simpl in S; try discriminate S; simpl; auto using Permutation_app_tail.
Qed.

Lemma firstn_S_upd l i v : firstn (S i) (arr_set l i v) = firstn i l ++ [v].
Proof.
  unfold arr_set. destruct (Nat.le_gt_cases i (length l)) as [H|H].
  - replace (S i) with (length (firstn i l) + 1) at 1 by (rewrite firstn_length; lia).
    rewrite firstn_app_2. simpl. reflexivity.
  - rewrite (firstn_all2 l) by lia. rewrite (skipn_all2 l) by lia.
    rewrite firstn_all2; auto. rewrite app_length. simpl. lia.
Qed.

Lemma skipn_S_upd l i v : skipn (S i) (arr_set l i v) = skipn (S i) l.
Proof.
  unfold arr_set. destruct (Nat.le_gt_cases i (length l)) as [H|H].
  - replace (S i) with (length (firstn i l) + 1) at 1 by (rewrite firstn_length; lia).
    rewrite skipn_app. rewrite skipn_all2 by (rewrite firstn_length; lia).
    replace (length (firstn i l) + 1 - length (firstn i l)) with 1 by lia. reflexivity.
  - rewrite (firstn_all2 l) by lia. rewrite (skipn_all2 l) by lia.
    rewrite skipn_all2; auto. rewrite app_length. simpl. lia.
Qed.

Lemma skipn_S_eq {A} (l l' : list A) i : skipn i l = skipn i l' -> skipn (S i) l = skipn (S i) l'.
Proof.
  intros H. change (S i) with (1 + i). rewrite <- !skipn_skipn'. rewrite H. reflexivity.
Qed.

Lemma step_arr_cperm n o t l l0 idx :
  Permutation (firstn idx l) (firstn idx l0) -> skipn idx l = skipn idx l0 ->
  res_rel cperm (step_arr arr_contains n o t l idx) (step_arr arr_contains n o t l0 idx).
Proof.
  intros P Sk. unfold step_arr.
  destruct (Nat.eqb idx n); simpl; auto.
  destruct (run_checks (o_checks o) t); simpl; auto.
  destruct (lex_int (apply_fmts (o_fmts o) t)) as [v| |]; simpl; auto.
  unfold arr_contains. rewrite (z_in_perm v _ _ P).
  destruct (o_uniq o && z_in v (firstn idx l0)); cbn -[firstn skipn].
  - destruct (o_dup_err o); simpl; auto.
  - repeat split.
    + rewrite !firstn_S_upd. apply Permutation_app_tail; auto.
    + rewrite !skipn_S_upd. apply skipn_S_eq; auto.
Qed.

Lemma step_gen_cperm k o t c c' :
  sortable k = true -> cperm c c' -> res_rel cperm (step k o t c) (step k o t c').
Proof.
  intros S E.
  destruct c, c'; simpl in E; try discriminate E;
    try (inversion E; subst; apply res_rel_refl; apply cperm_refl).
  - (* CInts *)
    assert (H : res_rel cperm (do l1 <- step_ints k o t l; Ok (CInts l1)) (do l1 <- step_ints k o t l0; Ok (CInts l1))).
    { unfold step_ints. destruct (run_checks (o_checks o) t); simpl; auto.
      destruct (lex_int (apply_fmts (o_fmts o) t)); simpl; auto.
      rewrite (z_in_perm a0 l l0 E).
      destruct (o_uniq o && z_in a0 l0); simpl; [destruct (o_dup_err o); simpl; auto|].
      apply place_perm; auto. }
    destruct k; simpl in S; try discriminate S; exact H.
  - (* CArr *)
    destruct E as [<- [P Sk]].
    destruct k; simpl in S; try discriminate S;
      try (unfold step, step_gen; simpl; auto; fail);
      unfold step, step_gen; apply step_arr_cperm; auto.
  - (* CStrs *)
    destruct k; simpl in S; try discriminate S;
      try (unfold step, step_gen; simpl; auto; fail).
    unfold step, step_gen, step_strs.
    destruct (run_checks (o_checks o) t); simpl; auto.
    rewrite (str_in_perm _ l l0 E).
    destruct (o_uniq o && str_in (apply_fmts (o_fmts o) t) l0); simpl; [destruct (o_dup_err o); simpl; auto|].
    apply Permutation_app_tail; auto.
Qed.

Lemma sort_cont_cperm c : cperm (sort_cont c) c.
Proof.
  destruct c; simpl; auto; try apply sort_by_perm.
  repeat split.
  - destruct (Nat.le_gt_cases idx (length l)) as [H|H].
    + assert (Hl : length (sort_by Z.ltb (firstn idx l)) = idx).
      { rewrite (Permutation_length (sort_by_perm Z.ltb (firstn idx l))), firstn_length. lia. }
      rewrite firstn_app, Hl, Nat.sub_diag. simpl firstn at 2. rewrite app_nil_r.
      rewrite firstn_all2 by lia. apply sort_by_perm.
    + rewrite (skipn_all2 l) by lia. rewrite app_nil_r.
      rewrite (firstn_all2 l) by lia. rewrite firstn_all2.
      * apply sort_by_perm.
      * rewrite (Permutation_length (sort_by_perm Z.ltb l)). lia.
  - destruct (Nat.le_gt_cases idx (length l)) as [H|H].
    + assert (Hl : length (sort_by Z.ltb (firstn idx l)) = idx).
      { rewrite (Permutation_length (sort_by_perm Z.ltb (firstn idx l))), firstn_length. lia. }
      rewrite skipn_app, Hl, Nat.sub_diag. rewrite skipn_all2 by lia. reflexivity.
    + rewrite (skipn_all2 l) by lia. rewrite app_nil_r. apply skipn_all2.
      rewrite (Permutation_length (sort_by_perm Z.ltb _)), firstn_length. lia.
Qed.

Lemma sort_cont_cperm_eq c c' : cperm c c' -> sort_cont c = sort_cont c'.
Proof.
  destruct c, c'; simpl; intros E; try discriminate E; try (inversion E; subst; reflexivity).
  - f_equal. apply sort_by_Z_perm_eq; auto.
  - destruct E as [<- [P S]]. f_equal. rewrite S. f_equal. apply sort_by_Z_perm_eq; auto.
  - f_equal. apply sort_by_str_perm_eq; auto.
Qed.

Lemma setup_ok_sort k o : setup_ok k o = true -> o_sort o = true -> sortable k = true.
Proof.
  unfold setup_ok. intros H S. rewrite S in H. rewrite !andb_true_iff in H.
  destruct H as [[[[H _] _] _] _]. destruct (sortable k); auto.
Qed.

(* ------------------------------------------------------------------ *)
(** * The main theorems *)

Theorem cont_fold k o st uses :
  setup_ok k o = true -> card_cut_ok o uses ->
  run_uses k o st uses = fold_spec (step k o) o st (negb (is_nil uses)) (all_tokens o uses).
Proof.
  intros Hs Hk. unfold run_uses. destruct (o_sort o) eqn:So.
  - apply (run_uses_fold (step k o) o cperm); auto.
    + apply cperm_refl.
    + apply cperm_trans.
    + intros. apply step_gen_cperm; auto. eapply setup_ok_sort; eauto.
    + intros. unfold norm. rewrite So. apply sort_cont_cperm.
    + intros. unfold norm. rewrite So. apply sort_cont_cperm_eq; auto.
    + intros. eapply step_gen_pre; eauto.
  - apply (run_uses_fold (step k o) o eq); auto.
    + intros; congruence.
    + intros; subst. apply res_rel_refl; auto.
    + intros. unfold norm. rewrite So. reflexivity.
    + intros; subst; reflexivity.
    + intros. eapply step_gen_pre; eauto.
Qed.

Theorem cont_cut_independent k o st uses1 uses2 :
  setup_ok k o = true -> card_cut_ok o uses1 -> card_cut_ok o uses2 ->
  all_tokens o uses1 = all_tokens o uses2 -> is_nil uses1 = is_nil uses2 ->
  run_uses k o st uses1 = run_uses k o st uses2.
Proof. intros Hs H1 H2 Ht Hn. rewrite !cont_fold; auto. rewrite Ht, Hn. reflexivity. Qed.
